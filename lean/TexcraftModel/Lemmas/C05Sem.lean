import TexcraftModel.Lemmas.C05
import TexcraftModel.Lemmas.C05Loop

/-!
# C05 — the compiler's denotation against the cursor machine

`Interp` is the cursor machine `interp` as a big-step relation (a proof device: sequences of
steps compose without fuel arithmetic). `sem_real` / `sem_bdry` say what a table entry means
in terms of it; `goL_sem` lifts that to words.
-/
namespace C05

@[simp] theorem elOf_left (l : Option Nat) : (elOf l).left = l := by cases l <;> rfl

def gl : List IOp → List Glyph
  | [] => []
  | .kern k :: t => .kern k :: gl t
  | .ch c :: t => .glyph c.c :: gl t

theorem gl_append (a b : List IOp) : gl (a ++ b) = gl a ++ gl b := by
  induction a with
  | nil => rfl
  | cons x t ih => cases x <;> simp [gl, ih]

theorem gl_markFirst (b : Bool) (ops : List IOp) : gl (markFirst b ops).1 = gl ops := by
  induction ops generalizing b with
  | nil => rfl
  | cons x t ih => cases x <;> simp [markFirst, gl, ih]

theorem gl_leftOps (l : Option Nat) : gl (leftOps l) = (elOf l).emit := by
  cases l <;> rfl

theorem specRule_eq_rule (p : Program) (l : Option Nat) (r : Nat) : specRule p l r = rule p l r := by
  simp only [specRule, rule]
  cases rawRule p l r with
  | none => rfl
  | some i => cases h : i.op <;> simp [resolveOp, h]

/-- The instruction S finds for the elements `x y` (`y` may be the right boundary). -/
def lookup (p : Program) (x y : El) : Option Op :=
  (match y with
    | .ch c => some c
    | .rb => p.rb
    | .lb => none).bind (specRule p x.left)

def ligSeq (x y : El) (z : Nat) (post : PostLig) (tail : List El) : List El :=
  (if post.abc.2.1 then [x] else []) ++ [El.ch z] ++ (if post.abc.2.2 then [y] else []) ++ tail

inductive Interp (p : Program) : List El → List Glyph → Prop
  | nil : Interp p [] []
  | single (x : El) : Interp p [x] x.emit
  | rbStop (y : El) (tail : List El) : Interp p (.rb :: y :: tail) []
  | noRule (x y : El) (tail : List El) (out : List Glyph) :
      x ≠ .rb → lookup p x y = none → Interp p (y :: tail) out →
      Interp p (x :: y :: tail) (x.emit ++ out)
  | kern (x y : El) (tail : List El) (k : Int) (out : List Glyph) :
      x ≠ .rb → lookup p x y = some (.kern k) → Interp p (y :: tail) out →
      Interp p (x :: y :: tail) (x.emit ++ Glyph.kern k :: out)
  | lig (x y : El) (tail : List El) (z : Nat) (post : PostLig) (out : List Glyph) :
      x ≠ .rb → lookup p x y = some (.lig z post) →
      Interp p ((ligSeq x y z post tail).drop post.abc.1) out →
      Interp p (x :: y :: tail) (((ligSeq x y z post tail).take post.abc.1).flatMap El.emit ++ out)

theorem interp_step (p : Program) (f : Nat) (x y : El) (tail : List El) (hx : x ≠ .rb) :
    interp p (f + 1) (x :: y :: tail) =
      match lookup p x y with
      | none => (interp p f (y :: tail)).map (x.emit ++ ·)
      | some (.kern k) => (interp p f (y :: tail)).map (x.emit ++ Glyph.kern k :: ·)
      | some (.lig z post) =>
        (interp p f ((ligSeq x y z post tail).drop post.abc.1)).map
          (((ligSeq x y z post tail).take post.abc.1).flatMap El.emit ++ ·) := by
  cases x with
  | rb => exact absurd rfl hx
  | lb => first | rfl | (simp only [interp, lookup, ligSeq]; rfl)
  | ch c => first | rfl | (simp only [interp, lookup, ligSeq]; rfl)

theorem interp_complete (p : Program) {s : List El} {out : List Glyph} (h : Interp p s out) :
    ∃ f, interp p f s = some out := by
  induction h with
  | nil => exact ⟨1, rfl⟩
  | single x => exact ⟨1, rfl⟩
  | rbStop y tail => exact ⟨1, by simp [interp]⟩
  | noRule x y tail out hx hl _ ih =>
    obtain ⟨f, hf⟩ := ih
    exact ⟨f + 1, by rw [interp_step p f x y tail hx, hl]; simp [hf]⟩
  | kern x y tail k out hx hl _ ih =>
    obtain ⟨f, hf⟩ := ih
    exact ⟨f + 1, by rw [interp_step p f x y tail hx, hl]; simp [hf]⟩
  | lig x y tail z post out hx hl _ ih =>
    obtain ⟨f, hf⟩ := ih
    exact ⟨f + 1, by rw [interp_step p f x y tail hx, hl]; simp [hf]⟩

theorem interp_succ (p : Program) : ∀ f s out, interp p f s = some out → interp p (f + 1) s = some out := by
  intro f
  induction f with
  | zero => intro s out h; simp [interp] at h
  | succ f ih =>
    intro s out h
    match s with
    | [] => simpa [interp] using h
    | [x] => simpa [interp] using h
    | x :: y :: tail =>
      by_cases hx : x = .rb
      · subst hx; simpa [interp] using h
      · rw [interp_step p _ x y tail hx] at h ⊢
        cases hl : lookup p x y with
        | none =>
          simp only [hl] at h ⊢
          cases hi : interp p f (y :: tail) with
          | none => simp [hi] at h
          | some o => rw [ih _ _ hi]; simpa [hi] using h
        | some op =>
          cases op with
          | kern k =>
            simp only [hl] at h ⊢
            cases hi : interp p f (y :: tail) with
            | none => simp [hi] at h
            | some o => rw [ih _ _ hi]; simpa [hi] using h
          | lig z post =>
            simp only [hl] at h ⊢
            cases hi : interp p f ((ligSeq x y z post tail).drop post.abc.1) with
            | none => simp [hi] at h
            | some o => rw [ih _ _ hi]; simpa [hi] using h

theorem interp_mono (p : Program) {f g : Nat} (hfg : f ≤ g) {s : List El} {out : List Glyph}
    (h : interp p f s = some out) : interp p g s = some out := by
  induction hfg with
  | refl => exact h
  | step _ ih => exact interp_succ p _ _ _ ih

/-- `interp` is a function: two terminating runs agree. -/
theorem interp_det (p : Program) {f g : Nat} {s : List El} {o o' : List Glyph}
    (h : interp p f s = some o) (h' : interp p g s = some o') : o = o' := by
  have a := interp_mono p (Nat.le_max_left f g) h
  have b := interp_mono p (Nat.le_max_right f g) h'
  rw [a] at b; exact Option.some.inj b

end C05

namespace C05

theorem pairResult_none_rule (p : Program) : ∀ n l r, pairResult n p l r = some none → rule p l r = none := by
  intro n l r h
  cases n with
  | zero => simp [pairResult] at h
  | succ n =>
    rw [pairResult] at h
    cases hr : rule p l r with
    | none => rfl
    | some op =>
      exfalso
      cases op with
      | kern k => simp [hr] at h
      | lig z post =>
        simp only [hr] at h
        cases post <;> simp only at h <;> (repeat' split at h) <;> simp at h

theorem elOf_ne_rb (l : Option Nat) : elOf l ≠ .rb := by cases l <;> simp [elOf]

theorem lookup_ch (p : Program) (l : Option Nat) (r : Nat) : lookup p (elOf l) (.ch r) = rule p l r := by
  simp [lookup, specRule_eq_rule]

/-- The meaning of a table entry when the right character is a real character: the machine
emits the entry's ops and then stands on `last` with the same tail. -/
def SemReal (p : Program) (n : Nat) : Prop :=
  ∀ l r rep, pairResult n p l r = some (some rep) → ∀ tail out,
    Interp p (.ch rep.2.c :: tail) out → Interp p (elOf l :: .ch r :: tail) (gl rep.1 ++ out)

theorem child_real (p : Program) (n : Nat) (ih : SemReal p n) (pl : Option C) (pr : C)
    (c : Option Repl) (hc : pairResult n p (pl.map (·.c)) pr.c = some c) (tail : List El)
    (out : List Glyph) (h : Interp p (.ch (applyChild pl pr c).2.c :: tail) out) :
    Interp p (elOf (pl.map (·.c)) :: .ch pr.c :: tail) (gl (applyChild pl pr c).1 ++ out) := by
  cases c with
  | none =>
    have hr := pairResult_none_rule p n _ _ hc
    have := Interp.noRule (elOf (pl.map (·.c))) (.ch pr.c) tail out (elOf_ne_rb _)
      (by rw [lookup_ch]; exact hr) (by simpa [applyChild] using h)
    cases pl <;> simpa [applyChild, gl, elOf, El.emit] using this
  | some rep =>
    simp only [applyChild, gl_markFirst] at h ⊢
    exact ih _ _ rep hc tail out h

theorem sem_real (p : Program) : ∀ n, SemReal p n := by
  intro n
  induction n with
  | zero => intro l r rep h; simp [pairResult] at h
  | succ n ih =>
    intro l r rep h tail out hout
    rw [pairResult] at h
    cases hr : rule p l r with
    | none => simp [hr] at h
    | some op =>
      have hne := elOf_ne_rb l
      have hlk : lookup p (elOf l) (.ch r) = some op := by rw [lookup_ch]; exact hr
      cases op with
      | kern k =>
        simp [hr] at h
        subst h
        have := Interp.kern (elOf l) (.ch r) tail k out hne hlk hout
        simpa [gl_append, gl_leftOps, gl] using this
      | lig z post =>
        simp only [hr] at h
        cases post with
        | bothNowhere =>
          simp only at h
          cases h1 : pairResult n p l z with
          | none => simp [h1] at h
          | some c1 =>
            simp only [h1] at h
            cases h2 : pairResult n p (some (applyChild (leftC l) ⟨z, true⟩ c1).2.c) r with
            | none => simp [h2] at h
            | some c2 =>
              simp only [h2] at h
              simp at h
              subst h
              have hl : (leftC l).map (·.c) = l := by cases l <;> rfl
              have s2 := child_real p n ih (some (applyChild (leftC l) ⟨z, true⟩ c1).2) ⟨r, false⟩ c2
                (by simpa using h2) tail out hout
              have s1 := child_real p n ih (leftC l) ⟨z, true⟩ c1 (by simpa [hl] using h1)
                (.ch r :: tail) _ s2
              rw [hl] at s1
              have := Interp.lig (elOf l) (.ch r) tail z .bothNowhere _ hne hlk
                (by simpa [ligSeq, PostLig.abc] using s1)
              simpa [ligSeq, PostLig.abc, gl_append] using this
        | bothInserted =>
          simp only at h
          cases h1 : pairResult n p (some z) r with
          | none => simp [h1] at h
          | some c1 =>
            simp only [h1] at h
            simp at h
            subst h
            have s1 := child_real p n ih (some ⟨z, true⟩) ⟨r, false⟩ c1 (by simpa using h1) tail out hout
            have := Interp.lig (elOf l) (.ch r) tail z .bothInserted _ hne hlk
              (by simpa [ligSeq, PostLig.abc, elOf] using s1)
            simpa [ligSeq, PostLig.abc, gl_append, gl_leftOps] using this
        | bothRight =>
          simp at h
          subst h
          have := Interp.lig (elOf l) (.ch r) tail z .bothRight _ hne hlk
            (by simpa [ligSeq, PostLig.abc] using hout)
          simpa [ligSeq, PostLig.abc, gl_append, gl_leftOps, gl, El.emit] using this
        | rightInserted =>
          simp only at h
          cases h1 : pairResult n p (some z) r with
          | none => simp [h1] at h
          | some c1 =>
            simp only [h1] at h
            simp at h
            subst h
            have s1 := child_real p n ih (some ⟨z, true⟩) ⟨r, false⟩ c1 (by simpa using h1) tail out hout
            have := Interp.lig (elOf l) (.ch r) tail z .rightInserted _ hne hlk
              (by simpa [ligSeq, PostLig.abc, elOf] using s1)
            simpa [ligSeq, PostLig.abc] using this
        | rightRight =>
          simp at h
          subst h
          have := Interp.lig (elOf l) (.ch r) tail z .rightRight _ hne hlk
            (by simpa [ligSeq, PostLig.abc] using hout)
          simpa [ligSeq, PostLig.abc, gl, El.emit] using this
        | leftNowhere =>
          simp only at h
          cases h1 : pairResult n p l z with
          | none => simp [h1] at h
          | some c1 =>
            simp only [h1] at h
            simp at h
            subst h
            have hl : (leftC l).map (·.c) = l := by cases l <;> rfl
            have s1 := child_real p n ih (leftC l) ⟨z, true⟩ c1 (by simpa [hl] using h1) tail out hout
            rw [hl] at s1
            have := Interp.lig (elOf l) (.ch r) tail z .leftNowhere _ hne hlk
              (by simpa [ligSeq, PostLig.abc] using s1)
            simpa [ligSeq, PostLig.abc] using this
        | leftInserted =>
          simp at h
          subst h
          have := Interp.lig (elOf l) (.ch r) tail z .leftInserted _ hne hlk
            (by simpa [ligSeq, PostLig.abc] using hout)
          simpa [ligSeq, PostLig.abc, gl_leftOps] using this
        | neither =>
          simp at h
          subst h
          have := Interp.lig (elOf l) (.ch r) tail z .neither _ hne hlk
            (by simpa [ligSeq, PostLig.abc] using hout)
          simpa [ligSeq, PostLig.abc, gl] using this

end C05

namespace C05

/-! ## Right boundary -/

theorem lookup_rb (p : Program) (l : Option Nat) (r : Nat) (hrb : p.rb = some r) :
    lookup p (elOf l) .rb = rule p l r := by
  simp [lookup, specRule_eq_rule, hrb]

theorem interp_rb (p : Program) : Interp p [.rb] [] := Interp.single .rb

/-- The meaning of a table entry at the right boundary: the ops are emitted; `last` is a
glyph of its own exactly when it is flagged as a ligature (it consumed the boundary),
otherwise the cursor stands on the boundary and the run stops. -/
def lastGlyph (c : C) : List Glyph := if c.lig then [.glyph c.c] else []

def SemBdry (p : Program) (n : Nat) : Prop :=
  ∀ l r rep, p.rb = some r → pairResult n p l r = some (some rep) →
    Interp p [elOf l, .rb] (gl rep.1 ++ lastGlyph rep.2)

theorem child_bdry (p : Program) (n : Nat) (ih : SemBdry p n) (x : C) (hx : x.lig = true) (r : Nat)
    (hrb : p.rb = some r) (c : Option Repl) (hc : pairResult n p (some x.c) r = some c) :
    Interp p [.ch x.c, .rb]
      (gl (applyChild (some x) ⟨r, false⟩ c).1 ++ lastGlyph (applyChild (some x) ⟨r, false⟩ c).2) := by
  cases c with
  | none =>
    have hr := pairResult_none_rule p n _ _ hc
    have := Interp.noRule (.ch x.c) .rb [] [] (by simp)
      (by rw [← hr, ← lookup_rb p (some x.c) r hrb]; rfl) (interp_rb p)
    simpa [applyChild, gl, lastGlyph, El.emit] using this
  | some rep =>
    have hg := pairResult_good p n _ _ rep hc
    obtain ⟨_, h2, _⟩ := markFirst_true _ _ hg.first
    have hl : (rep.2.lig || (markFirst true rep.1).2 || false) = rep.2.lig := by
      cases hlig : rep.2.lig with
      | true => simp
      | false => simp [h2, hasCh_of_good hg hlig]
    have := ih (some x.c) r rep hrb hc
    simpa [applyChild, hx, gl_markFirst, lastGlyph, hl, elOf] using this

theorem applyChild_lig_right (pl : Option C) (z : Nat) (c : Option Repl) :
    (applyChild pl ⟨z, true⟩ c).2.lig = true := by
  cases c <;> simp [applyChild]

theorem sem_bdry (p : Program) : ∀ n, SemBdry p n := by
  intro n
  induction n with
  | zero => intro l r rep _ h; simp [pairResult] at h
  | succ n ih =>
    intro l r rep hrb h
    rw [pairResult] at h
    cases hr : rule p l r with
    | none => simp [hr] at h
    | some op =>
      have hne := elOf_ne_rb l
      have hlk : lookup p (elOf l) .rb = some op := by rw [lookup_rb p l r hrb]; exact hr
      cases op with
      | kern k =>
        simp [hr] at h
        subst h
        have := Interp.kern (elOf l) .rb [] k [] hne hlk (interp_rb p)
        simpa [gl_append, gl_leftOps, gl, lastGlyph] using this
      | lig z post =>
        simp only [hr] at h
        cases post with
        | bothNowhere =>
          simp only at h
          cases h1 : pairResult n p l z with
          | none => simp [h1] at h
          | some c1 =>
            simp only [h1] at h
            cases h2 : pairResult n p (some (applyChild (leftC l) ⟨z, true⟩ c1).2.c) r with
            | none => simp [h2] at h
            | some c2 =>
              simp only [h2] at h
              simp at h
              subst h
              have hl : (leftC l).map (·.c) = l := by cases l <;> rfl
              have s2 := child_bdry p n ih (applyChild (leftC l) ⟨z, true⟩ c1).2
                (applyChild_lig_right _ _ _) r hrb c2 h2
              have s1 := child_real p n (sem_real p n) (leftC l) ⟨z, true⟩ c1 (by simpa [hl] using h1)
                [.rb] _ s2
              rw [hl] at s1
              have := Interp.lig (elOf l) .rb [] z .bothNowhere _ hne hlk
                (by simpa [ligSeq, PostLig.abc] using s1)
              simpa [ligSeq, PostLig.abc, gl_append] using this
        | bothInserted =>
          simp only at h
          cases h1 : pairResult n p (some z) r with
          | none => simp [h1] at h
          | some c1 =>
            simp only [h1] at h
            simp at h
            subst h
            have s1 := child_bdry p n ih ⟨z, true⟩ rfl r hrb c1 h1
            have := Interp.lig (elOf l) .rb [] z .bothInserted _ hne hlk
              (by simpa [ligSeq, PostLig.abc] using s1)
            simpa [ligSeq, PostLig.abc, gl_append, gl_leftOps] using this
        | bothRight =>
          simp at h
          subst h
          have := Interp.lig (elOf l) .rb [] z .bothRight _ hne hlk
            (by simpa [ligSeq, PostLig.abc] using interp_rb p)
          simpa [ligSeq, PostLig.abc, gl_append, gl_leftOps, gl, El.emit, lastGlyph] using this
        | rightInserted =>
          simp only at h
          cases h1 : pairResult n p (some z) r with
          | none => simp [h1] at h
          | some c1 =>
            simp only [h1] at h
            simp at h
            subst h
            have s1 := child_bdry p n ih ⟨z, true⟩ rfl r hrb c1 h1
            have := Interp.lig (elOf l) .rb [] z .rightInserted _ hne hlk
              (by simpa [ligSeq, PostLig.abc] using s1)
            simpa [ligSeq, PostLig.abc] using this
        | rightRight =>
          simp at h
          subst h
          have := Interp.lig (elOf l) .rb [] z .rightRight _ hne hlk
            (by simpa [ligSeq, PostLig.abc] using interp_rb p)
          simpa [ligSeq, PostLig.abc, gl, El.emit, lastGlyph] using this
        | leftNowhere =>
          simp only at h
          cases h1 : pairResult n p l z with
          | none => simp [h1] at h
          | some c1 =>
            simp only [h1] at h
            simp at h
            subst h
            have hl : (leftC l).map (·.c) = l := by cases l <;> rfl
            have s1 := child_real p n (sem_real p n) (leftC l) ⟨z, true⟩ c1 (by simpa [hl] using h1)
              [] _ (Interp.single (.ch (applyChild (leftC l) ⟨z, true⟩ c1).2.c))
            rw [hl] at s1
            have := Interp.lig (elOf l) .rb [] z .leftNowhere _ hne hlk
              (by simpa [ligSeq, PostLig.abc] using s1)
            simpa [ligSeq, PostLig.abc, lastGlyph, applyChild_lig_right, El.emit] using this
        | leftInserted =>
          simp at h
          subst h
          have := Interp.lig (elOf l) .rb [] z .leftInserted _ hne hlk
            (by simpa [ligSeq, PostLig.abc] using Interp.single (.ch z))
          simpa [ligSeq, PostLig.abc, gl_leftOps, lastGlyph, El.emit] using this
        | neither =>
          simp at h
          subst h
          have := Interp.lig (elOf l) .rb [] z .neither _ hne hlk
            (by simpa [ligSeq, PostLig.abc] using Interp.single (.ch z))
          simpa [ligSeq, PostLig.abc, gl, lastGlyph, El.emit] using this

end C05

namespace C05

/-! ## The lift to words -/

theorem glyphs_drain (left : Option Nat) (nl : Bool) (ops : List IOp) :
    ∀ lg cl, glyphs (drain left nl ops lg cl).1 = gl ops := by
  induction ops with
  | nil => intro lg cl; rfl
  | cons x t ih =>
    intro lg cl
    cases x with
    | kern k =>
      have := ih lg cl
      simp only [glyphs] at this
      simp [drain, glyphs, gl, Item.glyph, this]
    | ch c =>
      obtain ⟨c, b⟩ := c
      have := ih none false
      simp only [glyphs] at this
      cases b <;> cases lg <;> simp [drain, glyphs, gl, Item.glyph, this]

theorem map_glyph_drain (left : Option Nat) (nl : Bool) (ops : List IOp) (lg : Option Pending) (cl : Bool) :
    (drain left nl ops lg cl).1.map Item.glyph = gl ops := glyphs_drain left nl ops lg cl

@[simp] theorem glyphs_append (a b : List Item) : glyphs (a ++ b) = glyphs a ++ glyphs b := by
  simp [glyphs]

theorem glyphs_emitLeft (l : Nat) (lg : Option Pending) : glyphs [emitLeft l lg] = [.glyph l] := by
  cases lg <;> rfl

theorem bound_pos (p : Program) : bound p = (bound p - 1) + 1 := by simp [bound]

theorem acyclic_all (p : Program) (h : acyclicB p = true) (l : Option Nat) (r : Nat) :
    ∃ v, pairResult (bound p) p l r = some v := by
  cases hr : rule p l r with
  | none =>
    refine ⟨none, ?_⟩
    rw [bound_pos, pairResult, hr]
  | some op =>
    have hm := rule_mem_cand p l r op hr
    simp only [acyclicB, List.all_eq_true] at h
    have := h _ hm
    simp [loopsM] at this
    cases hv : pairResult (bound p) p l r with
    | none => simp [hv] at this
    | some v => exact ⟨v, rfl⟩

theorem table_none_rule (p : Program) (h : acyclicB p = true) (l : Option Nat) (r : Nat)
    (ht : table p l r = none) : rule p l r = none := by
  obtain ⟨v, hv⟩ := acyclic_all p h l r
  cases v with
  | none => exact pairResult_none_rule p _ _ _ hv
  | some rep => simp [table, hv] at ht

theorem table_some (p : Program) (l : Option Nat) (r : Nat) (rep : Repl) (ht : table p l r = some rep) :
    pairResult (bound p) p l r = some (some rep) := by
  simp only [table] at ht
  split at ht
  · rename_i rep' h; simp at ht; subst ht; exact h
  · simp at ht

def rbEl (p : Program) : List El := if p.rb.isSome then [El.rb] else []

theorem goL_sem (p : Program) (hac : acyclicB p = true) :
    ∀ (w : List Nat) (l : Nat) (lio : Bool) (lg : Option Pending),
      Interp p (.ch l :: (w.map El.ch ++ rbEl p)) (glyphs (goL (table p) p.rb w (some l) lio lg)) := by
  intro w
  induction w with
  | nil =>
    intro l lio lg
    simp only [goL, List.map_nil, List.nil_append]
    cases hrb : p.rb with
    | none =>
      simp only [rbEl, hrb, Option.bind_none, Option.isSome_none]
      rw [glyphs_emitLeft]
      exact Interp.single (.ch l)
    | some r =>
      simp only [rbEl, hrb, Option.bind_some, Option.isSome_some, if_true]
      cases ht : table p (some l) r with
      | none =>
        simp only
        rw [glyphs_emitLeft]
        have hr := table_none_rule p hac _ _ ht
        have := Interp.noRule (.ch l) .rb [] [] (by simp)
          (by rw [← hr, ← lookup_rb p (some l) r hrb]; rfl) (interp_rb p)
        simpa [El.emit] using this
      | some rep =>
        have := sem_bdry p _ (some l) r rep hrb (table_some p _ _ _ ht)
        simp only
        cases hl : rep.2.lig <;>
          simpa [hl, map_glyph_drain, lastGlyph, glyphs, Item.glyph, elOf] using this
  | cons r rest ih =>
    intro l lio lg
    simp only [goL, List.map_cons, List.cons_append]
    cases ht : table p (some l) r with
    | none =>
      simp only
      have hr := table_none_rule p hac _ _ ht
      have := Interp.noRule (.ch l) (.ch r) (rest.map El.ch ++ rbEl p) _ (by simp)
        (by rw [← hr, ← lookup_ch p (some l) r]; rfl) (ih r true none)
      have e : glyphs (emitLeft l lg :: goL (table p) p.rb rest (some r) true none)
          = Glyph.glyph l :: glyphs (goL (table p) p.rb rest (some r) true none) := by
        cases lg <;> rfl
      rw [e]
      simpa [El.emit] using this
    | some rep =>
      simp only
      have hs := sem_real p _ (some l) r rep (table_some p _ _ _ ht) (rest.map El.ch ++ rbEl p)
      cases hl : rep.2.lig with
      | true =>
        simp only [if_true, glyphs_append, glyphs_drain]
        exact hs _ (ih _ _ _)
      | false =>
        simp only [Bool.false_eq_true, if_false, glyphs_append, glyphs_drain]
        exact hs _ (ih _ _ _)

theorem runM_sem (p : Program) (hac : acyclicB p = true) (w : List Nat) (hw : w ≠ []) :
    Interp p (seqOf p w) (glyphs (runM p w)) := by
  cases w with
  | nil => exact absurd rfl hw
  | cons r rest =>
    have hseq : seqOf p (r :: rest) = .lb :: .ch r :: (rest.map El.ch ++ rbEl p) := by
      simp [seqOf, rbEl]
    rw [hseq]
    simp only [runM, runCompiled, goL]
    cases ht : table p none r with
    | none =>
      simp only
      have hr := table_none_rule p hac _ _ ht
      have := Interp.noRule .lb (.ch r) (rest.map El.ch ++ rbEl p) _ (by simp)
        (by rw [← hr, ← lookup_ch p none r]; rfl) (goL_sem p hac rest r true none)
      simpa [El.emit] using this
    | some rep =>
      simp only
      have hs := sem_real p _ none r rep (table_some p _ _ _ ht) (rest.map El.ch ++ rbEl p)
      cases hl : rep.2.lig with
      | true =>
        simp only [if_true, glyphs_append, glyphs_drain]
        exact hs _ (goL_sem p hac _ _ _ _)
      | false =>
        simp only [Bool.false_eq_true, if_false, glyphs_append, glyphs_drain]
        exact hs _ (goL_sem p hac _ _ _ _)

end C05

namespace C05

/-! ## Completeness: if the machine gets past a pair, the compiler resolves it -/

def lastOf (v : Option Repl) (r : Nat) : Nat :=
  match v with
  | none => r
  | some rep => rep.2.c

theorem applyChild_last (pl : Option C) (pr : C) (v : Option Repl) :
    (applyChild pl pr v).2.c = lastOf v pr.c := by
  cases v <;> rfl

theorem lookup_ch' (p : Program) (x : El) (r : Nat) : lookup p x (.ch r) = rule p x.left r := by
  simp [lookup, specRule_eq_rule]

theorem decomp (p : Program) : ∀ (f : Nat) (x : El) (r : Nat) (tail : List El) (out : List Glyph),
    x ≠ .rb → interp p f (x :: .ch r :: tail) = some out →
    ∃ n v, pairResult n p x.left r = some v ∧
      ∃ f' out', f' < f ∧ interp p f' (.ch (lastOf v r) :: tail) = some out' := by
  intro f
  induction f using Nat.strongRecOn with
  | _ f ih =>
    intro x r tail out hx h
    cases f with
    | zero => simp [interp] at h
    | succ f =>
      rw [interp_step p f x (.ch r) tail hx, lookup_ch'] at h
      cases hr : rule p x.left r with
      | none =>
        simp only [hr] at h
        cases hi : interp p f (.ch r :: tail) with
        | none => simp [hi] at h
        | some o =>
          exact ⟨1, none, by rw [pairResult, hr], f, o, Nat.lt_succ_self _, by simpa [lastOf] using hi⟩
      | some op =>
        cases op with
        | kern k =>
          simp only [hr] at h
          cases hi : interp p f (.ch r :: tail) with
          | none => simp [hi] at h
          | some o =>
            exact ⟨1, _, by rw [pairResult, hr], f, o, Nat.lt_succ_self _, by simpa [lastOf] using hi⟩
        | lig z post =>
          simp only [hr] at h
          cases hi : interp p f ((ligSeq x (.ch r) z post tail).drop post.abc.1) with
          | none => simp [hi] at h
          | some o =>
            clear h
            cases post with
            | neither =>
              simp [ligSeq, PostLig.abc] at hi
              exact ⟨1, _, by rw [pairResult, hr], f, o, Nat.lt_succ_self _, by simpa [lastOf] using hi⟩
            | leftInserted =>
              simp [ligSeq, PostLig.abc] at hi
              exact ⟨1, _, by rw [pairResult, hr], f, o, Nat.lt_succ_self _, by simpa [lastOf] using hi⟩
            | bothRight =>
              simp [ligSeq, PostLig.abc] at hi
              exact ⟨1, _, by rw [pairResult, hr], f, o, Nat.lt_succ_self _, by simpa [lastOf] using hi⟩
            | rightRight =>
              simp [ligSeq, PostLig.abc] at hi
              exact ⟨1, _, by rw [pairResult, hr], f, o, Nat.lt_succ_self _, by simpa [lastOf] using hi⟩
            | rightInserted =>
              simp [ligSeq, PostLig.abc] at hi
              obtain ⟨n1, v1, hp1, f1, o1, hf1, hi1⟩ := ih f (Nat.lt_succ_self _) (.ch z) r tail o (by simp) hi
              refine ⟨n1 + 1, some (applyChild (some ⟨z, true⟩) ⟨r, false⟩ v1), ?_, f1, o1, by omega, ?_⟩
              · rw [pairResult, hr]
                simp only [El.left] at hp1
                simp [hp1]
              · simpa [lastOf, applyChild_last] using hi1
            | bothInserted =>
              simp [ligSeq, PostLig.abc] at hi
              obtain ⟨n1, v1, hp1, f1, o1, hf1, hi1⟩ := ih f (Nat.lt_succ_self _) (.ch z) r tail o (by simp) hi
              refine ⟨n1 + 1, some (leftOps x.left ++ (applyChild (some ⟨z, true⟩) ⟨r, false⟩ v1).1,
                (applyChild (some ⟨z, true⟩) ⟨r, false⟩ v1).2), ?_, f1, o1, by omega, ?_⟩
              · rw [pairResult, hr]
                simp only [El.left] at hp1
                simp [hp1]
              · simpa [lastOf, applyChild_last] using hi1
            | leftNowhere =>
              simp [ligSeq, PostLig.abc] at hi
              obtain ⟨n1, v1, hp1, f1, o1, hf1, hi1⟩ := ih f (Nat.lt_succ_self _) x z tail o hx hi
              refine ⟨n1 + 1, some (applyChild (leftC x.left) ⟨z, true⟩ v1), ?_, f1, o1, by omega, ?_⟩
              · rw [pairResult, hr]
                simp [hp1]
              · simpa [lastOf, applyChild_last] using hi1
            | bothNowhere =>
              simp [ligSeq, PostLig.abc] at hi
              obtain ⟨n1, v1, hp1, f1, o1, hf1, hi1⟩ :=
                ih f (Nat.lt_succ_self _) x z (.ch r :: tail) o hx hi
              obtain ⟨n2, v2, hp2, f2, o2, hf2, hi2⟩ :=
                ih f1 (by omega) (.ch (lastOf v1 z)) r tail o1 (by simp) hi1
              have e1 := pairResult_mono p (Nat.le_max_left n1 n2) hp1
              have e2 := pairResult_mono p (Nat.le_max_right n1 n2) hp2
              simp only [El.left] at e2
              refine ⟨max n1 n2 + 1, some ((applyChild (leftC x.left) ⟨z, true⟩ v1).1 ++
                  (applyChild (some (applyChild (leftC x.left) ⟨z, true⟩ v1).2) ⟨r, false⟩ v2).1,
                  (applyChild (some (applyChild (leftC x.left) ⟨z, true⟩ v1).2) ⟨r, false⟩ v2).2),
                ?_, f2, o2, by omega, ?_⟩
              · rw [pairResult, hr]
                simp [e1, applyChild_last, e2]
              · simpa [lastOf, applyChild_last] using hi2

end C05

namespace C05

theorem interp_sound (p : Program) : ∀ {f : Nat} {s : List El} {out : List Glyph},
    interp p f s = some out → Interp p s out := by
  intro f
  induction f with
  | zero => intro s out h; simp [interp] at h
  | succ f ih =>
    intro s out h
    match s with
    | [] => simp [interp] at h; subst h; exact Interp.nil
    | [x] => simp [interp] at h; subst h; exact Interp.single x
    | x :: y :: tail =>
      by_cases hx : x = .rb
      · subst hx
        simp [interp] at h
        subst h
        exact Interp.rbStop y tail
      · rw [interp_step p f x y tail hx] at h
        cases hl : lookup p x y with
        | none =>
          simp only [hl] at h
          cases hi : interp p f (y :: tail) with
          | none => simp [hi] at h
          | some o =>
            simp [hi] at h; subst h
            exact Interp.noRule x y tail o hx hl (ih hi)
        | some op =>
          cases op with
          | kern k =>
            simp only [hl] at h
            cases hi : interp p f (y :: tail) with
            | none => simp [hi] at h
            | some o =>
              simp [hi] at h; subst h
              exact Interp.kern x y tail k o hx hl (ih hi)
          | lig z post =>
            simp only [hl] at h
            cases hi : interp p f ((ligSeq x y z post tail).drop post.abc.1) with
            | none => simp [hi] at h
            | some o =>
              simp [hi] at h; subst h
              exact Interp.lig x y tail z post o hx hl (ih hi)

end C05


namespace C05

/-! ## The table does not depend on the right boundary character -/

theorem rule_withRb (p : Program) (x : Option Nat) (l : Option Nat) (r : Nat) :
    rule (withRb p x) l r = rule p l r := rfl

theorem pairResult_withRb (p : Program) (x : Option Nat) :
    ∀ n l r, pairResult n (withRb p x) l r = pairResult n p l r := by
  intro n
  induction n with
  | zero => intro l r; rfl
  | succ n ih =>
    intro l r
    rw [pairResult, pairResult, rule_withRb]
    simp only [ih]

theorem bound_withRb (p : Program) (x : Option Nat) : bound (withRb p x) = bound p := rfl

theorem table_withRb (p : Program) (x : Option Nat) : table (withRb p x) = table p := by
  funext l r
  simp only [table, bound_withRb, pairResult_withRb]

theorem acyclicB_withRb (p : Program) (x : Option Nat) : acyclicB (withRb p x) = acyclicB p := by
  have hc : candPairs (withRb p x) = candPairs p := rfl
  simp only [acyclicB, hc, loopsM, bound_withRb, pairResult_withRb]

end C05

namespace C05

/-! ## The typed machine refines the untyped one -/

theorem emitT_erase (x : El × Bool) : (emitT x).map TGlyph.erase = x.1.emit := by
  obtain ⟨e, b⟩ := x
  cases e <;> rfl

theorem flatMap_emitT_erase (l : List (El × Bool)) :
    (l.flatMap emitT).map TGlyph.erase = (l.map Prod.fst).flatMap El.emit := by
  induction l with
  | nil => rfl
  | cons x t ih => simp [List.flatMap_cons, emitT_erase, ih]

theorem interpT_erase (p : Program) : ∀ (f : Nat) (s : List (El × Bool)),
    (interpT p f s).map (List.map TGlyph.erase) = interp p f (s.map Prod.fst) := by
  intro f
  induction f with
  | zero => intro s; rfl
  | succ f ih =>
    intro s
    match s with
    | [] => rfl
    | [x] => simp [interpT, interp, emitT_erase]
    | x :: y :: tail =>
      obtain ⟨e, b⟩ := x
      obtain ⟨e', b'⟩ := y
      cases e with
      | rb => simp [interpT, interp]
      | lb =>
        simp only [interpT, interp, List.map_cons]
        cases hl : (match e' with | .ch c => some c | .rb => p.rb | .lb => none : Option Nat).bind (specRule p (El.lb).left) with
        | none =>
          have := ih ((e', b') :: tail)
          simp only [List.map_cons] at this
          simp [← this, Option.map_map, Function.comp_def, emitT_erase]
        | some op =>
          cases op with
          | kern k =>
            have := ih ((e', b') :: tail)
            simp only [List.map_cons] at this
            simp [← this, Option.map_map, Function.comp_def, emitT_erase, TGlyph.erase]
          | lig z post =>
            simp only []
            generalize hT : (((if post.abc.2.1 = true then [((El.lb), b)] else []) ++ [(El.ch z, true)] ++
              if post.abc.2.2 = true then [(e', b')] else []) ++ tail) = T
            have hU : (((if post.abc.2.1 = true then [El.lb] else []) ++ [El.ch z] ++
                if post.abc.2.2 = true then [e'] else []) ++ List.map Prod.fst tail) = T.map Prod.fst := by
              subst hT
              cases post.abc.2.1 <;> cases post.abc.2.2 <;> simp
            rw [hU, ← List.map_drop, ← ih, ← List.map_take, ← flatMap_emitT_erase]
            simp [Option.map_map, Function.comp_def]
      | ch c =>
        simp only [interpT, interp, List.map_cons]
        cases hl : (match e' with | .ch c => some c | .rb => p.rb | .lb => none : Option Nat).bind (specRule p (El.ch c).left) with
        | none =>
          have := ih ((e', b') :: tail)
          simp only [List.map_cons] at this
          simp [← this, Option.map_map, Function.comp_def, emitT_erase]
        | some op =>
          cases op with
          | kern k =>
            have := ih ((e', b') :: tail)
            simp only [List.map_cons] at this
            simp [← this, Option.map_map, Function.comp_def, emitT_erase, TGlyph.erase]
          | lig z post =>
            simp only []
            generalize hT : (((if post.abc.2.1 = true then [((El.ch c), b)] else []) ++ [(El.ch z, true)] ++
              if post.abc.2.2 = true then [(e', b')] else []) ++ tail) = T
            have hU : (((if post.abc.2.1 = true then [El.ch c] else []) ++ [El.ch z] ++
                if post.abc.2.2 = true then [e'] else []) ++ List.map Prod.fst tail) = T.map Prod.fst := by
              subst hT
              cases post.abc.2.1 <;> cases post.abc.2.2 <;> simp
            rw [hU, ← List.map_drop, ← ih, ← List.map_take, ← flatMap_emitT_erase]
            simp [Option.map_map, Function.comp_def]

end C05
