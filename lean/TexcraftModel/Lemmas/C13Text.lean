import TexcraftModel.Model.C13Text

/-! C13: the text front end yields the intended lists. -/
namespace C13

def AllWs (l : List Char) : Prop := ∀ c ∈ l, isWs c = true
def NoWs (l : List Char) : Prop := ∀ c ∈ l, isWs c = false

theorem splitWs_token (p cur : List Char) (hp : NoWs p) (hne : cur ++ p ≠ []) :
    splitWs p cur = [cur ++ p] := by
  induction p generalizing cur with
  | nil => simp at hne; simp [splitWs, hne]
  | cons c p ih =>
    have hc : isWs c = false := hp c (by simp)
    simp only [splitWs, hc, Bool.false_eq_true, if_false]
    rw [ih (cur ++ [c]) (fun x hx => hp x (by simp [hx])) (by simp)]
    simp

theorem splitWs_append (t1 t2 cur : List Char) (w : Char) (hw : isWs w = true) :
    splitWs (t1 ++ w :: t2) cur = splitWs t1 cur ++ splitWs t2 [] := by
  induction t1 generalizing cur with
  | nil =>
    simp only [List.nil_append, splitWs, hw, if_true]
    by_cases h : cur = [] <;> simp [h]
  | cons c t1 ih =>
    simp only [List.cons_append, splitWs]
    by_cases hc : isWs c = true
    · simp only [hc, if_true]
      by_cases h : cur = [] <;> simp [h, ih]
    · simp only [hc, if_false]; exact ih _

theorem splitWs_allWs (l : List Char) (h : AllWs l) (rest : List Char) :
    splitWs (l ++ rest) [] = splitWs rest [] := by
  induction l with
  | nil => rfl
  | cons c l ih =>
    have hc : isWs c = true := h c (by simp)
    simp only [List.cons_append, splitWs, hc, if_true]
    exact ih (fun x hx => h x (by simp [hx]))

/-- The text of a list of tokens, each followed by a non-empty run of white space. -/
def tokensText : List (List Char × Char × List Char) → List Char
  | [] => []
  | (p, w, ws) :: r => p ++ (w :: (ws ++ tokensText r))

def TokensOk (items : List (List Char × Char × List Char)) : Prop :=
  ∀ x ∈ items, x.1 ≠ [] ∧ NoWs x.1 ∧ isWs x.2.1 = true ∧ AllWs x.2.2

theorem splitWs_tokensText (items : List (List Char × Char × List Char)) (h : TokensOk items) :
    splitWs (tokensText items) [] = items.map (·.1) := by
  induction items with
  | nil => rfl
  | cons x r ih =>
    obtain ⟨p, w, ws⟩ := x
    obtain ⟨h1, h2, h3, h4⟩ := h (p, w, ws) (by simp)
    simp only [tokensText, List.map_cons]
    rw [splitWs_append p (ws ++ tokensText r) [] w h3, splitWs_token p [] h2 (by simpa using h1),
      splitWs_allWs ws h4, ih (fun y hy => h y (by simp [hy]))]
    simp

/-! ### Lines -/

def NoNl (l : List Char) : Prop := ∀ c ∈ l, c ≠ '\n'

theorem splitNl_noNl (l cur : List Char) (h : NoNl l) : splitNl l cur = [cur ++ l] := by
  induction l generalizing cur with
  | nil => simp [splitNl]
  | cons c l ih =>
    have hc : c ≠ '\n' := h c (by simp)
    simp only [splitNl, hc, if_false]
    rw [ih (cur ++ [c]) (fun x hx => h x (by simp [hx]))]
    simp

theorem splitNl_line (l rest cur : List Char) (h : NoNl l) :
    splitNl (l ++ '\n' :: rest) cur = (cur ++ l) :: splitNl rest [] := by
  induction l generalizing cur with
  | nil => simp [splitNl]
  | cons c l ih =>
    have hc : c ≠ '\n' := h c (by simp)
    simp only [List.cons_append, splitNl, hc, if_false]
    rw [ih (cur ++ [c]) (fun x hx => h x (by simp [hx]))]
    simp

/-- The text of lines, each terminated by `\n`. -/
def linesText : List (List Char) → List Char
  | [] => []
  | l :: r => l ++ ('\n' :: linesText r)

theorem splitNl_linesText (ls : List (List Char)) (h : ∀ l ∈ ls, NoNl l) :
    splitNl (linesText ls) [] = ls ++ [[]] := by
  induction ls with
  | nil => rfl
  | cons l r ih =>
    simp only [linesText]
    rw [splitNl_line l _ [] (h l (by simp)), ih (fun x hx => h x (by simp [hx]))]
    simp

/-- An entry with padding trims to the entry. `e` is empty or begins and ends with a non-space. -/
def Trimmed (e : List Char) : Prop :=
  (∀ c, e.head? = some c → isWs c = false) ∧ (∀ c, e.getLast? = some c → isWs c = false)

theorem dropWhile_allWs (l rest : List Char) (h : AllWs l) :
    (l ++ rest).dropWhile isWs = rest.dropWhile isWs := by
  induction l with
  | nil => rfl
  | cons c l ih =>
    have hc : isWs c = true := h c (by simp)
    simp only [List.cons_append, List.dropWhile_cons, hc, if_true]
    exact ih (fun x hx => h x (by simp [hx]))

theorem dropWhile_head (e : List Char) (h : ∀ c, e.head? = some c → isWs c = false) :
    e.dropWhile isWs = e := by
  cases e with
  | nil => rfl
  | cons c e => simp [List.dropWhile_cons, h c rfl]

theorem trimWs_padded (l e r : List Char) (hl : AllWs l) (hr : AllWs r) (he : Trimmed e) :
    trimWs (l ++ e ++ r) = e := by
  unfold trimWs
  rw [List.append_assoc, dropWhile_allWs l _ hl]
  by_cases hne : e = []
  · subst hne
    simp only [List.nil_append]
    have : r.dropWhile isWs = [] := by
      have := dropWhile_allWs r [] hr
      simpa using this
    simp [this]
  · have h1 : (e ++ r).dropWhile isWs = e ++ r := by
      apply dropWhile_head
      intro c hc
      cases e with
      | nil => exact absurd rfl hne
      | cons x xs => exact he.1 c (by simpa using hc)
    rw [h1, List.reverse_append, dropWhile_allWs r.reverse _ (fun c hc => hr c (by simpa using hc))]
    have h2 : e.reverse.dropWhile isWs = e.reverse := by
      apply dropWhile_head
      intro c hc
      exact he.2 c (by rw [List.getLast?_eq_head?_reverse]; exact hc)
    rw [h2, List.reverse_reverse]

/-- Every line = padding, entry (possibly none), padding, newline: the exception entries come
out in order, blank lines vanish. -/
theorem exceptionLines_linesText (ls : List (List Char × List Char × List Char))
    (h : ∀ x ∈ ls, AllWs x.1 ∧ Trimmed x.2.1 ∧ AllWs x.2.2 ∧ NoNl (x.1 ++ x.2.1 ++ x.2.2)) :
    exceptionLines (linesText (ls.map (fun x => x.1 ++ x.2.1 ++ x.2.2)))
      = (ls.map (·.2.1)).filter (fun l => !l.isEmpty) := by
  unfold exceptionLines
  rw [splitNl_linesText _ (by
    intro l hl
    simp only [List.mem_map] at hl
    obtain ⟨x, hx, rfl⟩ := hl
    exact (h x hx).2.2.2)]
  have hm : (ls.map (fun x => x.1 ++ x.2.1 ++ x.2.2)).map trimWs = ls.map (·.2.1) := by
    rw [List.map_map]
    apply List.map_congr_left
    intro x hx
    obtain ⟨a, b, c, _⟩ := h x hx
    exact trimWs_padded _ _ _ a c b
  rw [List.map_append, hm]
  simp [trimWs]

/-! ### Independence of the split into calls -/

theorem foldl_cLoadText (texts : List (List Char)) (h : CHyph) :
    texts.foldl cLoadText h = (texts.flatMap (fun t => splitWs t [])).foldl cLoadPattern h := by
  induction texts generalizing h with
  | nil => rfl
  | cons t r ih => simp only [List.foldl_cons, List.flatMap_cons, List.foldl_append, ih]; rfl

theorem cLoadText_split (h : CHyph) (t1 t2 : List Char) (w : Char) (hw : isWs w = true) :
    cLoadText (cLoadText h t1) t2 = cLoadText h (t1 ++ w :: t2) := by
  simp only [cLoadText, splitWs_append t1 t2 [] w hw, List.foldl_append]

/-! ### Restricting a large pattern set to the patterns that can match -/

theorem isInfix_of_prefix_drop (a w : List Char) (o : Nat)
    (h : a.isPrefixOf (w.drop o) = true) (hne : a ≠ []) : isInfix a w = true := by
  induction w generalizing o with
  | nil =>
    simp at h
    cases a with
    | nil => exact absurd rfl hne
    | cons x xs => simp [List.isPrefixOf] at h
  | cons c cs ih =>
    simp only [isInfix, Bool.or_eq_true]
    cases o with
    | zero => left; simpa using h
    | succ o => right; exact ih o (by simpa using h)

theorem matchesAt_false_of_not_infix (p : Pat) (w : List Char) (o : Nat)
    (h : isInfix p.letters w = false) : matchesAt p w o = false := by
  cases hm : matchesAt p w o with
  | false => rfl
  | true =>
    exfalso
    unfold matchesAt at hm
    simp only [Bool.and_eq_true, decide_eq_true_eq] at hm
    have := isInfix_of_prefix_drop p.letters w o hm.1.1.2 hm.1.1.1
    rw [h] at this; cases this

theorem maxOver_zero {α : Type} (l : List α) (f : α → Nat) (h : ∀ x ∈ l, f x = 0) :
    maxOver l f = 0 := by
  induction l with
  | nil => rfl
  | cons a l ih =>
    have h1 : maxOver (a :: l) f = max (f a) (maxOver l f) := rfl
    rw [h1, h a (by simp), ih (fun x hx => h x (by simp [hx]))]; rfl

theorem liangAt_filter (ps : List Pat) (q : Pat → Bool) (w : List Char) (i : Nat)
    (h : ∀ p ∈ ps, q p = false → ∀ o, matchesAt p w o = false) :
    liangAt (ps.filter q) w i = liangAt ps w i := by
  unfold liangAt
  induction ps with
  | nil => rfl
  | cons p ps ih =>
    have ih' := ih (fun x hx => h x (by simp [hx]))
    have hc : ∀ (l : List Pat) (f : Pat → Nat), maxOver (p :: l) f = max (f p) (maxOver l f) :=
      fun _ _ => rfl
    cases hq : q p with
    | true => simp only [List.filter_cons, hq, if_true, hc, ih']
    | false =>
      simp only [List.filter_cons, hq, Bool.false_eq_true, if_false, hc, ih']
      have : maxOver (List.range (w.length + 1)) (fun o => contrib p w o i) = 0 := by
        apply maxOver_zero
        intro o _
        simp [contrib, h p (by simp) hq o]
      rw [this, Nat.zero_max]

/-! ### Histories -/

def Op.isQuery : Op → Bool
  | .query _ => true
  | _ => false

def Op.isLoad : Op → Bool
  | .loadText _ => true
  | _ => false

def Op.isExc : Op → Bool
  | .excText _ => true
  | .exc _ => true
  | _ => false

/-- Queries do not touch the hyphenator: the state after a history is the state after its
loads and inserts alone. -/
theorem foldl_ignores_queries (g : Bool) (ops : List Op) (h : CHyph) :
    ops.foldl (applyOpG g) h = (ops.filter (fun o => !o.isQuery)).foldl (applyOpG g) h := by
  induction ops generalizing h with
  | nil => rfl
  | cons o ops ih =>
    cases o <;> simp [List.filter_cons, Op.isQuery, applyOpG, ih]

theorem patsOf_append (a b : List Op) : patsOf (a ++ b) = patsOf a ++ patsOf b := by
  induction a with
  | nil => rfl
  | cons o a ih => cases o <;> simp [patsOf, ih]

theorem excsOf_append (a b : List Op) : excsOf (a ++ b) = excsOf a ++ excsOf b := by
  induction a with
  | nil => rfl
  | cons o a ih => cases o <;> simp [excsOf, ih]

theorem fold_loads (A : List Op) (hA : ∀ o ∈ A, o.isExc = false) (h : CHyph) :
    A.foldl (applyOpG true) h = (patsOf A).foldl cLoadPattern h ∧ excsOf A = [] := by
  induction A generalizing h with
  | nil => exact ⟨rfl, rfl⟩
  | cons o A ih =>
    have hA' : ∀ o ∈ A, o.isExc = false := fun x hx => hA x (by simp [hx])
    have ho := hA o (by simp)
    cases o with
    | loadText t =>
      obtain ⟨h1, h2⟩ := ih hA' (applyOpG true h (.loadText t))
      refine ⟨?_, by simpa [excsOf] using h2⟩
      simp only [List.foldl_cons, h1, patsOf, List.foldl_append]
      rfl
    | excText t => simp [Op.isExc] at ho
    | exc e => simp [Op.isExc] at ho
    | query w =>
      obtain ⟨h1, h2⟩ := ih hA' h
      exact ⟨by simpa [applyOpG, patsOf] using h1, by simpa [excsOf] using h2⟩

theorem fold_excs (B : List Op) (hB : ∀ o ∈ B, o.isLoad = false) (h : CHyph) :
    B.foldl (applyOpG true) h = (excsOf B).foldl cInsertException h ∧ patsOf B = [] := by
  induction B generalizing h with
  | nil => exact ⟨rfl, rfl⟩
  | cons o B ih =>
    have hB' : ∀ o ∈ B, o.isLoad = false := fun x hx => hB x (by simp [hx])
    have ho := hB o (by simp)
    cases o with
    | loadText t => simp [Op.isLoad] at ho
    | excText t =>
      obtain ⟨h1, h2⟩ := ih hB' (applyOpG true h (.excText t))
      refine ⟨?_, by simpa [patsOf] using h2⟩
      simp only [List.foldl_cons, h1, excsOf, List.foldl_append]
      rfl
    | exc e =>
      obtain ⟨h1, h2⟩ := ih hB' (applyOpG true h (.exc e))
      refine ⟨?_, by simpa [patsOf] using h2⟩
      simp only [List.foldl_cons, h1, excsOf]
      rfl
    | query w =>
      obtain ⟨h1, h2⟩ := ih hB' h
      exact ⟨by simpa [applyOpG, excsOf] using h1, by simpa [patsOf] using h2⟩

/-- A history whose loads all come before its exception inserts (queries anywhere) leaves
exactly `cBuild (patterns loaded) (exceptions inserted)`. -/
theorem history_state (A B : List Op) (hA : ∀ o ∈ A, o.isExc = false)
    (hB : ∀ o ∈ B, o.isLoad = false) :
    (A ++ B).foldl (applyOpG true) {} = cBuild (patsOf (A ++ B)) (excsOf (A ++ B)) := by
  obtain ⟨a1, a2⟩ := fold_loads A hA {}
  obtain ⟨b1, b2⟩ := fold_excs B hB ((patsOf A).foldl cLoadPattern {})
  rw [List.foldl_append, a1, b1, patsOf_append, excsOf_append, a2, b2]
  simp [cBuild]

end C13
