import TexcraftModel.Model.C05Text
import TexcraftModel.Lemmas.C05Sem

/-! # C05 — lemmas about the text preprocessor model -/
namespace C05

theorem nodesOf_noGlue (font : Nat) (it : Item) : ∀ n ∈ nodesOf font it, n ≠ HNode.glue := by
  intro n hn
  cases it with
  | ch c => simp only [nodesOf] at hn; split at hn <;> simp at hn <;> rcases hn with rfl | rfl <;> simp
  | kern k => simp [nodesOf] at hn; subst hn; simp
  | lig c o lb rb =>
    simp only [nodesOf] at hn; split at hn <;> simp at hn <;> rcases hn with rfl | rfl <;> simp

theorem addWord_noGlue (p : Program) (font : Nat) (w : List Nat) :
    ∀ n ∈ addWord p font w, n ≠ HNode.glue := by
  intro n hn
  simp only [addWord, List.mem_flatMap] at hn
  obtain ⟨it, _, h⟩ := hn
  exact nodesOf_noGlue font it n h

theorem cut_append_noGlue (l r : List HNode) (h : ∀ n ∈ l, n ≠ HNode.glue) (s : List HNode)
    (ss : List (List HNode)) (hr : cutAtGlue r = s :: ss) : cutAtGlue (l ++ r) = (l ++ s) :: ss := by
  induction l with
  | nil => simpa using hr
  | cons x t ih =>
    have ht := ih (fun n hn => h n (List.mem_cons_of_mem _ hn))
    have hx : x ≠ HNode.glue := h x (List.mem_cons_self ..)
    cases x with
    | glue => exact absurd rfl hx
    | ch c f => simp [cutAtGlue, ht]
    | lig c f o lb rb => simp [cutAtGlue, ht]
    | kern k => simp [cutAtGlue, ht]
    | disc => simp [cutAtGlue, ht]

theorem cut_addWords_true (p : Program) (font : Nat) : ∀ ws : List (List Nat),
    cutAtGlue (addWords p font true ws) = [] :: ws.map (addWord p font) := by
  intro ws
  induction ws with
  | nil => rfl
  | cons w rest ih =>
    simp only [addWords, if_true, List.cons_append, List.nil_append, List.append_assoc, cutAtGlue, List.map_cons]
    rw [cut_append_noGlue _ _ (addWord_noGlue p font w) _ _ ih]
    simp

theorem cut_addWords_false (p : Program) (font : Nat) (w : List Nat) (rest : List (List Nat)) :
    cutAtGlue (addWords p font false (w :: rest)) = (w :: rest).map (addWord p font) := by
  simp only [addWords, Bool.false_eq_true, if_false, List.nil_append, List.map_cons]
  rw [cut_append_noGlue _ _ (addWord_noGlue p font w) _ _ (cut_addWords_true p font rest)]
  simp

theorem splitWs_ne_nil_of_head (c : Nat) (t : List Nat) (h : isWs c = false) : splitWs (c :: t) ≠ [] := by
  cases t with
  | nil => simp [splitWs, h]
  | cons d t' =>
    cases hd : isWs d with
    | true => simp [splitWs, h, hd]
    | false =>
      simp only [splitWs, h, hd]
      cases hs : splitWs t' <;> simp_all [splitWs]
      all_goals (split <;> simp)

theorem splitWs_nonempty : ∀ (t : List Nat), ∀ w ∈ splitWs t, w ≠ [] := by
  intro t
  induction t with
  | nil => intro w hw; simp [splitWs] at hw
  | cons c t ih =>
    intro w hw
    simp only [splitWs] at hw
    split at hw
    · exact ih w hw
    · cases t with
      | nil => simp at hw; subst hw; simp
      | cons d t' =>
        simp only [] at hw
        split at hw
        · rcases List.mem_cons.mp hw with rfl | hw
          · simp
          · exact ih w hw
        · split at hw
          · rename_i w0 ws0 hs
            rcases List.mem_cons.mp hw with rfl | hw
            · simp
            · exact ih w (by rw [hs]; exact List.mem_cons_of_mem _ hw)
          · simp at hw; subst hw; simp

theorem nodesOf_glyph (font : Nat) (it : Item) : (nodesOf font it).flatMap HNode.glyph = [it.glyph] := by
  cases it with
  | ch c => simp only [nodesOf]; split <;> simp [HNode.glyph, Item.glyph]
  | kern k => simp [nodesOf, HNode.glyph, Item.glyph]
  | lig c o lb rb => simp only [nodesOf]; split <;> simp [HNode.glyph, Item.glyph]

theorem addWord_glyphs (p : Program) (font : Nat) (w : List Nat) :
    (addWord p font w).flatMap HNode.glyph = glyphs (runM p w) := by
  simp only [addWord, glyphs]
  induction runM p w with
  | nil => rfl
  | cons it t ih => simp [List.flatMap_cons, List.flatMap_append, nodesOf_glyph, ih]

theorem addWord_fonts (p : Program) (font : Nat) (w : List Nat) :
    ∀ n ∈ addWord p font w, n.fontOk font = true := by
  intro n hn
  simp only [addWord, List.mem_flatMap] at hn
  obtain ⟨it, _, h⟩ := hn
  cases it with
  | ch c => simp only [nodesOf] at h; split at h <;> simp at h <;> rcases h with rfl | rfl <;> simp [HNode.fontOk]
  | kern k => simp [nodesOf] at h; subst h; simp [HNode.fontOk]
  | lig c o lb rb =>
    simp only [nodesOf] at h; split at h <;> simp at h <;> rcases h with rfl | rfl <;> simp [HNode.fontOk]

end C05
