import TexcraftModel.Lemmas.C17Cover
import TexcraftModel.Lemmas.C17Scaled
/-! Lemmas for `compress_spec` (C17): the candidate pass, the binary search and the final loop
of the model `compress` against `CompressSpec`. -/
namespace C17

/-- A class: non-empty, every member within `δ` of the first. -/
def ClsOK (δ : Int) (cls : List Int) : Prop := ∃ f t, cls = f :: t ∧ ∀ v ∈ cls, v - f ≤ δ

theorem ClsOK.mono {δ δ' : Int} {cls : List Int} (h : ClsOK δ cls) (hd : δ ≤ δ') : ClsOK δ' cls := by
  obtain ⟨f, t, e, hv⟩ := h
  exact ⟨f, t, e, fun v hm => by have := hv v hm; omega⟩

/-- A solution for tolerance `δ`: consecutive non-empty classes of diameter ≤ `δ`, at most `maxSize`. -/
def ValidSol (vals : List Int) (maxSize : Nat) (sol : List (List Int)) (δ : Int) : Prop :=
  sol.flatten = vals ∧ sol.length ≤ maxSize ∧ ∀ cls ∈ sol, ClsOK δ cls

/-- `delta < x` is never a solution. -/
def Below (vals : List Int) (maxSize : Nat) (x : Int) : Prop :=
  ∀ δ', 0 ≤ δ' → δ' < x → greedyCount δ' vals > maxSize

/-! ### The candidate pass -/

theorem pass_sol (δ : Int) (maxSize : Nat) : ∀ (l : List Int) (start dlo dhi : Int) (cur' : List Int)
    (done cls : List (List Int)) (dlo' : Int),
    passLoop δ maxSize l start dlo dhi (start :: cur') done = .sol cls dlo' →
    0 ≤ dlo → dlo ≤ δ → (∀ v ∈ start :: cur', v - start ≤ dlo) → (∀ c ∈ done, ClsOK dlo c) →
    cls.flatten = done.flatten ++ (start :: cur') ++ l ∧ cls.length ≤ maxSize ∧
      (∀ c ∈ cls, ClsOK dlo' c) ∧ 0 ≤ dlo' ∧ dlo' ≤ δ := by
  intro l
  induction l with
  | nil =>
    intro start dlo dhi cur' done cls dlo' h h0 h1 hc hd
    simp only [passLoop] at h
    split at h
    · rename_i hlen
      simp only [PassRes.sol.injEq] at h
      obtain ⟨rfl, rfl⟩ := h
      refine ⟨by simp, by simpa using hlen, ?_, h0, h1⟩
      intro c hc'
      rcases List.mem_append.1 hc' with h | h
      · exact hd c h
      · simp only [List.mem_singleton] at h
        subst h
        exact ⟨start, cur', rfl, hc⟩
    · simp at h
  | cons v t ih =>
    intro start dlo dhi cur' done cls dlo' h h0 h1 hc hd
    simp only [passLoop] at h
    split at h
    · rename_i hgap
      split at h
      · simp at h
      · obtain ⟨a, b, c, d, e⟩ := ih v dlo _ [] (done ++ [start :: cur']) cls dlo' h h0 h1
          (by intro x hx; simp only [List.mem_singleton] at hx; subst hx; omega)
          (by
            intro c hc'
            rcases List.mem_append.1 hc' with h | h
            · exact hd c h
            · simp only [List.mem_singleton] at h
              subst h
              exact ⟨start, cur', rfl, hc⟩)
        exact ⟨by simp [a], b, c, d, e⟩
    · rename_i hgap
      have hd0 : dlo ≤ (if v - start > dlo then v - start else dlo) := by split <;> omega
      obtain ⟨a, b, c, d, e⟩ := ih start (if v - start > dlo then v - start else dlo) dhi
          (cur' ++ [v]) done cls dlo' (by simpa using h) (by omega) (by split <;> omega)
          (by
            intro x hx
            simp only [List.mem_cons, List.mem_append, List.not_mem_nil, or_false] at hx
            rcases hx with rfl | hx | rfl
            · omega
            · have := hc x (by simp [hx]); omega
            · split <;> omega)
          (fun c hc' => (hd c hc').mono hd0)
      exact ⟨by simp [a], b, c, d, e⟩

theorem pass_fail_count (δ : Int) (maxSize : Nat) : ∀ (l : List Int) (start dlo dhi : Int) (cur : List Int)
    (done : List (List Int)) (dhi' : Int),
    passLoop δ maxSize l start dlo dhi cur done = .fail dhi' →
    done.length + 1 + (greedyStarts δ (start + δ) l).length > maxSize := by
  intro l
  induction l with
  | nil =>
    intro start dlo dhi cur done dhi' h
    simp only [passLoop] at h
    split at h
    · simp at h
    · simp [greedyStarts]; omega
  | cons v t ih =>
    intro start dlo dhi cur done dhi' h
    simp only [passLoop] at h
    split at h
    · rename_i hgap
      have hv : v > start + δ := by omega
      simp only [greedyStarts, hv, if_true, List.length_cons]
      split at h
      · rename_i hb
        simp only [List.length_append, List.length_singleton] at hb
        omega
      · have := ih v dlo _ [v] (done ++ [cur]) dhi' h
        simp only [List.length_append, List.length_singleton] at this
        omega
    · rename_i hgap
      have hv : ¬ v > start + δ := by omega
      simp only [greedyStarts, hv, if_false]
      exact ih start _ dhi (cur ++ [v]) done dhi' h

theorem pass_dhi (δ : Int) (maxSize : Nat) : ∀ (l : List Int) (start dlo dhi : Int) (cur : List Int)
    (done : List (List Int)) (dhi' : Int),
    passLoop δ maxSize l start dlo dhi cur done = .fail dhi' → dhi' ≤ dhi ∧ (δ < dhi → δ < dhi') := by
  intro l
  induction l with
  | nil =>
    intro start dlo dhi cur done dhi' h
    simp only [passLoop] at h
    split at h
    · simp at h
    · simp only [PassRes.fail.injEq] at h; subst h; exact ⟨Int.le_refl _, id⟩
  | cons v t ih =>
    intro start dlo dhi cur done dhi' h
    simp only [passLoop] at h
    split at h
    · rename_i hgap
      split at h
      · simp only [PassRes.fail.injEq] at h
        subst h
        constructor
        · split <;> omega
        · intro _; split <;> omega
      · obtain ⟨a, b⟩ := ih v dlo _ [v] (done ++ [cur]) dhi' h
        constructor
        · have : (if v - start < dhi then v - start else dhi) ≤ dhi := by split <;> omega
          omega
        · intro hd; apply b; split <;> omega
    · exact ih start _ dhi (cur ++ [v]) done dhi' h

/-- Between `δ` and the returned `delta_upper` every tolerance makes exactly the same choices. -/
theorem pass_same (δ δ' : Int) (maxSize : Nat) (hδ : δ ≤ δ') : ∀ (l : List Int) (start dlo dhi : Int)
    (cur : List Int) (done : List (List Int)) (dhi' : Int),
    passLoop δ maxSize l start dlo dhi cur done = .fail dhi' → δ' < dhi' →
    passLoop δ' maxSize l start dlo dhi cur done = .fail dhi' := by
  intro l
  induction l with
  | nil =>
    intro start dlo dhi cur done dhi' h _
    simpa [passLoop] using h
  | cons v t ih =>
    intro start dlo dhi cur done dhi' h hlt
    simp only [passLoop] at h ⊢
    split at h
    · rename_i hgap
      have hmin : (if v - start < dhi then v - start else dhi) ≤ v - start := by split <;> omega
      split at h
      · rename_i hb
        simp only [PassRes.fail.injEq] at h
        have hg' : v - start > δ' := by omega
        simp only [hg', if_true, hb, h]
      · rename_i hb
        have := (pass_dhi δ maxSize t v dlo _ [v] (done ++ [cur]) dhi' h).1
        have hg' : v - start > δ' := by omega
        simp only [hg', if_true, hb, if_false]
        exact ih v dlo _ [v] (done ++ [cur]) dhi' h hlt
    · rename_i hgap
      have hg' : ¬ v - start > δ' := by omega
      simp only [hg', if_false]
      exact ih start _ dhi (cur ++ [v]) done dhi' h hlt

/-! ### The pass from the top (`vals = first :: t`) -/

theorem pass_top (δ : Int) (hδ : 0 ≤ δ) (maxSize : Nat) (first : Int) (t : List Int) (maxDelta : Int) :
    passLoop δ maxSize (first :: t) first 0 maxDelta [] [] =
      passLoop δ maxSize t first 0 maxDelta [first] [] := by
  have e : first - first = 0 := by omega
  have h : ¬ (0 : Int) > δ := by omega
  have h2 : ¬ (0 : Int) > 0 := by omega
  simp only [passLoop, e, h, h2, if_false, List.nil_append]

theorem top_sol (δ : Int) (hδ : 0 ≤ δ) (maxSize : Nat) (first : Int) (t : List Int) (maxDelta : Int)
    (cls : List (List Int)) (dlo' : Int)
    (h : passLoop δ maxSize (first :: t) first 0 maxDelta [] [] = .sol cls dlo') :
    ValidSol (first :: t) maxSize cls dlo' ∧ 0 ≤ dlo' ∧ dlo' ≤ δ := by
  rw [pass_top δ hδ] at h
  obtain ⟨a, b, c, d, e⟩ := pass_sol δ maxSize t first 0 maxDelta [] [] cls dlo' h (Int.le_refl 0) hδ
    (by intro v hv; simp only [List.mem_singleton] at hv; subst hv; omega) (by simp)
  exact ⟨⟨by simpa using a, b, c⟩, d, e⟩

theorem top_fail (δ : Int) (hδ : 0 ≤ δ) (maxSize : Nat) (first : Int) (t : List Int) (maxDelta : Int)
    (hmd : δ < maxDelta) (dhi' : Int)
    (h : passLoop δ maxSize (first :: t) first 0 maxDelta [] [] = .fail dhi') :
    δ < dhi' ∧ ∀ δ', δ ≤ δ' → δ' < dhi' → greedyCount δ' (first :: t) > maxSize := by
  refine ⟨(pass_dhi δ maxSize _ first 0 maxDelta [] [] dhi' h).2 hmd, ?_⟩
  intro δ' h1 h2
  have h' := pass_same δ δ' maxSize h1 _ first 0 maxDelta [] [] dhi' h h2
  rw [pass_top δ' (by omega)] at h'
  have := pass_fail_count δ' maxSize t first 0 maxDelta [first] [] dhi' h'
  simp only [greedyCount, List.length_nil] at this ⊢
  omega

/-! ### The binary search -/

theorem search_spec (first : Int) (t : List Int) (hs : (first :: t).Pairwise (· ≤ ·)) (maxDelta : Int)
    (maxSize : Nat) : ∀ (n : Nat) (lower upper : Int) (sol : List (List Int)),
    0 ≤ lower → 0 ≤ upper → upper ≤ maxDelta → Below (first :: t) maxSize lower →
    ValidSol (first :: t) maxSize sol upper → upper - lower < 2 ^ n →
    ∃ δ, 0 ≤ δ ∧ ValidSol (first :: t) maxSize
      (searchLoop (first :: t) first maxDelta maxSize n lower upper sol) δ ∧
      Below (first :: t) maxSize δ := by
  intro n
  induction n with
  | zero =>
    intro lower upper sol _ h1 _ hB hV hw
    simp only [searchLoop]
    exact ⟨upper, h1, hV, fun δ' a b => hB δ' a (by simp at hw; omega)⟩
  | succ n ih =>
    intro lower upper sol h0 h1 h2 hB hV hw
    simp only [searchLoop]
    have hp : (2 : Int) ^ (n + 1) = 2 * 2 ^ n := by rw [Int.pow_succ]; omega
    rw [hp] at hw
    split
    · rename_i hlt
      have hnn : 0 ≤ upper - lower := by omega
      rw [Int.tdiv_eq_ediv_of_nonneg hnn]
      have hδ0 : 0 ≤ lower + (upper - lower) / 2 := by omega
      cases hpass : passLoop (lower + (upper - lower) / 2) maxSize (first :: t) first 0 maxDelta [] [] with
      | sol cls dlo =>
        simp only
        obtain ⟨a, b, c⟩ := top_sol _ hδ0 maxSize first t maxDelta cls dlo hpass
        exact ih lower dlo cls h0 b (by omega) hB a (by omega)
      | fail dhi =>
        simp only
        obtain ⟨a, b⟩ := top_fail _ hδ0 maxSize first t maxDelta (by omega) dhi hpass
        refine ih dhi upper sol (by omega) h1 h2 ?_ hV (by omega)
        intro δ' d0 d1
        by_cases hle : δ' ≤ lower + (upper - lower) / 2
        · have hm := greedyCount_mono δ' (lower + (upper - lower) / 2) d0 hle (first :: t) hs
          have := b (lower + (upper - lower) / 2) (Int.le_refl _) a
          omega
        · exact b δ' (by omega) d1
    · rename_i hge
      exact ⟨upper, h1, hV, fun δ' a b => hB δ' a (by omega)⟩

/-! ### The final loop -/

theorem lookup_map_mem (cls : List Int) (idx : Nat) (m : List (Int × Nat)) (v : Int) (h : v ∈ cls) :
    lookupIdx (cls.map (fun w => (w, idx)) ++ m) v = some idx := by
  induction cls with
  | nil => simp at h
  | cons a t ih =>
    simp only [List.map_cons, List.cons_append, lookupIdx]
    split
    · rfl
    · rename_i hne
      rcases List.mem_cons.1 h with h | h
      · exact absurd h.symm hne
      · exact ih h

theorem lookup_map_not_mem (cls : List Int) (idx : Nat) (m : List (Int × Nat)) (v : Int) (h : v ∉ cls) :
    lookupIdx (cls.map (fun w => (w, idx)) ++ m) v = lookupIdx m v := by
  induction cls with
  | nil => simp
  | cons a t ih =>
    simp only [List.map_cons, List.cons_append, lookupIdx]
    have hne : ¬ a = v := fun e => h (by simp [e])
    simp only [hne, if_false]
    exact ih (fun hm => h (List.mem_cons_of_mem _ hm))

theorem le_getLast (l : List Int) (hs : l.Pairwise (· ≤ ·)) (x : Int) (hx : l.getLast? = some x) :
    ∀ v ∈ l, v ≤ x := by
  obtain ⟨ys, rfl⟩ := List.getLast?_eq_some_iff.1 hx
  intro v hv
  rcases List.mem_append.1 hv with h | h
  · exact (List.pairwise_append.1 hs).2.2 v h x (by simp)
  · simp only [List.mem_singleton] at h; subst h; exact Int.le_refl _

theorem tdiv2_near (f l v δ : Int) (h1 : f ≤ v) (h2 : v ≤ l) (h3 : l - f ≤ δ) :
    2 * absI (v - Int.tdiv (l + f) 2) ≤ δ + δ % 2 := by
  by_cases hs : 0 ≤ l + f
  · rw [Int.tdiv_eq_ediv_of_nonneg hs]
    simp only [absI]; split <;> omega
  · have e : Int.tdiv (l + f) 2 = -((-(l + f)) / 2) := by
      have := Int.neg_tdiv (-(l + f)) 2
      rw [Int.neg_neg] at this
      rw [this, Int.tdiv_eq_ediv_of_nonneg (by omega)]
    rw [e]
    simp only [absI]; split <;> omega

theorem tdiv2_between (f l : Int) (h : f ≤ l) : f ≤ Int.tdiv (l + f) 2 ∧ Int.tdiv (l + f) 2 ≤ l := by
  by_cases hs : 0 ≤ l + f
  · rw [Int.tdiv_eq_ediv_of_nonneg hs]; omega
  · have e : Int.tdiv (l + f) 2 = -((-(l + f)) / 2) := by
      have := Int.neg_tdiv (-(l + f)) 2
      rw [Int.neg_neg] at this
      rw [this, Int.tdiv_eq_ediv_of_nonneg (by omega)]
    rw [e]; omega

/-- The representative the code chooses, `(last + first) / 2` (truncating), is a best integer
centre of the interval: its largest distance to a member is at most that of any integer `r`. -/
theorem rep_minimax (f l v r : Int) (h1 : f ≤ v) (h2 : v ≤ l) :
    absI (v - Int.tdiv (l + f) 2) ≤ absI (f - r) ∨ absI (v - Int.tdiv (l + f) 2) ≤ absI (l - r) := by
  by_cases hs : 0 ≤ l + f
  · rw [Int.tdiv_eq_ediv_of_nonneg hs]
    simp only [absI]; repeat' split <;> omega
  · have e : Int.tdiv (l + f) 2 = -((-(l + f)) / 2) := by
      have := Int.neg_tdiv (-(l + f)) 2
      rw [Int.neg_neg] at this
      rw [this, Int.tdiv_eq_ediv_of_nonneg (by omega)]
    rw [e]
    simp only [absI]; repeat' split <;> omega

/-- Two values an odd distance apart have no integer within half that distance of both. -/
theorem no_half_when_odd (f l r : Int) (hodd : (l - f) % 2 = 1) :
    ¬ (2 * absI (f - r) ≤ l - f ∧ 2 * absI (l - r) ≤ l - f) := by
  simp only [absI]; repeat' split <;> omega

/-- The final loop on a list of classes that are sorted, non-empty, of diameter ≤ `δ`, with
members that are `i32`s: the midpoint is an `i32`, one representative per class, every member mapped to
its class and close to the representative. -/
theorem emit_spec (δ : Int) : ∀ (sol : List (List Int)) (idx : Nat),
    (∀ cls ∈ sol, ClsOK δ cls ∧ cls.Pairwise (· ≤ ·) ∧ ∀ v ∈ cls, -2147483648 ≤ v ∧ v ≤ 2147483647) →
    ∃ reps m, emit sol idx = some (reps, m) ∧ reps.length = sol.length ∧
      ∀ v ∈ sol.flatten, ∃ k rep, lookupIdx m v = some (idx + k) ∧ reps[k]? = some rep ∧
        2 * absI (v - rep) ≤ δ + δ % 2 := by
  intro sol
  induction sol with
  | nil => intro idx _; exact ⟨[], [], by simp [emit], rfl, by simp⟩
  | cons cls rest ih =>
    intro idx h
    obtain ⟨⟨f, t, hcls, hdiam⟩, hsorted, hb⟩ := h cls (by simp)
    obtain ⟨reps', m', e1, e2, e3⟩ := ih (idx + 1) (fun c hc => h c (List.mem_cons_of_mem _ hc))
    have hne : cls ≠ [] := by rw [hcls]; simp
    obtain ⟨l, hl⟩ : ∃ l, cls.getLast? = some l := by
      cases hg : cls.getLast? with
      | none => simp [List.getLast?_eq_none_iff] at hg; exact absurd hg hne
      | some l => exact ⟨l, rfl⟩
    have hlmem : l ∈ cls := List.mem_of_getLast? hl
    have hfmem : f ∈ cls := by rw [hcls]; simp
    have hhead : cls.head? = some f := by rw [hcls]; rfl
    have hfl : f ≤ l := by
      rw [hcls] at hsorted hlmem
      rcases List.mem_cons.1 hlmem with h | h
      · omega
      · exact (List.pairwise_cons.1 hsorted).1 l h
    have hbt := tdiv2_between f l hfl
    have hchk : chk (Int.tdiv (l + f) 2) = some (Int.tdiv (l + f) 2) :=
      chk_ok _ (by have := hb f hfmem; omega) (by have := hb l hlmem; omega)
    refine ⟨Int.tdiv (l + f) 2 :: reps', cls.map (fun v => (v, idx)) ++ m', ?_, by simp [e2], ?_⟩
    · simp only [emit, hhead, hl, hchk, e1]
    · intro v hv
      simp only [List.flatten_cons, List.mem_append] at hv
      by_cases hvc : v ∈ cls
      · refine ⟨0, Int.tdiv (l + f) 2, by simpa using lookup_map_mem cls idx m' v hvc, by simp, ?_⟩
        have hfv : f ≤ v := by
          rw [hcls] at hsorted hvc
          rcases List.mem_cons.1 hvc with rfl | hvt
          · exact Int.le_refl _
          · exact (List.pairwise_cons.1 hsorted).1 v hvt
        exact tdiv2_near f l v δ hfv (le_getLast cls hsorted l hl v hvc) (hdiam l hlmem)
      · have hvr : v ∈ rest.flatten := by
          rcases hv with h | h
          · exact absurd h hvc
          · exact h
        obtain ⟨k, rep, a, b, c⟩ := e3 v hvr
        refine ⟨k + 1, rep, ?_, by simpa using b, c⟩
        rw [lookup_map_not_mem cls idx m' v hvc, a]
        congr 1; omega

theorem idxFrom_spec : ∀ (vals : List Int) (k : Nat) (v : Int), v ∈ vals →
    ∃ j, lookupIdx (idxFrom k vals) v = some (k + j) ∧ vals[j]? = some v := by
  intro vals
  induction vals with
  | nil => intro k v h; simp at h
  | cons a t ih =>
    intro k v h
    simp only [idxFrom, lookupIdx]
    by_cases e : a = v
    · exact ⟨0, by simp [e], by simp [e]⟩
    · rcases List.mem_cons.1 h with h | h
      · exact absurd h.symm e
      · obtain ⟨j, a1, a2⟩ := ih (k + 1) v h
        refine ⟨j + 1, ?_, by simpa using a2⟩
        simp only [e, if_false, a1]
        congr 1; omega

/-! ### The tolerance is attained -/

theorem emit_same_class : ∀ (sol : List (List Int)) (idx : Nat) (reps : List Int) (m : List (Int × Nat)),
    sol.flatten.Nodup → emit sol idx = some (reps, m) →
    ∀ cls ∈ sol, ∀ v ∈ cls, ∀ w ∈ cls, lookupIdx m v = lookupIdx m w := by
  intro sol
  induction sol with
  | nil => intro idx reps m _ _ cls hc; simp at hc
  | cons c0 rest ih =>
    intro idx reps m hn he cls hc v hv w hw
    simp only [emit] at he
    cases hh : c0.head? with
    | none => simp [hh] at he
    | some f =>
      cases hl : c0.getLast? with
      | none => simp [hh, hl] at he
      | some l =>
        simp only [hh, hl] at he
        cases hk : chk (Int.tdiv (l + f) 2) with
        | none => simp [hk] at he
        | some r =>
          cases hr : emit rest (idx + 1) with
          | none => simp [hk, hr] at he
          | some rm =>
            obtain ⟨reps', m'⟩ := rm
            simp only [hk, hr, Option.some.injEq, Prod.mk.injEq] at he
            obtain ⟨_, rfl⟩ := he
            simp only [List.flatten_cons] at hn
            have hn' := List.nodup_append.1 hn
            rcases List.mem_cons.1 hc with rfl | hc
            · rw [lookup_map_mem _ _ _ _ hv, lookup_map_mem _ _ _ _ hw]
            · have hvf : v ∈ rest.flatten := List.mem_flatten.2 ⟨cls, hc, hv⟩
              have hwf : w ∈ rest.flatten := List.mem_flatten.2 ⟨cls, hc, hw⟩
              have hv0 : v ∉ c0 := fun h => hn'.2.2 v h v hvf rfl
              have hw0 : w ∉ c0 := fun h => hn'.2.2 w h w hwf rfl
              rw [lookup_map_not_mem _ _ _ _ hv0, lookup_map_not_mem _ _ _ _ hw0]
              exact ih (idx + 1) reps' m' hn'.2.1 hr cls hc v hv w hw

theorem tol_attained (vals : List Int) (maxSize : Nat) (sol : List (List Int)) (δ : Int)
    (hs : vals.Pairwise (· ≤ ·)) (hV : ValidSol vals maxSize sol δ) (hB : Below vals maxSize δ)
    (hδ : 0 < δ) : ∃ cls ∈ sol, ∃ f t, cls = f :: t ∧ ∃ w ∈ cls, w - f = δ := by
  apply Classical.byContradiction
  intro hno
  obtain ⟨f1, f2, f3⟩ := hV
  have hcov : Covers (δ - 1) (sol.map (fun c => c.headD 0)) vals := by
    intro v hv
    rw [← f1] at hv
    obtain ⟨cls, hc, hvc⟩ := List.mem_flatten.1 hv
    obtain ⟨f, t, hcls, hd⟩ := f3 cls hc
    have hsorted : cls.Pairwise (· ≤ ·) :=
      List.Pairwise.sublist (List.sublist_flatten_of_mem hc) (by rw [f1]; exact hs)
    have hfv : f ≤ v := by
      rw [hcls] at hsorted hvc
      rcases List.mem_cons.1 hvc with rfl | h
      · exact Int.le_refl _
      · exact (List.pairwise_cons.1 hsorted).1 v h
    have hne : v - f ≠ δ := fun e => hno ⟨cls, hc, f, t, hcls, v, hvc, e⟩
    have := hd v hvc
    refine ⟨f, List.mem_map.2 ⟨cls, hc, by rw [hcls]; rfl⟩, hfv, by omega⟩
  have h1 := greedyCount_le_cover (δ - 1) vals _ hcov
  have h2 := hB (δ - 1) (by omega) (by omega)
  simp only [List.length_map] at h1
  omega

/-! ### The map has no other keys than the input values -/

theorem emit_keys : ∀ (sol : List (List Int)) (idx : Nat) (reps : List Int) (m : List (Int × Nat)),
    emit sol idx = some (reps, m) → ∀ v, v ∉ sol.flatten → lookupIdx m v = none := by
  intro sol
  induction sol with
  | nil =>
    intro idx reps m he v _
    simp only [emit, Option.some.injEq, Prod.mk.injEq] at he
    rw [← he.2]; rfl
  | cons c0 rest ih =>
    intro idx reps m he v hv
    simp only [emit] at he
    cases hh : c0.head? with
    | none => simp [hh] at he
    | some f =>
      cases hl : c0.getLast? with
      | none => simp [hh, hl] at he
      | some l =>
        simp only [hh, hl] at he
        cases hk : chk (Int.tdiv (l + f) 2) with
        | none => simp [hk] at he
        | some r =>
          cases hr : emit rest (idx + 1) with
          | none => simp [hk, hr] at he
          | some rm =>
            obtain ⟨reps', m'⟩ := rm
            simp only [hk, hr, Option.some.injEq, Prod.mk.injEq] at he
            obtain ⟨_, rfl⟩ := he
            simp only [List.flatten_cons, List.mem_append, not_or] at hv
            rw [lookup_map_not_mem _ _ _ _ hv.1]
            exact ih (idx + 1) reps' m' hr v hv.2

theorem idxFrom_keys : ∀ (vals : List Int) (k : Nat) (v : Int), v ∉ vals →
    lookupIdx (idxFrom k vals) v = none := by
  intro vals
  induction vals with
  | nil => intro k v _; rfl
  | cons a t ih =>
    intro k v hv
    simp only [List.mem_cons, not_or] at hv
    have : ¬ a = v := fun e => hv.1 e.symm
    simp only [idxFrom, lookupIdx, this, if_false]
    exact ih (k + 1) v hv.2

/-! ### Assembly -/

theorem compress_meets_spec_strong (values : List Int) (maxSize : Nat) (hmax : 1 ≤ maxSize)
    (hr : ∀ v ∈ values, -2147483648 ≤ v ∧ v ≤ 2147483647) :
    ∃ table m δ, compress values maxSize = .ok (table, m) ∧ 0 ≤ δ ∧
      CompressSpecAt values maxSize table m δ ∧ Attained values m δ ∧
      (∀ v, v ∉ values → lookupIdx m v = none) := by
  have hsl := dedupSort_sorted values
  have hs : (dedupSort values).Pairwise (· ≤ ·) := hsl.imp (fun h => by omega)
  have hb : ∀ v ∈ dedupSort values, -2147483648 ≤ v ∧ v ≤ 2147483647 :=
    fun v hv => hr v ((mem_dedupSort v values).1 hv)
  by_cases hlen : (dedupSort values).length ≤ maxSize
  · refine ⟨0 :: dedupSort values, idxFrom 1 (dedupSort values), 0, by simp [compress, hlen],
      Int.le_refl 0, ?_, Or.inl rfl,
      fun v hv => idxFrom_keys _ 1 v (fun h => hv ((mem_dedupSort v values).1 h))⟩
    refine ⟨⟨rfl, by simpa using hlen⟩, ?_, ?_⟩
    · intro v hv
      obtain ⟨j, a1, a2⟩ := idxFrom_spec (dedupSort values) 1 v ((mem_dedupSort v values).2 hv)
      refine ⟨1 + j, v, a1, by omega, ?_, by simp [absI]⟩
      have : 1 + j = j + 1 := by omega
      rw [this]; simpa using a2
    · intro δ' C h0 h1; omega
  · cases hv : dedupSort values with
    | nil => simp [hv] at hlen
    | cons first t =>
      rw [hv] at hs hb hlen
      obtain ⟨last, hl⟩ : ∃ l, (first :: t).getLast? = some l := by
        simp [List.getLast?_cons]
      have hlmem : last ∈ first :: t := List.mem_of_getLast? hl
      have hle := le_getLast (first :: t) hs last hl
      have hfl : first ≤ last := hle first (by simp)
      have hV0 : ValidSol (first :: t) maxSize [first :: t] (last - first) :=
        ⟨by simp, by simpa using hmax, by
          intro c hc
          simp only [List.mem_singleton] at hc
          subst hc
          exact ⟨first, t, rfl, fun v hv => by have := hle v hv; omega⟩⟩
      obtain ⟨δ, d0, ⟨f1, f2, f3⟩, hB⟩ := search_spec first t hs (last - first) maxSize 64 0 (last - first)
        [first :: t] (Int.le_refl 0) (by omega) (Int.le_refl _) (fun δ' a b => by omega) hV0
        (by have := hb last hlmem; have := hb first (by simp); omega)
      obtain ⟨reps, m, e1, e2, e3⟩ := emit_spec δ
        (searchLoop (first :: t) first (last - first) maxSize 64 0 (last - first) [first :: t]) 1
        (fun cls hc => ⟨f3 cls hc,
          List.Pairwise.sublist (List.sublist_flatten_of_mem hc) (by rw [f1]; exact hs),
          fun v hvc => hb v (by rw [← f1]; exact (List.sublist_flatten_of_mem hc).subset hvc)⟩)
      refine ⟨0 :: reps, m, δ, ?_, d0, ?_, ?_, ?_⟩
      · have hh : (first :: t).head? = some first := rfl
        simp only [compress, hv, hlen, if_false, hh, hl, e1]
      · refine ⟨⟨rfl, by simp only [List.length_cons]; omega⟩, ?_, ?_⟩
        · intro v hvv
          have hvm : v ∈ first :: t := by rw [← hv]; exact (mem_dedupSort v values).2 hvv
          obtain ⟨k, rep, a, b, c⟩ := e3 v (by rw [f1]; exact hvm)
          refine ⟨1 + k, rep, a, by omega, ?_, c⟩
          have : 1 + k = k + 1 := by omega
          rw [this]; simpa using b
        · intro δ' C h0 h1 hC hcov
          have h2 : Covers δ' C (first :: t) := by
            intro v hvm
            exact hcov v ((mem_dedupSort v values).1 (by rw [hv]; exact hvm))
          have := greedyCount_le_cover δ' _ C h2
          have := hB δ' h0 h1
          omega
      · by_cases hδ0 : δ = 0
        · exact Or.inl hδ0
        · right
          obtain ⟨cls, hc, f, t', hcls, w, hw, hwf⟩ := tol_attained (first :: t) maxSize _ δ hs
            ⟨f1, f2, f3⟩ hB (by omega)
          have hfm : f ∈ cls := by rw [hcls]; simp
          have hmemv : ∀ x ∈ cls, x ∈ values := by
            intro x hx
            have : x ∈ first :: t := by rw [← f1]; exact List.mem_flatten.2 ⟨cls, hc, hx⟩
            exact (mem_dedupSort x values).1 (by rw [hv]; exact this)
          have hnd : (searchLoop (first :: t) first (last - first) maxSize 64 0 (last - first)
              [first :: t]).flatten.Nodup := by
            rw [f1, ← hv, List.nodup_iff_pairwise_ne]
            exact hsl.imp (fun h => by omega)
          exact ⟨f, hmemv f hfm, w, hmemv w hw, hwf,
            emit_same_class _ 1 reps m hnd e1 cls hc f hfm w hw⟩
      · intro v hvv
        apply emit_keys _ 1 reps m e1 v
        rw [f1, ← hv]
        exact fun h => hvv ((mem_dedupSort v values).1 h)

theorem compress_meets_spec (values : List Int) (maxSize : Nat) (hmax : 1 ≤ maxSize)
    (hr : ∀ v ∈ values, -2147483648 ≤ v ∧ v ≤ 2147483647) :
    ∃ table m, compress values maxSize = .ok (table, m) ∧ CompressSpec values maxSize table m := by
  obtain ⟨table, m, δ, h1, h2, h3, _, _⟩ := compress_meets_spec_strong values maxSize hmax hr
  exact ⟨table, m, h1, δ, h2, h3⟩

end C17
