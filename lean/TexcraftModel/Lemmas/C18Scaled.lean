import TexcraftModel.Tables.C06All
import TexcraftModel.Model.C18

/-! C18: the hypothesis `ScaledRoundTrip` discharged from C06's kernel-evaluated table
`C06.fracOK_all` (all 65 536 fraction values): this file only bridges the two formulations of
TeX §102/§103 (C06: `Int`, zero-padded to 17 digits; C18: `Nat`, first 17 digits). -/
namespace C18

theorem fracDigitsAux_eq_printLoop : ∀ (k f delta : Nat),
    fracDigitsAux k f delta = C06.Spec.printLoop k f delta := by
  intro k
  induction k with
  | zero => intro f delta; rfl
  | succ k ih =>
    intro f delta
    simp only [fracDigitsAux, C06.Spec.printLoop]
    generalize (if delta > 65536 then f + 32768 - 50000 else f) = g
    rw [Nat.mul_comm 10 (g % 65536), ih]
    split <;> rfl

theorem rdAcc_eq : ∀ ds : List Nat,
    C06.rdAcc ds = ((ds.foldr (fun d a => (a + d * 131072) / 10) 0 : Nat) : Int) := by
  intro ds
  induction ds with
  | nil => rfl
  | cons d ds ih =>
    simp only [C06.rdAcc, List.foldr_cons, ih]
    omega

theorem rdAcc_pad (ds : List Nat) (n : Nat) : C06.rdAcc (ds ++ List.replicate n 0) = C06.rdAcc ds := by
  induction ds with
  | nil =>
    induction n with
    | zero => rfl
    | succ n ih => simp only [List.nil_append] at ih; simp [List.replicate_succ, C06.rdAcc, ih]
  | cons d ds ih => simp only [List.cons_append, C06.rdAcc, ih]

/-- TeX §102/§103: the decimal round trip of every fraction value, from C06's table. -/
theorem scaledRoundTrip : ScaledRoundTrip := by
  intro fp hfp
  have h := C06.fracOK_all fp hfp
  unfold C06.fracOK at h
  split at h
  · cases h
  · rename_i ds hds
    simp only [Bool.and_eq_true, decide_eq_true_eq, List.all_eq_true] at h
    obtain ⟨⟨⟨⟨h5, h1⟩, h10⟩, hrd⟩, hpl⟩ := h
    have e : fracDigits fp = ds := by
      unfold fracDigits
      rw [fracDigitsAux_eq_printLoop, Nat.mul_comm fp 10, hpl]
    rw [e]
    refine ⟨?_, ?_, ?_⟩
    · unfold fromDecimalDigits
      rw [List.take_of_length_le (by omega)]
      unfold C06.fromDecimalDigits C06.pad17 at hrd
      rw [rdAcc_pad, rdAcc_eq] at hrd
      omega
    · intro d hd; exact h10 d hd
    · intro hnil; rw [hnil] at h1; simp at h1

/-- The printer never writes more than five fraction digits (TeX §103). -/
theorem fracDigits_short (fp : Nat) (hfp : fp < 65536) : (fracDigits fp).length ≤ 5 := by
  have h := C06.fracOK_all fp hfp
  unfold C06.fracOK at h
  split at h
  · cases h
  · rename_i ds hds
    simp only [Bool.and_eq_true, decide_eq_true_eq, List.all_eq_true] at h
    obtain ⟨⟨⟨⟨h5, h1⟩, h10⟩, hrd⟩, hpl⟩ := h
    have e : fracDigits fp = ds := by
      unfold fracDigits
      rw [fracDigitsAux_eq_printLoop, Nat.mul_comm fp 10, hpl]
    rw [e]; exact h5

end C18
