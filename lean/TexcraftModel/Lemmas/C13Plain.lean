import TexcraftModel.Tables.C13Plain
import TexcraftModel.Lemmas.C13Main
import TexcraftModel.Lemmas.C13Equiv

/-! C13: the shipped plain TeX patterns satisfy the hypotheses of the property theorems
(well-formed, pairwise different letters+anchors, far fewer than 2^32 trie edges). The
"no duplicates" part is certified linearly: the keys are strictly increasing in file order. -/
namespace C13

def lexLt : List Nat → List Nat → Bool
  | [], [] => false
  | [], _ :: _ => true
  | _ :: _, [] => false
  | a :: as, b :: bs => decide (a < b) || (decide (a = b) && lexLt as bs)

theorem lexLt_irrefl (a : List Nat) : lexLt a a = false := by
  induction a with
  | nil => rfl
  | cons x xs ih => simp [lexLt, ih]

theorem lexLt_trans (a b c : List Nat) (h1 : lexLt a b = true) (h2 : lexLt b c = true) :
    lexLt a c = true := by
  induction a generalizing b c with
  | nil =>
    cases b with
    | nil => simp [lexLt] at h1
    | cons y ys =>
      cases c with
      | nil => simp [lexLt] at h2
      | cons z zs => rfl
  | cons x xs ih =>
    cases b with
    | nil => simp [lexLt] at h1
    | cons y ys =>
      cases c with
      | nil => simp [lexLt] at h2
      | cons z zs =>
        simp only [lexLt, Bool.or_eq_true, decide_eq_true_eq, Bool.and_eq_true] at h1 h2 ⊢
        rcases h1 with h1 | ⟨h1, h1'⟩ <;> rcases h2 with h2 | ⟨h2, h2'⟩
        · left; omega
        · left; omega
        · left; omega
        · right; exact ⟨by omega, ih ys zs h1' h2'⟩

def sortedChain : List (List Nat) → Bool
  | a :: b :: r => lexLt a b && sortedChain (b :: r)
  | _ => true

theorem sortedChain_lt (a : List Nat) (l : List (List Nat)) (h : sortedChain (a :: l) = true) :
    ∀ b ∈ l, lexLt a b = true := by
  induction l generalizing a with
  | nil => intro b hb; cases hb
  | cons x l ih =>
    simp only [sortedChain, Bool.and_eq_true] at h
    intro b hb
    simp only [List.mem_cons] at hb
    rcases hb with rfl | hb
    · exact h.1
    · exact lexLt_trans a x b h.1 (ih x h.2 b hb)

theorem nodup_of_sortedChain (l : List (List Nat)) (h : sortedChain l = true) : l.Nodup := by
  induction l with
  | nil => exact List.nodup_nil
  | cons a l ih =>
    rw [List.nodup_cons]
    constructor
    · intro hmem
      have := sortedChain_lt a l h a hmem
      rw [lexLt_irrefl] at this; cases this
    · apply ih
      cases l with
      | nil => rfl
      | cons b r => simp only [sortedChain, Bool.and_eq_true] at h; exact h.2

def edgeCode : Edge → Nat
  | .start => 46
  | .stop => 46
  | .ch c => c.toNat

def keyCodes (ps : List (List Char)) : List (List Nat) :=
  ps.map (fun p => (parsePat p).key.map edgeCode)

theorem nodup_of_map {α β : Type} (f : α → β) (l : List α) (h : (l.map f).Nodup) : l.Nodup := by
  induction l with
  | nil => exact List.nodup_nil
  | cons a l ih =>
    simp only [List.map_cons, List.nodup_cons] at h ⊢
    exact ⟨fun hm => h.1 (List.mem_map_of_mem hm), ih h.2⟩

theorem nodup_keys_of_sorted (ps : List (List Char)) (h : sortedChain (keyCodes ps) = true) :
    ((ps.map parsePat).map Pat.key).Nodup := by
  have h1 := nodup_of_sortedChain _ h
  have h2 : keyCodes ps = ((ps.map parsePat).map Pat.key).map (fun k => k.map edgeCode) := by
    simp [keyCodes, List.map_map, Function.comp_def]
  rw [h2] at h1
  exact nodup_of_map _ _ h1

theorem plain_wellFormed : plainPatterns.all wellFormed = true := by decide +kernel

theorem plain_sorted : sortedChain (keyCodes plainPatterns) = true := by decide +kernel

theorem plain_edges : edgeCount plainPatterns plainExceptions < rootV := by decide +kernel

theorem plain_disjoint_bool :
    plainPatterns.all (fun p => plainExceptions.all (fun e =>
      decide ((parsePat p).key ≠ enc true (stripHyphens e) true))) = true := by decide +kernel

theorem plain_disjoint : ∀ p ∈ plainPatterns, ∀ e ∈ plainExceptions,
    (parsePat p).key ≠ enc true (stripHyphens e) true := by
  have := plain_disjoint_bool
  simp only [List.all_eq_true, decide_eq_true_eq] at this
  exact this

end C13
