import TexcraftModel.Model.C14

/-! Helper lemmas for C14: `IndexIter` = filter; conservation of letters. -/
namespace C14

/-! ## IndexIter -/

def inRange (min max : Nat) (n : Nat) : Bool := decide (n ≥ min ∧ n ≤ max)

theorem iterNext_none {min max : Nat} {l : List Nat} (h : iterNext min max l = none) :
    l.filter (inRange min max) = [] := by
  induction l with
  | nil => rfl
  | cons a l ih =>
    simp only [iterNext] at h
    split at h
    · cases h
    · rename_i hp
      rw [List.filter_cons_of_neg (by simpa [inRange] using hp)]
      exact ih h

theorem iterNext_some {min max : Nat} {l : List Nat} {n : Nat} {t : List Nat}
    (h : iterNext min max l = some (n, t)) :
    l.filter (inRange min max) = n :: t.filter (inRange min max) ∧ t.length < l.length := by
  induction l with
  | nil => simp [iterNext] at h
  | cons a l ih =>
    simp only [iterNext] at h
    split at h
    · rename_i hp
      simp only [Option.some.injEq, Prod.mk.injEq] at h
      obtain ⟨rfl, rfl⟩ := h
      rw [List.filter_cons_of_pos (by simpa [inRange] using hp)]
      simp
    · rename_i hp
      rw [List.filter_cons_of_neg (by simpa [inRange] using hp)]
      have := ih h
      exact ⟨this.1, by simp; omega⟩

theorem drainN_eq_filter (min max : Nat) :
    ∀ (fuel : Nat) (l : List Nat), l.length < fuel → drainN min max fuel l = l.filter (inRange min max) := by
  intro fuel
  induction fuel with
  | zero => intro l h; omega
  | succ f ih =>
    intro l h
    simp only [drainN]
    cases hn : iterNext min max l with
    | none => simp [iterNext_none hn]
    | some nt =>
      obtain ⟨n, t⟩ := nt
      have := iterNext_some hn
      simp only
      rw [this.1, ih t (by omega)]

theorem drain_eq_filter (min max : Nat) (l : List Nat) : drain min max l = l.filter (inRange min max) :=
  drainN_eq_filter min max (l.length + 1) l (by omega)

/-! ## Conservation of letters -/

theorem lettersL_cons (x : Item) (xs : List Item) : lettersL (x :: xs) = lettersI x ++ lettersL xs := by
  simp [lettersL]

theorem lettersL_nil : lettersL [] = [] := rfl

/-- The invariant behind `disc_invariants_conserve`: with `skip` nodes still hidden (all of them
original), what has been hidden plus what is still rendered is what the input shows. -/
theorem render_invariant :
    ∀ (xs : List Item) (ms ts : List Bool) (skip : Nat),
      P2 ms xs = true → allMarkedDisc ms xs = true → ts.length = xs.length →
      skip ≤ xs.length → (ms.take skip).all (fun m => !m) = true →
      lettersL (xs.take skip) ++ render ms ts xs skip = lettersL (erase ms xs) := by
  intro xs
  induction xs with
  | nil =>
    intro ms ts skip h2 _ _ hs _
    cases ms with
    | nil =>
      have : skip = 0 := by simpa using hs
      subst this
      cases ts <;> simp [render, erase, lettersL]
    | cons m ms => simp [P2] at h2
  | cons x xs ih =>
    intro ms ts skip h2 hd hl hs hm
    cases ms with
    | nil => simp [P2] at h2
    | cons m ms =>
      cases ts with
      | nil => simp at hl
      | cons t ts =>
        have hl' : ts.length = xs.length := by simpa using hl
        cases m with
        | false =>
          simp only [P2, Bool.false_eq_true, if_false, Bool.true_and] at h2
          simp only [allMarkedDisc, Bool.not_false, Bool.true_or, Bool.true_and] at hd
          cases skip with
          | zero =>
            have := ih ms ts 0 h2 hd hl' (by omega) (by simp)
            simp only [List.take_zero, lettersL_nil, List.nil_append] at this
            simp [render, erase, lettersL_cons, lettersL_nil, this]
          | succ k =>
            have hk : k ≤ xs.length := by simpa using hs
            have hm' : (ms.take k).all (fun m => !m) = true := by
              simpa [List.take_succ_cons] using hm
            have := ih ms ts k h2 hd hl' hk hm'
            simp only [render, erase, List.take_succ_cons, lettersL_cons, Bool.false_eq_true, if_false]
            simp only [Nat.add_one_sub_one, Nat.succ_ne_zero, beq_iff_eq, if_false, List.append_assoc]
            rw [this]
        | true =>
          -- a marked node cannot be hidden: skip = 0
          have hs0 : skip = 0 := by
            cases skip with
            | zero => rfl
            | succ k => simp [List.take_succ_cons] at hm
          subst hs0
          simp only [allMarkedDisc, Bool.not_true, Bool.false_or, Bool.and_eq_true] at hd
          cases x with
          | disc pre post rc =>
            simp only [P2, if_true, Bool.and_eq_true] at h2
            obtain ⟨hok, h2'⟩ := h2
            simp only [discOk, Bool.and_eq_true, decide_eq_true_eq] at hok
            obtain ⟨⟨hrc, hun⟩, hlet⟩ := hok
            simp only [List.take_zero, lettersL_nil, List.nil_append, erase, if_true]
            cases t with
            | true =>
              cases hp : preLetters pre with
              | none => simp [hp] at hlet
              | some a =>
                simp only [hp, decide_eq_true_eq] at hlet
                have := ih ms ts rc h2' hd.2 hl' hrc hun
                simp only [render, if_true, Bool.true_and, beq_self_eq_true, hp, Option.getD_some]
                rw [hlet, this]
            | false =>
              have := ih ms ts 0 h2' hd.2 hl' (by omega) (by simp)
              simp only [List.take_zero, lettersL_nil, List.nil_append] at this
              simp [render, this]
          | char c f => simp [Item.isDisc] at hd
          | lig c f o lb rb => simp [Item.isDisc] at hd
          | kern k w => simp [Item.isDisc] at hd
          | other k p => simp [Item.isDisc] at hd

/-! ## The driver's greedy alignment only ever produces marks that satisfy P1 -/

theorem align_sound : ∀ (out inp : List Item) (marks : List Bool),
    align inp out = some marks → P1 marks out inp = true := by
  intro out
  induction out with
  | nil =>
    intro inp marks h
    cases inp with
    | nil => simp [align] at h; subst h; simp [P1, allMarkedDisc, erase]
    | cons i inp => simp [align] at h
  | cons o out ih =>
    intro inp marks h
    cases inp with
    | nil =>
      simp only [align] at h
      split at h
      · rename_i hd
        simp only [Option.map_eq_some_iff] at h
        obtain ⟨ms, hms, rfl⟩ := h
        have := ih [] ms hms
        simp only [P1, Bool.and_eq_true, decide_eq_true_eq] at this ⊢
        simp [allMarkedDisc, erase, hd, this.1, this.2]
      · cases h
    | cons i inp =>
      simp only [align] at h
      split at h
      · rename_i heq
        simp only [Option.map_eq_some_iff] at h
        obtain ⟨ms, hms, rfl⟩ := h
        have := ih inp ms hms
        simp only [P1, Bool.and_eq_true, decide_eq_true_eq] at this ⊢
        simp [allMarkedDisc, erase, heq, this.1, this.2]
      · split at h
        · rename_i hd
          simp only [Option.map_eq_some_iff] at h
          obtain ⟨ms, hms, rfl⟩ := h
          have := ih (i :: inp) ms hms
          simp only [P1, Bool.and_eq_true, decide_eq_true_eq] at this ⊢
          simp [allMarkedDisc, erase, hd, this.1, this.2]
        · cases h

end C14
