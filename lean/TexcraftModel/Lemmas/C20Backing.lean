import TexcraftModel.Model.C20Backing
import TexcraftModel.Lemmas.C20Vec
import TexcraftModel.Lemmas.C20Obs

/-!
# C20 — the container code over *any* lawful backing simulates `GMap`

`BSim` relates a `BMap bk` to the association-list instance `GMap`; every theorem about `GMap`
(refinement of `Snap`, `iter_all` total, round trip, observers) transfers. The two `impl`s of the
trait (`hashBacking`, `vecBacking`) are lawful.
-/
namespace C20
variable {K V : Type} [DecidableEq K] {bk : Backing K V}

/-- Same state: equal lookups, equal logs, backing representation invariant. -/
def BSim (bm : BMap bk) (m : GMap K V) : Prop :=
  (∀ k, bk.get bm.bc k = alookup m.bc k) ∧ bm.groups = m.groups ∧ bk.ok bm.bc

theorem bsim_empty (law : bk.Lawful) : BSim (BMap.empty : BMap bk) GMap.empty :=
  ⟨fun k => by simp only [BMap.empty, GMap.empty, law.get_empty, alookup], rfl, law.ok_empty⟩

theorem bget_insert_sim (law : bk.Lawful) (b : bk.B) (bc : AList K V)
    (h : ∀ k, bk.get b k = alookup bc k) (k : K) (v : V) (k' : K) :
    bk.get (bk.insert b k v) k' = alookup (ainsert k v bc) k' := by
  rw [law.get_insert, alookup_ainsert, h k']

theorem bget_remove_sim (law : bk.Lawful) (b : bk.B) (bc : AList K V)
    (h : ∀ k, bk.get b k = alookup bc k) (k : K) (k' : K) :
    bk.get (bk.remove b k) k' = alookup (aerase k bc) k' := by
  rw [law.get_remove, alookup_aerase, h k']

theorem bget_applyLog_sim (law : bk.Lawful) (g : AList K (Action V)) (b : bk.B) (bc : AList K V)
    (h : ∀ k, bk.get b k = alookup bc k) (hok : bk.ok b) :
    (∀ k, bk.get (BMap.applyLog g b) k = alookup (GMap.applyLog g bc) k) ∧
      bk.ok (BMap.applyLog (bk := bk) g b) := by
  induction g generalizing b bc with
  | nil => exact ⟨h, hok⟩
  | cons p t ih =>
    obtain ⟨a, act⟩ := p
    cases act with
    | delete =>
      simp only [BMap.applyLog, GMap.applyLog]
      exact ih _ _ (bget_remove_sim law b bc h a) (law.ok_remove b a hok)
    | revert v =>
      simp only [BMap.applyLog, GMap.applyLog]
      exact ih _ _ (bget_insert_sim law b bc h a v) (law.ok_insert b a v hok)

theorem bsim_step (law : bk.Lawful) (bm : BMap bk) (m : GMap K V) (op : Op K V) (h : BSim bm m) :
    BSim (bm.step op).1 (m.step op).1 ∧ (bm.step op).2 = (m.step op).2 := by
  obtain ⟨b, bgs⟩ := bm
  obtain ⟨bc, gs⟩ := m
  obtain ⟨hb, hg, hok⟩ := h
  simp only at hb hg hok
  subst hg
  cases op with
  | insert k v s =>
    have hi := bget_insert_sim law b bc hb k v
    have hoki := law.ok_insert b k v hok
    cases s with
    | glob =>
      simp only [BMap.step, GMap.step, BMap.insert, GMap.insert, hb k]
      cases alookup bc k <;> exact ⟨⟨hi, rfl, hoki⟩, rfl⟩
    | loc =>
      simp only [BMap.step, GMap.step, BMap.insert, GMap.insert, hb k]
      cases alookup bc k <;> cases bgs <;> exact ⟨⟨hi, rfl, hoki⟩, rfl⟩
  | beginGroup => exact ⟨⟨hb, rfl, hok⟩, rfl⟩
  | endGroup =>
    cases bgs with
    | nil => exact ⟨⟨hb, rfl, hok⟩, rfl⟩
    | cons g gs =>
      obtain ⟨h1, h2⟩ := bget_applyLog_sim law g b bc hb hok
      exact ⟨⟨h1, rfl, h2⟩, rfl⟩
  | get k =>
    refine ⟨⟨hb, rfl, hok⟩, ?_⟩
    simp only [BMap.step, GMap.step, BMap.get, GMap.get, hb k]

theorem bsim_run (law : bk.Lawful) (bm : BMap bk) (m : GMap K V) (ops : List (Op K V))
    (h : BSim bm m) :
    BSim (bm.run ops).1 (m.run ops).1 ∧ (bm.run ops).2 = (m.run ops).2 := by
  induction ops generalizing bm m with
  | nil => exact ⟨h, rfl⟩
  | cons op ops ih =>
    obtain ⟨h1, h2⟩ := bsim_step law bm m op h
    obtain ⟨i1, i2⟩ := ih _ _ h1
    simp only [BMap.run, GMap.run]
    exact ⟨i1, by rw [h2, i2]⟩

/-- Every history on the container over any lawful backing: the outputs of the stack of snapshots. -/
theorem bmap_refines_run (law : bk.Lawful) (ops : List (Op K V)) :
    ((BMap.empty : BMap bk).run ops).2 = (Snap.init.run ops).2 := by
  rw [(bsim_run law _ _ ops (bsim_empty law)).2]
  exact (gmap_refines_run ops).1

theorem bmap_get_run (law : bk.Lawful) (ops : List (Op K V)) (k : K) :
    ((BMap.empty : BMap bk).run ops).1.get k = (Snap.init.run ops).1.cur k := by
  have hs := (bsim_run law _ _ ops (bsim_empty law)).1
  have hr := (gmap_refines_run (K := K) (V := V) ops).2
  rw [← hr]
  simp only [BMap.get, GMap.abs]
  exact hs.1 k

/-! ## Round trip and observers -/

def BMap.toG (bm : BMap bk) : GMap K V := { bc := bk.iter bm.bc, groups := bm.groups }

theorem biterAll_toG (bm : BMap bk) : bm.iterAll = bm.toG.iterAll := rfl

theorem binv_toG (law : bk.Lawful) (bm : BMap bk) (m : GMap K V) (h : BSim bm m) (hi : Inv m) :
    Inv bm.toG := by
  obtain ⟨hb, hg, hok⟩ := h
  refine ⟨law.iter_nodup _ hok, ?_, ?_, ?_⟩
  · intro g hgm
    simp only [BMap.toG, hg] at hgm
    exact hi.logsNodup g hgm
  · intro g hgm k hk
    simp only [BMap.toG, hg] at hgm
    simp only [BMap.toG]
    rw [law.iter_get, hb k]
    exact hi.visible g hgm k hk
  · simp only [BMap.toG, hg]
    exact hi.groupsOK

theorem babs_toG (law : bk.Lawful) (bm : BMap bk) (m : GMap K V) (h : BSim bm m) :
    bm.toG.abs = m.abs := by
  obtain ⟨hb, hg, _⟩ := h
  have hf : (fun k => alookup (bk.iter bm.bc) k) = fun k => alookup m.bc k :=
    funext fun k => by rw [law.iter_get, hb k]
  simp only [GMap.abs, BMap.toG, hf, hg]

theorem bsim_feed (law : bk.Lawful) (bm : BMap bk) (m : GMap K V) (i : Item K V) (h : BSim bm m) :
    BSim (bm.feed i) (m.feed i) := by
  cases i with
  | beginGroup => exact (bsim_step law bm m .beginGroup h).1
  | value k v => exact (bsim_step law bm m (.insert k v .loc) h).1

theorem bsim_foldl_feed (law : bk.Lawful) (items : List (Item K V)) (bm : BMap bk) (m : GMap K V)
    (h : BSim bm m) : BSim (items.foldl BMap.feed bm) (items.foldl GMap.feed m) := by
  induction items generalizing bm m with
  | nil => exact h
  | cons i items ih =>
    simp only [List.foldl_cons]
    exact ih _ _ (bsim_feed law bm m i h)

theorem bsim_fromIter (law : bk.Lawful) (items : List (Item K V)) :
    BSim (BMap.fromIter items : BMap bk) (GMap.fromIter items) :=
  bsim_foldl_feed law items _ _ (bsim_empty law)

/-- `iter_all` → `FromIterator` over any lawful backing, after any history: succeeds, and the rebuilt
container answers every continuation like the original and like the specification. -/
theorem bmap_iterAll_roundtrip_run (law : bk.Lawful) (pre post : List (Op K V)) :
    ∃ items, ((BMap.empty : BMap bk).run pre).1.iterAll = .ok items ∧
      ((BMap.fromIter items : BMap bk).run post).2 = (((BMap.empty : BMap bk).run pre).1.run post).2 ∧
      ((BMap.fromIter items : BMap bk).run post).2 = ((Snap.init.run pre).1.run post).2 := by
  have hs := (bsim_run law _ _ pre (bsim_empty (bk := bk) law)).1
  have hi : Inv ((GMap.empty : GMap K V).run pre).1 := inv_reachable pre
  have hiG := binv_toG law _ _ hs hi
  have habs := babs_toG law _ _ hs
  obtain ⟨items, hit, ha, hinv⟩ := iterAll_roundtrip _ hiG
  have e1 : ((BMap.fromIter items : BMap bk).run post).2 =
      ((((GMap.empty : GMap K V).run pre).1.abs).run post).2 := by
    rw [(bsim_run law _ _ post (bsim_fromIter law items)).2, (gmap_refines_run_from _ hinv post).1, ha, habs]
  refine ⟨items, hit, ?_, ?_⟩
  · rw [e1, (bsim_run law _ _ post hs).2, (gmap_refines_run_from _ hi post).1]
  · rw [e1, (gmap_refines_run pre).2]

/-- `iter()`/`len()`/`is_empty()` over any lawful backing, after any history. -/
theorem bmap_iter_spec (law : bk.Lawful) (ops : List (Op K V)) :
    let bm := ((BMap.empty : BMap bk).run ops).1
    let s := (Snap.init.run ops).1
    (∀ k v, (k, v) ∈ bm.iter ↔ s.cur k = some v) ∧ (bm.iter.map (·.1)).Nodup ∧
      bm.len = bm.iter.length ∧ (bm.isEmpty = true ↔ ∀ k, s.cur k = none) := by
  intro bm s
  have hs := (bsim_run law _ _ ops (bsim_empty (bk := bk) law)).1
  have hi : Inv ((GMap.empty : GMap K V).run ops).1 := inv_reachable ops
  have hiG := binv_toG law _ _ hs hi
  have habs : bm.toG.abs = s := by
    rw [babs_toG law _ _ hs]; exact (gmap_refines_run ops).2
  obtain ⟨h1, h2, _, h4⟩ := gmap_iter_spec bm.toG hiG
  rw [habs] at h1 h4
  have hlen : bm.len = bm.iter.length := law.len_iter _ hs.2.2
  refine ⟨h1, h2, hlen, ?_⟩
  rw [← h4]
  simp only [BMap.isEmpty, GMap.isEmpty, GMap.len, hlen, BMap.iter, BMap.toG]

/-! ## The two `impl`s are lawful -/

theorem hashBacking_lawful : (hashBacking K V).Lawful where
  ok_empty := by simp [hashBacking]
  ok_insert := fun b k v h => nodupKeys_ainsert k v b h
  ok_remove := fun b k h => nodupKeys_aerase k b h
  get_empty := fun k => rfl
  get_insert := fun b k v k' => alookup_ainsert k v b k'
  get_remove := fun b k k' => alookup_aerase k b k'
  iter_get := fun b k => rfl
  iter_nodup := fun b h => h
  len_iter := fun b _ => rfl

theorem vec_get_insert' {V : Type} (b : List (Option V)) (k : Nat) (v : V) (k' : Nat) :
    VecBacking.get (VecBacking.insert b k v) k' = if k = k' then some v else VecBacking.get b k' := by
  rw [VecBacking.get_insert]
  by_cases h : k' = k
  · subst h; simp
  · have h' : ¬ k = k' := fun e => h e.symm
    simp [h, h']

theorem vec_get_remove' {V : Type} (b : List (Option V)) (k k' : Nat) :
    VecBacking.get (VecBacking.remove b k) k' = if k = k' then none else VecBacking.get b k' := by
  rw [VecBacking.get_remove]
  by_cases h : k' = k
  · subst h; simp
  · have h' : ¬ k = k' := fun e => h e.symm
    simp [h, h']

theorem vecBacking_lawful {V : Type} : (vecBacking V).Lawful where
  ok_empty := trivial
  ok_insert := fun _ _ _ _ => trivial
  ok_remove := fun _ _ _ => trivial
  get_empty := fun k => VecBacking.get_nil k
  get_insert := fun b k v k' => vec_get_insert' b k v k'
  get_remove := fun b k k' => vec_get_remove' b k k'
  iter_get := fun b k => alookup_iter b k
  iter_nodup := fun b _ => nodupKeys_iter b
  len_iter := fun b _ => VecBacking.len_eq_iter b

/-- The association-list instance of the generic code *is* `GMap` (same steps, same outputs). -/
theorem bmap_hash_is_gmap (ops : List (Op K V)) :
    ((BMap.empty : BMap (hashBacking K V)).run ops).2 = ((GMap.empty : GMap K V).run ops).2 :=
  (bsim_run hashBacking_lawful _ _ ops (bsim_empty hashBacking_lawful)).2

end C20
