import TexcraftModel.Lemmas.C17Compress
/-! The index remapping of `impl From<pl::File> for tfm::File` (C17): every character's index
points at a table entry within half the tolerance of the character's value. -/
namespace C17

theorem tfmLimit_pos (kind : Nat) : 1 ≤ tfmLimit kind := by
  unfold tfmLimit; split <;> omega

theorem lookAll_spec (kind : Nat) (m : List (Int × Nat)) : ∀ (l : List Int),
    (∀ v ∈ l, kind = 0 → ∃ i, lookupIdx m v = some i) →
    ∃ r, lookAll kind m l = some r ∧ r.length = l.length ∧
      ∀ (j : Nat) (v : Int), l[j]? = some v → r[j]? = some ((lookupIdx m v).getD 0) := by
  intro l
  induction l with
  | nil => intro _; exact ⟨[], rfl, rfl, by simp⟩
  | cons a t ih =>
    intro h
    obtain ⟨r, hr, hlen, hspec⟩ := ih (fun v hv => h v (List.mem_cons_of_mem _ hv))
    have hhead : (if kind = 0 then lookupIdx m a else some ((lookupIdx m a).getD 0)) =
        some ((lookupIdx m a).getD 0) := by
      by_cases hk : kind = 0
      · obtain ⟨i, hi⟩ := h a (by simp) hk
        simp [hk, hi]
      · simp [hk]
    refine ⟨(lookupIdx m a).getD 0 :: r, by simp only [lookAll, hhead, hr], by simp [hlen], ?_⟩
    intro j v hj
    cases j with
    | zero =>
      simp only [List.getElem?_cons_zero, Option.some.injEq] at hj
      subst hj; simp
    | succ j =>
      simp only [List.getElem?_cons_succ] at hj ⊢
      exact hspec j v hj

/-- **The remapping meets the specification.** -/
theorem remapDim_spec (kind : Nat) (charVals : List Int)
    (hr : ∀ v ∈ charVals, -2147483648 ≤ v ∧ v ≤ 2147483647) :
    ∃ table idx δ, remapDim kind charVals = .ok (table, idx) ∧ idx.length = charVals.length ∧
      table.head? = some 0 ∧ table.length ≤ tfmLimit kind + 1 ∧ 0 ≤ δ ∧
      (∀ (j : Nat) (v : Int) (i : Nat), charVals[j]? = some v → idx[j]? = some i →
        i ≤ tfmLimit kind ∧ (v = 0 → kind ≠ 0 → i = 0) ∧
        ∃ rep, table[i]? = some rep ∧ 2 * absI (v - rep) ≤ δ + δ % 2) ∧
      (∀ δ' C, 0 ≤ δ' → δ' < δ → C.length ≤ tfmLimit kind →
        ¬ Covers δ' C (if kind = 0 then charVals else charVals.filter (· != 0))) := by
  have hvals : ∀ v ∈ (if kind = 0 then charVals else charVals.filter (· != 0)),
      -2147483648 ≤ v ∧ v ≤ 2147483647 := by
    intro v hv
    split at hv
    · exact hr v hv
    · exact hr v (List.mem_filter.1 hv).1
  obtain ⟨table, m, δ, hc, hδ, ⟨⟨hhead, hlen⟩, hnear, hmin⟩, _, hkeys⟩ :=
    compress_meets_spec_strong _ (tfmLimit kind) (tfmLimit_pos kind) hvals
  obtain ⟨idx, hidx, hil, hispec⟩ := lookAll_spec kind m charVals (by
    intro v hv hk
    obtain ⟨i, _, hi, _⟩ := hnear v (by simp [hk, hv])
    exact ⟨i, hi⟩)
  have htl : table.length ≤ tfmLimit kind + 1 := by omega
  refine ⟨table, idx, δ, by simp only [remapDim, hc, hidx], hil, hhead, htl, hδ, ?_, hmin⟩
  intro j v i hj hi
  rw [hispec j v hj] at hi
  simp only [Option.some.injEq] at hi
  have hvm : v ∈ charVals := List.mem_of_getElem? hj
  by_cases hcomp : kind = 0 ∨ v ≠ 0
  · -- the value is compressed
    have hv : v ∈ (if kind = 0 then charVals else charVals.filter (· != 0)) := by
      rcases hcomp with h | h
      · simp [h, hvm]
      · by_cases hk : kind = 0
        · simp [hk, hvm]
        · simp only [hk, if_false]
          exact List.mem_filter.2 ⟨hvm, by simpa using h⟩
    obtain ⟨i', rep, h1, _, h3, h4⟩ := hnear v hv
    rw [h1] at hi
    simp only [Option.getD_some] at hi
    subst hi
    have hlt : i' < table.length := by
      apply Classical.byContradiction
      intro hge
      rw [List.getElem?_eq_none (by omega)] at h3
      simp at h3
    refine ⟨by omega, ?_, rep, h3, h4⟩
    intro hv0 hk
    rcases hcomp with h | h
    · exact absurd h hk
    · exact absurd hv0 h
  · -- a zero height / depth / italic correction: index 0, entry 0 is zero
    have hk : kind ≠ 0 := fun h => hcomp (Or.inl h)
    have hv0 : v = 0 := by
      apply Classical.byContradiction
      intro h; exact hcomp (Or.inr h)
    subst hv0
    have hnot : (0 : Int) ∉ (if kind = 0 then charVals else charVals.filter (· != 0)) := by
      simp [hk]
    rw [hkeys 0 hnot] at hi
    simp only [Option.getD_none] at hi
    subst hi
    refine ⟨by omega, fun _ _ => rfl, 0, ?_, ?_⟩
    · cases table with
      | nil => simp at hhead
      | cons a t => simp only [List.head?_cons, Option.some.injEq] at hhead; simp [hhead]
    · simp only [absI]; omega

end C17
