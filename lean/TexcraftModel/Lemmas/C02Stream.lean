import TexcraftModel.Model.C02Stream

/-! C02: the call over the stream (`Model/C02Stream.lean`) refines the call over its list view. -/
namespace C02

/-! ## `next`, `back`, `pushStack` against the list view -/

theorem nextFrom_spec : ∀ (outer : List Source) (cur : Source),
    match nextFrom cur outer with
    | (none, st') => Stream.flat ⟨cur, outer⟩ = [] ∧ st'.flat = []
    | (some t, st') => Stream.flat ⟨cur, outer⟩ = t :: st'.flat := by
  intro outer
  induction outer with
  | nil =>
    intro cur
    obtain ⟨exps, lex⟩ := cur
    rcases List.eq_nil_or_concat exps with rfl | ⟨init, last, rfl⟩
    · cases lex with
      | nil => simp [nextFrom, Stream.flat, Source.toks]
      | cons t ts => simp [nextFrom, Stream.flat, Source.toks]
    · simp [nextFrom, Stream.flat, Source.toks]
  | cons s ss ih =>
    intro cur
    obtain ⟨exps, lex⟩ := cur
    rcases List.eq_nil_or_concat exps with rfl | ⟨init, last, rfl⟩
    · cases lex with
      | nil =>
        have := ih s
        simp only [nextFrom, List.getLast?_nil]
        cases h : nextFrom s ss with
        | mk o st' =>
          rw [h] at this
          cases o with
          | none => simpa [Stream.flat, Source.toks] using this
          | some t => simpa [Stream.flat, Source.toks] using this
      | cons t ts => simp [nextFrom, Stream.flat, Source.toks]
    · simp [nextFrom, Stream.flat, Source.toks]

theorem next_none {st st' : Stream} (h : st.next = (none, st')) : st.flat = [] ∧ st'.flat = [] := by
  have := nextFrom_spec st.outer st.cur
  unfold Stream.next at h
  rw [h] at this
  exact this

theorem next_some {st st' : Stream} {t : Tok} (h : st.next = (some t, st')) : st.flat = t :: st'.flat := by
  have := nextFrom_spec st.outer st.cur
  unfold Stream.next at h
  rw [h] at this
  exact this

theorem back_flat (st : Stream) (t : Tok) : (st.back t).flat = t :: st.flat := by
  simp [Stream.back, Stream.flat, Source.toks]

theorem pushStack_flat (st : Stream) (stack : List Tok) :
    (st.pushStack stack).flat = stack.reverse ++ st.flat := by
  simp [Stream.pushStack, Stream.flat, Source.toks]

theorem readAll_flat : ∀ (fuel : Nat) (st : Stream), st.flat.length ≤ fuel → readAll fuel st = st.flat := by
  intro fuel
  induction fuel with
  | zero => intro st h; simp at h; simp [readAll, h]
  | succ f ih =>
    intro st h
    simp only [readAll]
    cases hn : st.next with
    | mk o st' =>
      cases o with
      | none => simp [(next_none hn).1]
      | some t =>
        have hf := next_some hn
        simp only
        rw [hf, ih st' (by rw [hf] at h; simp at h; omega)]

/-! ## The scanning functions consume a prefix (lengths only) -/

theorem removePrefix_len : ∀ (p inp rest : List Tok), removePrefix p inp = .ok rest → rest.length ≤ inp.length := by
  intro p
  induction p with
  | nil => intro inp rest h; simp [removePrefix] at h; subst h; exact Nat.le_refl _
  | cons x xs ih =>
    intro inp rest h
    cases inp with
    | nil => simp [removePrefix] at h
    | cons t ts =>
      simp only [removePrefix] at h
      split at h
      · have := ih ts rest h; simp; omega
      · simp at h

theorem delimLoop_len (m : Matcher) (c : Int) (n : Nat) : ∀ (inp : List Tok) (q : Nat) (d : Int) (a rest : List Tok),
    delimLoop m c n q d inp = .ok (a, rest) → rest.length ≤ inp.length := by
  intro inp
  induction inp with
  | nil => intro q d a rest h; simp [delimLoop] at h
  | cons t ts ih =>
    intro q d a rest h
    simp only [delimLoop] at h
    cases hn : m.next q t with
    | none => simp [hn] at h
    | some r =>
      obtain ⟨q', b⟩ := r
      simp only [hn] at h
      split at h
      · simp at h; rw [← h.2]; simp
      · cases hr : delimLoop m c n q' (depthStep d t) ts with
        | ok r2 =>
          obtain ⟨a2, rest2⟩ := r2
          simp only [hr] at h
          simp at h
          have := ih q' (depthStep d t) a2 rest2 hr
          rw [← h.2]; simp; omega
        | err e => simp [hr] at h
        | panic => simp [hr] at h

theorem finishBalanced_len : ∀ (inp : List Tok) (d : Int) (a rest : List Tok),
    finishBalanced d inp = .ok (a, rest) → rest.length ≤ inp.length := by
  intro inp
  induction inp with
  | nil => intro d a rest h; simp [finishBalanced] at h
  | cons t ts ih =>
    intro d a rest h
    simp only [finishBalanced] at h
    split at h
    · simp at h; rw [← h.2]; simp
    · cases hr : finishBalanced (depthStep d t) ts with
      | ok r2 =>
        obtain ⟨a2, rest2⟩ := r2
        simp only [hr] at h
        simp at h
        have := ih (depthStep d t) a2 rest2 hr
        rw [← h.2]; simp; omega
      | err e => simp [hr] at h
      | panic => simp [hr] at h

theorem skipSpaces_len (inp : List Tok) : (skipSpaces inp).length ≤ inp.length := by
  induction inp with
  | nil => simp [skipSpaces]
  | cons t ts ih => cases t <;> simp [skipSpaces] <;> omega

theorem parseUndelimited_len (n : Nat) (inp a rest : List Tok)
    (h : parseUndelimited n inp = .ok (a, rest)) : rest.length ≤ inp.length := by
  unfold parseUndelimited at h
  have hs := skipSpaces_len inp
  cases hk : skipSpaces inp with
  | nil => simp [hk] at h
  | cons t ts =>
    rw [hk] at h hs
    simp at hs
    cases t with
    | bg => simp only at h; have := finishBalanced_len ts 0 a rest h; omega
    | _ => simp at h; rw [← h.2]; omega

theorem parseDelimited_len (trim : List Tok → Bool) (m : Matcher) (n : Nat) (inp a rest : List Tok)
    (h : parseDelimited trim m n inp = .ok (a, rest)) : rest.length ≤ inp.length := by
  unfold parseDelimited at h
  cases hr : delimLoop m (closingDepth m) n 0 0 inp with
  | ok r =>
    obtain ⟨c, rest2⟩ := r
    simp only [hr] at h
    have := delimLoop_len m _ n inp 0 0 c rest2 hr
    split at h <;> (simp at h; rw [← h.2]; exact this)
  | err e => simp [hr] at h
  | panic => simp [hr] at h

/-! ## Refinement -/

/-- A list-level outcome and a stream-level outcome say the same thing. -/
def RelS {α : Type} : Res (α × List Tok) → Res (α × Stream) → Prop
  | .ok (a, rest), .ok (a', st') => a = a' ∧ st'.flat = rest
  | .err e, .err e' => e = e'
  | .panic, .panic => True
  | _, _ => False

def RelS0 : Res (List Tok) → Res Stream → Prop
  | .ok rest, .ok st' => st'.flat = rest
  | .err e, .err e' => e = e'
  | .panic, .panic => True
  | _, _ => False

theorem removePrefixS_rel : ∀ (p : List Tok) (st : Stream), RelS0 (removePrefix p st.flat) (removePrefixS p st) := by
  intro p
  induction p with
  | nil => intro st; simp [removePrefix, removePrefixS, RelS0]
  | cons x xs ih =>
    intro st
    simp only [removePrefixS]
    cases hn : st.next with
    | mk o st' =>
      cases o with
      | none => rw [(next_none hn).1]; simp [removePrefix, RelS0]
      | some t =>
        rw [next_some hn]
        simp only [removePrefix]
        split
        · exact ih st'
        · simp [RelS0]

theorem delimLoopS_rel (m : Matcher) (c : Int) (n : Nat) : ∀ (fuel q : Nat) (d : Int) (st : Stream),
    st.flat.length + 1 ≤ fuel →
    RelS (delimLoop m c n q d st.flat) (delimLoopS m c n fuel q d st) := by
  intro fuel
  induction fuel with
  | zero => intro q d st h; omega
  | succ f ih =>
    intro q d st h
    simp only [delimLoopS]
    cases hn : st.next with
    | mk o st' =>
      cases o with
      | none => rw [(next_none hn).1]; simp [delimLoop, RelS]
      | some t =>
        have hf := next_some hn
        rw [hf] at h ⊢
        simp only [delimLoop]
        cases hm : m.next q t with
        | none => simp [RelS]
        | some r =>
          obtain ⟨q', b⟩ := r
          simp only
          split
          · simp [RelS]
          · have := ih q' (depthStep d t) st' (by simp at h; omega)
            cases h1 : delimLoop m c n q' (depthStep d t) st'.flat <;>
              cases h2 : delimLoopS m c n f q' (depthStep d t) st' <;>
              simp_all [RelS]

theorem finishBalancedS_rel : ∀ (fuel : Nat) (d : Int) (st : Stream),
    st.flat.length + 1 ≤ fuel →
    RelS (finishBalanced d st.flat) (finishBalancedS fuel d st) := by
  intro fuel
  induction fuel with
  | zero => intro d st h; omega
  | succ f ih =>
    intro d st h
    simp only [finishBalancedS]
    cases hn : st.next with
    | mk o st' =>
      cases o with
      | none => rw [(next_none hn).1]; simp [finishBalanced, RelS]
      | some t =>
        have hf := next_some hn
        rw [hf] at h ⊢
        simp only [finishBalanced]
        split
        · simp [RelS]
        · have := ih (depthStep d t) st' (by simp at h; omega)
          cases h1 : finishBalanced (depthStep d t) st'.flat <;>
            cases h2 : finishBalancedS f (depthStep d t) st' <;>
            simp_all [RelS]

theorem skipSpacesS_spec : ∀ (fuel : Nat) (st : Stream), st.flat.length + 1 ≤ fuel →
    ∃ st', skipSpacesS fuel st = some st' ∧ st'.flat = skipSpaces st.flat := by
  intro fuel
  induction fuel with
  | zero => intro st h; omega
  | succ f ih =>
    intro st h
    simp only [skipSpacesS]
    cases hn : st.next with
    | mk o st' =>
      cases o with
      | none =>
        have := next_none hn
        exact ⟨st', rfl, by rw [this.1, this.2]; rfl⟩
      | some t =>
        have hf := next_some hn
        rw [hf] at h ⊢
        cases t with
        | sp =>
          obtain ⟨st2, h1, h2⟩ := ih st' (by simp at h; omega)
          exact ⟨st2, h1, by simpa [skipSpaces] using h2⟩
        | bg => exact ⟨_, rfl, by simp [back_flat, skipSpaces]⟩
        | eg => exact ⟨_, rfl, by simp [back_flat, skipSpaces]⟩
        | param => exact ⟨_, rfl, by simp [back_flat, skipSpaces]⟩
        | ch c => exact ⟨_, rfl, by simp [back_flat, skipSpaces]⟩
        | cs c => exact ⟨_, rfl, by simp [back_flat, skipSpaces]⟩

theorem parseUndelimitedS_rel (n fuel : Nat) (st : Stream) (h : st.flat.length + 1 ≤ fuel) :
    RelS (parseUndelimited n st.flat) (parseUndelimitedS n fuel st) := by
  obtain ⟨st1, h1, h2⟩ := skipSpacesS_spec fuel st h
  have hl := skipSpaces_len st.flat
  unfold parseUndelimited parseUndelimitedS
  simp only [h1]
  rw [← h2] at hl ⊢
  cases hn : st1.next with
  | mk o st2 =>
    cases o with
    | none => rw [(next_none hn).1]; simp [RelS]
    | some t =>
      have hf := next_some hn
      rw [hf] at hl ⊢
      cases t with
      | bg => exact finishBalancedS_rel fuel 0 st2 (by simp at hl; omega)
      | _ => simp [RelS]

theorem parseDelimitedS_rel (trim : List Tok → Bool) (m : Matcher) (n fuel : Nat) (st : Stream)
    (h : st.flat.length + 1 ≤ fuel) :
    RelS (parseDelimited trim m n st.flat) (parseDelimitedS trim m n fuel st) := by
  have hr := delimLoopS_rel m (closingDepth m) n fuel 0 0 st h
  unfold parseDelimited parseDelimitedS
  cases h1 : delimLoop m (closingDepth m) n 0 0 st.flat with
  | ok r1 =>
    obtain ⟨c1, rest⟩ := r1
    cases h2 : delimLoopS m (closingDepth m) n fuel 0 0 st with
    | ok r2 =>
      obtain ⟨c2, st'⟩ := r2
      rw [h1, h2] at hr
      simp only [RelS] at hr
      obtain ⟨rfl, hfl⟩ := hr
      simp only
      split <;> simp [RelS, hfl]
    | err e => rw [h1, h2] at hr; simp [RelS] at hr
    | panic => rw [h1, h2] at hr; simp [RelS] at hr
  | err e =>
    cases h2 : delimLoopS m (closingDepth m) n fuel 0 0 st <;> rw [h1, h2] at hr <;> simp_all [RelS]
  | panic =>
    cases h2 : delimLoopS m (closingDepth m) n fuel 0 0 st <;> rw [h1, h2] at hr <;> simp_all [RelS]

theorem parseArgsS_rel (trim : List Tok → Bool) (fuel : Nat) : ∀ (ps : List Param) (i : Nat) (st : Stream),
    st.flat.length + 1 ≤ fuel →
    RelS (parseArgs trim i ps st.flat) (parseArgsS trim fuel i ps st) := by
  intro ps
  induction ps with
  | nil => intro i st _; simp [parseArgs, parseArgsS, RelS]
  | cons p ps ih =>
    intro i st h
    simp only [parseArgs, parseArgsS]
    cases p with
    | undelim =>
      have hr := parseUndelimitedS_rel (i + 1) fuel st h
      cases h1 : parseUndelimited (i + 1) st.flat with
      | ok r1 =>
        obtain ⟨a, rest⟩ := r1
        have hlen := parseUndelimited_len (i + 1) st.flat a rest h1
        cases h2 : parseUndelimitedS (i + 1) fuel st with
        | ok r2 =>
          obtain ⟨a', st'⟩ := r2
          rw [h1, h2] at hr
          simp only [RelS] at hr
          obtain ⟨rfl, hfl⟩ := hr
          have := ih (i + 1) st' (by rw [hfl]; omega)
          rw [hfl] at this
          simp only
          cases h3 : parseArgs trim (i + 1) ps rest <;>
            cases h4 : parseArgsS trim fuel (i + 1) ps st' <;>
            simp_all [RelS]
        | err e => rw [h1, h2] at hr; simp [RelS] at hr
        | panic => rw [h1, h2] at hr; simp [RelS] at hr
      | err e =>
        cases h2 : parseUndelimitedS (i + 1) fuel st <;> rw [h1, h2] at hr <;> simp_all [RelS]
      | panic =>
        cases h2 : parseUndelimitedS (i + 1) fuel st <;> rw [h1, h2] at hr <;> simp_all [RelS]
    | delim m =>
      have hr := parseDelimitedS_rel trim m (i + 1) fuel st h
      cases h1 : parseDelimited trim m (i + 1) st.flat with
      | ok r1 =>
        obtain ⟨a, rest⟩ := r1
        have hlen := parseDelimited_len trim m (i + 1) st.flat a rest h1
        cases h2 : parseDelimitedS trim m (i + 1) fuel st with
        | ok r2 =>
          obtain ⟨a', st'⟩ := r2
          rw [h1, h2] at hr
          simp only [RelS] at hr
          obtain ⟨rfl, hfl⟩ := hr
          have := ih (i + 1) st' (by rw [hfl]; omega)
          rw [hfl] at this
          simp only
          cases h3 : parseArgs trim (i + 1) ps rest <;>
            cases h4 : parseArgsS trim fuel (i + 1) ps st' <;>
            simp_all [RelS]
        | err e => rw [h1, h2] at hr; simp [RelS] at hr
        | panic => rw [h1, h2] at hr; simp [RelS] at hr
      | err e =>
        cases h2 : parseDelimitedS trim m (i + 1) fuel st <;> rw [h1, h2] at hr <;> simp_all [RelS]
      | panic =>
        cases h2 : parseDelimitedS trim m (i + 1) fuel st <;> rw [h1, h2] at hr <;> simp_all [RelS]

/-- `Macro::call` over the stream is `Macro::call` over the list view. -/
theorem callWithS_rel (trim : List Tok → Bool) (m : Macro) (st : Stream) :
    RelS0 (callWith trim m st.flat) (callWithS trim m st) := by
  unfold callWith callWithS
  have hp := removePrefixS_rel m.pre st
  cases h1 : removePrefix m.pre st.flat with
  | ok rest1 =>
    have hlen := removePrefix_len m.pre st.flat rest1 h1
    cases h2 : removePrefixS m.pre st with
    | ok st1 =>
      rw [h1, h2] at hp
      simp only [RelS0] at hp
      have ha := parseArgsS_rel trim (st.flat.length + 1) m.params 0 st1 (by rw [hp]; omega)
      rw [hp] at ha
      simp only
      cases h3 : parseArgs trim 0 m.params rest1 with
      | ok r3 =>
        obtain ⟨args, rest⟩ := r3
        cases h4 : parseArgsS trim (st.flat.length + 1) 0 m.params st1 with
        | ok r4 =>
          obtain ⟨args', st2⟩ := r4
          rw [h3, h4] at ha
          simp only [RelS] at ha
          obtain ⟨rfl, hfl⟩ := ha
          simp only
          cases performReplacement args m.repl with
          | none => simp [RelS0]
          | some stack => simp [RelS0, pushStack_flat, hfl]
        | err e => rw [h3, h4] at ha; simp [RelS] at ha
        | panic => rw [h3, h4] at ha; simp [RelS] at ha
      | err e =>
        cases h4 : parseArgsS trim (st.flat.length + 1) 0 m.params st1 <;> rw [h3, h4] at ha <;> simp_all [RelS, RelS0]
      | panic =>
        cases h4 : parseArgsS trim (st.flat.length + 1) 0 m.params st1 <;> rw [h3, h4] at ha <;> simp_all [RelS, RelS0]
    | err e => rw [h1, h2] at hp; simp [RelS0] at hp
    | panic => rw [h1, h2] at hp; simp [RelS0] at hp
  | err e =>
    cases h2 : removePrefixS m.pre st <;> rw [h1, h2] at hp <;> simp_all [RelS0]
  | panic =>
    cases h2 : removePrefixS m.pre st <;> rw [h1, h2] at hp <;> simp_all [RelS0]

end C02
