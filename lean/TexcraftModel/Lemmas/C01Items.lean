import TexcraftModel.Lemmas.C01Cor

/-!
# C01 — the input side (items) and two equivalent code variants

A. Under the simulation relation the model and the specification read every item the same way
   (`R.elab`), so the refinement extends from op lists to surface programs whose group structure
   is decided by scoped category codes and scoped `\let` meanings (`refines_items_from`).
B. Programs of plain ops are a sublanguage (`runItems_ops`).
C. What a character / a name does is restored with the group (`chr_action_restored_M`).
D. Mutant 15 (font saved eagerly at `{`) and mutant 29 (scope hook after the arguments) are
   equivalent to the code (`runEager_eq`, `defineLate_eq`).

Core Lean only.
-/
namespace C01
open C20

/-! ## A. Items under the simulation -/

theorem R.catOf {m : VMState} {s : Spec} (h : R m s) (c : Nat) : catOf m c = Spec.catOf s.cur c := by
  simp only [C01.catOf, Spec.catOf, h.curVar, GMap.abs, varsG]

theorem R.elab {m : VMState} {s : Spec} (h : R m s) (it : Item) :
    elabItem (C01.catOf m) (C01.getCmd m) it = elabItem (Spec.catOf s.cur) (Spec.getCmd s.cur) it := by
  have h1 : C01.catOf m = Spec.catOf s.cur := funext h.catOf
  have h2 : C01.getCmd m = Spec.getCmd s.cur := funext h.getCmd
  rw [h1, h2]

theorem R.stepItem {m : VMState} {s : Spec} (h : R m s) (it : Item) :
    (stepItem .fixed m it).2 = (s.stepItem it).2 ∧ R (stepItem .fixed m it).1 (s.stepItem it).1 := by
  have he := h.elab it
  simp only [C01.stepItem, Spec.stepItem]
  rw [he]
  cases elabItem (Spec.catOf s.cur) (Spec.getCmd s.cur) it with
  | op o => exact h.step o
  | out o => exact ⟨rfl, h⟩

theorem refines_items_from {m : VMState} {s : Spec} (h : R m s) (its : List Item) :
    (runItems .fixed m its).2 = (s.runItems its).2 ∧ R (runItems .fixed m its).1 (s.runItems its).1 := by
  induction its generalizing m s with
  | nil => exact ⟨rfl, h⟩
  | cons it its ih =>
    obtain ⟨h1, h2⟩ := h.stepItem it
    simp only [runItems, Spec.runItems, h1]
    by_cases hf : (s.stepItem it).2.fatal = true
    · simp only [hf, if_true]; exact ⟨trivial, h2⟩
    · obtain ⟨i1, i2⟩ := ih h2
      have hf' : (s.stepItem it).2.fatal = false := by simpa using hf
      simp only [hf', Bool.false_eq_true, if_false]
      exact ⟨by rw [i1], i2⟩

theorem items_outs_eq (its : List Item) :
    (runItems .fixed VMState.init its).2 = (Spec.init.runItems its).2 :=
  (refines_items_from R_init its).1

theorem R_reachable_items (its : List Item) :
    R (runItems .fixed VMState.init its).1 (Spec.init.runItems its).1 :=
  (refines_items_from R_init its).2

/-- TeX's own specification on items coincides with the code-compatible one when no item turns out
to be a `\let` from an undefined name. -/
theorem Spec.runItemsTeX_eq (s : Spec) (its : List Item) (h : Spec.noUndefLetItems s its = true) :
    s.runItemsTeX its = s.runItems its := by
  induction its generalizing s with
  | nil => rfl
  | cons it its ih =>
    simp only [Spec.noUndefLetItems, Bool.and_eq_true] at h
    have hstep : s.stepItemTeX it = s.stepItem it := by
      simp only [Spec.stepItemTeX, Spec.stepItem]
      cases he : elabItem (Spec.catOf s.cur) (Spec.getCmd s.cur) it with
      | op o =>
        have := h.1
        simp only [he, Bool.not_eq_true'] at this
        exact Spec.stepTeX_eq s o this
      | out o => rfl
    simp only [Spec.runItemsTeX, Spec.runItems, hstep]
    by_cases hf : (s.stepItem it).2.fatal = true
    · simp [hf]
    · have hf' : (s.stepItem it).2.fatal = false := by simpa using hf
      simp only [hf', Bool.false_eq_true, if_false] at h ⊢
      rw [ih _ h.2]

/-! ## B. Plain ops are a sublanguage -/

theorem runItems_ops (cfg : Variant) (m : VMState) (ops : List Op) :
    runItems cfg m (ops.map Item.op) = run cfg m ops := by
  induction ops generalizing m with
  | nil => rfl
  | cons op ops ih =>
    simp only [List.map_cons, runItems, run, stepItem, elabItem]
    by_cases hf : (step cfg m op).2.fatal = true
    · simp [hf]
    · have hf' : (step cfg m op).2.fatal = false := by simpa using hf
      simp only [hf', Bool.false_eq_true, if_false, ih]

/-! ## C. What a character or a name does is scoped like everything else -/

theorem elabItem_congr (c1 c2 : Nat → Nat) (g1 g2 : CTarget → Option Cmd) (it : Item)
    (hc : ∀ c, c1 c = c2 c) (hg : ∀ t, g1 t = g2 t) : elabItem c1 g1 it = elabItem c2 g2 it := by
  have h1 : c1 = c2 := funext hc
  have h2 : g1 = g2 := funext hg
  rw [h1, h2]

theorem catOf_of_valOf (m m' : VMState) (c : Nat)
    (h : valOf m (.var ⟨.catcode, c⟩) = valOf m' (.var ⟨.catcode, c⟩)) : catOf m c = catOf m' c := by
  simp only [valOf, TVal.v.injEq] at h
  simp only [catOf, h]

theorem getCmd_of_valOf (m m' : VMState) (t : CTarget)
    (h : valOf m (.cmd t) = valOf m' (.cmd t)) : getCmd m t = getCmd m' t := by
  simp only [valOf, TVal.c.injEq] at h
  exact h

/-- After `hist { blk }` with `blk` well bracketed and written without `\global`/`\gdef` (and
`\globaldefs` never assigned), **every item is read exactly as it was read before the `{`**: a
character that `blk` made a group delimiter is none any more, a name that `blk` `\let` to a brace
has its old meaning again. -/
theorem item_reading_restored_M (hist blk : List Op) (it : Item)
    (hnf : ∀ o ∈ (run .fixed VMState.init hist).2, o.fatal = false)
    (hh : ∀ op ∈ hist, op.noGlobaldefs = true)
    (hb : Bal blk) (hp : ∀ op ∈ blk, op.plain = true) :
    elabItem (catOf (run .fixed VMState.init (hist ++ .beginGroup :: (blk ++ [.endGroup]))).1)
        (getCmd (run .fixed VMState.init (hist ++ .beginGroup :: (blk ++ [.endGroup]))).1) it =
      elabItem (catOf (run .fixed VMState.init hist).1) (getCmd (run .fixed VMState.init hist).1) it := by
  apply elabItem_congr
  · intro c
    exact catOf_of_valOf _ _ c (close_restores_plain_M hist blk _ hnf hh hb hp)
  · intro t
    exact getCmd_of_valOf _ _ t (close_restores_plain_M hist blk _ hnf hh hb hp)

/-! ## D. Equivalent code variants -/

/-- Mutant 15. Saving the font eagerly at `{` keeps the simulation relation: the list of fonts the
open groups will restore (`absFont`) is the same. -/
theorem R.beginGroupEager {m : VMState} {s : Spec} (h : R m s) :
    R (beginGroupEager m) { cur := s.cur, saved := s.cur :: s.saved } := by
  have hb := h.beginGroup
  obtain ⟨b, iv, ic, ia, cv, cc, ca, cf, hz⟩ := hb
  exact ⟨b, iv, ic, ia, cv, cc, ca, cf, hz⟩

theorem R.stepEager {m : VMState} {s : Spec} (h : R m s) (op : Op) :
    (stepEager m op).2 = (s.step op).2 ∧ R (stepEager m op).1 (s.step op).1 := by
  cases op with
  | beginGroup => exact ⟨rfl, h.beginGroupEager⟩
  | endGroup => exact h.step .endGroup
  | assign pre v x => exact h.step (.assign pre v x)
  | define pre t d => exact h.step (.define pre t d)
  | selectFont pre f => exact h.step (.selectFont pre f)
  | read t => exact h.step (.read t)

theorem refines_runEager_from {m : VMState} {s : Spec} (h : R m s) (ops : List Op) :
    (runEager m ops).2 = (s.run ops).2 := by
  induction ops generalizing m s with
  | nil => rfl
  | cons op ops ih =>
    obtain ⟨h1, h2⟩ := h.stepEager op
    simp only [runEager, Spec.run, h1]
    by_cases hf : (s.step op).2.fatal = true
    · simp [hf]
    · have hf' : (s.step op).2.fatal = false := by simpa using hf
      simp only [hf', Bool.false_eq_true, if_false, ih h2]

theorem runEager_eq (ops : List Op) :
    (runEager VMState.init ops).2 = (run .fixed VMState.init ops).2 := by
  rw [refines_runEager_from R_init ops, outs_eq]

/-- Mutant 29. Nothing a definition primitive resolves depends on the pending flag, and the hook
changes nothing but the flag: calling it before or after the arguments is the same. -/
theorem getCmd_scopeBit (m : VMState) (b : Scope) (t : CTarget) :
    getCmd { m with scopeBit := b } t = getCmd m t := by
  cases t <;> rfl

theorem resolveDef_scopeBit (m : VMState) (b : Scope) (d : Def) :
    resolveDef { m with scopeBit := b } d = resolveDef m d := by
  cases d <;> simp only [resolveDef, getCmd_scopeBit]

theorem readAndResetGlobal_state (m : VMState) :
    (readAndResetGlobal m).2 = m ∨ (readAndResetGlobal m).2 = { m with scopeBit := .loc } := by
  simp only [readAndResetGlobal]
  by_cases h1 : globalDefs m < 0
  · simp [h1]
  · by_cases h2 : globalDefs m = 0
    · simp [h2]
    · simp [h1, h2]

theorem resolveDef_hook (m : VMState) (d : Def) :
    resolveDef (readAndResetGlobal m).2 d = resolveDef m d := by
  rcases readAndResetGlobal_state m with h | h
  · rw [h]
  · rw [h, resolveDef_scopeBit]

theorem defineLate_eq (cfg : Variant) (m : VMState) (pre : Nat) (t : CTarget) (d : Def) :
    defineLate cfg m pre t d = define cfg m pre t d := by
  simp only [defineLate, define, resolveDef_hook]

end C01
