/-
C11 — closing the loop: `normalise` undoes `pack` on a well-formed PL-level program in
which every step is reachable. With `normalise_wf_allReach` this makes the second
TFM→PL→TFM trip the identity on the lig/kern program.
-/
import TexcraftModel.Model.C11
import TexcraftModel.Model.C11Bridge
import TexcraftModel.Model.C11Norm
import TexcraftModel.Lemmas.C11Chain
import TexcraftModel.Lemmas.C11Pack
import TexcraftModel.Lemmas.C11Boundary
import TexcraftModel.Lemmas.C11Rule
import TexcraftModel.Lemmas.C11Norm
import TexcraftModel.Lemmas.C11NormReach

namespace C11

/-- The unpacked entry points of the packed program are the original ones shifted by `offset`. -/
theorem pack_unpackAll {p : Prog} {entries : List (Nat × Nat)} {P : Prog} {pe : List (Nat × Nat)}
    (h : pack p entries = some (P, pe)) (hwf : wf p entries = true) :
    ∃ st, Good p.rb.isSome st [] ∧ (frontOf p st).length = st.offset ∧
      P = { instrs := frontOf p st ++ p.instrs ++ postOf p st, lb := p.lb.map (· + st.offset), rb := p.rb } ∧
      unpackAll P.instrs pe = entries.map (fun ce => (ce.1, st.offset + ce.2)) := by
  obtain ⟨st, _, hg, _, hpe, hP, hlen⟩ := pack_shape h
  obtain ⟨hnr, _, hent, _⟩ := wf_parts hwf
  refine ⟨st, hg, hlen, hP, ?_⟩
  subst hP
  apply mapEntries_unpackAll hpe
  intro ce hce u hu
  exact assign_unpack hg hlen hnr (lookup_mem hu) (hent ce hce)

/-! ### `reachable_array` on `front ++ instrs ++ post` -/

theorem reachFrom_nil_marks : ∀ (l : List Instr), reachFrom [] l = List.replicate l.length false := by
  intro l
  induction l with
  | nil => rfl
  | cons a t ih => rw [reachFrom_cons]; simp [ih, List.replicate_succ]

theorem reachFrom_prefix : ∀ (F : List Instr) (ms : List Nat) (X : List Instr),
    reachFrom (ms.map (F.length + ·)) (F ++ X) = List.replicate F.length false ++ reachFrom ms X := by
  intro F
  induction F with
  | nil => intro ms X; simp
  | cons a F' ih =>
    intro ms X
    rw [List.cons_append, reachFrom_cons]
    have hc : (ms.map ((a :: F').length + ·)).contains 0 = false := by
      simp [List.contains_iff_mem]
    have hsh : ((ms.map ((a :: F').length + ·)).filter (· ≠ 0)).map (· - 1) = ms.map (F'.length + ·) := by
      rw [List.filter_eq_self.mpr]
      · rw [List.map_map]
        apply List.map_congr_left
        intro m _
        simp only [Function.comp, List.length_cons]
        omega
      · intro m hm
        obtain ⟨m0, _, rfl⟩ := List.mem_map.mp hm
        simp
    simp only [List.length_cons] at hc hsh ⊢
    simp only [hc, Bool.false_eq_true, if_false, hsh, ih, List.replicate_succ, List.cons_append]

theorem reachFrom_suffix : ∀ (I : List Instr) (ms : List Nat) (Q : List Instr), closed I = true →
    (∀ m ∈ ms, m < I.length) →
    reachFrom ms (I ++ Q) = reachFrom ms I ++ List.replicate Q.length false := by
  intro I
  induction I with
  | nil =>
    intro ms Q _ hms
    have : ms = [] := by
      cases ms with
      | nil => rfl
      | cons m t => have := hms m (List.mem_cons_self ..); simp at this
    subst this
    simp [reachFrom_nil_marks, reachFrom]
  | cons i rest ih =>
    intro ms Q hc hms
    obtain ⟨hnext, hcrest⟩ := closed_cons hc
    rw [List.cons_append, reachFrom_cons, reachFrom_cons]
    simp only [List.cons_append, List.cons.injEq, true_and]
    apply ih _ Q hcrest
    intro m hm
    have hsh : ∀ m ∈ (ms.filter (· ≠ 0)).map (· - 1), m < rest.length := by
      intro m hm
      obtain ⟨m0, hm0, rfl⟩ := List.mem_map.mp hm
      have h1 := hms m0 (List.mem_filter.mp hm0).1
      have h2 : m0 ≠ 0 := by simpa using (List.mem_filter.mp hm0).2
      simp only [List.length_cons] at h1
      omega
    split at hm
    · cases hn : i.next with
      | none => simp only [hn] at hm; exact hsh m hm
      | some inc =>
        simp only [hn, List.mem_cons] at hm
        rcases hm with rfl | hm
        · exact hnext _ hn
        · exact hsh m hm
    · exact hsh m hm

/-! ### `compact` / `posOf` on `front ++ instrs ++ post` with flags `false.. true.. false..` -/

theorem compact_prefix_false : ∀ (F X : List Instr) (fx : List Bool),
    compact (F ++ X) (List.replicate F.length false ++ fx) = compact X fx := by
  intro F
  induction F with
  | nil => intro X fx; simp
  | cons a F' ih => intro X fx; simp [compact, List.replicate_succ, ih]

theorem compact_all_false : ∀ (Q : List Instr), compact Q (List.replicate Q.length false) = [] := by
  intro Q
  induction Q with
  | nil => rfl
  | cons a t ih => simp [compact, List.replicate_succ, ih]

theorem countTrue_take_trues : ∀ (a k : Nat) (x : List Bool), k ≤ a →
    countTrue ((List.replicate a true ++ x).take k) = k := by
  intro a
  induction a with
  | zero => intro k x hk; have : k = 0 := by omega
            subst this; simp [countTrue]
  | succ a ih =>
    intro k x hk
    cases k with
    | zero => simp [countTrue]
    | succ k =>
      rw [List.replicate_succ, List.cons_append, cnt_succ_true, ih k x (by omega)]

theorem outNext_trues (next : Option Nat) (a : Nat) (x : List Bool)
    (h : ∀ s, next = some s → s < a) : outNext next (List.replicate a true ++ x) = next := by
  cases next with
  | none => simp [outNext, adjSkip]
  | some s =>
    have hs := h s rfl
    cases s with
    | zero => simp [outNext, adjSkip]
    | succ k =>
      have hle : k + 1 ≤ (List.replicate a true ++ x).length := by simp; omega
      simp only [outNext, adjSkip, hle, if_true]
      rw [countTrue_take_trues a (k + 1) x (by omega)]

theorem compact_trues : ∀ (I Q : List Instr), noRedirect I = true → closed I = true →
    compact (I ++ Q) (List.replicate I.length true ++ List.replicate Q.length false) = I := by
  intro I
  induction I with
  | nil => intro Q _ _; simpa using compact_all_false Q
  | cons i rest ih =>
    intro Q hnr hc
    obtain ⟨hnext, hcrest⟩ := closed_cons hc
    have hop : i.op.isRedirect = false := not_redirect_of_mem hnr (List.mem_cons_self ..)
    have hnr' : noRedirect rest = true := by
      simp only [noRedirect, List.all_eq_true] at hnr ⊢
      exact fun x hx => hnr x (List.mem_cons_of_mem _ hx)
    simp only [List.cons_append, List.length_cons, List.replicate_succ, compact, hop, Bool.not_false,
      Bool.and_self, if_true, List.singleton_append]
    rw [outNext_trues i.next rest.length _ hnext, ih Q hnr' hcrest]
    cases i; rfl

theorem posOf_prefix_false : ∀ (F X : List Instr) (fx : List Bool) (e : Nat),
    posOf (F ++ X) (List.replicate F.length false ++ fx) (F.length + e) = posOf X fx e := by
  intro F
  induction F with
  | nil => intro X fx e; simp
  | cons a F' ih =>
    intro X fx e
    have : (a :: F').length + e = (F'.length + e) + 1 := by simp; omega
    rw [this]
    simp only [List.cons_append, List.length_cons, List.replicate_succ, posOf, Bool.false_and,
      Bool.false_eq_true, if_false, Nat.zero_add]
    exact ih X fx e

theorem posOf_trues : ∀ (I Q : List Instr) (x : List Bool) (e : Nat), noRedirect I = true → e ≤ I.length →
    posOf (I ++ Q) (List.replicate I.length true ++ x) e = e := by
  intro I
  induction I with
  | nil => intro Q x e _ he; have : e = 0 := by simpa using he
           subst this; cases Q <;> cases x <;> simp [posOf]
  | cons i rest ih =>
    intro Q x e hnr he
    have hop : i.op.isRedirect = false := not_redirect_of_mem hnr (List.mem_cons_self ..)
    have hnr' : noRedirect rest = true := by
      simp only [noRedirect, List.all_eq_true] at hnr ⊢
      exact fun x hx => hnr x (List.mem_cons_of_mem _ hx)
    cases e with
    | zero => simp [posOf, List.replicate_succ]
    | succ k =>
      simp only [List.cons_append, List.length_cons, List.replicate_succ, posOf, hop, Bool.not_false,
        Bool.and_self, if_true]
      rw [ih Q x k hnr' (by simpa using he)]
      omega

theorem frontOf_redirect (p : Prog) (st : LoopSt) : ∀ i ∈ frontOf p st, i.op.isRedirect = true := by
  intro i hi
  obtain ⟨_, u, hu⟩ := frontOf_all p st i hi
  simp [hu, Op.isRedirect]

theorem filterMap_shift (A : List Instr) (FL : List Bool) (off : Nat) :
    ∀ (es : List (Nat × Nat)),
      (∀ ce ∈ es, posOf A FL (off + ce.2) = ce.2 ∧ isReach FL (off + ce.2) = true) →
      (es.map (fun ce => (ce.1, off + ce.2))).filterMap
        (fun ce => if isReach FL ce.2 then some (ce.1, posOf A FL ce.2) else none) = es := by
  intro es
  induction es with
  | nil => intro _; rfl
  | cons x t ih =>
    intro h
    obtain ⟨h1, h2⟩ := h x (List.mem_cons_self ..)
    rw [List.map_cons, List.filterMap_cons]
    simp only [h2, if_true, h1]
    rw [ih (fun ce hce => h ce (List.mem_cons_of_mem _ hce))]

theorem bind_shift (A : List Instr) (FL : List Bool) (off : Nat) (lb : Option Nat)
    (h : ∀ l, lb = some l → posOf A FL (l + off) = l ∧ isReach FL (l + off) = true) :
    (lb.map (· + off)).bind (fun l => if isReach FL l then some (posOf A FL l) else none) = lb := by
  cases lb with
  | none => rfl
  | some l =>
    obtain ⟨h1, h2⟩ := h l rfl
    simp [h1, h2]

/-- **normalise ∘ pack = id** on a well-formed PL-level program all of whose steps are reachable:
tftopl's view of the packed table (unreachable words dropped — here exactly the redirect
words —, SKIPs and labels renumbered) is the program that was packed, with its labels. -/
theorem normalise_pack_aux {q : Prog} {es : List (Nat × Nat)} {P : Prog} {pe : List (Nat × Nat)}
    (h : pack q es = some (P, pe)) (hwf : wf q es = true) (hall : AllReach q es) :
    normalise P (unpackAll P.instrs pe) = (q, es) := by
  obtain ⟨st, _, hlen, hP, hun⟩ := pack_unpackAll h hwf
  obtain ⟨hnr, hcl, hent, hlb⟩ := wf_parts hwf
  rw [hun]
  subst hP
  -- the marks
  have hmarks : startMarks ⟨frontOf q st ++ q.instrs ++ postOf q st, q.lb.map (· + st.offset), q.rb⟩
      (es.map (fun ce => (ce.1, st.offset + ce.2))) = (plainMarks q es).map ((frontOf q st).length + ·) := by
    simp only [startMarks, plainMarks, List.map_append, List.map_map, hlen]
    congr 1
    cases hl : q.lb with
    | none => simp
    | some l =>
      have hl1 := hlb l hl
      have hQ : (postOf q st).length = 1 := by simp [postOf, hl]
      have hne : ¬ l + st.offset + 1 = (frontOf q st ++ q.instrs ++ postOf q st).length := by
        simp only [List.length_append, hQ, hlen]; omega
      simp only [Option.map_some, hne, if_false, Option.toList_some, List.map_cons, List.map_nil, hlen,
        Nat.add_comm]
  have hmlt : ∀ m ∈ plainMarks q es, m < q.instrs.length := by
    intro m hm
    simp only [plainMarks, List.mem_append, List.mem_map] at hm
    rcases hm with ⟨ce, hce, rfl⟩ | hm
    · exact hent ce hce
    · cases hl : q.lb with
      | none => simp [hl] at hm
      | some l => simp only [hl, Option.toList_some, List.mem_singleton] at hm; rw [hm]; exact hlb l hl
  -- the flags
  have hfl : reachable ⟨frontOf q st ++ q.instrs ++ postOf q st, q.lb.map (· + st.offset), q.rb⟩
      (es.map (fun ce => (ce.1, st.offset + ce.2))) =
      List.replicate (frontOf q st).length false ++
        (List.replicate q.instrs.length true ++ List.replicate (postOf q st).length false) := by
    simp only [reachable]
    rw [hmarks, List.append_assoc, reachFrom_prefix, reachFrom_suffix _ _ _ hcl hmlt]
    rw [show reachFrom (plainMarks q es) q.instrs = List.replicate q.instrs.length true from hall]
  have hcomp : compact (frontOf q st ++ q.instrs ++ postOf q st)
      (List.replicate (frontOf q st).length false ++
        (List.replicate q.instrs.length true ++ List.replicate (postOf q st).length false)) = q.instrs := by
    rw [List.append_assoc, compact_prefix_false, compact_trues _ _ hnr hcl]
  have hpos : ∀ e, e < q.instrs.length →
      posOf (frontOf q st ++ q.instrs ++ postOf q st)
        (List.replicate (frontOf q st).length false ++
          (List.replicate q.instrs.length true ++ List.replicate (postOf q st).length false)) (st.offset + e) = e ∧
      isReach (List.replicate (frontOf q st).length false ++
          (List.replicate q.instrs.length true ++ List.replicate (postOf q st).length false)) (st.offset + e) = true := by
    intro e he
    constructor
    · rw [List.append_assoc, ← hlen, posOf_prefix_false, posOf_trues _ _ _ e hnr (Nat.le_of_lt he)]
    · simp only [isReach, beq_iff_eq]
      rw [← hlen, List.getElem?_append_right (by simp), List.getElem?_append_left (by simpa using he)]
      simp [he]
  simp only [normalise, hfl, hcomp, closed_fixLast _ hcl]
  rw [filterMap_shift _ _ _ es (fun ce hce => hpos ce.2 (hent ce hce))]
  rw [bind_shift _ _ _ q.lb (fun l hl => by
    have := hpos l (hlb l hl)
    rw [Nat.add_comm] at this
    exact this)]

/-! ### The packed program satisfies the hypotheses of the normalisation theorems -/

theorem closed_append : ∀ (A B : List Instr), closed A = true → closed B = true → closed (A ++ B) = true := by
  intro A
  induction A with
  | nil => intro B _ hB; simpa using hB
  | cons a t ih =>
    intro B hA hB
    obtain ⟨hnext, hct⟩ := closed_cons hA
    simp only [List.cons_append, closed, ih B hct hB, Bool.and_true]
    cases hn : a.next with
    | none => rfl
    | some s =>
      have := hnext s hn
      simp only [List.length_append, decide_eq_true_eq]
      omega

theorem closed_of_next_none : ∀ (A : List Instr), (∀ i ∈ A, i.next = none) → closed A = true := by
  intro A
  induction A with
  | nil => intro _; rfl
  | cons a t ih =>
    intro h
    simp only [closed, h a (List.mem_cons_self ..), ih (fun i hi => h i (List.mem_cons_of_mem _ hi)), Bool.and_self]

theorem noReachRedirect_append : ∀ (A B : List Instr) (fa fb : List Bool), fa.length = A.length →
    noReachRedirect A fa = true → noReachRedirect B fb = true → noReachRedirect (A ++ B) (fa ++ fb) = true := by
  intro A
  induction A with
  | nil => intro B fa fb hl _ hB; cases fa <;> simp_all
  | cons a t ih =>
    intro B fa fb hl hA hB
    cases fa with
    | nil => simp at hl
    | cons f fa' =>
      simp only [noReachRedirect, Bool.and_eq_true] at hA
      simp only [List.cons_append, noReachRedirect, hA.1, Bool.true_and]
      exact ih B fa' fb (by simpa using hl) hA.2 hB

theorem noReachRedirect_false : ∀ (A : List Instr), noReachRedirect A (List.replicate A.length false) = true := by
  intro A
  induction A with
  | nil => rfl
  | cons a t ih => simp [noReachRedirect, List.replicate_succ, ih]

theorem noReachRedirect_of_noRedirect : ∀ (A : List Instr) (fa : List Bool), noRedirect A = true →
    noReachRedirect A fa = true := by
  intro A
  induction A with
  | nil => intro fa _; cases fa <;> rfl
  | cons a t ih =>
    intro fa h
    cases fa with
    | nil => rfl
    | cons f fa' =>
      have hop : a.op.isRedirect = false := not_redirect_of_mem h (List.mem_cons_self ..)
      have h' : noRedirect t = true := by
        simp only [noRedirect, List.all_eq_true] at h ⊢
        exact fun x hx => h x (List.mem_cons_of_mem _ hx)
      simp [noReachRedirect, hop, ih fa' h']

theorem frontOf_next (p : Prog) (st : LoopSt) : ∀ i ∈ frontOf p st, i.next = none := by
  intro i hi
  simp only [frontOf, List.mem_append, List.mem_map] at hi
  rcases hi with hi | ⟨e, _, rfl⟩
  · split at hi
    · simp only [List.mem_singleton] at hi; subst hi; rfl
    · simp at hi
  · rfl

theorem postOf_next (p : Prog) (st : LoopSt) : ∀ i ∈ postOf p st, i.next = none := by
  intro i hi
  simp only [postOf] at hi
  split at hi
  · simp at hi
  · simp only [List.mem_singleton] at hi; subst hi; rfl

/-- **pack_nwf.** What `pack` produces from a well-formed PL-level program, with its unpacked
entry points, satisfies `nwf`: the redirect words in front and the boundary word behind are
unreachable. -/
theorem pack_nwf_aux {q : Prog} {es : List (Nat × Nat)} {P : Prog} {pe : List (Nat × Nat)}
    (h : pack q es = some (P, pe)) (hwf : wf q es = true) :
    nwf P (unpackAll P.instrs pe) = true := by
  obtain ⟨st, _, hlen, hP, hun⟩ := pack_unpackAll h hwf
  obtain ⟨hnr, hcl, hent, hlb⟩ := wf_parts hwf
  rw [hun]
  subst hP
  have hmarks : startMarks ⟨frontOf q st ++ q.instrs ++ postOf q st, q.lb.map (· + st.offset), q.rb⟩
      (es.map (fun ce => (ce.1, st.offset + ce.2))) = (plainMarks q es).map ((frontOf q st).length + ·) := by
    simp only [startMarks, plainMarks, List.map_append, List.map_map, hlen]
    congr 1
    cases hl : q.lb with
    | none => simp
    | some l =>
      have hl1 := hlb l hl
      have hQ : (postOf q st).length = 1 := by simp [postOf, hl]
      have hne : ¬ l + st.offset + 1 = (frontOf q st ++ q.instrs ++ postOf q st).length := by
        simp only [List.length_append, hQ, hlen]; omega
      simp only [Option.map_some, hne, if_false, Option.toList_some, List.map_cons, List.map_nil, hlen,
        Nat.add_comm]
  have hmlt : ∀ m ∈ plainMarks q es, m < q.instrs.length := by
    intro m hm
    simp only [plainMarks, List.mem_append, List.mem_map] at hm
    rcases hm with ⟨ce, hce, rfl⟩ | hm
    · exact hent ce hce
    · cases hl : q.lb with
      | none => simp [hl] at hm
      | some l => simp only [hl, Option.toList_some, List.mem_singleton] at hm; rw [hm]; exact hlb l hl
  have hfl : reachable ⟨frontOf q st ++ q.instrs ++ postOf q st, q.lb.map (· + st.offset), q.rb⟩
      (es.map (fun ce => (ce.1, st.offset + ce.2))) =
      List.replicate (frontOf q st).length false ++
        (reachFrom (plainMarks q es) q.instrs ++ List.replicate (postOf q st).length false) := by
    simp only [reachable]
    rw [hmarks, List.append_assoc, reachFrom_prefix, reachFrom_suffix _ _ _ hcl hmlt]
  simp only [nwf, Bool.and_eq_true, List.all_eq_true, decide_eq_true_eq]
  refine ⟨⟨⟨?_, ?_⟩, ?_⟩, ?_⟩
  · rw [List.append_assoc]
    exact closed_append _ _ (closed_of_next_none _ (frontOf_next q st))
      (closed_append _ _ hcl (closed_of_next_none _ (postOf_next q st)))
  · intro ce hce
    obtain ⟨ce0, hce0, rfl⟩ := List.mem_map.mp hce
    have := hent ce0 hce0
    simp only [List.length_append, hlen]
    omega
  · cases hl : q.lb with
    | none => simp
    | some l =>
      have hl1 := hlb l hl
      have hQ : (postOf q st).length = 1 := by simp [postOf, hl]
      simp only [Option.map_some, List.length_append, hQ, hlen, decide_eq_true_eq]
      omega
  · rw [hfl, List.append_assoc]
    apply noReachRedirect_append _ _ _ _ (by simp) (noReachRedirect_false _)
    apply noReachRedirect_append _ _ _ _ (reachFrom_length _ _) (noReachRedirect_of_noRedirect _ _ hnr)
    exact noReachRedirect_false _

end C11
