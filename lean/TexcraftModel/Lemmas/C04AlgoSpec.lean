import TexcraftModel.Lemmas.C04AlgoDefs

/-!
C04 — the transcribed algorithm's local computations (`classify`, `endUpdate`, `breakWidth`,
`rateFn`, `demeritsFn`) agree with the specification's prefix functions (`cum`, `autoAt`,
`insideReplaced`, `rawBreak`, `afterRef`, `rate`, `demerits`). Proves the statements of
the plan (notes/C04-deepening-plan.md, Stage B). Helper lemmas carry the prefix `spec_`. Core Lean only.
-/
namespace C04

theorem cum_succ (items : List Item) (i : Nat) (it : Item) (h : items[i]? = some it) :
    cum items (i + 1) = (cum items i).add it.contrib := by
  unfold cum
  rw [List.take_add_one, List.foldl_append, h]
  rfl

theorem cum_beyond (items : List Item) (i : Nat) (h : items.length ≤ i) :
    cum items (i + 1) = cum items i := by
  unfold cum
  rw [List.take_of_length_le h, List.take_of_length_le (by omega)]

theorem spec_add_zero (a : Totals) : a.add {} = a := by
  cases a; simp [Totals.add]

theorem spec_autoAt_eq (items : List Item) (b : Nat) : autoAt items b = autoBefore items (b + 1) := rfl

theorem spec_autoBefore_succ (items : List Item) (i : Nat) :
    autoBefore items (i + 1) =
      match items[i]? with
      | some (.math after) => after
      | _ => autoBefore items i := by
  unfold autoBefore
  rw [List.take_add_one, List.foldl_append]
  cases h : items[i]? with
  | none => simp
  | some it => cases it <;> simp

theorem spec_eorAt_succ (items : List Item) (i : Nat) :
    eorAt items (i + 1) =
      match items[i]? with
      | some (.disc _ _ r) => i + 1 + r
      | _ => eorAt items i := by
  unfold eorAt
  rw [List.range_succ, List.foldl_append]
  cases h : items[i]? with
  | none => simp [h]
  | some it => cases it <;> simp [h]

theorem spec_discOK_prop (x : Inst) (hd : discOK x = true) (a : Nat) (pre post : List Int) (r : Nat)
    (h : x.items[a]? = some (.disc pre post r)) (k : Nat) (hk : k < r) :
    (∃ w, x.items[a + 1 + k]? = some (.box w)) ∨ (∃ e w, x.items[a + 1 + k]? = some (.kern e w)) := by
  unfold discOK at hd
  rw [List.all_eq_true] at hd
  have ha : a < x.n := by
    unfold Inst.n
    rcases List.getElem?_eq_some_iff.1 h with ⟨hlt, _⟩
    exact hlt
  have h1 := hd a (List.mem_range.2 ha)
  simp only [h] at h1
  rw [List.all_eq_true] at h1
  have h2 := h1 k (List.mem_range.2 hk)
  cases h3 : x.items[a + 1 + k]? with
  | none => simp [h3] at h2
  | some it =>
    cases it <;> simp [h3] at h2
    · exact Or.inl ⟨_, rfl⟩
    · exact Or.inr ⟨_, _, rfl⟩


/-- `eorAt` is 0 or comes from a discretionary before `i`. -/
theorem spec_eorAt_src (items : List Item) (i : Nat) :
    eorAt items i = 0 ∨ ∃ a pre post r, a < i ∧ items[a]? = some (.disc pre post r) ∧
      eorAt items i = a + 1 + r := by
  induction i with
  | zero => left; rfl
  | succ i ih =>
    rw [spec_eorAt_succ]
    cases h : items[i]? with
    | none =>
      rcases ih with h0 | ⟨a, pre, post, r, ha, hit, he⟩
      · exact Or.inl h0
      · exact Or.inr ⟨a, pre, post, r, by omega, hit, he⟩
    | some it =>
      cases it with
      | disc pre post r => exact Or.inr ⟨i, pre, post, r, by omega, h, rfl⟩
      | _ =>
        rcases ih with h0 | ⟨a, pre, post, r, ha, hit, he⟩
        · exact Or.inl h0
        · exact Or.inr ⟨a, pre, post, r, by omega, hit, he⟩

/-- Under `discOK`, `eorAt` dominates the end of every earlier discretionary. -/
theorem spec_eorAt_ge (x : Inst) (hd : discOK x = true) (i : Nat) :
    ∀ a pre post r, a < i → x.items[a]? = some (.disc pre post r) → a + 1 + r ≤ eorAt x.items i := by
  induction i with
  | zero => intro a pre post r ha; omega
  | succ i ih =>
    intro a pre post r ha hit
    rw [spec_eorAt_succ]
    by_cases hai : a = i
    · subst hai
      simp only [hit]
      exact Nat.le_refl _
    · have hlt : a < i := by omega
      have h1 := ih a pre post r hlt hit
      cases h : x.items[i]? with
      | none => exact h1
      | some it =>
        cases it with
        | disc pre' post' r' =>
          show a + 1 + r ≤ i + 1 + r'
          by_cases hc : i < a + 1 + r
          · -- i = a + 1 + k with k < r: a box or kern by discOK
            have hk : i - (a + 1) < r := by omega
            have he : a + 1 + (i - (a + 1)) = i := by omega
            have := spec_discOK_prop x hd a pre post r hit (i - (a + 1)) hk
            rw [he, h] at this
            rcases this with ⟨w, hw⟩ | ⟨e, w, hw⟩ <;> cases hw
          · omega
        | _ => exact h1

theorem spec_eor_inside (x : Inst) (hd : discOK x = true) (i : Nat) :
    decide (eorAt x.items i ≤ i) = !insideReplaced x.items i := by
  cases hin : insideReplaced x.items i with
  | true =>
    unfold insideReplaced at hin
    rw [List.any_eq_true] at hin
    rcases hin with ⟨a, ha, hc⟩
    have ha' := List.mem_range.1 ha
    cases h : x.items[a]? with
    | none => simp [h] at hc
    | some it =>
      cases it with
      | disc pre post r =>
        simp only [h, decide_eq_true_eq] at hc
        have := spec_eorAt_ge x hd i a pre post r ha' h
        simp only [Bool.not_true, decide_eq_false_iff_not]
        omega
      | _ => simp [h] at hc
  | false =>
    simp only [Bool.not_false, decide_eq_true_eq]
    rcases spec_eorAt_src x.items i with h0 | ⟨a, pre, post, r, ha, hit, he⟩
    · omega
    · rw [he]
      apply Nat.le_of_not_lt
      intro hc
      have : insideReplaced x.items i = true := by
        unfold insideReplaced
        rw [List.any_eq_true]
        refine ⟨a, List.mem_range.2 ha, ?_⟩
        simp only [hit, decide_eq_true_eq]
        exact hc
      rw [hin] at this
      cases this


theorem spec_lt_n_of_some (x : Inst) (i : Nat) (it : Item) (h : x.items[i]? = some it) : i ≠ x.n := by
  rcases List.getElem?_eq_some_iff.1 h with ⟨hlt, _⟩
  unfold Inst.n; omega

theorem spec_breakInfo_none (x : Inst) (i : Nat) (h : rawBreak x i = none) : breakInfo x i = none := by
  unfold breakInfo; rw [h]

theorem classify_none (x : Inst) (hd : discOK x = true) (i : Nat) (st : LState) (hi : i ≤ x.n)
    (hb : LBasic x i st) (h : (classify x i st).2 = none) :
    breakInfo x i = none ∧ LBasic x (i + 1) (classify x i st).1 ∧
      (classify x i st).1.active = st.active := by
  have _ := hi
  obtain ⟨hdf, hau, heo⟩ := hb
  cases hit : x.items[i]? with
  | none => simp [classify, hit] at h
  | some it =>
    have hne := spec_lt_n_of_some x i it hit
    have hcs := cum_succ x.items i it hit
    have has := spec_autoBefore_succ x.items i
    have hes := spec_eorAt_succ x.items i
    rw [hit] at has hes
    cases it with
    | box w =>
      refine ⟨spec_breakInfo_none x i (by simp [rawBreak, hne, hit]), ⟨?_, ?_, ?_⟩, ?_⟩ <;>
        simp only [classify, hit]
      · rw [hcs, hdf]; rfl
      · rw [has, hau]
      · rw [hes, heo]
    | inert =>
      refine ⟨spec_breakInfo_none x i (by simp [rawBreak, hne, hit]), ⟨?_, ?_, ?_⟩, ?_⟩ <;>
        simp only [classify, hit]
      · rw [hcs, hdf]; exact (spec_add_zero _).symm
      · rw [has, hau]
      · rw [hes, heo]
    | disc pre post r => simp [classify, hit] at h
    | penalty p => simp [classify, hit] at h
    | math after =>
      simp only [classify, hit] at h ⊢
      split at h
      · cases h
      · rename_i hc
        refine ⟨spec_breakInfo_none x i ?_, ⟨?_, ?_, ?_⟩, ?_⟩
        · simp only [rawBreak, hne, hit, if_false, spec_autoAt_eq, has]
          rw [if_neg]
          simpa [isGlueAt] using hc
        · rw [if_neg hc]; show st.diffs = _
          rw [hcs, hdf]; exact (spec_add_zero _).symm
        · rw [if_neg hc]; show after = _
          rw [has]
        · rw [if_neg hc]; show st.eor = _
          rw [hes, heo]
        · rw [if_neg hc]
    | glue g =>
      simp only [classify, hit] at h ⊢
      split at h
      · cases h
      · rename_i hc
        refine ⟨spec_breakInfo_none x i ?_, ⟨?_, ?_, ?_⟩, ?_⟩
        · simp only [rawBreak, hne, hit, if_false, spec_autoAt_eq, has]
          rw [if_neg]
          rw [← hau]; exact hc
        · rw [if_neg hc]; show st.diffs.add _ = _
          rw [hcs, hdf]; rfl
        · rw [if_neg hc]; show st.auto = _
          rw [has, hau]
        · rw [if_neg hc]; show st.eor = _
          rw [hes, heo]
        · rw [if_neg hc]
    | kern e w =>
      simp only [classify, hit] at h ⊢
      split at h
      · cases h
      · rename_i hc
        refine ⟨spec_breakInfo_none x i ?_, ⟨?_, ?_, ?_⟩, ?_⟩
        · simp only [rawBreak, hne, hit, if_false, spec_autoAt_eq, has]
          rw [if_neg]
          intro hr
          apply hc
          have hk := spec_eor_inside x hd i
          rw [← hau] at hr
          refine ⟨hr.1, hr.2.1, ?_, hr.2.2.1⟩
          rw [heo]
          have h4 := hr.2.2.2
          simp only [Bool.not_eq_true] at h4
          rw [h4] at hk
          simpa using hk
        · rw [if_neg hc]; show st.diffs.add _ = _
          rw [hcs, hdf]; rfl
        · rw [if_neg hc]; show st.auto = _
          rw [has, hau]
        · rw [if_neg hc]; show st.eor = _
          rw [hes, heo]
        · rw [if_neg hc]


theorem classify_some (x : Inst) (hd : discOK x = true) (i : Nat) (st : LState) (hi : i ≤ x.n)
    (hb : LBasic x i st) (pen : Int) (hy : Bool) (dw : Int)
    (h : (classify x i st).2 = some (pen, hy, dw)) :
    rawBreak x i = some (pen, hy) ∧ dw = preWidth x i ∧
    (classify x i st).1.diffs = cum x.items i ∧ (classify x i st).1.active = st.active ∧
    (classify x i st).1.auto = autoBefore x.items (i + 1) ∧
    (classify x i st).1.eor = eorAt x.items (i + 1) ∧
    endUpdate x i (cum x.items i) = cum x.items (i + 1) ∧
    (10000 ≤ pen → cum x.items (i + 1) = cum x.items i) := by
  obtain ⟨hdf, hau, heo⟩ := hb
  have has := spec_autoBefore_succ x.items i
  have hes := spec_eorAt_succ x.items i
  cases hit : x.items[i]? with
  | none =>
    have hlen : x.items.length ≤ i := by
      rcases Nat.lt_or_ge i x.items.length with hl | hl
      · rw [List.getElem?_eq_getElem hl] at hit; cases hit
      · exact hl
    have hin : i = x.n := by unfold Inst.n at hi ⊢; omega
    have hcb := cum_beyond x.items i hlen
    rw [hit] at has hes
    simp only [classify, hit, Option.some.injEq, Prod.mk.injEq] at h ⊢
    obtain ⟨rfl, rfl, rfl⟩ := h
    refine ⟨by simp [rawBreak, hin], by simp [preWidth, hit], hdf, trivial, ?_, ?_, ?_, fun _ => hcb⟩
    · rw [has, hau]
    · rw [hes, heo]
    · simp only [endUpdate, hit]; exact hcb.symm
  | some it =>
    have hne := spec_lt_n_of_some x i it hit
    have hcs := cum_succ x.items i it hit
    rw [hit] at has hes
    cases it with
    | box w => simp [classify, hit] at h
    | inert => simp [classify, hit] at h
    | disc pre post r =>
      have hcb : cum x.items (i + 1) = cum x.items i := by rw [hcs]; exact spec_add_zero _
      simp only [classify, hit, Option.some.injEq, Prod.mk.injEq] at h ⊢
      obtain ⟨rfl, rfl, rfl⟩ := h
      refine ⟨by simp [rawBreak, hne, hit], by simp [preWidth, hit], hdf, trivial, ?_, ?_, ?_, fun _ => hcb⟩
      · rw [has, hau]
      · rw [hes]
      · simp only [endUpdate, hit]; exact hcb.symm
    | penalty p =>
      have hcb : cum x.items (i + 1) = cum x.items i := by rw [hcs]; exact spec_add_zero _
      simp only [classify, hit, Option.some.injEq, Prod.mk.injEq] at h ⊢
      obtain ⟨rfl, rfl, rfl⟩ := h
      refine ⟨by simp [rawBreak, hne, hit], by simp [preWidth, hit], hdf, trivial, ?_, ?_, ?_, fun _ => hcb⟩
      · rw [has, hau]
      · rw [hes, heo]
      · simp only [endUpdate, hit]; exact hcb.symm
    | math after =>
      have hcb : cum x.items (i + 1) = cum x.items i := by rw [hcs]; exact spec_add_zero _
      simp only [classify, hit] at h ⊢
      split at h
      · rename_i hc
        simp only [Option.some.injEq, Prod.mk.injEq] at h
        obtain ⟨rfl, rfl, rfl⟩ := h
        rw [if_pos hc]
        refine ⟨?_, by simp [preWidth, hit], hdf, rfl, ?_, ?_, ?_, fun _ => hcb⟩
        · simp only [rawBreak, hne, hit, if_false, spec_autoAt_eq, has]
          rw [if_pos]
          simpa [isGlueAt] using hc
        · show after = _
          rw [has]
        · show st.eor = _
          rw [hes, heo]
        · simp only [endUpdate, hit]; exact hcb.symm
      · cases h
    | glue g =>
      simp only [classify, hit] at h ⊢
      split at h
      · rename_i hc
        simp only [Option.some.injEq, Prod.mk.injEq] at h
        obtain ⟨rfl, rfl, rfl⟩ := h
        rw [if_pos hc]
        refine ⟨?_, by simp [preWidth, hit], hdf, rfl, ?_, ?_, ?_, fun hp => absurd hp (by decide)⟩
        · simp only [rawBreak, hne, hit, if_false, spec_autoAt_eq, has]
          rw [if_pos]
          rw [← hau]; exact hc
        · rw [has, hau]
        · rw [hes, heo]
        · simp only [endUpdate, hit]; rw [hcs]; rfl
      · cases h
    | kern e w =>
      simp only [classify, hit] at h ⊢
      split at h
      · rename_i hc
        simp only [Option.some.injEq, Prod.mk.injEq] at h
        obtain ⟨rfl, rfl, rfl⟩ := h
        rw [if_pos hc]
        refine ⟨?_, by simp [preWidth, hit], hdf, rfl, ?_, ?_, ?_, fun hp => absurd hp (by decide)⟩
        · simp only [rawBreak, hne, hit, if_false, spec_autoAt_eq, has]
          rw [if_pos]
          have hk := spec_eor_inside x hd i
          rw [← hau]
          refine ⟨hc.1, hc.2.1, ?_, ?_⟩
          · simpa [isGlueAt] using hc.2.2.2
          · have h3 := hc.2.2.1
            rw [heo] at h3
            rw [decide_eq_true h3] at hk
            simp only [Bool.not_eq_true]
            cases hir : insideReplaced x.items i with
            | false => rfl
            | true => rw [hir] at hk; cases hk
        · rw [has, hau]
        · rw [hes, heo]
        · simp only [endUpdate, hit]; rw [hcs]; rfl
      · cases h


theorem spec_takeWhile_eq_take (p : Item → Bool) (t : List Item) :
    t.takeWhile p = t.take (t.takeWhile p).length := by
  induction t with
  | nil => rfl
  | cons a t ih =>
    by_cases h : p a = true
    · rw [List.takeWhile_cons_of_pos h, List.length_cons, List.take_succ_cons, ← ih]
    · rw [List.takeWhile_cons_of_neg h]; rfl

theorem spec_discardList_eq (t : List Item) (d : Totals) :
    discardList t d = (t.takeWhile Item.discardable).foldl (fun t it => t.add it.contrib) d := by
  induction t generalizing d with
  | nil => simp [discardList]
  | cons a t ih =>
    cases a with
    | glue g =>
      rw [List.takeWhile_cons_of_pos (by rfl), List.foldl_cons]
      simp only [discardList]; rw [ih]; rfl
    | penalty p =>
      have e : d.add (Item.penalty p).contrib = d := spec_add_zero d
      rw [List.takeWhile_cons_of_pos (by rfl), List.foldl_cons, e]
      simp only [discardList]; rw [ih]
    | math b =>
      have e : d.add (Item.math b).contrib = d := spec_add_zero d
      rw [List.takeWhile_cons_of_pos (by rfl), List.foldl_cons, e]
      simp only [discardList]; rw [ih]
    | kern e w =>
      cases e
      · simp [discardList, Item.discardable]
      · rw [List.takeWhile_cons_of_pos (by rfl), List.foldl_cons]
        simp only [discardList]; rw [ih]; rfl
    | box w => simp [discardList, Item.discardable]
    | inert => simp [discardList, Item.discardable]
    | disc pre post r => simp [discardList, Item.discardable]

theorem spec_discard_cum (items : List Item) (j : Nat) :
    discardList (items.drop j) (cum items j) = cum items (pruneEnd items j) := by
  rw [spec_discardList_eq]
  unfold pruneEnd cum
  rw [List.take_add, List.foldl_append, ← spec_takeWhile_eq_take]

theorem spec_discard_sub (t : List Item) (d k : Totals) :
    discardList t (d.sub k) = (discardList t d).sub k := by
  induction t generalizing d with
  | nil => simp [discardList]
  | cons a t ih =>
    have hcomm : ∀ c : Totals, (d.sub k).add c = (d.add c).sub k := by
      intro c
      simp only [Totals.add, Totals.sub, Totals.mk.injEq]
      refine ⟨?_, ?_, ?_, ?_, ?_, ?_⟩ <;> omega
    cases a with
    | glue g => simp only [discardList]; rw [hcomm, ih]
    | penalty p => simp only [discardList]; rw [ih]
    | math b => simp only [discardList]; rw [ih]
    | kern e w =>
      cases e
      · simp [discardList]
      · simp only [discardList]; rw [hcomm, ih]
    | box w => simp [discardList]
    | inert => simp [discardList]
    | disc pre post r => simp [discardList]

theorem spec_replaced_cum (items : List Item) (r : Nat) : ∀ (j : Nat),
    (∀ k, k < r → (∃ w, items[j + k]? = some (.box w)) ∨ (∃ e w, items[j + k]? = some (.kern e w))) →
    (cum items j).add (.ofWidth (replacedWidth items j r)) = cum items (j + r) := by
  induction r with
  | zero =>
    intro j _
    simp only [replacedWidth, Nat.add_zero]
    exact spec_add_zero _
  | succ r ih =>
    intro j H
    have hassoc : ∀ (a : Totals) (w v : Int),
        a.add (.ofWidth (w + v)) = (a.add (.ofWidth w)).add (.ofWidth v) := by
      intro a w v
      simp only [Totals.add, Totals.ofWidth, Totals.mk.injEq]
      refine ⟨?_, ?_, ?_, ?_, ?_, ?_⟩ <;> omega
    have H' : ∀ k, k < r → (∃ w, items[j + 1 + k]? = some (.box w)) ∨
        (∃ e w, items[j + 1 + k]? = some (.kern e w)) := by
      intro k hk
      have := H (k + 1) (by omega)
      have e : j + (k + 1) = j + 1 + k := by omega
      rw [e] at this; exact this
    have h0 := H 0 (by omega)
    rw [Nat.add_zero] at h0
    have e2 : j + (r + 1) = j + 1 + r := by omega
    rw [e2, ← ih (j + 1) H']
    rcases h0 with ⟨w, hw⟩ | ⟨e, w, hw⟩
    · simp only [replacedWidth, hw]
      rw [hassoc, cum_succ items j _ hw]; rfl
    · simp only [replacedWidth, hw]
      rw [hassoc, cum_succ items j _ hw]; rfl

theorem breakWidth_eq (x : Inst) (hd : discOK x = true) (i : Nat) :
    breakWidth x i (cum x.items i) = afterRef x (some i) := by
  cases hit : x.items[i]? with
  | none =>
    have hlen : x.items.length ≤ i := by
      rcases Nat.lt_or_ge i x.items.length with hl | hl
      · rw [List.getElem?_eq_getElem hl] at hit; cases hit
      · exact hl
    simp only [breakWidth, afterRef, hit]
    unfold pruneEnd
    rw [List.drop_eq_nil_of_le hlen]
    rfl
  | some it =>
    cases it with
    | disc pre post r =>
      simp only [breakWidth, afterRef, hit]
      have hcs : cum x.items (i + 1) = cum x.items i := by
        rw [cum_succ x.items i _ hit]; exact spec_add_zero _
      have hrc := spec_replaced_cum x.items r (i + 1)
        (fun k hk => spec_discOK_prop x hd i pre post r hit k hk)
      rw [hcs] at hrc
      rw [hrc]
      by_cases hp : post.isEmpty = true
      · rw [if_pos hp, if_pos hp, spec_discard_sub, spec_discard_cum]
      · rw [if_neg hp, if_neg hp]
    | box w => simp only [breakWidth, afterRef, hit]; exact spec_discard_cum _ _
    | inert => simp only [breakWidth, afterRef, hit]; exact spec_discard_cum _ _
    | glue g => simp only [breakWidth, afterRef, hit]; exact spec_discard_cum _ _
    | kern e w => simp only [breakWidth, afterRef, hit]; exact spec_discard_cum _ _
    | penalty p => simp only [breakWidth, afterRef, hit]; exact spec_discard_cum _ _
    | math b => simp only [breakWidth, afterRef, hit]; exact spec_discard_cum _ _

theorem rateFn_eq (ld : Totals) (lw dw : Int) :
    rateFn ld lw dw = rate (ld.add (.ofWidth dw)) lw := by
  have hs : lw - ld.w - dw = lw - (ld.w + dw) := by omega
  have h1 : (10000 : Int) + 1 = 10001 := by decide
  simp only [rateFn, rate, Totals.add, Totals.ofWidth, Int.add_zero, hs, h1]

theorem spec_fit_far (pf f : Fit) :
    (1 < iabs ((pf.toNat : Int) - (f.toNat : Int))) ↔ pf.farFrom f = true := by
  cases pf <;> cases f <;> decide

theorem spec_iabs_ge (d : Int) : (10000 ≤ iabs d) ↔ (10000 ≤ d ∨ d ≤ -10000) := by
  unfold iabs
  split <;> omega

theorem demeritsFn_eq (x : Inst) (a : Option Nat) (b : Nat) (pen : Int) (hy : Bool)
    (hb : breakInfo x b = some (pen, hy)) (bad : Int) (pf f : Fit) :
    demeritsFn x.p bad pen pf f (hyphAt x a && hy) (hyphAt x a && decide (b = x.n))
      = demerits x a pf b bad f := by
  simp only [demeritsFn, demerits, hb, spec_fit_far, spec_iabs_ge, Bool.and_eq_true,
    decide_eq_true_eq]

end C04
