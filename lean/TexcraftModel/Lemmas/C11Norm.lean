/-
C11 — the normalisation of the instruction list (`Model/C11Norm.lean`): reachability is
closed under `next_instruction`, compaction keeps every reachable chain (same right
characters and operations in the same order), hence `normalise` preserves `C05.rule`.
-/
import TexcraftModel.Model.C05
import TexcraftModel.Model.C11
import TexcraftModel.Model.C11Bridge
import TexcraftModel.Model.C11Norm
import TexcraftModel.Lemmas.C11Chain
import TexcraftModel.Lemmas.C11Rule

namespace C11

/-! ### `reachable_array` -/

theorem reachFrom_length : ∀ (l : List Instr) (marks : List Nat), (reachFrom marks l).length = l.length := by
  intro l
  induction l with
  | nil => intro marks; rfl
  | cons i rest ih => intro marks; simp [reachFrom, ih]

theorem shifted_mem {marks : List Nat} {k : Nat} (h : k + 1 ∈ marks) :
    k ∈ (marks.filter (· ≠ 0)).map (· - 1) := by
  simp only [List.mem_map, List.mem_filter]
  exact ⟨k + 1, ⟨h, by simp⟩, by simp⟩

/-- A marked position inside the list is reachable. -/
theorem reachFrom_mark : ∀ (l : List Instr) (marks : List Nat) (m : Nat), m ∈ marks → m < l.length →
    (reachFrom marks l)[m]? = some true := by
  intro l
  induction l with
  | nil => intro marks m _ hm; simp at hm
  | cons i rest ih =>
    intro marks m hmem hm
    simp only [reachFrom]
    cases m with
    | zero => simp [List.contains_iff_mem, hmem]
    | succ k =>
      simp only [List.getElem?_cons_succ]
      apply ih _ k _ (by simpa using hm)
      have hk := shifted_mem hmem
      split
      · split
        · exact List.mem_cons_of_mem _ hk
        · exact hk
      · exact hk

/-- Reachability is closed under `next_instruction` (as a property of the zipped lists). -/
def RClosed : List Instr → List Bool → Prop
  | i :: rest, f :: fl =>
    (f = true → ∀ inc, i.next = some inc → inc < rest.length → fl[inc]? = some true) ∧ RClosed rest fl
  | _, _ => True

theorem reachFrom_closed : ∀ (l : List Instr) (marks : List Nat), RClosed l (reachFrom marks l) := by
  intro l
  induction l with
  | nil => intro marks; simp [reachFrom, RClosed]
  | cons i rest ih =>
    intro marks
    simp only [reachFrom, RClosed]
    refine ⟨?_, ih _⟩
    intro hr inc hn hlt
    simp only [hr, if_true, hn]
    exact reachFrom_mark rest _ inc (List.mem_cons_self ..) hlt

/-! ### Compaction keeps chains -/

/-- What a rule sees of an instruction. -/
def key (i : Instr) : Nat × Op := (i.right, i.op)

theorem noReachRedirect_cons {i : Instr} {rest : List Instr} {f : Bool} {fl : List Bool}
    (h : noReachRedirect (i :: rest) (f :: fl) = true) :
    (f = true → i.op.isRedirect = false) ∧ noReachRedirect rest fl = true := by
  simp only [noReachRedirect, Bool.and_eq_true, Bool.not_eq_true'] at h
  refine ⟨?_, h.2⟩
  intro hf
  have := h.1
  simpa [hf] using this

theorem posOf_eq_count : ∀ (l : List Instr) (fl : List Bool) (e : Nat), fl.length = l.length →
    noReachRedirect l fl = true → e ≤ l.length → posOf l fl e = countTrue (fl.take e) := by
  intro l
  induction l with
  | nil => intro fl e hl _ he; cases fl <;> simp_all [posOf, countTrue]
  | cons i rest ih =>
    intro fl e hl hnr he
    cases fl with
    | nil => simp at hl
    | cons f fl' =>
      obtain ⟨h1, h2⟩ := noReachRedirect_cons hnr
      cases e with
      | zero => simp [posOf, countTrue]
      | succ k =>
        simp only [posOf, List.take_succ_cons]
        rw [ih fl' k (by simpa using hl) h2 (by simpa using he)]
        cases f with
        | false => simp [countTrue]
        | true => simp [countTrue, h1 rfl]; omega

/-- `outNext` of a reachable step whose SKIP stays inside: the position of its target. -/
theorem outNext_some (rest : List Instr) (fl : List Bool) (inc : Nat) (hl : fl.length = rest.length)
    (hnr : noReachRedirect rest fl = true) (hlt : inc < rest.length) :
    outNext (some inc) fl = some (posOf rest fl inc) := by
  rw [posOf_eq_count rest fl inc hl hnr (Nat.le_of_lt hlt)]
  cases inc with
  | zero => simp [outNext, adjSkip, countTrue]
  | succ k =>
    have : k + 1 ≤ fl.length := by omega
    simp [outNext, adjSkip, this]

theorem chain_compact : ∀ (l : List Instr) (fl : List Bool) (e : Nat), fl.length = l.length →
    closed l = true → RClosed l fl → noReachRedirect l fl = true → fl[e]? = some true →
    (chain (posOf l fl e) (compact l fl)).map key = (chain e l).map key := by
  intro l
  induction l with
  | nil => intro fl e hl _ _ _ he; cases fl <;> simp_all
  | cons i rest ih =>
    intro fl e hl hc hrc hnr he
    cases fl with
    | nil => simp at hl
    | cons f fl' =>
      have hl' : fl'.length = rest.length := by simpa using hl
      obtain ⟨hnext, hcrest⟩ := closed_cons hc
      obtain ⟨hnr1, hnr2⟩ := noReachRedirect_cons hnr
      simp only [RClosed] at hrc
      obtain ⟨hrc1, hrc2⟩ := hrc
      cases e with
      | zero =>
        have hf : f = true := by simpa using he
        have hop := hnr1 hf
        simp only [posOf, compact, hf, hop, Bool.not_false, Bool.and_self, if_true, List.singleton_append, chain]
        cases hn : i.next with
        | none => simp [outNext, adjSkip, key]
        | some inc =>
          have hlt := hnext inc hn
          rw [outNext_some rest fl' inc hl' hnr2 hlt]
          simp only [List.map_cons, key, List.cons.injEq, true_and]
          exact ih fl' inc hl' hcrest hrc2 hnr2 (hrc1 hf inc hn hlt)
      | succ k =>
        have he' : fl'[k]? = some true := by simpa using he
        have ihk := ih fl' k hl' hcrest hrc2 hnr2 he'
        simp only [posOf, compact, chain]
        by_cases hem : (f && !i.op.isRedirect) = true
        · simp only [hem, if_true, List.singleton_append]
          rw [Nat.add_comm]
          simp only [chain]
          exact ihk
        · simp only [hem, Bool.false_eq_true, if_false, List.nil_append, Nat.zero_add]
          exact ihk

/-- "PLtoTF.2014.116" changes no chain: a SKIP 0 at the very end already ended it. -/
theorem chain_fixLast : ∀ (l : List Instr) (e : Nat), (chain e (fixLast l)).map key = (chain e l).map key := by
  intro l
  induction l with
  | nil => intro e; simp [fixLast]
  | cons a t ih =>
    intro e
    cases t with
    | nil =>
      cases e with
      | zero =>
        simp only [fixLast, chain]
        by_cases h : a.next = some 0
        · simp [h, key, chain_nil]
        · simp [h]
      | succ k => simp [fixLast, chain, chain_nil]
    | cons b t' =>
      cases e with
      | zero =>
        simp only [fixLast, chain, List.map_cons]
        cases hn : a.next with
        | none => rfl
        | some inc => simp only [List.cons.injEq, true_and]; exact ih inc
      | succ k =>
        simp only [fixLast, chain]
        exact ih k

theorem fixLast_length : ∀ (l : List Instr), (fixLast l).length = l.length := by
  intro l
  induction l with
  | nil => rfl
  | cons a t ih =>
    cases t with
    | nil => simp [fixLast]
    | cons b t' => simp only [fixLast, List.length_cons] at ih ⊢; omega

/-! ### From chains to rules -/

/-- The rule a chain yields depends only on the `(right, op)` keys along it. -/
def ruleOfKeys (ks : List Int) (r : Nat) (l : List (Nat × Op)) : Option C05.Op :=
  (l.find? (fun k => k.1 = r)).bind (fun k => C05.resolveOp ks (toC05Op k.2))

theorem rule_of_chain (ks : List Int) (r : Nat) (c : List Instr) :
    ((c.find? (fun i => i.right = r)).map toC05Instr).bind (fun i => C05.resolveOp ks i.op) =
      ruleOfKeys ks r (c.map key) := by
  induction c with
  | nil => simp [ruleOfKeys]
  | cons a t ih =>
    simp only [List.find?_cons, List.map_cons, ruleOfKeys, key]
    by_cases h : a.right = r
    · simp [h, toC05Instr]
    · simp only [h, decide_false]
      simpa [ruleOfKeys, key] using ih

/-- Same keys along the chains ⇒ same result of C05's search-and-resolve. -/
theorem find_resolve_eq (ks : List Int) (r e e' : Nat) (l l' : List Instr)
    (h : (chain e' l').map key = (chain e l).map key) :
    (C05.findInstr r e' (l'.map toC05Instr)).bind (fun i => C05.resolveOp ks i.op) =
      (C05.findInstr r e (l.map toC05Instr)).bind (fun i => C05.resolveOp ks i.op) := by
  rw [findInstr_chain, findInstr_chain, rule_of_chain, rule_of_chain, h]

theorem find?_map_snd (entries : List (Nat × Nat)) (f : Nat → Nat) (c : Nat) :
    ((entries.map (fun ce => (ce.1, f ce.2))).find? (fun x => x.1 = c)).map (·.2) =
      ((entries.find? (fun x => x.1 = c)).map (·.2)).map f := by
  induction entries with
  | nil => simp
  | cons x t ih =>
    simp only [List.map_cons, List.find?_cons]
    by_cases hx : x.1 = c
    · simp [hx]
    · simp only [hx, decide_false]
      exact ih

theorem filterMap_all_some {α β : Type} (f : α → Option β) (g : α → β) :
    ∀ (l : List α), (∀ x ∈ l, f x = some (g x)) → l.filterMap f = l.map g := by
  intro l
  induction l with
  | nil => intro _; rfl
  | cons a t ih =>
    intro h
    rw [List.filterMap_cons, h a (List.mem_cons_self ..)]
    simp only [List.map_cons, List.cons.injEq, true_and]
    exact ih (fun x hx => h x (List.mem_cons_of_mem _ hx))

theorem nwf_parts {p : Prog} {es : List (Nat × Nat)} (h : nwf p es = true) :
    closed p.instrs = true ∧ (∀ ce ∈ es, ce.2 < p.instrs.length) ∧
      (∀ l, p.lb = some l → l + 1 < p.instrs.length) ∧
      noReachRedirect p.instrs (reachable p es) = true := by
  simp only [nwf, Bool.and_eq_true, List.all_eq_true, decide_eq_true_eq] at h
  obtain ⟨⟨⟨h1, h2⟩, h3⟩, h4⟩ := h
  refine ⟨h1, h2, ?_, h4⟩
  intro l hl
  rw [hl] at h3
  simpa using h3

/-- Under `nwf` every entry point and the left-boundary entry point are reachable. -/
theorem entry_reach {p : Prog} {es : List (Nat × Nat)} (h : nwf p es = true) :
    (∀ ce ∈ es, (reachable p es)[ce.2]? = some true) ∧
      (∀ l, p.lb = some l → (reachable p es)[l]? = some true) := by
  obtain ⟨_, hent, hlb, _⟩ := nwf_parts h
  constructor
  · intro ce hce
    apply reachFrom_mark _ _ _ _ (hent ce hce)
    simp only [startMarks, List.mem_append, List.mem_map]
    exact Or.inl ⟨ce, hce, rfl⟩
  · intro l hl
    have := hlb l hl
    apply reachFrom_mark _ _ _ _ (by omega)
    simp only [startMarks, hl, List.mem_append]
    right
    have hne : ¬ l + 1 = p.instrs.length := by omega
    simp [hne]

/-- **normalise_preserves_rule.** -/
theorem normalise_rule {p : Prog} {es : List (Nat × Nat)} (h : nwf p es = true) (ks : List Int) :
    ∀ (l : Option Nat) (r : Nat),
      C05.rule (toC05 (normalise p es).1 (normalise p es).2 ks) l r = C05.rule (toC05 p es ks) l r := by
  obtain ⟨hcl, hent, hlb, hnr⟩ := nwf_parts h
  obtain ⟨hre, hrl⟩ := entry_reach h
  have hlen : (reachable p es).length = p.instrs.length := reachFrom_length _ _
  have hrc : RClosed p.instrs (reachable p es) := reachFrom_closed _ _
  have hchain : ∀ e, (reachable p es)[e]? = some true →
      (chain (posOf p.instrs (reachable p es) e) (fixLast (compact p.instrs (reachable p es)))).map key =
        (chain e p.instrs).map key := by
    intro e he
    rw [chain_fixLast]
    exact chain_compact _ _ e hlen hcl hrc hnr he
  have hes : (normalise p es).2 = es.map (fun ce => (ce.1, posOf p.instrs (reachable p es) ce.2)) := by
    simp only [normalise]
    apply filterMap_all_some
    intro ce hce
    simp [isReach, hre ce hce]
  intro l r
  simp only [C05.rule, C05.rawRule, toC05]
  cases l with
  | none =>
    simp only [C05.entryOf, normalise]
    cases hl : p.lb with
    | none => simp
    | some lb =>
      have hr := hrl lb hl
      simp only [Option.bind_some, isReach, hr, beq_self_eq_true, if_true]
      exact find_resolve_eq ks r _ _ _ _ (hchain lb hr)
  | some c =>
    simp only [C05.entryOf, hes]
    have := find?_map_snd es (posOf p.instrs (reachable p es)) c
    simp only [decide_eq_true_eq] at this ⊢
    rw [this]
    cases hf : es.find? (fun x => x.1 = c) with
    | none => simp
    | some ce =>
      have hce : ce ∈ es := List.mem_of_find?_eq_some hf
      simp only [Option.map_some, normalise]
      exact find_resolve_eq ks r _ _ _ _ (hchain ce.2 (hre ce hce))

end C11
