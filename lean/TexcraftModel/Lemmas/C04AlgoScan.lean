import TexcraftModel.Lemmas.C04AlgoDefs
/-!
C04 — the loops on the deque (`inner`, `outer`) in pure "scan" form, and the basic facts about
the candidates that a scan leaves behind. Core Lean only.
-/
namespace C04

/-! ### `tryNode` with `force_solution = false` -/

theorem tryNode_false (x : Inst) (c : BCtx) (ν : ANode) (e : Bool) (cs : Cands) (md : Int) :
    tryNode x false c ν e cs md =
      ⟨deactOf x c ν, (scanStep x c ν (cs, md)).1, (scanStep x c ν (cs, md)).2⟩ := by
  unfold tryNode scanStep offer deactOf allowOf totOf nodeRate
  by_cases h1 : 10000 < (rateFn ((c.diffs.sub ν.ref).add (background x.p))
      (lineWidth x.p.widths ν.line) c.discWidth).1 ∨ c.penalty = -10000
  · by_cases h2 : (rateFn ((c.diffs.sub ν.ref).add (background x.p))
        (lineWidth x.p.widths ν.line) c.discWidth).1 ≤ threshold x.p
    · simp [h1, h2]
    · simp [h1, h2]
  · by_cases h2 : (rateFn ((c.diffs.sub ν.ref).add (background x.p))
        (lineWidth x.p.widths ν.line) c.discWidth).1 ≤ threshold x.p
    · simp [h1, h2]
    · simp [h1, h2]

/-! ### The inner loop -/

theorem scan_survivors_cons (x : Inst) (c : BCtx) (ν : ANode) (t : List ANode) :
    survivors x c (ν :: t) = if deactOf x c ν then survivors x c t else ν :: survivors x c t := by
  unfold survivors
  rw [List.filter_cons]
  cases deactOf x c ν <;> simp

theorem scan_scanC_cons (x : Inst) (c : BCtx) (ν : ANode) (t : List ANode) (s : Cands × Int) :
    scanC x c (ν :: t) s = scanC x c t (scanStep x c ν s) := by
  simp [scanC]

theorem scan_scanC_nil (x : Inst) (c : BCtx) (s : Cands × Int) : scanC x c [] s = s := by
  simp [scanC]

theorem inner_eq (x : Inst) (c : BCtx) (G rest : List ANode) (cs : Cands) (md : Int) :
    inner x false c G.length (G ++ rest) cs md =
      (rest ++ survivors x c G, (scanC x c G (cs, md)).1, (scanC x c G (cs, md)).2) := by
  induction G generalizing rest cs md with
  | nil => simp [inner, survivors, scan_scanC_nil]
  | cons ν t ih =>
    rw [List.length_cons, List.cons_append, inner, tryNode_false, scan_survivors_cons,
      scan_scanC_cons]
    cases hd : deactOf x c ν
    · simp only [Bool.false_eq_true, if_false]
      rw [List.append_assoc, ih]
      simp [List.append_assoc]
    · simp only [if_true]
      rw [ih]

/-! ### `numNext` -/

theorem numNext_le (x : Inst) (q : Int) (act : List ANode) (k : Nat) : numNext x q act k ≤ k := by
  cases act with
  | nil => simp [numNext]
  | cons first t =>
    unfold numNext
    simp only
    split
    · exact Nat.le_refl _
    · refine Nat.le_trans (List.takeWhile_sublist _).length_le ?_
      rw [List.length_take]
      exact Nat.min_le_left _ _

theorem numNext_pos (x : Inst) (q : Int) (act : List ANode) (k : Nat) (h : act ≠ []) (hk : 0 < k) :
    0 < numNext x q act k := by
  cases act with
  | nil => exact absurd rfl h
  | cons first t =>
    cases k with
    | zero => exact absurd hk (Nat.lt_irrefl _)
    | succ k' =>
      unfold numNext
      simp only
      split
      · exact Nat.succ_pos _
      · rw [List.take_succ_cons, List.takeWhile_cons]
        simp

/-! ### The outer loop -/

theorem scan_numNext_append (x : Inst) (q : Int) (todo done : List ANode) :
    numNext x q (todo ++ done) todo.length = numNext x q todo todo.length := by
  cases todo with
  | nil => cases done <;> simp [numNext]
  | cons first t =>
    have h : ((first :: t) ++ done).take (first :: t).length = first :: t := List.take_left' rfl
    unfold numNext
    simp only [List.cons_append]
    rw [← List.cons_append, h, List.take_length]

theorem scan_groupsRun_nil (x : Inst) (q : Int) (c : BCtx) (fuel : Nat) :
    groupsRun x q c fuel [] = [] := by
  cases fuel <;> simp [groupsRun]

theorem outer_eq (x : Inst) (q : Int) (c : BCtx) (fuel : Nat) (todo done : List ANode)
    (h : todo.length ≤ fuel) :
    outer x q false c fuel todo.length (todo ++ done) = done ++ groupsRun x q c fuel todo := by
  induction fuel generalizing todo done with
  | zero =>
    have h0 : todo = [] := List.eq_nil_of_length_eq_zero (Nat.le_zero.mp h)
    subst h0
    simp [outer, groupsRun]
  | succ fuel ih =>
    by_cases h0 : todo = []
    · subst h0
      simp [outer, groupsRun]
    · have hlen : todo.length ≠ 0 := fun hl => h0 (List.eq_nil_of_length_eq_zero hl)
      have hm_le : numNext x q todo todo.length ≤ todo.length := numNext_le x q todo todo.length
      have hm_pos : 0 < numNext x q todo todo.length :=
        numNext_pos x q todo todo.length h0 (Nat.pos_of_ne_zero hlen)
      rw [outer, if_neg hlen, groupsRun, if_neg h0]
      simp only [scan_numNext_append]
      generalize hm : numNext x q todo todo.length = m at hm_le hm_pos
      have hsplit : todo ++ done = todo.take m ++ (todo.drop m ++ done) := by
        rw [← List.append_assoc, List.take_append_drop]
      have htl : (todo.take m).length = m := by
        rw [List.length_take]; exact Nat.min_eq_left hm_le
      have hin := inner_eq x c (todo.take m) (todo.drop m ++ done) Cands.init awfulBad
      rw [htl, ← hsplit] at hin
      rw [hin]
      have hdl : todo.length - m = (todo.drop m).length := by rw [List.length_drop]
      have hfuel : (todo.drop m).length ≤ fuel := by
        rw [List.length_drop]; omega
      simp only
      rw [hdl]
      unfold groupOut
      simp only
      split
      · rw [List.append_assoc, List.append_assoc, ih _ _ hfuel]
        simp [List.append_assoc]
      · rw [List.append_assoc, ih _ _ hfuel]
        simp [List.append_assoc]

/-! ### The candidates record a minimum -/

theorem minOK_init : MinOK (Cands.init, awfulBad) := by
  refine ⟨fun g => ?_, ⟨Fit.decent, ?_⟩⟩
  · show awfulBad ≤ awfulBad
    exact Int.le_refl _
  · rfl

theorem scan_offer_minOK (s : Cands × Int) (f : Fit) (tot : Int) (line : Nat) (path : List Nat)
    (h : MinOK s) : MinOK (offer s f tot line path) := by
  obtain ⟨hall, g0, hg0⟩ := h
  have hf := hall f
  unfold offer
  by_cases h2 : tot ≤ s.2
  · have h1 : tot ≤ (s.1 f).total := Int.le_trans h2 hf
    simp only [if_pos h1, if_pos h2]
    refine ⟨fun g => ?_, ⟨f, ?_⟩⟩
    · unfold Cands.set
      by_cases hg : g = f
      · simp [hg]
      · simp only [if_neg hg]
        exact Int.le_trans h2 (hall g)
    · simp [Cands.set]
  · by_cases h1 : tot ≤ (s.1 f).total
    · simp only [if_pos h1, if_neg h2]
      refine ⟨fun g => ?_, ⟨g0, ?_⟩⟩
      · unfold Cands.set
        by_cases hg : g = f
        · simp only [if_pos hg]; omega
        · simp only [if_neg hg]
          exact hall g
      · unfold Cands.set
        by_cases hg : g0 = f
        · subst hg; omega
        · simp only [if_neg hg]; exact hg0
    · simp only [if_neg h1, if_neg h2]
      exact ⟨hall, g0, hg0⟩

theorem scan_scanStep_minOK (x : Inst) (c : BCtx) (ν : ANode) (s : Cands × Int) (h : MinOK s) :
    MinOK (scanStep x c ν s) := by
  unfold scanStep
  split
  · exact scan_offer_minOK _ _ _ _ _ h
  · exact h

theorem scanC_minOK (x : Inst) (c : BCtx) (G : List ANode) (s : Cands × Int) (h : MinOK s) :
    MinOK (scanC x c G s) := by
  induction G generalizing s with
  | nil => rw [scan_scanC_nil]; exact h
  | cons ν t ih =>
    rw [scan_scanC_cons]
    exact ih _ (scan_scanStep_minOK x c ν s h)

/-! ### Monotonicity of the scan -/

theorem scan_offer_mono (s : Cands × Int) (f : Fit) (tot : Int) (line : Nat) (path : List Nat)
    (g : Fit) :
    ((offer s f tot line path).1 g).total ≤ (s.1 g).total ∧ (offer s f tot line path).2 ≤ s.2 := by
  unfold offer
  constructor
  · by_cases h1 : tot ≤ (s.1 f).total
    · simp only [if_pos h1]
      unfold Cands.set
      by_cases hg : g = f
      · subst hg; simp only [if_true]; exact h1
      · simp only [if_neg hg]; exact Int.le_refl _
    · simp only [if_neg h1]; exact Int.le_refl _
  · by_cases h2 : tot ≤ s.2
    · simp only [if_pos h2]; exact h2
    · simp only [if_neg h2]; exact Int.le_refl _

theorem scan_offer_le (s : Cands × Int) (f : Fit) (tot : Int) (line : Nat) (path : List Nat) :
    ((offer s f tot line path).1 f).total ≤ tot ∧ (offer s f tot line path).2 ≤ tot := by
  unfold offer
  constructor
  · by_cases h1 : tot ≤ (s.1 f).total
    · simp [if_pos h1, Cands.set]
    · simp only [if_neg h1]; omega
  · by_cases h2 : tot ≤ s.2
    · simp only [if_pos h2]; exact Int.le_refl _
    · simp only [if_neg h2]; omega

theorem scan_scanStep_mono (x : Inst) (c : BCtx) (ν : ANode) (s : Cands × Int) (g : Fit) :
    ((scanStep x c ν s).1 g).total ≤ (s.1 g).total ∧ (scanStep x c ν s).2 ≤ s.2 := by
  unfold scanStep
  split
  · exact scan_offer_mono _ _ _ _ _ g
  · exact ⟨Int.le_refl _, Int.le_refl _⟩

theorem scan_scanC_mono (x : Inst) (c : BCtx) (G : List ANode) (s : Cands × Int) (g : Fit) :
    ((scanC x c G s).1 g).total ≤ (s.1 g).total ∧ (scanC x c G s).2 ≤ s.2 := by
  induction G generalizing s with
  | nil => rw [scan_scanC_nil]; exact ⟨Int.le_refl _, Int.le_refl _⟩
  | cons ν t ih =>
    rw [scan_scanC_cons]
    have h1 := ih (scanStep x c ν s)
    have h2 := scan_scanStep_mono x c ν s g
    exact ⟨Int.le_trans h1.1 h2.1, Int.le_trans h1.2 h2.2⟩

theorem scanC_le (x : Inst) (c : BCtx) (G : List ANode) (s : Cands × Int) (ν : ANode)
    (hν : ν ∈ G) (ha : allowOf x c ν = true) :
    ((scanC x c G s).1 (nodeRate x c ν).2).total ≤ totOf x c ν ∧ (scanC x c G s).2 ≤ totOf x c ν := by
  induction G generalizing s with
  | nil => cases hν
  | cons μ t ih =>
    rw [scan_scanC_cons]
    rcases List.mem_cons.mp hν with hμ | hμ
    · subst hμ
      have h1 := scan_scanC_mono x c t (scanStep x c ν s) (nodeRate x c ν).2
      have h2 : ((scanStep x c ν s).1 (nodeRate x c ν).2).total ≤ totOf x c ν ∧
          (scanStep x c ν s).2 ≤ totOf x c ν := by
        unfold scanStep
        rw [if_pos ha]
        exact scan_offer_le _ _ _ _ _
      exact ⟨Int.le_trans h1.1 h2.1, Int.le_trans h1.2 h2.2⟩
    · exact ih _ hμ

/-! ### Where the candidates come from -/

theorem scan_candFrom_mono (x : Inst) (c : BCtx) (G G' : List ANode) (f : Fit) (cd : Cand)
    (hsub : ∀ μ, μ ∈ G → μ ∈ G') (h : CandFrom x c G f cd) : CandFrom x c G' f cd := by
  obtain ⟨μ, hμ, h1, h2, h3⟩ := h
  exact ⟨μ, hsub μ hμ, h1, h2, h3⟩

theorem scan_scanStep_from (x : Inst) (c : BCtx) (G0 : List ANode) (ν : ANode) (s : Cands × Int)
    (h : ∀ f, s.1 f = {} ∨ CandFrom x c G0 f (s.1 f)) (f : Fit) :
    (scanStep x c ν s).1 f = {} ∨ CandFrom x c (G0 ++ [ν]) f ((scanStep x c ν s).1 f) := by
  have hold : s.1 f = {} ∨ CandFrom x c (G0 ++ [ν]) f (s.1 f) := by
    rcases h f with h | h
    · exact Or.inl h
    · exact Or.inr (scan_candFrom_mono x c G0 _ f _
        (fun μ hμ => List.mem_append.mpr (Or.inl hμ)) h)
  unfold scanStep
  by_cases ha : allowOf x c ν = true
  · rw [if_pos ha]
    unfold offer
    by_cases h1 : totOf x c ν ≤ (s.1 (nodeRate x c ν).2).total
    · simp only [if_pos h1]
      unfold Cands.set
      by_cases hg : f = (nodeRate x c ν).2
      · simp only [if_pos hg]
        exact Or.inr ⟨ν, List.mem_append.mpr (Or.inr (List.mem_singleton.mpr rfl)), ha, hg.symm, rfl⟩
      · simp only [if_neg hg]; exact hold
    · simp only [if_neg h1]; exact hold
  · rw [if_neg ha]; exact hold

theorem scan_scanC_from (x : Inst) (c : BCtx) (G0 G : List ANode) (s : Cands × Int)
    (h : ∀ f, s.1 f = {} ∨ CandFrom x c G0 f (s.1 f)) (f : Fit) :
    (scanC x c G s).1 f = {} ∨ CandFrom x c (G0 ++ G) f ((scanC x c G s).1 f) := by
  induction G generalizing s G0 with
  | nil => rw [scan_scanC_nil, List.append_nil]; exact h f
  | cons ν t ih =>
    rw [scan_scanC_cons]
    have := ih (G0 ++ [ν]) (scanStep x c ν s) (scan_scanStep_from x c G0 ν s h)
    rw [List.append_assoc] at this
    exact this

theorem scanC_init_from (x : Inst) (c : BCtx) (G : List ANode) (f : Fit) :
    (scanC x c G (Cands.init, awfulBad)).1 f = {} ∨
      CandFrom x c G f ((scanC x c G (Cands.init, awfulBad)).1 f) := by
  have := scan_scanC_from x c [] G (Cands.init, awfulBad) (fun _ => Or.inl rfl) f
  rw [List.nil_append] at this
  exact this

end C04
