import TexcraftModel.Model.C14Recon
import TexcraftModel.Lemmas.C14
import TexcraftModel.Lemmas.C05

/-! Lemmas for the reconstitution model: the invariants of `sync`, `hyphLoop`, `wordLoop`. -/
namespace C14

/-! ## Marked lists -/

/-- A marked list as the two lists `P1`/`P2` take. -/
abbrev mk (l : List (Item × Bool)) : List Bool := l.map (·.2)
abbrev it (l : List (Item × Bool)) : List Item := l.map (·.1)

def Unmarked (l : List (Item × Bool)) : Prop := ∀ x ∈ l, x.2 = false

theorem erase_append (a b : List (Item × Bool)) :
    erase (mk (a ++ b)) (it (a ++ b)) = erase (mk a) (it a) ++ erase (mk b) (it b) := by
  induction a with
  | nil => simp [erase]
  | cons x a ih =>
    obtain ⟨i, m⟩ := x
    cases m <;> simp_all [erase]

theorem erase_unmarked (b : List (Item × Bool)) (h : Unmarked b) : erase (mk b) (it b) = it b := by
  induction b with
  | nil => rfl
  | cons x b ih =>
    obtain ⟨i, m⟩ := x
    have hm : m = false := h (i, m) (by simp)
    subst hm
    simp only [List.map_cons, erase, Bool.false_eq_true, if_false]
    rw [ih (fun y hy => h y (by simp [hy]))]

theorem amd_append (a b : List (Item × Bool)) :
    allMarkedDisc (mk (a ++ b)) (it (a ++ b)) = (allMarkedDisc (mk a) (it a) && allMarkedDisc (mk b) (it b)) := by
  induction a with
  | nil => simp [allMarkedDisc]
  | cons x a ih => simp_all [allMarkedDisc, Bool.and_assoc]

theorem amd_unmarked (b : List (Item × Bool)) (h : Unmarked b) : allMarkedDisc (mk b) (it b) = true := by
  induction b with
  | nil => rfl
  | cons x b ih =>
    obtain ⟨i, m⟩ := x
    have hm : m = false := h (i, m) (by simp)
    subst hm
    simp only [List.map_cons, allMarkedDisc, Bool.not_false, Bool.true_or, Bool.true_and]
    exact ih (fun y hy => h y (by simp [hy]))

theorem P2_unmarked (b : List (Item × Bool)) (h : Unmarked b) : P2 (mk b) (it b) = true := by
  induction b with
  | nil => rfl
  | cons x b ih =>
    obtain ⟨i, m⟩ := x
    have hm : m = false := h (i, m) (by simp)
    subst hm
    simp only [List.map_cons, P2, Bool.false_eq_true, if_false, Bool.true_and]
    exact ih (fun y hy => h y (by simp [hy]))

theorem discOk_append (pre post : List DElem) (rc : Nat) (ms ms' : List Bool) (xs xs' : List Item)
    (hl : ms.length = xs.length) (h : discOk pre post rc ms xs = true) :
    discOk pre post rc (ms ++ ms') (xs ++ xs') = true := by
  simp only [discOk, Bool.and_eq_true, decide_eq_true_eq] at h ⊢
  obtain ⟨⟨hrc, hun⟩, hlet⟩ := h
  refine ⟨⟨by simp; omega, ?_⟩, ?_⟩
  · rw [List.take_append_of_le_length (by omega)]; exact hun
  · rw [List.take_append_of_le_length hrc]; exact hlet

theorem P2_length : ∀ (ms : List Bool) (xs : List Item), P2 ms xs = true → ms.length = xs.length := by
  intro ms
  induction ms with
  | nil => intro xs h; cases xs with
    | nil => rfl
    | cons x xs => simp [P2] at h
  | cons m ms ih =>
    intro xs h
    cases xs with
    | nil => simp [P2] at h
    | cons x xs =>
      simp only [P2, Bool.and_eq_true] at h
      simp [ih xs h.2]

/-- A closed prefix: every discretionary of `a` covers nodes of `a` only. -/
theorem P2_append (a b : List (Item × Bool)) (ha : P2 (mk a) (it a) = true) (hb : P2 (mk b) (it b) = true) :
    P2 (mk (a ++ b)) (it (a ++ b)) = true := by
  induction a with
  | nil => simpa using hb
  | cons x a ih =>
    obtain ⟨i, m⟩ := x
    simp only [List.map_cons, P2, Bool.and_eq_true] at ha
    simp only [List.cons_append, List.map_cons, P2, Bool.and_eq_true]
    refine ⟨?_, ih ha.2⟩
    cases m with
    | false => simp
    | true =>
      simp only [if_true] at ha ⊢
      cases i with
      | disc pre post rc =>
        simp only [List.map_append]
        exact discOk_append pre post rc _ _ _ _ (P2_length _ _ ha.2) ha.1
      | _ => simp at ha

/-! ## Letters of nodes -/

theorem numChars_eq (n : Node) : numChars n = (C05.Item.originals n).length := by
  cases n <;> simp [numChars, C05.Item.originals]

theorem originals_nil : C05.originals [] = [] := rfl
theorem originals_cons' (i : Node) (t : List Node) :
    C05.originals (i :: t) = i.originals ++ C05.originals t := by simp [C05.originals]
theorem originals_append' (a b : List Node) :
    C05.originals (a ++ b) = C05.originals a ++ C05.originals b := by simp [C05.originals]

theorem countChars_eq (l : List Node) : countChars l = (C05.originals l).length := by
  induction l with
  | nil => rfl
  | cons n l ih =>
    simp only [countChars, List.map_cons, List.sum_cons, originals_cons', List.length_append] at ih ⊢
    rw [ih, numChars_eq]

theorem countChars_append (a b : List Node) : countChars (a ++ b) = countChars a + countChars b := by
  simp [countChars]

theorem lettersL_append (a b : List Item) : lettersL (a ++ b) = lettersL a ++ lettersL b := by
  simp [lettersL]

theorem lettersL_toItem (font : Nat) (ns : List Node) : lettersL (ns.map (toItem font)) = C05.originals ns := by
  induction ns with
  | nil => rfl
  | cons n ns ih =>
    rw [List.map_cons, lettersL_cons, ih, originals_cons']
    cases n <;> rfl

theorem lettersDL_toDElem (font : Nat) (ns : List Node) : lettersDL (ns.map (toDElem font)) = C05.originals ns := by
  induction ns with
  | nil => rfl
  | cons n ns ih =>
    simp only [lettersDL, List.map_cons, List.flatten_cons] at ih ⊢
    rw [ih, originals_cons']
    cases n <;> rfl

/-! ## Slices of the word -/

theorem prefix_eq_take {α : Type} {a b l : List α} (h : a ++ b = l) : a = l.take a.length := by
  subst h; simp

theorem slice_glue {α : Type} (s : List α) (a h c : Nat) (h1 : a ≤ h) (h2 : h ≤ c) :
    (s.drop a).take (h - a) ++ (s.drop h).take (c - h) = (s.take c).drop a := by
  induction s generalizing a h c with
  | nil => simp
  | cons x s ih =>
    cases a with
    | zero =>
      cases h with
      | zero => simp
      | succ h =>
        cases c with
        | zero => omega
        | succ c =>
          have := ih 0 h c (by omega) (by omega)
          simp only [List.drop_zero, Nat.sub_zero] at this
          simp [this]
    | succ a =>
      cases h with
      | zero => omega
      | succ h =>
        cases c with
        | zero => omega
        | succ c =>
          have := ih a h c (by omega) (by omega)
          simp only [List.drop_succ_cons, List.take_succ_cons, Nat.add_sub_add_right]
          exact this

theorem take_split {α : Type} (s : List α) (a c : Nat) (h : a ≤ c) :
    s.take c = s.take a ++ (s.take c).drop a := by
  have := List.take_append_drop a (s.take c)
  rw [List.take_take, Nat.min_eq_left h] at this
  exact this.symm

/-! ## `advance` -/

theorem advanceL_spec (l : List (Node × Bool)) :
    (advanceL l).1 ++ (advanceL l).2.map (·.1) = l.map (·.1) := by
  induction l with
  | nil => rfl
  | cons x l ih =>
    obtain ⟨n, f⟩ := x
    cases f with
    | true => simp [advanceL]
    | false => simp only [advanceL, Bool.false_eq_true, if_false, List.cons_append, List.map_cons, ih]

theorem advance_spec (i : Iter) : (advance i).1 ++ (advance i).2.rest.map (·.1) = i.rest.map (·.1) :=
  advanceL_spec i.rest

/-! ## The synchronisation loop -/

/-- What a finished synchronisation has done: it consumed a prefix `postC` of the post-break run
and a prefix `mainC` of the main run, and stopped with equal character counts at a separation
point of both. -/
structure SyncDone (st r : Sync) (postC mainC : List Node) : Prop where
  postBreak : r.postBreak = st.postBreak ++ postC
  pushed : r.pushed = st.pushed ++ mainC
  postRest : postC ++ r.post.rest.map (·.1) = st.post.rest.map (·.1)
  mainRest : mainC ++ r.main.rest.map (·.1) = st.main.rest.map (·.1)
  postCP : r.postCP = st.postCP + countChars postC
  cp : r.cp = st.cp + countChars mainC
  same : r.postCP = r.cp
  mainSep : r.main.sep = true
  postSep : r.post.sep = true

theorem sync_spec : ∀ (fuel : Nat) (st r : Sync), sync fuel st = some r →
    ∃ postC mainC, SyncDone st r postC mainC := by
  intro fuel
  induction fuel with
  | zero => intro st r h; simp [sync] at h
  | succ fuel ih =>
    intro st r h
    simp only [sync] at h
    split at h
    · rename_i hc
      simp only [Option.some.injEq] at h
      subst h
      simp only [Bool.and_eq_true, Bool.not_eq_true', beq_iff_eq] at hc
      exact ⟨[], [], ⟨by simp, by simp, by simp, by simp, by simp [countChars], by simp [countChars],
        hc.1.1.2, hc.2, hc.1.2⟩⟩
    · split at h
      · obtain ⟨postC, mainC, d⟩ := ih _ r h
        refine ⟨(advance st.post).1 ++ postC, mainC, ⟨?_, ?_, ?_, ?_, ?_, ?_, d.same, d.mainSep, d.postSep⟩⟩
        · simpa [List.append_assoc] using d.postBreak
        · simpa using d.pushed
        · have := d.postRest
          simp only at this
          rw [List.append_assoc, this, advance_spec]
        · simpa using d.mainRest
        · have := d.postCP
          simp only at this
          rw [this, countChars_append]; omega
        · simpa using d.cp
      · obtain ⟨postC, mainC, d⟩ := ih _ r h
        refine ⟨postC, (advance st.main).1 ++ mainC, ⟨?_, ?_, ?_, ?_, ?_, ?_, d.same, d.mainSep, d.postSep⟩⟩
        · simpa using d.postBreak
        · simpa [List.append_assoc] using d.pushed
        · simpa using d.postRest
        · have := d.mainRest
          simp only at this
          rw [List.append_assoc, this, advance_spec]
        · simpa using d.postCP
        · have := d.cp
          simp only at this
          rw [this, countChars_append]; omega

/-! ## The invariants of the word loop -/

/-- The law of the engine the proofs need: C05's `spell` (for every option combination). -/
structure EngineOK (eng : Engine) : Prop where
  spell : ∀ dlb rbo w, C05.originals ((eng.run dlb rbo w).map (·.1)) = w

theorem lettersL_it (l : List (Item × Bool)) (h : allMarkedDisc (mk l) (it l) = true) :
    lettersL (it l) = lettersL (erase (mk l) (it l)) := by
  induction l with
  | nil => rfl
  | cons x l ih =>
    obtain ⟨i, m⟩ := x
    simp only [List.map_cons, allMarkedDisc, Bool.and_eq_true] at h
    cases m with
    | false => simp only [List.map_cons, erase, Bool.false_eq_true, if_false, lettersL_cons, ih h.2]
    | true =>
      simp only [List.map_cons, erase, if_true, lettersL_cons, ih h.2]
      cases i <;> simp_all [Item.isDisc, lettersI]

/-- `C` = the items of the main run consumed so far. -/
structure Base (font : Nat) (Mn : List Node) (w : W) (C : List Node) : Prop where
  rest : C ++ w.main.rest.map (·.1) = Mn
  cp : w.cp = countChars C
  erased : erase (mk w.out) (it w.out) = C.map (toItem font)
  amd : allMarkedDisc (mk w.out) (it w.out) = true
  p2 : P2 (mk w.out) (it w.out) = true

/-- The meaning of `elements_since_separation_point` / `start_of_separation_point`: the last
`esp` nodes of `out` are original nodes, what precedes them is closed under P2 and carries the
first `ssp` letters of the word. -/
structure SplitOK (s : List Nat) (w : W) : Prop where
  esp : w.esp ≤ w.out.length
  unm : Unmarked (w.out.drop (w.out.length - w.esp))
  p2A : P2 (mk (w.out.take (w.out.length - w.esp))) (it (w.out.take (w.out.length - w.esp))) = true
  letA : lettersL (it (w.out.take (w.out.length - w.esp))) = s.take w.ssp
  sspLe : w.ssp ≤ w.cp

theorem Base.letters {font : Nat} {Mn : List Node} {w : W} {C : List Node} (b : Base font Mn w C) :
    lettersL (it w.out) = C05.originals C := by
  rw [lettersL_it _ b.amd, b.erased, lettersL_toItem]

theorem Base.origC {font : Nat} {Mn : List Node} {w : W} {C : List Node} {s : List Nat}
    (b : Base font Mn w C) (hs : C05.originals Mn = s) : C05.originals C = s.take w.cp := by
  have h1 : C05.originals C ++ C05.originals (w.main.rest.map (·.1)) = s := by
    rw [← originals_append', b.rest, hs]
  have := prefix_eq_take h1
  rw [b.cp, countChars_eq]; exact this

/-- After a reset (`esp := 0; ssp := cp`) the split is trivially fine. -/
theorem splitOK_reset {font : Nat} {Mn : List Node} {w : W} {C : List Node} {s : List Nat}
    (b : Base font Mn w C) (hs : C05.originals Mn = s) :
    SplitOK s { w with esp := 0, ssp := w.cp } := by
  refine ⟨by simp, ?_, ?_, ?_, by simp⟩
  · simp [Unmarked]
  · simpa using b.p2
  · simp only [Nat.sub_zero, List.take_length]
    rw [b.letters, b.origC hs]

theorem preLetters_hyphen (x : List DElem) (t : List Nat) (h : lettersDL x = t ++ [hyphenChar]) :
    preLetters x = some t := by
  simp [preLetters, h]

/-- Inserting one discretionary (one iteration of the TeX §914 loop) keeps the base invariant. -/
theorem disc_step {eng : Engine} {font : Nat} {s : List Nat} {rbo : Option Nat} {Mn : List Node}
    (he : EngineOK eng) (hs : C05.originals Mn = s)
    {w : W} {C : List Node} (b : Base font Mn w C) (sp : SplitOK s w)
    {h : Nat} (h1 : w.ssp ≤ h)
    {st0 r : Sync} {postC mainC : List Node} (d : SyncDone st0 r postC mainC)
    (hmain : st0.main = w.main) (hcp : st0.cp = w.cp) (hpcp : st0.postCP = h)
    (hpost : st0.post.rest = eng.run false rbo (s.drop h)) (hpb : st0.postBreak = []) (hpu : st0.pushed = [])
    (esp' ssp' : Nat) (pos' : List Nat) :
    Base font Mn
      { out := insertDisc font w.out w.esp (preBreak eng font s w.ssp h) r,
        cp := r.cp, esp := esp', ssp := ssp', pos := pos', main := r.main } (C ++ mainC) := by
  unfold insertDisc preBreak
  -- names
  have hip : w.out.length - w.esp ≤ w.out.length := Nat.sub_le _ _
  have hpushed : r.pushed = mainC := by rw [d.pushed, hpu]; simp
  have hpostB : r.postBreak = postC := by rw [d.postBreak, hpb]; simp
  rw [hpushed, hpostB]
  generalize hA : w.out.take (w.out.length - w.esp) = A
  generalize hB : w.out.drop (w.out.length - w.esp) = B
  have hAB : A ++ B = w.out := by rw [← hA, ← hB]; exact List.take_append_drop _ _
  have hAlen : A.length = w.out.length - w.esp := by rw [← hA]; simp
  have htake : (w.out ++ mainC.map (fun n => (toItem font n, false))).take (w.out.length - w.esp) = A := by
    rw [List.take_append_of_le_length hip, hA]
  have hdrop : (w.out ++ mainC.map (fun n => (toItem font n, false))).drop (w.out.length - w.esp)
      = B ++ mainC.map (fun n => (toItem font n, false)) := by
    rw [List.drop_append_of_le_length hip, hB]
  rw [htake, hdrop]
  generalize hP : mainC.map (fun n => (toItem font n, false)) = P
  have hPun : Unmarked P := by
    rw [← hP]; intro x hx
    simp only [List.mem_map] at hx
    obtain ⟨n, -, rfl⟩ := hx; rfl
  have hitP : it P = mainC.map (toItem font) := by rw [← hP]; simp [it]
  have hBun : Unmarked B := by rw [← hB]; exact sp.unm
  have hBPun : Unmarked (B ++ P) := by
    intro x hx; rcases List.mem_append.mp hx with h | h
    · exact hBun x h
    · exact hPun x h
  have hrc : (w.out ++ P).length - (w.out.length - w.esp) = (B ++ P).length := by
    have : (A ++ B).length = w.out.length := by rw [hAB]
    simp only [List.length_append] at this ⊢
    omega
  rw [hrc]
  -- the consumed nodes after the synchronisation
  have hrest : (C ++ mainC) ++ r.main.rest.map (·.1) = Mn := by
    rw [List.append_assoc, d.mainRest, hmain, b.rest]
  have hcpr : r.cp = countChars (C ++ mainC) := by rw [d.cp, hcp, b.cp, countChars_append]
  -- letters
  have hEr : erase (mk w.out) (it w.out) = erase (mk A) (it A) ++ erase (mk B) (it B) := by
    rw [← hAB]; exact erase_append A B
  have hErB : erase (mk B) (it B) = it B := erase_unmarked B hBun
  have hamdAB : allMarkedDisc (mk A) (it A) = true ∧ allMarkedDisc (mk B) (it B) = true := by
    have := b.amd; rw [← hAB, amd_append, Bool.and_eq_true] at this; exact this
  have horigAll : C05.originals (C ++ mainC) = s.take r.cp := by
    have h1 : C05.originals (C ++ mainC) ++ C05.originals (r.main.rest.map (·.1)) = s := by
      rw [← originals_append', hrest, hs]
    have := prefix_eq_take h1
    rw [hcpr, countChars_eq]; exact this
  have hletA : lettersL (it A) = s.take w.ssp := by rw [← hA]; exact sp.letA
  have hletAB : lettersL (it A) ++ lettersL (it B) = C05.originals C := by
    rw [← lettersL_append, ← b.letters, ← hAB]; simp [it]
  have hhle : h ≤ r.cp := by rw [← d.same, d.postCP, hpcp]; omega
  have hsspcp : w.ssp ≤ r.cp := by omega
  have hcov : lettersL (it (B ++ P)) = (s.take r.cp).drop w.ssp := by
    have e1 : lettersL (it A) ++ lettersL (it (B ++ P)) = s.take r.cp := by
      have : it (B ++ P) = it B ++ it P := by simp [it]
      rw [this, lettersL_append, ← List.append_assoc, hletAB, hitP, lettersL_toItem, ← originals_append', horigAll]
    rw [take_split s w.ssp r.cp hsspcp, hletA] at e1
    exact List.append_cancel_left e1
  -- pre-break and post-break letters
  have hpre : preLetters ((eng.run true none ((s.drop w.ssp).take (h - w.ssp) ++ [hyphenChar])).map (fun x => toDElem font x.1))
      = some ((s.drop w.ssp).take (h - w.ssp)) := by
    apply preLetters_hyphen
    have := lettersDL_toDElem font ((eng.run true none ((s.drop w.ssp).take (h - w.ssp) ++ [hyphenChar])).map (·.1))
    rw [List.map_map] at this
    rw [show (fun x : Node × Bool => toDElem font x.1) = (toDElem font ∘ fun x => x.1) from rfl, this, he.spell]
  have hpostL : lettersDL (postC.map (toDElem font)) = (s.drop h).take (r.cp - h) := by
    rw [lettersDL_toDElem]
    have h1 : C05.originals postC ++ C05.originals (r.post.rest.map (·.1)) = s.drop h := by
      rw [← originals_append', d.postRest, hpost, he.spell]
    have := prefix_eq_take h1
    rw [this, ← countChars_eq]
    congr 1
    have := d.postCP; rw [hpcp, d.same] at this; omega
  -- the new discretionary is fine
  have hdisc : discOk ((eng.run true none ((s.drop w.ssp).take (h - w.ssp) ++ [hyphenChar])).map (fun x => toDElem font x.1))
      (postC.map (toDElem font)) (B ++ P).length (mk (B ++ P)) (it (B ++ P)) = true := by
    simp only [discOk, hpre, Bool.and_eq_true, decide_eq_true_eq]
    refine ⟨⟨by simp [it], ?_⟩, ?_⟩
    · simp only [List.all_eq_true, Bool.not_eq_true']
      intro m hm
      have := List.mem_of_mem_take hm
      simp only [mk, List.mem_map] at this
      obtain ⟨x, hx, rfl⟩ := this
      exact hBPun x hx
    · rw [hpostL]
      have : (it (B ++ P)).take (B ++ P).length = it (B ++ P) := by
        apply List.take_of_length_le; simp [it]
      rw [this, hcov]
      exact slice_glue s w.ssp h r.cp h1 hhle
  have hp2A : P2 (mk A) (it A) = true := by rw [← hA]; exact sp.p2A
  refine ⟨hrest, hcpr, ?_, ?_, ?_⟩
  · -- erased
    show erase (mk (A ++ (_, true) :: (B ++ P))) (it (A ++ (_, true) :: (B ++ P))) = _
    rw [erase_append]
    simp only [List.map_cons, erase, if_true]
    rw [erase_append B P, hErB, erase_unmarked P hPun, hitP, List.map_append, ← b.erased, hEr, hErB, List.append_assoc]
  · show allMarkedDisc (mk (A ++ (_, true) :: (B ++ P))) (it (A ++ (_, true) :: (B ++ P))) = true
    rw [amd_append]
    simp only [List.map_cons, allMarkedDisc, Item.isDisc, Bool.not_true, Bool.false_or, Bool.true_and, Bool.and_eq_true]
    exact ⟨hamdAB.1, amd_unmarked _ hBPun⟩
  · show P2 (mk (A ++ (_, true) :: (B ++ P))) (it (A ++ (_, true) :: (B ++ P))) = true
    apply P2_append _ _ hp2A
    simp only [List.map_cons, P2, if_true, Bool.and_eq_true]
    exact ⟨hdisc, P2_unmarked _ hBPun⟩

/-- The TeX §914 loop keeps the base invariant and ends at a separation point of the main run. -/
theorem hyphLoop_inv {eng : Engine} {font : Nat} {s : List Nat} {rbo : Option Nat} {Mn : List Node}
    (he : EngineOK eng) (hs : C05.originals Mn = s) :
    ∀ (fuel : Nat) (w w' : W) (C : List Node), Base font Mn w C → SplitOK s w →
      hyphLoop eng font s rbo fuel w = some w' → ∃ C', Base font Mn w' C' ∧ w'.main.sep = true := by
  intro fuel
  induction fuel with
  | zero => intro w w' C _ _ h; simp [hyphLoop] at h
  | succ fuel ih =>
    intro w w' C b sp h
    simp only [hyphLoop] at h
    split at h
    · cases h
    · rename_i hh pos' hpos
      split at h
      · cases h
      · rename_i hguard
        split at h
        · cases h
        · split at h
          · cases h
          · rename_i r hsync
            obtain ⟨postC, mainC, d⟩ := sync_spec _ _ _ hsync
            have h1 : w.ssp ≤ hh := by omega
            have step := fun (e s' : Nat) (p : List Nat) =>
              disc_step (rbo := rbo) he hs b sp h1 d rfl rfl rfl rfl rfl rfl e s' p
            split at h
            · simp only [Option.some.injEq] at h
              subst h
              exact ⟨_, step _ _ _, d.mainSep⟩
            · split at h
              · simp only [Option.some.injEq] at h
                subst h
                exact ⟨_, step _ _ _, d.mainSep⟩
              · have b0 := step w.esp w.ssp (skipPast r.cp pos')
                have b' := step 0 r.cp (skipPast r.cp pos')
                exact ih _ _ _ b' (splitOK_reset b0 hs) h

/-- Pushing one item of the main run. -/
theorem push_step {font : Nat} {s : List Nat} {Mn : List Node} {w : W} {C : List Node}
    (b : Base font Mn w C) (sp : SplitOK s w) {n : Node} {f : Bool} {t : List (Node × Bool)}
    (hrest : w.main.rest = (n, f) :: t) :
    Base font Mn { w with main := ⟨t, f⟩, out := w.out ++ [(toItem font n, false)], cp := w.cp + numChars n, esp := w.esp + 1 } (C ++ [n]) ∧
    SplitOK s { w with main := ⟨t, f⟩, out := w.out ++ [(toItem font n, false)], cp := w.cp + numChars n, esp := w.esp + 1 } := by
  have hun : Unmarked [(toItem font n, false)] := by intro x hx; simp at hx; subst hx; rfl
  constructor
  · refine ⟨?_, ?_, ?_, ?_, ?_⟩
    · have := b.rest; rw [hrest] at this; simpa using this
    · show w.cp + numChars n = countChars (C ++ [n])
      rw [countChars_append, b.cp]; simp [countChars]
    · show erase (mk (w.out ++ _)) (it (w.out ++ _)) = _
      rw [erase_append, b.erased, erase_unmarked _ hun]; simp [it]
    · show allMarkedDisc (mk (w.out ++ _)) (it (w.out ++ _)) = true
      rw [amd_append, b.amd, amd_unmarked _ hun]; rfl
    · exact P2_append _ _ b.p2 (P2_unmarked _ hun)
  · have hsub : (w.out ++ [(toItem font n, false)]).length - (w.esp + 1) = w.out.length - w.esp := by
      simp
    have hle : w.out.length - w.esp ≤ w.out.length := Nat.sub_le _ _
    refine ⟨?_, ?_, ?_, ?_, ?_⟩
    · show w.esp + 1 ≤ (w.out ++ _).length
      have := sp.esp; simp; omega
    · show Unmarked ((w.out ++ _).drop ((w.out ++ _).length - (w.esp + 1)))
      rw [hsub, List.drop_append_of_le_length hle]
      intro x hx
      rcases List.mem_append.mp hx with h | h
      · exact sp.unm x h
      · exact hun x h
    · show P2 (mk ((w.out ++ _).take ((w.out ++ _).length - (w.esp + 1)))) (it ((w.out ++ _).take _)) = true
      rw [hsub, List.take_append_of_le_length hle]; exact sp.p2A
    · show lettersL (it ((w.out ++ _).take ((w.out ++ _).length - (w.esp + 1)))) = _
      rw [hsub, List.take_append_of_le_length hle]; exact sp.letA
    · show w.ssp ≤ w.cp + numChars n
      have := sp.sspLe; omega

/-- The loop over the main run: from a state at a separation point (or with a sound split) to the
end of the run, the base invariant holds. -/
theorem wordLoop_inv {eng : Engine} {font : Nat} {s : List Nat} {rbo : Option Nat} {Mn : List Node}
    (he : EngineOK eng) (hs : C05.originals Mn = s) :
    ∀ (fuel : Nat) (w w' : W) (C : List Node), Base font Mn w C → (w.main.sep = true ∨ SplitOK s w) →
      wordLoop eng font s rbo fuel w = some w' → ∃ C', Base font Mn w' C' ∧ w'.main.rest = [] := by
  intro fuel
  induction fuel with
  | zero => intro w w' C _ _ h; simp [wordLoop] at h
  | succ fuel ih =>
    intro w0 w' C b0 hsp h
    simp only [wordLoop] at h
    -- the state after the conditional reset
    generalize hw : (if w0.main.sep = true then { w0 with esp := 0, ssp := w0.cp } else w0) = w at h
    have hmain : w.main = w0.main := by rw [← hw]; split <;> rfl
    have hout : w.out = w0.out := by rw [← hw]; split <;> rfl
    have hcp : w.cp = w0.cp := by rw [← hw]; split <;> rfl
    have b : Base font Mn w C := by
      refine ⟨?_, ?_, ?_, ?_, ?_⟩
      · rw [hmain]; exact b0.rest
      · rw [hcp]; exact b0.cp
      · rw [hout]; exact b0.erased
      · rw [hout]; exact b0.amd
      · rw [hout]; exact b0.p2
    have sp : SplitOK s w := by
      rw [← hw]
      split
      · exact splitOK_reset b0 hs
      · rename_i hns
        rcases hsp with h | h
        · exact absurd h hns
        · exact h
    split at h
    · rename_i hrest
      simp only [Option.some.injEq] at h
      subst h
      exact ⟨C, b, hrest⟩
    · rename_i n f t hrest
      obtain ⟨b1, sp1⟩ := push_step b sp hrest
      split at h
      · exact ih _ _ _ b1 (Or.inr sp1) h
      · rename_i lc hlc
        split at h
        · exact ih _ _ _ b1 (Or.inr sp1) h
        · rename_i hh tl hpos
          split at h
          · exact ih _ _ _ b1 (Or.inr sp1) h
          · split at h
            · cases h
            · rename_i w3 hloop
              -- the second conditional reset
              have key : ∀ w2 : W, Base font Mn w2 (C ++ [n]) → SplitOK s w2 →
                  hyphLoop eng font s rbo (w2.pos.length + 1) w2 = some w3 →
                  ∃ C', Base font Mn w' C' ∧ w'.main.rest = [] := by
                intro w2 b2 sp2 hl
                obtain ⟨C3, b3, hsep⟩ := hyphLoop_inv he hs _ _ _ _ b2 sp2 hl
                exact ih _ _ _ b3 (Or.inl hsep) h
              generalize hw2 : (if (hh == (w.cp + numChars n) && f && !eng.hasRepl (some lc) (some hyphenChar)) = true then _ else _ : W) = w2 at hloop
              have hb2 : Base font Mn w2 (C ++ [n]) ∧ SplitOK s w2 := by
                rw [← hw2]
                split
                · exact ⟨⟨b1.rest, b1.cp, b1.erased, b1.amd, b1.p2⟩, splitOK_reset b1 hs⟩
                · exact ⟨b1, sp1⟩
              exact key w2 hb2.1 hb2.2 hloop

/-! ## The result of `rebuildWord` -/

theorem rebuildWord_base {eng : Engine} (he : EngineOK eng) (font : Nat) (s : List Nat) (rbo : Option Nat)
    (dlb : Bool) (pos : List Nat) (out : List (Item × Bool))
    (h : rebuildWord eng font s rbo dlb pos = some out) :
    erase (mk out) (it out) = ((eng.run dlb rbo s).map (·.1)).map (toItem font) ∧
      allMarkedDisc (mk out) (it out) = true ∧ P2 (mk out) (it out) = true := by
  simp only [rebuildWord, Option.map_eq_some_iff] at h
  obtain ⟨w', hw, rfl⟩ := h
  have b0 : Base font ((eng.run dlb rbo s).map (·.1))
      { out := [], cp := 0, esp := 0, ssp := 0, pos := pos, main := ⟨eng.run dlb rbo s, true⟩ } [] :=
    ⟨by simp, by simp [countChars], by simp [erase], by simp [allMarkedDisc], by simp [P2]⟩
  obtain ⟨C', b', hr⟩ := wordLoop_inv (rbo := rbo) he (he.spell dlb rbo s) _ _ _ _ b0 (Or.inl rfl) hw
  have hC : C' = (eng.run dlb rbo s).map (·.1) := by
    have := b'.rest; rw [hr] at this; simpa using this
  exact ⟨by rw [b'.erased, hC], b'.amd, b'.p2⟩

/-! ## C05's compiled programs are engines -/

theorem markSeps_fst (l : List Node) (b : Bool) : (markSeps l b).map (·.1) = l := by
  induction l with
  | nil => rfl
  | cons x l ih =>
    cases l with
    | nil => rfl
    | cons y t => simp only [markSeps, List.map_cons, ih]

theorem goLS_fst (tbl : Option Nat → Nat → Option C05.Repl) (rb : Option Nat) :
    ∀ (w : List Nat) (left : Option Nat) (lio : Bool) (lg : Option C05.Pending),
      (goLS tbl rb w left lio lg).map (·.1) = C05.goL tbl rb w left lio lg := by
  intro w
  induction w with
  | nil =>
    intro left lio lg
    cases left with
    | none => simp [goLS, C05.goL]
    | some l =>
      simp only [goLS, C05.goL]
      cases rb.bind (fun r => tbl (some l) r) with
      | none => simp
      | some rep =>
        simp only
        split <;> simp [markSeps_fst]
  | cons r rest ih =>
    intro left lio lg
    simp only [goLS, C05.goL]
    cases tbl left r with
    | none =>
      cases left with
      | none => simp [ih]
      | some l => simp [ih]
    | some rep =>
      simp only
      split <;> simp [markSeps_fst, ih]

/-- Every compiled table that satisfies C05's `GoodTable` (in particular `C05.table p` of every
program, `C05.table_good`) is an engine that spells — also with `right_boundary_override` and
`disable_left_boundary`. -/
theorem engineOf_ok (tbl : Option Nat → Nat → Option C05.Repl) (prb : Option Nat) (ht : C05.GoodTable tbl) :
    EngineOK (engineOf tbl prb) := by
  constructor
  intro dlb rbo w
  simp only [engineOf]
  cases dlb with
  | false =>
    simp only [Bool.false_eq_true, if_false, goLS_fst]
    have := (C05.goL_spell tbl (effRb rbo prb) ht w).1 none
    simpa using this
  | true =>
    simp only [if_true]
    cases w with
    | nil => rfl
    | cons c w' =>
      simp only [goLS_fst]
      have := (C05.goL_spell tbl (effRb rbo prb) ht w').1 (some c)
      simpa using this

theorem engineOfProgram_ok (p : C05.Program) : EngineOK (engineOfProgram p) :=
  engineOf_ok _ _ (C05.table_good p)

end C14

namespace C14

/-! ## Positions of the discretionaries -/

theorem discPositions_unmarked (b : List (Item × Bool)) (h : Unmarked b) (acc : Nat) :
    discPositions (mk b) (it b) acc = [] := by
  induction b generalizing acc with
  | nil => rfl
  | cons x b ih =>
    obtain ⟨i, m⟩ := x
    have hm : m = false := h (i, m) (by simp)
    subst hm
    simp only [List.map_cons, discPositions, Bool.false_eq_true, if_false]
    exact ih (fun y hy => h y (by simp [hy])) _

/-- Over a closed prefix the triples do not depend on what follows. -/
theorem discPositions_append (a b : List (Item × Bool)) (ha : P2 (mk a) (it a) = true) (acc : Nat) :
    discPositions (mk (a ++ b)) (it (a ++ b)) acc =
      discPositions (mk a) (it a) acc ++
        discPositions (mk b) (it b) (acc + (lettersL (erase (mk a) (it a))).length) := by
  induction a generalizing acc with
  | nil => simp [discPositions, erase, lettersL]
  | cons x a ih =>
    obtain ⟨i, m⟩ := x
    simp only [mk, it] at ha ih ⊢
    simp only [List.map_cons, P2, Bool.and_eq_true] at ha
    cases m with
    | false =>
      simp only [List.cons_append, List.map_cons, discPositions, Bool.false_eq_true, if_false, erase,
        lettersL_cons, List.length_append]
      rw [ih ha.2]
      congr 2; omega
    | true =>
      simp only [if_true] at ha
      cases i with
      | disc pre post rc =>
        simp only [List.cons_append, List.map_cons, discPositions, if_true, erase, List.cons_append]
        rw [ih ha.2]
        have hrc : rc ≤ (a.map (·.1)).length := by
          have := ha.1
          simp only [discOk, Bool.and_eq_true, decide_eq_true_eq] at this
          exact this.1.1
        have : ((a ++ b).map (·.1)).take rc = (a.map (·.1)).take rc := by
          simp only [List.map_append]
          exact List.take_append_of_le_length hrc
        rw [this]
      | _ => simp at ha

end C14

namespace C14

/-- The shape of `out` after one discretionary has been inserted. -/
theorem disc_shape {eng : Engine} {font : Nat} {s : List Nat} {Mn : List Node}
    (he : EngineOK eng) (hs : C05.originals Mn = s)
    {w : W} {C : List Node} (b : Base font Mn w C) (sp : SplitOK s w)
    {h : Nat} (h1 : w.ssp ≤ h)
    {st0 r : Sync} {postC mainC : List Node} (d : SyncDone st0 r postC mainC)
    (hmain : st0.main = w.main) (hcp : st0.cp = w.cp) (hpcp : st0.postCP = h)
    (hpb : st0.postBreak = []) (hpu : st0.pushed = []) :
    ∃ A B BP : List (Item × Bool),
      insertDisc font w.out w.esp (preBreak eng font s w.ssp h) r
        = A ++ (Item.disc (preBreak eng font s w.ssp h) (postC.map (toDElem font)) BP.length, true) :: BP ∧
      w.out = A ++ B ∧ Unmarked B ∧ Unmarked BP ∧
      P2 (mk A) (it A) = true ∧ allMarkedDisc (mk A) (it A) = true ∧
      lettersL (it A) = s.take w.ssp ∧
      lettersL (it BP) = (s.take r.cp).drop w.ssp ∧
      preLetters (preBreak eng font s w.ssp h) = some ((s.drop w.ssp).take (h - w.ssp)) ∧
      h ≤ r.cp ∧ r.cp ≤ s.length ∧ w.cp ≤ r.cp := by
  unfold insertDisc
  have hip : w.out.length - w.esp ≤ w.out.length := Nat.sub_le _ _
  have hpushed : r.pushed = mainC := by rw [d.pushed, hpu]; simp
  have hpostB : r.postBreak = postC := by rw [d.postBreak, hpb]; simp
  rw [hpushed, hpostB]
  generalize hA : w.out.take (w.out.length - w.esp) = A
  generalize hB : w.out.drop (w.out.length - w.esp) = B
  have hAB : A ++ B = w.out := by rw [← hA, ← hB]; exact List.take_append_drop _ _
  have htake : (w.out ++ mainC.map (fun n => (toItem font n, false))).take (w.out.length - w.esp) = A := by
    rw [List.take_append_of_le_length hip, hA]
  have hdrop : (w.out ++ mainC.map (fun n => (toItem font n, false))).drop (w.out.length - w.esp)
      = B ++ mainC.map (fun n => (toItem font n, false)) := by
    rw [List.drop_append_of_le_length hip, hB]
  rw [htake, hdrop]
  generalize hP : mainC.map (fun n => (toItem font n, false)) = P
  have hPun : Unmarked P := by
    rw [← hP]; intro x hx
    simp only [List.mem_map] at hx
    obtain ⟨n, -, rfl⟩ := hx; rfl
  have hitP : it P = mainC.map (toItem font) := by rw [← hP]; simp [it]
  have hBun : Unmarked B := by rw [← hB]; exact sp.unm
  have hBPun : Unmarked (B ++ P) := by
    intro x hx; rcases List.mem_append.mp hx with h | h
    · exact hBun x h
    · exact hPun x h
  have hAlen : A.length = w.out.length - w.esp := by rw [← hA]; simp
  have hrc : (w.out ++ P).length - (w.out.length - w.esp) = (B ++ P).length := by
    have : (A ++ B).length = w.out.length := by rw [hAB]
    simp only [List.length_append] at this ⊢
    omega
  rw [hrc]
  have hrest : (C ++ mainC) ++ r.main.rest.map (·.1) = Mn := by
    rw [List.append_assoc, d.mainRest, hmain, b.rest]
  have hcpr : r.cp = countChars (C ++ mainC) := by rw [d.cp, hcp, b.cp, countChars_append]
  have hamdAB : allMarkedDisc (mk A) (it A) = true ∧ allMarkedDisc (mk B) (it B) = true := by
    have := b.amd; rw [← hAB, amd_append, Bool.and_eq_true] at this; exact this
  have horigAll : C05.originals (C ++ mainC) = s.take r.cp := by
    have h1 : C05.originals (C ++ mainC) ++ C05.originals (r.main.rest.map (·.1)) = s := by
      rw [← originals_append', hrest, hs]
    have := prefix_eq_take h1
    rw [hcpr, countChars_eq]; exact this
  have hcple : r.cp ≤ s.length := by
    have := congrArg List.length horigAll
    rw [← countChars_eq, ← hcpr, List.length_take] at this
    omega
  have hletA : lettersL (it A) = s.take w.ssp := by rw [← hA]; exact sp.letA
  have hletAB : lettersL (it A) ++ lettersL (it B) = C05.originals C := by
    rw [← lettersL_append, ← b.letters, ← hAB]; simp [it]
  have hhle : h ≤ r.cp := by rw [← d.same, d.postCP, hpcp]; omega
  have hsspcp : w.ssp ≤ r.cp := by omega
  have hcov : lettersL (it (B ++ P)) = (s.take r.cp).drop w.ssp := by
    have e1 : lettersL (it A) ++ lettersL (it (B ++ P)) = s.take r.cp := by
      have : it (B ++ P) = it B ++ it P := by simp [it]
      rw [this, lettersL_append, ← List.append_assoc, hletAB, hitP, lettersL_toItem, ← originals_append', horigAll]
    rw [take_split s w.ssp r.cp hsspcp, hletA] at e1
    exact List.append_cancel_left e1
  have hpre : preLetters (preBreak eng font s w.ssp h) = some ((s.drop w.ssp).take (h - w.ssp)) := by
    unfold preBreak
    apply preLetters_hyphen
    have := lettersDL_toDElem font ((eng.run true none ((s.drop w.ssp).take (h - w.ssp) ++ [hyphenChar])).map (·.1))
    rw [List.map_map] at this
    rw [show (fun x : Node × Bool => toDElem font x.1) = (toDElem font ∘ fun x => x.1) from rfl, this, he.spell]
  have hp2A : P2 (mk A) (it A) = true := by rw [← hA]; exact sp.p2A
  have hwcp : w.cp ≤ r.cp := by rw [d.cp, hcp]; omega
  exact ⟨A, B, B ++ P, rfl, hAB.symm, hBun, hBPun, hp2A, hamdAB.1, hletA, hcov, hpre, hhle, hcple, hwcp⟩

/-! ## Which positions get a discretionary -/

theorem skipPast_eq (cp : Nat) (l : List Nat) : skipPast cp l = l.dropWhile (fun p => decide (p < cp)) := by
  induction l with
  | nil => rfl
  | cons h t ih =>
    by_cases hh : h < cp <;> simp [skipPast, hh, ih]

theorem mem_takeWhile' {α : Type} (p : α → Bool) : ∀ (l : List α) (x : α), x ∈ l.takeWhile p → x ∈ l ∧ p x = true := by
  intro l
  induction l with
  | nil => intro x h; simp at h
  | cons a l ih =>
    intro x h
    cases hp : p a with
    | false => simp [hp] at h
    | true =>
      simp only [List.takeWhile_cons, hp, if_true, List.mem_cons] at h
      rcases h with rfl | h
      · exact ⟨by simp, hp⟩
      · exact ⟨by simp [(ih x h).1], (ih x h).2⟩

theorem dropWhile_head' {α : Type} (p : α → Bool) : ∀ (l : List α) (x : α) (t : List α),
    l.dropWhile p = x :: t → p x = false := by
  intro l
  induction l with
  | nil => intro x t h; simp at h
  | cons a l ih =>
    intro x t h
    cases hp : p a with
    | false =>
      simp only [List.dropWhile_cons, hp, Bool.false_eq_true, if_false, List.cons.injEq] at h
      rw [← h.1]; exact hp
    | true =>
      simp only [List.dropWhile_cons, hp, if_true] at h
      exact ih x t h

/-- Ghost state for the positions: `T` = the triples (break, span start, span end) of the
discretionaries inserted so far, `done` = the positions `indices` has already yielded. -/
structure PosInv (pos0 : List Nat) (out : List (Item × Bool)) (cp : Nat) (pos : List Nat)
    (T : List (Nat × Nat × Nat)) (done : List Nat) : Prop where
  disc : discPositions (mk out) (it out) 0 = T
  split : done ++ pos = pos0
  taken : T.map (·.1) = done.filter (fun p => !coveredBy T p)
  ends : ∀ t ∈ T, t.2.2 ≤ cp
  fromDone : ∀ t ∈ T, t.1 ∈ done

theorem coveredBy_append (T T' : List (Nat × Nat × Nat)) (p : Nat) :
    coveredBy (T ++ T') p = (coveredBy T p || coveredBy T' p) := by
  simp [coveredBy]

theorem disc_step_pos {eng : Engine} {font : Nat} {s : List Nat} {Mn : List Node}
    (he : EngineOK eng) (hs : C05.originals Mn = s) {pos0 : List Nat} (hsorted : pos0.Pairwise (· < ·))
    {w : W} {C : List Node} (b : Base font Mn w C) (sp : SplitOK s w)
    {T : List (Nat × Nat × Nat)} {done : List Nat} (pi : PosInv pos0 w.out w.cp w.pos T done)
    {h : Nat} {pos' : List Nat} (hpos : w.pos = h :: pos') (h1 : w.ssp ≤ h) (h2 : h ≤ s.length)
    (hfree : ∀ t ∈ T, t.2.2 ≤ h)
    {st0 r : Sync} {postC mainC : List Node} (d : SyncDone st0 r postC mainC)
    (hmain : st0.main = w.main) (hcp : st0.cp = w.cp) (hpcp : st0.postCP = h)
    (hpb : st0.postBreak = []) (hpu : st0.pushed = []) :
    PosInv pos0 (insertDisc font w.out w.esp (preBreak eng font s w.ssp h) r) r.cp (skipPast r.cp pos')
        (T ++ [(h, w.ssp, r.cp)]) (done ++ h :: pos'.takeWhile (fun p => decide (p < r.cp))) ∧
      (∀ p ∈ skipPast r.cp pos', r.cp ≤ p) ∧
      (∀ t ∈ T ++ [(h, w.ssp, r.cp)], ∀ p ∈ skipPast r.cp pos', t.2.2 ≤ p) := by
  obtain ⟨A, B, BP, hout2, hAB, hBun, hBPun, hp2A, hamdA, hletA, hletBP, hpre, hhle, hcple, hwcp⟩ :=
    disc_shape he hs b sp h1 d hmain hcp hpcp hpb hpu
  -- sortedness facts
  have hsplit := pi.split
  rw [hpos] at hsplit
  have hsorted' : (done ++ h :: pos').Pairwise (· < ·) := by rw [hsplit]; exact hsorted
  have hdone_lt : ∀ x ∈ done, x < h := by
    intro x hx
    have := (List.pairwise_append.mp hsorted').2.2 x hx h (by simp)
    exact this
  have hpos'_gt : ∀ p ∈ pos', h < p := by
    intro p hp
    have := (List.pairwise_append.mp hsorted').2.1
    exact (List.pairwise_cons.mp this).1 p hp
  have hpos'_sorted : pos'.Pairwise (· < ·) :=
    (List.pairwise_cons.mp (List.pairwise_append.mp hsorted').2.1).2
  have htd : pos'.takeWhile (fun p => decide (p < r.cp)) ++ skipPast r.cp pos' = pos' := by
    rw [skipPast_eq]; exact List.takeWhile_append_dropWhile
  -- the elements that remain are ≥ r.cp
  have hrem : ∀ p ∈ skipPast r.cp pos', r.cp ≤ p := by
    rw [skipPast_eq]
    intro p hp
    cases hdw : pos'.dropWhile (fun p => decide (p < r.cp)) with
    | nil => rw [hdw] at hp; cases hp
    | cons x t =>
      have hx : ¬ (x < r.cp) := by
        have := dropWhile_head' (fun p => decide (p < r.cp)) pos' x t hdw
        simpa using this
      have hsub : (x :: t).Pairwise (· < ·) := by
        rw [← hdw]
        exact List.Pairwise.sublist (List.dropWhile_sublist _) hpos'_sorted
      rw [hdw] at hp
      rcases List.mem_cons.mp hp with rfl | hpt
      · omega
      · have := (List.pairwise_cons.mp hsub).1 p hpt; omega
  have hdropped : ∀ p ∈ pos'.takeWhile (fun p => decide (p < r.cp)), h < p ∧ p < r.cp := by
    intro p hp
    have := mem_takeWhile' (fun p => decide (p < r.cp)) pos' p hp
    exact ⟨hpos'_gt p this.1, by simpa using this.2⟩
  -- the triples of the new list
  have hTA : discPositions (mk A) (it A) 0 = T := by
    have := pi.disc
    rw [hAB, discPositions_append A B hp2A, discPositions_unmarked B hBun] at this
    simpa using this
  have haccA : (lettersL (erase (mk A) (it A))).length = w.ssp := by
    rw [← lettersL_it A hamdA, hletA, List.length_take]
    have := sp.sspLe; omega
  have hT' : discPositions (mk (insertDisc font w.out w.esp (preBreak eng font s w.ssp h) r))
      (it (insertDisc font w.out w.esp (preBreak eng font s w.ssp h) r)) 0 = T ++ [(h, w.ssp, r.cp)] := by
    rw [hout2, discPositions_append A _ hp2A, hTA, haccA]
    congr 1
    simp only [List.map_cons, discPositions, if_true, Nat.zero_add, hpre, Option.getD_some]
    rw [discPositions_unmarked BP hBPun]
    have e1 : ((s.drop w.ssp).take (h - w.ssp)).length = h - w.ssp := by
      rw [List.length_take, List.length_drop]; omega
    have e2 : (lettersL ((it BP).take BP.length)).length = r.cp - w.ssp := by
      have : (it BP).take BP.length = it BP := by apply List.take_of_length_le; simp [it]
      rw [this, hletBP, List.length_drop, List.length_take]; omega
    simp only [it] at e2
    rw [e1, e2]
    congr 2
    · omega
    · congr 1; omega
  refine ⟨⟨hT', ?_, ?_, ?_, ?_⟩, hrem, ?_⟩
  · -- split
    rw [List.append_assoc, List.cons_append, htd]; exact hsplit
  · -- taken
    rw [List.map_append, pi.taken, List.filter_append]
    have hnew : coveredBy [(h, w.ssp, r.cp)] = fun p => decide (h < p) && decide (p < r.cp) := by
      funext p; simp [coveredBy]
    congr 1
    · apply List.filter_congr
      intro x hx
      rw [coveredBy_append, hnew]
      have := hdone_lt x hx
      have : decide (h < x) = false := by simp; omega
      simp [this]
    · rw [List.filter_cons]
      have hh : coveredBy (T ++ [(h, w.ssp, r.cp)]) h = false := by
        rw [coveredBy_append, hnew]
        simp only [Nat.lt_irrefl, decide_false, Bool.false_and, Bool.or_false]
        simp only [coveredBy, List.any_eq_false, Bool.and_eq_true, decide_eq_true_eq, not_and]
        intro t ht _
        have := hfree t ht; omega
      simp only [hh, Bool.not_false, if_true, List.map_cons, List.map_nil, List.cons.injEq, true_and]
      symm
      rw [List.filter_eq_nil_iff]
      intro p hp
      have := hdropped p hp
      rw [coveredBy_append, hnew]
      simp [this.1, this.2]
  · intro t ht
    rcases List.mem_append.mp ht with h | h
    · have := pi.ends t h; omega
    · simp at h; subst h; simp
  · intro t ht
    rcases List.mem_append.mp ht with h | h
    · exact List.mem_append_left _ (pi.fromDone t h)
    · simp at h; subst h; simp
  · intro t ht p hp
    have hp' := hrem p hp
    rcases List.mem_append.mp ht with h' | h'
    · have e1 := pi.ends t h'; omega
    · simp at h'; subst h'; exact hp'

end C14

namespace C14

theorem hyphLoop_inv2 {eng : Engine} {font : Nat} {s : List Nat} {rbo : Option Nat} {Mn : List Node}
    (he : EngineOK eng) (hs : C05.originals Mn = s) {pos0 : List Nat} (hsorted : pos0.Pairwise (· < ·)) :
    ∀ (fuel : Nat) (w w' : W) (C : List Node) (T : List (Nat × Nat × Nat)) (done : List Nat),
      Base font Mn w C → SplitOK s w → PosInv pos0 w.out w.cp w.pos T done →
      (∀ t ∈ T, ∀ p ∈ w.pos, t.2.2 ≤ p) →
      hyphLoop eng font s rbo fuel w = some w' →
      ∃ C' T' done', Base font Mn w' C' ∧ w'.main.sep = true ∧
        PosInv pos0 w'.out w'.cp w'.pos T' done' ∧ ∀ p ∈ w'.pos, w'.cp < p := by
  intro fuel
  induction fuel with
  | zero => intro w w' C T done _ _ _ _ h; simp [hyphLoop] at h
  | succ fuel ih =>
    intro w w' C T done b sp pi hfree h
    simp only [hyphLoop] at h
    split at h
    · cases h
    · rename_i hh pos' hpos
      split at h
      · cases h
      · rename_i hguard
        split at h
        · cases h
        · split at h
          · cases h
          · rename_i r hsync
            obtain ⟨postC, mainC, d⟩ := sync_spec _ _ _ hsync
            have h1 : w.ssp ≤ hh := by omega
            have h2 : hh ≤ s.length := by omega
            have step := fun (e s' : Nat) (p : List Nat) =>
              disc_step (rbo := rbo) he hs b sp h1 d rfl rfl rfl rfl rfl rfl e s' p
            have hfree0 : ∀ t ∈ T, t.2.2 ≤ hh := fun t ht => hfree t ht hh (by rw [hpos]; simp)
            obtain ⟨pi', hrem, hfree'⟩ :=
              disc_step_pos he hs hsorted b sp pi hpos h1 h2 hfree0 d rfl rfl rfl rfl rfl
            split at h
            · rename_i hpos2
              simp only [Option.some.injEq] at h
              subst h
              refine ⟨C ++ mainC, T ++ [(hh, w.ssp, r.cp)], done ++ hh :: pos'.takeWhile (fun p => decide (p < r.cp)), step _ _ _, d.mainSep, ?_, by simp⟩
              simp only
              rw [hpos2] at pi'
              exact pi'
            · rename_i h2' t hpos2
              have hsuf : (h2' :: t).Pairwise (· < ·) := by
                have := pi'.split
                rw [hpos2] at this
                have hs' := hsorted
                rw [← this] at hs'
                exact (List.pairwise_append.mp hs').2.1
              split at h
              · rename_i hgt
                simp only [Option.some.injEq] at h
                subst h
                refine ⟨C ++ mainC, T ++ [(hh, w.ssp, r.cp)], done ++ hh :: pos'.takeWhile (fun p => decide (p < r.cp)), step _ _ _, d.mainSep, ?_, ?_⟩
                · exact pi'
                · simp only
                  intro p hp
                  rw [hpos2] at hp
                  rcases List.mem_cons.mp hp with rfl | hpt
                  · exact hgt
                  · have := (List.pairwise_cons.mp hsuf).1 p hpt; omega
              · have b0 := step w.esp w.ssp (skipPast r.cp pos')
                have b' := step 0 r.cp (skipPast r.cp pos')
                exact ih _ _ _ _ _ b' (splitOK_reset b0 hs) pi' hfree' h

/-- The loop over the main run with the ghost state for the positions. -/
theorem wordLoop_inv2 {eng : Engine} {font : Nat} {s : List Nat} {rbo : Option Nat} {Mn : List Node}
    (he : EngineOK eng) (hs : C05.originals Mn = s) {pos0 : List Nat} (hsorted : pos0.Pairwise (· < ·)) :
    ∀ (fuel : Nat) (w w' : W) (C : List Node) (T : List (Nat × Nat × Nat)) (done : List Nat),
      Base font Mn w C → (w.main.sep = true ∨ SplitOK s w) → PosInv pos0 w.out w.cp w.pos T done →
      (∀ p ∈ w.pos, w.cp < p) →
      wordLoop eng font s rbo fuel w = some w' →
      ∃ C' T' done', Base font Mn w' C' ∧ w'.main.rest = [] ∧
        PosInv pos0 w'.out w'.cp w'.pos T' done' ∧ ∀ p ∈ w'.pos, w'.cp < p := by
  intro fuel
  induction fuel with
  | zero => intro w w' C T done _ _ _ _ h; simp [wordLoop] at h
  | succ fuel ih =>
    intro w0 w' C T done b0 hsp pi0 hgt0 h
    simp only [wordLoop] at h
    generalize hw : (if w0.main.sep = true then { w0 with esp := 0, ssp := w0.cp } else w0) = w at h
    have hmain : w.main = w0.main := by rw [← hw]; split <;> rfl
    have hout : w.out = w0.out := by rw [← hw]; split <;> rfl
    have hcp : w.cp = w0.cp := by rw [← hw]; split <;> rfl
    have hpos : w.pos = w0.pos := by rw [← hw]; split <;> rfl
    have b : Base font Mn w C := by
      refine ⟨?_, ?_, ?_, ?_, ?_⟩
      · rw [hmain]; exact b0.rest
      · rw [hcp]; exact b0.cp
      · rw [hout]; exact b0.erased
      · rw [hout]; exact b0.amd
      · rw [hout]; exact b0.p2
    have sp : SplitOK s w := by
      rw [← hw]
      split
      · exact splitOK_reset b0 hs
      · rename_i hns
        rcases hsp with h | h
        · exact absurd h hns
        · exact h
    have pi : PosInv pos0 w.out w.cp w.pos T done := by rw [hout, hcp, hpos]; exact pi0
    have hgt : ∀ p ∈ w.pos, w.cp < p := by rw [hpos, hcp]; exact hgt0
    split at h
    · rename_i hrest
      simp only [Option.some.injEq] at h
      subst h
      exact ⟨C, T, done, b, hrest, pi, hgt⟩
    · rename_i n f t hrest
      obtain ⟨b1, sp1⟩ := push_step b sp hrest
      -- the position invariant after the push (only `out` and `cp` change)
      have pi1 : PosInv pos0 (w.out ++ [(toItem font n, false)]) (w.cp + numChars n) w.pos T done := by
        have hun : Unmarked [(toItem font n, false)] := by intro x hx; simp at hx; subst hx; rfl
        refine ⟨?_, pi.split, pi.taken, ?_, pi.fromDone⟩
        · rw [discPositions_append _ _ b.p2, discPositions_unmarked _ hun, pi.disc]; simp
        · intro t ht; have := pi.ends t ht; omega
      split at h
      · -- a kern: `chars_pushed` is unchanged
        rename_i hlc
        have hk : numChars n = 0 := by cases n <;> simp_all [lastChar, numChars]
        exact ih _ _ _ _ _ b1 (Or.inr sp1) pi1 (by intro p hp; have := hgt p hp; simp only; omega) h
      · rename_i lc hlc
        split at h
        · rename_i hnil
          exact ih _ _ _ _ _ b1 (Or.inr sp1) pi1 (by intro p hp; rw [show w.pos = [] from hnil] at hp; cases hp) h
        · rename_i hh tl hposw
          replace hposw : w.pos = hh :: tl := hposw
          have hsuf : (hh :: tl).Pairwise (· < ·) := by
            have := pi.split
            rw [hposw] at this
            have hs' := hsorted
            rw [← this] at hs'
            exact (List.pairwise_append.mp hs').2.1
          split at h
          · rename_i hbig
            refine ih _ _ _ _ _ b1 (Or.inr sp1) pi1 ?_ h
            intro p hp
            simp only at hp hbig ⊢
            rw [hposw] at hp
            rcases List.mem_cons.mp hp with rfl | hpt
            · exact hbig
            · have := (List.pairwise_cons.mp hsuf).1 p hpt; omega
          · split at h
            · cases h
            · rename_i w3 hloop
              have hfree : ∀ t ∈ T, ∀ p ∈ w.pos, t.2.2 ≤ p := by
                intro t ht p hp
                have e1 := pi.ends t ht
                have e2 := hgt p hp
                omega
              have key : ∀ w2 : W, w2.out = w.out ++ [(toItem font n, false)] → w2.cp = w.cp + numChars n →
                  w2.pos = w.pos → Base font Mn w2 (C ++ [n]) → SplitOK s w2 →
                  hyphLoop eng font s rbo (w2.pos.length + 1) w2 = some w3 →
                  ∃ C' T' done', Base font Mn w' C' ∧ w'.main.rest = [] ∧
                    PosInv pos0 w'.out w'.cp w'.pos T' done' ∧ ∀ p ∈ w'.pos, w'.cp < p := by
                intro w2 e1 e2 e3 b2 sp2 hl
                obtain ⟨C3, T3, done3, b3, hsep, pi3, hgt3⟩ :=
                  hyphLoop_inv2 he hs hsorted _ _ _ _ _ _ b2 sp2 (by rw [e1, e2, e3]; exact pi1)
                    (by rw [e3]; exact hfree) hl
                exact ih _ _ _ _ _ b3 (Or.inl hsep) pi3 hgt3 h
              generalize hw2 : (if (hh == (w.cp + numChars n) && f && !eng.hasRepl (some lc) (some hyphenChar)) = true then _ else _ : W) = w2 at hloop
              have hb2 : w2.out = w.out ++ [(toItem font n, false)] ∧ w2.cp = w.cp + numChars n ∧
                  w2.pos = w.pos ∧ Base font Mn w2 (C ++ [n]) ∧ SplitOK s w2 := by
                rw [← hw2]
                split
                · exact ⟨rfl, rfl, rfl, ⟨b1.rest, b1.cp, b1.erased, b1.amd, b1.p2⟩, splitOK_reset b1 hs⟩
                · exact ⟨rfl, rfl, rfl, b1, sp1⟩
              exact key w2 hb2.1 hb2.2.1 hb2.2.2.1 hb2.2.2.2.1 hb2.2.2.2.2 hloop

end C14

namespace C14

theorem rebuildWord_positions_full {eng : Engine} (he : EngineOK eng) (font : Nat) (s : List Nat) (rbo : Option Nat)
    (dlb : Bool) (pos : List Nat) (out : List (Item × Bool))
    (hsorted : pos.Pairwise (· < ·)) (hrange : ∀ p ∈ pos, 1 ≤ p ∧ p ≤ s.length)
    (h : rebuildWord eng font s rbo dlb pos = some out) :
    (discPositions (mk out) (it out) 0).map (·.1)
      = pos.filter (fun p => !coveredBy (discPositions (mk out) (it out) 0) p) ∧
      ∀ t ∈ discPositions (mk out) (it out) 0, 1 ≤ t.1 ∧ t.2.2 ≤ s.length := by
  simp only [rebuildWord, Option.map_eq_some_iff] at h
  obtain ⟨w', hw, rfl⟩ := h
  have b0 : Base font ((eng.run dlb rbo s).map (·.1))
      { out := [], cp := 0, esp := 0, ssp := 0, pos := pos, main := ⟨eng.run dlb rbo s, true⟩ } [] :=
    ⟨by simp, by simp [countChars], by simp [erase], by simp [allMarkedDisc], by simp [P2]⟩
  have pi0 : PosInv pos [] 0 pos [] [] :=
    ⟨by simp [discPositions], by simp, by simp, by simp, by simp⟩
  obtain ⟨C', T', done', b', hr, pi', hgt'⟩ :=
    wordLoop_inv2 (rbo := rbo) he (he.spell dlb rbo s) hsorted _ _ _ _ _ _ b0 (Or.inl rfl) pi0
      (fun p hp => (hrange p hp).1) hw
  have hC : C' = (eng.run dlb rbo s).map (·.1) := by
    have := b'.rest; rw [hr] at this; simpa using this
  have hcp : w'.cp = s.length := by
    rw [b'.cp, hC, countChars_eq, he.spell]
  have hnil : w'.pos = [] := by
    cases hp : w'.pos with
    | nil => rfl
    | cons x t =>
      exfalso
      have h1 := hgt' x (by rw [hp]; simp)
      have h2 : x ∈ pos := by rw [← pi'.split, hp]; simp
      have := (hrange x h2).2
      omega
  have hdone : done' = pos := by have := pi'.split; rw [hnil] at this; simpa using this
  refine ⟨by rw [pi'.disc, pi'.taken, hdone], ?_⟩
  intro t ht
  rw [pi'.disc] at ht
  refine ⟨?_, by have := pi'.ends t ht; omega⟩
  have := pi'.fromDone t ht
  rw [hdone] at this
  exact (hrange _ this).1

theorem rebuildWord_positions {eng : Engine} (he : EngineOK eng) (font : Nat) (s : List Nat) (rbo : Option Nat)
    (dlb : Bool) (pos : List Nat) (out : List (Item × Bool))
    (hsorted : pos.Pairwise (· < ·)) (hrange : ∀ p ∈ pos, 1 ≤ p ∧ p ≤ s.length)
    (h : rebuildWord eng font s rbo dlb pos = some out) :
    (discPositions (mk out) (it out) 0).map (·.1)
      = pos.filter (fun p => !coveredBy (discPositions (mk out) (it out) 0) p) :=
  (rebuildWord_positions_full he font s rbo dlb pos out hsorted hrange h).1

end C14
