import TexcraftModel.Lemmas.C18Render
import TexcraftModel.Lemmas.C18Build

/-! C18: the CST that the list printer produces for an expressible list is printable
(`callsOk`): names are words, numbers are in the ranges the text level can carry. -/
namespace C18

theorem isWord_fnName (f : Fn) : isWord f.name = true := by cases f <;> decide
theorem isWord_fieldName (f : Field) : isWord f.name = true := by cases f <;> decide

theorem argsOk_mkArgs : ∀ (fs : List Field) (n : Nat) (vs : List Val),
    (∀ v ∈ vs, valOk v = true) → argsOk (mkArgs n fs vs) = true := by
  intro fs
  induction fs with
  | nil => intro n vs _; simp [mkArgs, argsOk]
  | cons f fs ih =>
    intro n vs hv
    cases vs with
    | nil => simp [mkArgs, argsOk]
    | cons v vs =>
      have h1 : valOk v = true := hv v (by simp)
      have h2 := fun k => ih k vs (fun x hx => hv x (by simp [hx]))
      cases n with
      | zero => simp [mkArgs, argsOk, argOk, isWord_fieldName, h1, h2 0]
      | succ k => simp [mkArgs, argsOk, argOk, h1, h2 k]

theorem callOk_mkCall (fn : Fn) (vals : List Val) (hv : ∀ v ∈ vals, valOk v = true) :
    callOk (mkCall fn vals) = true := by
  simp [mkCall, callOk, isWord_fnName, argsOk_mkArgs _ _ _ hv]

theorem intOk_toI32 {n : Nat} (h : u32Ok n = true) : intOk (toI32 n) = true := by
  unfold u32Ok at h
  have := of_decide_eq_true h
  unfold intOk toI32
  apply decide_eq_true
  split <;> omega

theorem valOk_stretchVal {s : Int} {o : Order} (h : stretchOk s o = true) : valOk (stretchVal s o) = true := by
  cases o <;> simpa [stretchVal, valOk, stretchOk] using h

theorem valOk_runningVal {s : Int} (h : ruleDimOk s = true) : valOk (runningVal s) = true := by
  unfold runningVal
  by_cases hs : s = running
  · simp [hs, valOk]
  · simp only [hs, if_false, valOk]
    unfold ruleDimOk at h
    simpa [hs] using h

theorem intOk_small {n : Nat} (h : n < 256) : intOk (n : Int) = true := by
  unfold intOk; apply decide_eq_true; omega

theorem callOk_charsCall (buf : Str) (font : Nat) (h : u32Ok font = true) :
    callOk (charsCall buf font) = true := by
  unfold charsCall
  apply callOk_mkCall
  intro v hv
  simp only [List.mem_cons, List.not_mem_nil, or_false] at hv
  rcases hv with rfl | rfl
  · rfl
  · simpa [valOk] using intOk_toI32 h

def curOk' : Option (Nat × Str) → Prop
  | none => True
  | some (f, _) => u32Ok f = true

mutual
theorem ok_node : ∀ (n : Node), exprNode n = true → callOk (lowerNode n) = true
  | .char c font, he => by
    simp only [exprNode] at he
    exact callOk_charsCall [c] font he
  | .glue kind w st sto sh sho, he => by
    simp only [exprNode, Bool.and_eq_true] at he
    simp only [lowerNode]
    apply callOk_mkCall
    intro v hv
    simp only [List.mem_cons, List.not_mem_nil, or_false] at hv
    rcases hv with rfl | rfl | rfl
    · simpa [valOk] using he.1.1.2
    · exact valOk_stretchVal he.1.2
    · exact valOk_stretchVal he.2
  | .kern kind w, he => by
    simp only [exprNode, Bool.and_eq_true] at he
    simp only [lowerNode]
    apply callOk_mkCall
    intro v hv
    simp only [List.mem_cons, List.not_mem_nil, or_false] at hv
    subst hv
    simpa [valOk] using he.2
  | .penalty p, he => by
    simp only [exprNode] at he
    simp only [lowerNode]
    apply callOk_mkCall
    intro v hv
    simp only [List.mem_cons, List.not_mem_nil, or_false] at hv
    subst hv
    simpa [valOk] using he
  | .rule h w d, he => by
    simp only [exprNode, Bool.and_eq_true] at he
    simp only [lowerNode]
    apply callOk_mkCall
    intro v hv
    simp only [List.mem_cons, List.not_mem_nil, or_false] at hv
    rcases hv with rfl | rfl | rfl
    · exact valOk_runningVal he.1.1
    · exact valOk_runningVal he.1.2
    · exact valOk_runningVal he.2
  | .lig c orig font l r, he => by
    simp only [exprNode] at he
    simp only [lowerNode]
    apply callOk_mkCall
    intro v hv
    simp only [List.mem_cons, List.not_mem_nil, or_false] at hv
    rcases hv with rfl | rfl | rfl | rfl | rfl
    · rfl
    · rfl
    · simpa [valOk] using intOk_toI32 he
    · rfl
    · rfl
  | .mark n, he => by
    simp only [lowerNode]
    apply callOk_mkCall
    intro v hv
    simp only [List.mem_cons, List.not_mem_nil, or_false] at hv
    subst hv
    decide
  | .math a, he => by
    simp only [lowerNode]
    apply callOk_mkCall
    intro v hv
    simp only [List.mem_cons, List.not_mem_nil, or_false] at hv
    subst hv
    rfl
  | .disc pre post rc, he => by
    have ih1 := ok_D pre
    have ih2 := ok_D post
    simp only [exprNode, Bool.and_eq_true] at he
    simp only [lowerNode]
    apply callOk_mkCall
    intro v hv
    simp only [List.mem_cons, List.not_mem_nil, or_false] at hv
    rcases hv with rfl | rfl | rfl
    · simpa [valOk] using ih1 he.1.1
    · simpa [valOk] using ih2 he.1.2
    · simpa [valOk] using intOk_toI32 he.2
  | .hbox h w d shift ratio order l, he => by
    have ih := ok_goH l none
    simp only [exprNode, Bool.and_eq_true] at he
    simp only [lowerNode]
    apply callOk_mkCall
    intro v hv
    simp only [List.mem_cons, List.not_mem_nil, or_false] at hv
    rcases hv with rfl | rfl | rfl | rfl | rfl | rfl | rfl
    · simpa [valOk] using he.1.1.1.1.1.1
    · simpa [valOk] using he.1.1.1.1.1.2
    · simpa [valOk] using he.1.1.1.1.2
    · simpa [valOk] using he.1.1.1.2
    · rfl
    · rfl
    · simpa [valOk] using ih he.2 trivial
  | .vbox h w d shift gset l, he => by
    have ih := ok_V l
    simp only [exprNode, Bool.and_eq_true] at he
    simp only [lowerNode]
    apply callOk_mkCall
    intro v hv
    simp only [List.mem_cons, List.not_mem_nil, or_false] at hv
    rcases hv with rfl | rfl | rfl | rfl | rfl
    · simpa [valOk] using he.1.1.1.1.1
    · simpa [valOk] using he.1.1.1.1.2
    · simpa [valOk] using he.1.1.1.2
    · simpa [valOk] using he.1.1.2
    · simpa [valOk] using ih he.2
  | .adjust l, he => by
    have ih := ok_V l
    simp only [exprNode] at he
    simp only [lowerNode]
    apply callOk_mkCall
    intro v hv
    simp only [List.mem_cons, List.not_mem_nil, or_false] at hv
    subst hv
    simpa [valOk] using ih he
  | .ins box h md w st sto sh sho fp l, he => by
    have ih := ok_V l
    simp only [exprNode, Bool.and_eq_true, decide_eq_true_eq] at he
    simp only [lowerNode]
    apply callOk_mkCall
    intro v hv
    simp only [List.mem_cons, List.not_mem_nil, or_false] at hv
    rcases hv with rfl | rfl | rfl | rfl | rfl | rfl | rfl | rfl
    · simpa [valOk] using intOk_small he.1.1.1.1.1.1.1
    · simpa [valOk] using he.1.1.1.1.1.1.2
    · simpa [valOk] using he.1.1.1.1.1.2
    · simpa [valOk] using he.1.1.1.1.2
    · exact valOk_stretchVal he.1.1.1.2
    · exact valOk_stretchVal he.1.1.2
    · simpa [valOk] using intOk_toI32 he.1.2
    · simpa [valOk] using ih he.2

theorem ok_goH : ∀ (l : List Node) (cur : Option (Nat × Str)),
    exprList .H l = true → curOk' cur → callsOk (goH cur l) = true
  | [], cur, he, hc => by
    cases cur with
    | none => simp [goH, callsOk]
    | some p => obtain ⟨ft, buf⟩ := p; simp [goH, callsOk, callOk_charsCall buf ft hc]
  | n :: r, cur, he, hc => by
    have ihn := ok_node n
    have ihr := ok_goH r
    simp only [exprList, Bool.and_eq_true] at he
    obtain ⟨⟨ha, hen⟩, her⟩ := he
    by_cases hch : ∃ c font, n = .char c font
    · obtain ⟨c, font, rfl⟩ := hch
      simp only [exprNode] at hen
      cases cur with
      | none => simp only [goH]; exact ihr _ her hen
      | some p =>
        obtain ⟨ft, buf⟩ := p
        by_cases hft : font = ft
        · subst hft; simp only [goH, if_true]; exact ihr _ her hen
        · simp only [goH, hft, if_false, callsOk, Bool.and_eq_true]
          exact ⟨callOk_charsCall buf ft hc, ihr _ her hen⟩
    · have hnc : ∀ c f, n ≠ .char c f := fun c f h => hch ⟨c, f, h⟩
      cases cur with
      | none =>
        rw [goH_nonchar_none n r hnc]
        simp only [callsOk, Bool.and_eq_true]
        exact ⟨ihn hen, ihr none her trivial⟩
      | some p =>
        obtain ⟨ft, buf⟩ := p
        rw [goH_nonchar_some n r ft buf hnc]
        simp only [callsOk, Bool.and_eq_true]
        exact ⟨callOk_charsCall buf ft hc, ihn hen, ihr none her trivial⟩

theorem ok_V : ∀ (l : List Node), exprList .V l = true → callsOk (lowerV l) = true
  | [], _ => by simp [lowerV, callsOk]
  | n :: r, he => by
    have ihn := ok_node n
    have ihr := ok_V r
    simp only [exprList, Bool.and_eq_true] at he
    simp only [lowerV, callsOk, Bool.and_eq_true]
    exact ⟨ihn he.1.2, ihr he.2⟩

theorem ok_D : ∀ (l : List Node), exprList .D l = true → callsOk (lowerD l) = true
  | [], _ => by simp [lowerD, callsOk]
  | n :: r, he => by
    have ihn := ok_node n
    have ihr := ok_D r
    simp only [exprList, Bool.and_eq_true] at he
    simp only [lowerD, callsOk, Bool.and_eq_true]
    exact ⟨ihn he.1.2, ihr he.2⟩
end

theorem ok_each : ∀ (l : List Node), exprList .H l = true → callsOk (lowerEach l) = true
  | [], _ => by simp [lowerEach, callsOk]
  | n :: r, he => by
    have ihr := ok_each r
    simp only [exprList, Bool.and_eq_true] at he
    simp only [lowerEach, callsOk, Bool.and_eq_true]
    exact ⟨ok_node n he.1.2, ihr he.2⟩

theorem ok_lower (m : Mode) (l : List Node) (he : exprList m l = true) : callsOk (lower m l) = true := by
  cases m with
  | H => exact ok_goH l none he trivial
  | V => exact ok_V l he
  | D => exact ok_D l he

end C18
