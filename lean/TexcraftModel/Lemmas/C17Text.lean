import TexcraftModel.Lemmas.C17Fix
/-! Lemmas for `fix_print_parse` (C17): the character level — the reader's loops on the
printed text. -/
namespace C17

/-- The fold of `readInt` over a run of digits. -/
def intFold : List Char → Int → Int
  | [], acc => acc
  | c :: t, acc => intFold t (if acc * 10 + digVal c ≥ 2048 then 2048 else acc * 10 + digVal c)

theorem readInt_append (ds : List Char) (c : Char) (rest : List Char) (acc : Int)
    (hds : ∀ x ∈ ds, isDig x = true) (hc : isDig c = false) :
    readInt (ds ++ c :: rest) acc = (intFold ds acc, c :: rest) := by
  induction ds generalizing acc with
  | nil => simp [readInt, intFold, hc]
  | cons d t ih =>
    have hd : isDig d = true := hds d (by simp)
    simp only [List.cons_append, readInt, hd, if_true, intFold]
    exact ih _ (fun x hx => hds x (by simp [hx]))

/-- Facts about the decimal digits of the 2049 possible integer parts. -/
theorem toDigits_facts : ∀ i : Fin 2049,
    (Nat.toDigits 10 i.val).all isDig = true ∧
    ((Nat.toDigits 10 i.val).head?.map isDig) = some true ∧
    intFold (Nat.toDigits 10 i.val) 0 = (i.val : Int) := by
  decide +kernel

theorem digit_facts : ∀ k : Fin 10,
    showInt (k.val : Int) = [Nat.digitChar k.val] ∧ isDig (Nat.digitChar k.val) = true ∧
      digVal (Nat.digitChar k.val) = (k.val : Int) := by
  decide

theorem digit_char (d : Int) (h0 : 0 ≤ d) (h9 : d ≤ 9) :
    ∃ c, showInt d = [c] ∧ isDig c = true ∧ digVal c = d := by
  obtain ⟨k, rfl⟩ := Int.eq_ofNat_of_zero_le h0
  exact ⟨_, digit_facts ⟨k, by omega⟩⟩

theorem readFracDigits_printed (t : List Int) (n : Nat) (hl : t.length ≤ n)
    (hd : ∀ d ∈ t, 0 ≤ d ∧ d ≤ 9) :
    readFracDigits n ((t.map showInt).flatten) = (t, []) := by
  induction t generalizing n with
  | nil => cases n <;> simp [readFracDigits]
  | cons d t ih =>
    obtain ⟨c, e1, e2, e3⟩ := digit_char d (hd d (by simp)).1 (hd d (by simp)).2
    cases n with
    | zero => simp at hl
    | succ n =>
      have := ih n (by simpa using hl) (fun x hx => hd x (by simp [hx]))
      simp [readFracDigits, e1, e2, e3, this]

theorem skipSpaces_digit (c : Char) (t : List Char) (h : isDig c = true) :
    skipSpaces (c :: t) = c :: t := by
  have h1 : c ≠ ' ' := by intro e; subst e; revert h; decide
  have h2 : c ≠ '\n' := by intro e; subst e; revert h; decide
  simp [skipSpaces, h1, h2]

theorem readSigns_digit (c : Char) (t : List Char) (neg : Bool) (h : isDig c = true) :
    readSigns (c :: t) neg = (neg, c :: t) := by
  have h1 : c ≠ ' ' := by intro e; subst e; revert h; decide
  have h2 : c ≠ '+' := by intro e; subst e; revert h; decide
  have h3 : c ≠ '-' := by intro e; subst e; revert h; decide
  simp [readSigns, h1, h2, h3]

/-- The reader on `<digits of I>.<printed fraction of f>` after the signs. -/
theorem read_unsigned (I : Nat) (hI : I < 2048) (f : Int) (h0 : 0 ≤ f) (h1 : f < 1048576) :
    ∃ c t, Nat.toDigits 10 I = c :: t ∧ isDig c = true ∧
      readInt (Nat.toDigits 10 I ++ '.' :: ((fracDigits FRAC_FUEL (10 * f + 5) 10).map showInt).flatten) 0
        = ((I : Int), '.' :: ((fracDigits FRAC_FUEL (10 * f + 5) 10).map showInt).flatten) ∧
      fracValue (readFracDigits 7 (((fracDigits FRAC_FUEL (10 * f + 5) 10).map showInt).flatten)).1 = f := by
  obtain ⟨a1, a2, a3⟩ := toDigits_facts ⟨I, by omega⟩
  simp only at a1 a2 a3
  obtain ⟨g1, g2, g3⟩ := frac_round_trip 5 f h0 h1
  have hfuel : FRAC_FUEL = 5 + 7 := rfl
  rw [hfuel]
  cases hds : Nat.toDigits 10 I with
  | nil => rw [hds] at a2; simp at a2
  | cons c t =>
    rw [hds] at a1 a2 a3
    refine ⟨c, t, rfl, by simpa using a2, ?_, ?_⟩
    · rw [readInt_append (c :: t) '.' _ 0 (by simpa using a1) (by decide), a3]
    · rw [readFracDigits_printed _ 7 g2 g1]
      exact g3

end C17
