/-
C11 with C05: `ligkern_meaning_preserved` — the rule function (`C05.rule`: entry point →
SKIP/STOP chain walk, first match wins, operation resolved through the kerns array) of the
packed program with its unpacked entry points equals the rule function of the program
before packing, on every character pair and the left boundary; and moving kern values into
the kerns array (`unpack_kerns`) does not change it either.
-/
import TexcraftModel.Model.C05
import TexcraftModel.Model.C11
import TexcraftModel.Model.C11Bridge
import TexcraftModel.Lemmas.C11Chain
import TexcraftModel.Lemmas.C11Pack
import TexcraftModel.Lemmas.C11Kerns

namespace C11

/-- C05's first-match search is "first instruction of the chain whose right character matches". -/
theorem findInstr_chain (r : Nat) (l : List Instr) :
    ∀ e, C05.findInstr r e (l.map toC05Instr) = ((chain e l).find? (fun i => i.right = r)).map toC05Instr := by
  induction l with
  | nil => intro e; simp [C05.findInstr, chain_nil]
  | cons a rest ih =>
    intro e
    cases e with
    | zero =>
      simp only [List.map_cons, C05.findInstr, chain]
      by_cases hr : a.right = r
      · simp [hr, toC05Instr]
      · have hr' : ¬ (toC05Instr a).right = r := by simpa [toC05Instr] using hr
        simp only [hr', hr, if_false, List.find?_cons, decide_false]
        cases hn : a.next with
        | none => simp [toC05Instr, hn]
        | some inc => simpa [toC05Instr, hn] using ih inc
    | succ s =>
      simp only [List.map_cons, C05.findInstr, chain]
      exact ih s

/-- The search commutes with any relabelling of operations that keeps skips and right characters. -/
theorem findInstr_map (f : C05.Instr → C05.Instr)
    (hf : ∀ i, (f i).next = i.next ∧ (f i).right = i.right) (r : Nat) (l : List C05.Instr) :
    ∀ e, C05.findInstr r e (l.map f) = (C05.findInstr r e l).map f := by
  induction l with
  | nil => intro e; simp [C05.findInstr]
  | cons a rest ih =>
    intro e
    cases e with
    | zero =>
      simp only [List.map_cons, C05.findInstr, (hf a).1, (hf a).2]
      by_cases hr : a.right = r
      · simp [hr]
      · simp only [hr, if_false]
        cases hn : a.next with
        | none => simp
        | some inc => simpa using ih inc
    | succ s =>
      simp only [List.map_cons, C05.findInstr]
      exact ih s

/-! ### Entry points of the packed program, unpacked -/

/-- Every assignment of the loop unpacks to `offset + e` in the packed table. -/
theorem assign_unpack {p : Prog} {st : LoopSt} (hg : Good p.rb.isSome st [])
    (hlen : (frontOf p st).length = st.offset) (hnr : noRedirect p.instrs = true)
    {e u : Nat} (hm : (e, u) ∈ st.assign) (he : e < p.instrs.length) :
    unpackEntry (frontOf p st ++ p.instrs ++ postOf p st) u = some (st.offset + e) := by
  rw [← hlen]
  rcases hg.asg e u hm with ⟨h1, _, _⟩ | ⟨j, h1, h2, _⟩
  · have hu : u = (frontOf p st).length + e := by omega
    rw [hu]; exact unpackEntry_direct _ _ _ _ he hnr
  · have hslot := frontOf_slot p st j e h2
    rw [← h1, ← hlen] at hslot
    exact unpackEntry_slot _ _ _ _ _ _ he hslot

theorem mapEntries_unpackAll {assign : List (Nat × Nat)} {instrs : List Instr} {off : Nat} :
    ∀ {entries pe : List (Nat × Nat)}, mapEntries assign entries = some pe →
      (∀ ce ∈ entries, ∀ u, lookup assign ce.2 = some u → unpackEntry instrs u = some (off + ce.2)) →
      unpackAll instrs pe = entries.map (fun ce => (ce.1, off + ce.2)) := by
  intro entries
  induction entries with
  | nil =>
    intro pe h _
    simp only [mapEntries, Option.some.injEq] at h
    subst h; rfl
  | cons x t ih =>
    intro pe h hall
    obtain ⟨c, e⟩ := x
    simp only [mapEntries] at h
    split at h
    · rename_i u r hu hr
      simp only [Option.some.injEq] at h
      subst h
      have h1 := hall (c, e) (List.mem_cons_self ..) u hu
      have h2 := ih hr (fun ce hce => hall ce (List.mem_cons_of_mem _ hce))
      simp only [unpackAll] at h2 ⊢
      simp [List.filterMap_cons, h1, h2]
    · simp at h

theorem find?_shift (entries : List (Nat × Nat)) (off c : Nat) :
    ((entries.map (fun ce => (ce.1, off + ce.2))).find? (fun x => x.1 = c)).map (·.2) =
      ((entries.find? (fun x => x.1 = c)).map (·.2)).map (off + ·) := by
  induction entries with
  | nil => simp
  | cons x t ih =>
    simp only [List.map_cons, List.find?_cons]
    by_cases hx : x.1 = c
    · simp [hx]
    · simp only [hx, decide_false]
      exact ih

/-- **ligkern_meaning_preserved (packing).** For every left character (or the left
boundary) and every right character, the packed program — read as TeX or
`compile_from_tfm_file` reads it: byte entry points unpacked through the redirect words, the
left-boundary entry point taken from the trailing word — has the same rule as the program
before packing, whatever the kerns array. -/
theorem rule_pack {p : Prog} {entries : List (Nat × Nat)} {P : Prog} {pe : List (Nat × Nat)}
    (h : pack p entries = some (P, pe)) (hwf : wf p entries = true) (kerns : List Int) :
    ∀ (l : Option Nat) (r : Nat),
      C05.rule (toC05 P (unpackAll P.instrs pe) kerns) l r = C05.rule (toC05 p entries kerns) l r := by
  obtain ⟨st, _, hg, _, hpe, hP, hlen⟩ := pack_shape h
  obtain ⟨hnr, hcl, hent, hlb⟩ := wf_parts hwf
  subst hP
  have hall : unpackAll (frontOf p st ++ p.instrs ++ postOf p st) pe =
      entries.map (fun ce => (ce.1, st.offset + ce.2)) := by
    apply mapEntries_unpackAll hpe
    intro ce hce u hu
    exact assign_unpack hg hlen hnr (lookup_mem hu) (hent ce hce)
  have hfind : ∀ (r e : Nat), e < p.instrs.length →
      C05.findInstr r (st.offset + e) ((frontOf p st ++ p.instrs ++ postOf p st).map toC05Instr) =
        C05.findInstr r e (p.instrs.map toC05Instr) := by
    intro r e he
    rw [findInstr_chain, findInstr_chain, ← hlen, chain_embedded _ _ _ _ hcl he]
  intro l r
  simp only [C05.rule, C05.rawRule, toC05]
  cases l with
  | none =>
    simp only [C05.entryOf]
    cases hl : p.lb with
    | none => simp
    | some lb =>
      simp only [Option.map_some]
      rw [Nat.add_comm, hfind r lb (hlb lb hl)]
  | some c =>
    simp only [C05.entryOf, hall]
    have := find?_shift entries st.offset c
    simp only [decide_eq_true_eq] at this ⊢
    rw [this]
    cases hf : entries.find? (fun x => x.1 = c) with
    | none => simp
    | some ce =>
      have hce : ce ∈ entries := List.mem_of_find?_eq_some hf
      simp only [Option.map_some]
      rw [hfind r ce.2 (hent ce hce)]

/-- C05 resolves `KernAtIndex` through the kerns array exactly as `pack_kerns` does. -/
theorem resolveOp_resolve (ks : List Int) (op : Op) :
    C05.resolveOp ks (toC05Op op) = C05.resolveOp [] (toC05Op (resolve ks op)) := by
  cases op <;> simp [C05.resolveOp, toC05Op, resolve]

/-- Relabelling operations does not change which instructions a chain visits. -/
theorem chain_map_op (g : Op → Op) (l : List Instr) :
    ∀ e, chain e (l.map fun i => { i with op := g i.op }) = (chain e l).map fun i => { i with op := g i.op } := by
  induction l with
  | nil => intro e; simp [chain_nil]
  | cons a rest ih =>
    intro e
    cases e with
    | zero =>
      simp only [List.map_cons, chain]
      cases hn : a.next with
      | none => simp
      | some inc => simp [ih inc]
    | succ s =>
      simp only [List.map_cons, chain]
      exact ih s

theorem find?_map_op (g : Op → Op) (r : Nat) (l : List Instr) :
    (l.map fun i => ({ i with op := g i.op } : Instr)).find? (fun i => i.right = r) =
      (l.find? (fun i => i.right = r)).map fun i => { i with op := g i.op } := by
  induction l with
  | nil => simp
  | cons a rest ih =>
    simp only [List.map_cons, List.find?_cons]
    by_cases hr : a.right = r
    · simp [hr]
    · simp only [hr, decide_false]
      exact ih

/-- **ligkern_meaning_preserved (kerns).** Moving the kern values into the kerns array does
not change any rule: the program with `KernAtIndex` operations and the array means what
`pack_kerns` of it means without an array. -/
theorem rule_packKerns (I : List Instr) (lb rb : Option Nat) (entries : List (Nat × Nat)) (ks : List Int) :
    ∀ (l : Option Nat) (r : Nat),
      C05.rule (toC05 ⟨I, lb, rb⟩ entries ks) l r = C05.rule (toC05 ⟨packKerns ks I, lb, rb⟩ entries []) l r := by
  intro l r
  simp only [C05.rule, C05.rawRule, toC05]
  have hent : C05.entryOf { instrs := (packKerns ks I).map toC05Instr, lbEntry := lb, rb := rb, entries := entries, kerns := ([] : List Int) } l =
      C05.entryOf { instrs := I.map toC05Instr, lbEntry := lb, rb := rb, entries := entries, kerns := ks } l := by
    cases l <;> rfl
  rw [hent]
  cases C05.entryOf { instrs := I.map toC05Instr, lbEntry := lb, rb := rb, entries := entries, kerns := ks } l with
  | none => rfl
  | some e =>
    simp only
    rw [findInstr_chain, findInstr_chain]
    simp only [packKerns, chain_map_op, find?_map_op]
    cases ((chain e I).find? fun i => i.right = r) with
    | none => rfl
    | some i => simp [toC05Instr, resolveOp_resolve ks i.op]

/-! ### `pl_to_tfm` as a whole on the lig/kern program: `unpack_kerns`, then `pack_entrypoints` -/

theorem closed_of_next_eq : ∀ (l l' : List Instr), l.map (·.next) = l'.map (·.next) → closed l = closed l' := by
  intro l
  induction l with
  | nil => intro l' h; cases l' <;> simp_all
  | cons a rest ih =>
    intro l' h
    cases l' with
    | nil => simp at h
    | cons b rest' =>
      simp only [List.map_cons, List.cons.injEq] at h
      have hlen : rest.length = rest'.length := by
        have := congrArg List.length h.2
        simpa using this
      simp only [closed, h.1, hlen, ih rest' h.2]

theorem noRedirect_of_packKerns (ks : List Int) (l : List Instr) (h : noRedirect (packKerns ks l) = true) :
    noRedirect l = true := by
  simp only [noRedirect, packKerns, List.all_map, List.all_eq_true] at h ⊢
  intro i hi
  have := h i hi
  cases hop : i.op <;> simp_all [resolve, Op.isRedirect]

/-- The hypotheses of `pack_preserves` survive `unpack_kerns`. -/
theorem wf_unpackKerns {p : Prog} {entries : List (Nat × Nat)} (hwf : wf p entries = true)
    (hk : noKernAt p.instrs = true) :
    wf ⟨(unpackKerns p.instrs).1, p.lb, p.rb⟩ entries = true := by
  have hshape := unpackKerns_shape p.instrs
  have hnext : (unpackKerns p.instrs).1.map (·.next) = p.instrs.map (·.next) := by
    have := congrArg (List.map Prod.fst) hshape
    simpa [List.map_map, Function.comp_def] using this
  have hlen : (unpackKerns p.instrs).1.length = p.instrs.length := by
    have := congrArg List.length hnext
    simpa using this
  have hnr : noRedirect (unpackKerns p.instrs).1 = true := by
    apply noRedirect_of_packKerns (unpackKerns p.instrs).2
    rw [C11.kerns_roundtrip p.instrs hk]
    exact (wf_parts hwf).1
  have hcl := closed_of_next_eq _ _ hnext
  have hw := hwf
  simp only [wf, Bool.and_eq_true] at hw ⊢
  simp only [hlen, hnr, hcl]
  exact ⟨⟨⟨trivial, hw.1.1.2⟩, hw.1.2⟩, hw.2⟩

/-- **ligkern_meaning_preserved.** `pl_to_tfm` turns the PL-level program `p` (kern values
inline, 16-bit label positions `entries`) into the TFM-level program
`pack (unpack_kerns p)` with its kerns array and byte entry points. Read back the way TeX /
`compile_from_tfm_file` read it, it has the same rule as `p` for every left character (or the
left boundary) and every right character. -/
theorem ligkern_meaning_preserved_full {p : Prog} {entries : List (Nat × Nat)} {P : Prog} {pe : List (Nat × Nat)}
    (hk : noKernAt p.instrs = true) (hwf : wf p entries = true)
    (h : pack ⟨(unpackKerns p.instrs).1, p.lb, p.rb⟩ entries = some (P, pe)) :
    ∀ (l : Option Nat) (r : Nat),
      C05.rule (toC05 P (unpackAll P.instrs pe) (unpackKerns p.instrs).2) l r = C05.rule (toC05 p entries []) l r := by
  intro l r
  rw [rule_pack h (wf_unpackKerns hwf hk) (unpackKerns p.instrs).2 l r]
  rw [rule_packKerns]
  simp only [C11.kerns_roundtrip p.instrs hk]

end C11
