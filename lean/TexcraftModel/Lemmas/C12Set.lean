import TexcraftModel.Model.C12
import TexcraftModel.Model.C15

/-! C12: every line box is set to its width — `lineSetVerdict` holds of C15's model of
`HBox::pack` (`C15.setGlue` on the totals `C15.loop` accumulates). -/
namespace C12

/-- C15's `[Scaled; 4]` totals as the list `lineSetVerdict` reads. -/
def totalsList (t : C15.Totals) : List Int := [t.normal, t.fil, t.fill, t.filll]

theorem highestNonzero_totals (t : C15.Totals) :
    highestNonzero (totalsList t) = t.dominating.toNat ∧
    (totalsList t)[t.dominating.toNat]?.getD 0 = t.get t.dominating := by
  unfold highestNonzero totalsList C15.Totals.dominating
  by_cases h3 : t.filll = 0 <;> by_cases h2 : t.fill = 0 <;> by_cases h1 : t.fil = 0 <;>
    simp [h3, h2, h1, C15.Order.toNat, C15.Totals.get]

theorem toNat_eq_zero (o : C15.Order) : o.toNat = 0 ↔ o = .normal := by
  cases o <;> simp [C15.Order.toNat]

theorem fill_identity (nat w s : Int) : nat * s + (w - nat) * s = w * s := by
  rw [← Int.add_mul]; congr 1; omega

theorem lineSet_setGlue (h d nat w : Int) (st sh : C15.Totals) (b : C15.HBox)
    (hb : b = C15.setGlue h d nat (st.get st.dominating) st.dominating (sh.get sh.dominating)
      sh.dominating (.exact w)) :
    lineSetVerdict nat w (totalsList st) (totalsList sh) b.order.toNat b.num b.den = none := by
  obtain ⟨hs1, hs2⟩ := highestNonzero_totals st
  obtain ⟨hh1, hh2⟩ := highestNonzero_totals sh
  unfold lineSetVerdict
  simp only [hs1, hs2, hh1, hh2]
  generalize hso : st.dominating = so at *
  generalize hsho : sh.dominating = sho at *
  generalize hstr : st.get so = stretch at *
  generalize hshr : sh.get sho = shrink at *
  unfold C15.setGlue at hb
  simp only [C15.PackWidth.width] at hb
  by_cases hpos : 0 < w - nat
  · have hn : ¬ (w - nat < 0) := by omega
    have hz : ¬ (w - nat = 0) := by omega
    simp only [hn, hz, if_false] at hb
    simp only [hpos, if_true]
    by_cases hst : stretch = 0
    · simp [hst]
    · simp only [hst, if_false, ne_eq, not_false_eq_true, if_true] at hb ⊢
      rw [hb]
      simp [hst, fill_identity]
  · simp only [hpos, if_false]
    by_cases hneg : w - nat < 0
    · simp only [hneg, if_true] at hb ⊢
      by_cases hsh : shrink = 0
      · simp [hsh]
      · simp only [hsh, if_false]
        by_cases hov : sho = .normal ∧ shrink < -(w - nat)
        · have : sho.toNat = 0 ∧ shrink < -(w - nat) := ⟨(toNat_eq_zero sho).mpr hov.1, hov.2⟩
          simp [this]
        · have hov' : ¬ (sho.toNat = 0 ∧ shrink < -(w - nat)) := by
            intro hc; exact hov ⟨(toNat_eq_zero sho).mp hc.1, hc.2⟩
          simp only [hov, if_false, hsh, ne_eq, not_false_eq_true, if_true] at hb
          rw [hb]
          simp [hov', hsh, fill_identity]
    · simp [hneg]

end C12
