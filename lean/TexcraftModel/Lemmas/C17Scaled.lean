import TexcraftModel.Model.C17
/-! Lemmas for `to_scaled_eq_store_scaled` (C17). -/
namespace C17

theorem chk_ok (x : Int) (h0 : -2147483648 ≤ x) (h1 : x ≤ 2147483647) : chk x = some x := by
  simp [chk, inI32, I32_MIN, I32_MAX, h0, h1]

theorem mul_byte_bounds (z d : Int) (hz0 : 0 ≤ z) (hz : z < 8388608) (hd0 : 0 ≤ d) (hd : d ≤ 255) :
    0 ≤ z * d ∧ z * d ≤ 8388607 * 255 := by
  have h1 : z * d ≤ z * 255 := Int.mul_le_mul_of_nonneg_left hd hz0
  have h2 : 0 ≤ z * d := Int.mul_nonneg hz0 hd0
  omega

theorem halve_eq_tex (n : Nat) (z a : Int) (hz : 0 ≤ z) : halve n z a = texHalve n z a := by
  induction n generalizing z a with
  | zero => rfl
  | succ n ih =>
    simp only [halve, texHalve, Int.tdiv_eq_ediv_of_nonneg hz]
    split
    · rw [ih _ _ (by omega)]
      congr 1
      omega
    · rfl

/-- The loop of §572 on `0 ≤ z < 2^27` (every `i32` design size): at most four halvings. -/
theorem texHalve_cases (z : Int) (h0 : 0 ≤ z) (h1 : z < 134217728) :
    ∃ z' a, texHalve 32 z 16 = (z', a) ∧ 0 ≤ z' ∧ z' < 8388608 ∧ z' * a ≤ 2147483647 ∧
      (a = 16 ∨ a = 32 ∨ a = 64 ∨ a = 128 ∨ a = 256) := by
  by_cases c1 : z ≥ 8388608
  · by_cases c2 : z / 2 ≥ 8388608
    · by_cases c3 : z / 2 / 2 ≥ 8388608
      · by_cases c4 : z / 2 / 2 / 2 ≥ 8388608
        · have c5 : ¬ z / 2 / 2 / 2 / 2 ≥ 8388608 := by omega
          refine ⟨z / 2 / 2 / 2 / 2, 256, by simp [texHalve, c1, c2, c3, c4, c5], by omega, by omega, by omega, by simp⟩
        · refine ⟨z / 2 / 2 / 2, 128, by simp [texHalve, c1, c2, c3, c4], by omega, by omega, by omega, by simp⟩
      · refine ⟨z / 2 / 2, 64, by simp [texHalve, c1, c2, c3], by omega, by omega, by omega, by simp⟩
    · refine ⟨z / 2, 32, by simp [texHalve, c1, c2], by omega, by omega, by omega, by simp⟩
  · refine ⟨z, 16, by simp [texHalve, c1], by omega, by omega, by omega, by simp⟩

theorem beBytes_bounds (v : Int) :
    let (a, b, c, d) := beBytes v
    0 ≤ b ∧ b ≤ 255 ∧ 0 ≤ c ∧ c ≤ 255 ∧ 0 ≤ d ∧ d ≤ 255 ∧ 0 ≤ a := by
  simp only [beBytes]
  omega

theorem beBytes_a (v : Int) (h0 : -16777216 ≤ v) (h1 : v < 16777216) :
    (beBytes v).1 = if v < 0 then 255 else 0 := by
  simp only [beBytes]
  split <;> omega

/-- The body after the loop: no overflow check fires and the result is TeX's. -/
theorem scaledWith_eq (z a0 v : Int) (hz0 : 0 ≤ z) (hz : z < 8388608) (hza : z * a0 ≤ 2147483647)
    (ha : a0 = 16 ∨ a0 = 32 ∨ a0 = 64 ∨ a0 = 128 ∨ a0 = 256)
    (h0 : -16777216 ≤ v) (h1 : v < 16777216) :
    scaledWith z a0 v = texWith z a0 v ∧ (texWith z a0 v).isSome = true := by
  have hb := beBytes_bounds v
  have hA := beBytes_a v h0 h1
  simp only [scaledWith, texWith]
  generalize beBytes v = q at hb hA ⊢
  obtain ⟨a, b, c, d⟩ := q
  simp only at hb hA ⊢
  obtain ⟨b0, b1, c0, c1, d0, d1, _⟩ := hb
  obtain ⟨hd0, hd1⟩ := mul_byte_bounds z d hz0 hz d0 d1
  obtain ⟨hc0, hc1⟩ := mul_byte_bounds z c hz0 hz c0 c1
  obtain ⟨hb0, hb1⟩ := mul_byte_bounds z b hz0 hz b0 b1
  have hza0 : 0 ≤ z * a0 := Int.mul_nonneg hz0 (by omega)
  have e1 : chk (z * a0) = some (z * a0) := chk_ok _ (by omega) (by omega)
  have e2 : chk (z * d) = some (z * d) := chk_ok _ (by omega) (by omega)
  have e3 : chk (z * c) = some (z * c) := chk_ok _ (by omega) (by omega)
  have e4 : chk (z * b) = some (z * b) := chk_ok _ (by omega) (by omega)
  have f1 : Int.tdiv (z * d) 256 = z * d / 256 := Int.tdiv_eq_ediv_of_nonneg hd0
  have e5 : chk (z * d / 256 + z * c) = some (z * d / 256 + z * c) := chk_ok _ (by omega) (by omega)
  have f2 : Int.tdiv (z * d / 256 + z * c) 256 = (z * d / 256 + z * c) / 256 :=
    Int.tdiv_eq_ediv_of_nonneg (by omega)
  have e6 : chk ((z * d / 256 + z * c) / 256 + z * b) = some ((z * d / 256 + z * c) / 256 + z * b) :=
    chk_ok _ (by omega) (by omega)
  have hsw0 : 0 ≤ (z * d / 256 + z * c) / 256 + z * b := by omega
  have m1 : d * z = z * d := Int.mul_comm d z
  have m2 : c * z = z * c := Int.mul_comm c z
  have m3 : b * z = z * b := Int.mul_comm b z
  have m4 : a0 * z = z * a0 := Int.mul_comm a0 z
  simp only [e1, e2, e3, e4, f1, e5, f2, e6, m1, m2, m3, m4,
    bind, Option.bind, Int.tdiv_eq_ediv_of_nonneg hsw0]
  have e7 : ∀ k : Int, 0 < k → chk (((z * d / 256 + z * c) / 256 + z * b) / k - z * a0) =
      some (((z * d / 256 + z * c) / 256 + z * b) / k - z * a0) := fun k hk =>
    chk_ok _ (by
      have : 0 ≤ ((z * d / 256 + z * c) / 256 + z * b) / k := Int.ediv_nonneg hsw0 (by omega)
      omega) (by
      have : ((z * d / 256 + z * c) / 256 + z * b) / k ≤ (z * d / 256 + z * c) / 256 + z * b :=
        Int.ediv_le_self _ hsw0
      omega)
  by_cases hv : v < 0
  · simp only [hv, if_true] at hA
    subst hA
    rcases ha with rfl | rfl | rfl | rfl | rfl
    · simpa using e7 16 (by decide)
    · simpa using e7 8 (by decide)
    · simpa using e7 4 (by decide)
    · simpa using e7 2 (by decide)
    · simpa using e7 1 (by decide)
  · simp only [hv, if_false] at hA
    subst hA
    have : Int.tdiv 256 a0 = 256 / a0 := Int.tdiv_eq_ediv_of_nonneg (by decide)
    simp [this]

/-! ### Negative design sizes (outside TeX): where the Rust code still computes -/

theorem tdiv_neg_bounds (x k : Int) (hx : x ≤ 0) (hk : 0 < k) : x ≤ Int.tdiv x k ∧ Int.tdiv x k ≤ 0 := by
  have e : Int.tdiv x k = -((-x) / k) := by
    have := Int.neg_tdiv (-x) k
    rw [Int.neg_neg] at this
    rw [this, Int.tdiv_eq_ediv_of_nonneg (by omega)]
  rw [e]
  have h1 : 0 ≤ (-x) / k := Int.ediv_nonneg (by omega) (by omega)
  have h2 : (-x) / k ≤ -x := Int.ediv_le_self _ (by omega)
  omega

theorem mul_byte_bounds_neg (z d : Int) (hz0 : z ≤ 0) (hz : -8388608 ≤ z) (hd0 : 0 ≤ d) (hd : d ≤ 255) :
    -8388608 * 255 ≤ z * d ∧ z * d ≤ 0 := by
  have h1 : z * 255 ≤ z * d := by
    have := Int.mul_le_mul_of_nonneg_left hd (show 0 ≤ -z by omega)
    rw [Int.neg_mul, Int.neg_mul] at this
    omega
  have h2 : z * d ≤ 0 := Int.mul_nonpos_of_nonpos_of_nonneg hz0 hd0
  omega

/-- For `−128pt ≤ design size < 0` (z in `[−2^23, 0]`) and a legal word no overflow check fires. -/
theorem toScaled_neg_defined (v ds : Int) (hds0 : -134217728 ≤ ds) (hds1 : ds < 0)
    (h0 : -16777216 ≤ v) (h1 : v < 16777216) : (toScaled v ds).isSome = true := by
  obtain ⟨hz1, hz0⟩ := tdiv_neg_bounds ds 16 (by omega) (by decide)
  have hzlo : -8388608 ≤ Int.tdiv ds 16 := by
    have e : Int.tdiv ds 16 = -((-ds) / 16) := by
      have := Int.neg_tdiv (-ds) 16
      rw [Int.neg_neg] at this
      rw [this, Int.tdiv_eq_ediv_of_nonneg (by omega)]
    rw [e]; omega
  simp only [toScaled]
  generalize Int.tdiv ds 16 = z at hz0 hzlo ⊢
  have hh : halve 32 z 16 = (z, 16) := by
    have : ¬ z ≥ 8388608 := by omega
    simp [halve, this]
  have hb := beBytes_bounds v
  have hA := beBytes_a v h0 h1
  simp only [hh, scaledWith]
  generalize beBytes v = q at hb hA ⊢
  obtain ⟨a, b, c, d⟩ := q
  simp only at hb hA ⊢
  obtain ⟨b0, b1, c0, c1, d0, d1, _⟩ := hb
  obtain ⟨hd0, hd1⟩ := mul_byte_bounds_neg z d hz0 hzlo d0 d1
  obtain ⟨hc0, hc1⟩ := mul_byte_bounds_neg z c hz0 hzlo c0 c1
  obtain ⟨hb0, hb1⟩ := mul_byte_bounds_neg z b hz0 hzlo b0 b1
  have e1 : chk (z * 16) = some (z * 16) := chk_ok _ (by omega) (by omega)
  have e2 : chk (z * d) = some (z * d) := chk_ok _ (by omega) (by omega)
  have e3 : chk (z * c) = some (z * c) := chk_ok _ (by omega) (by omega)
  have e4 : chk (z * b) = some (z * b) := chk_ok _ (by omega) (by omega)
  obtain ⟨p1, p2⟩ := tdiv_neg_bounds (z * d) 256 hd1 (by decide)
  have hp1 : -8355840 ≤ Int.tdiv (z * d) 256 := by
    have e : Int.tdiv (z * d) 256 = -((-(z * d)) / 256) := by
      have := Int.neg_tdiv (-(z * d)) 256
      rw [Int.neg_neg] at this
      rw [this, Int.tdiv_eq_ediv_of_nonneg (by omega)]
    rw [e]; omega
  have e5 : chk (Int.tdiv (z * d) 256 + z * c) = some (Int.tdiv (z * d) 256 + z * c) :=
    chk_ok _ (by omega) (by omega)
  obtain ⟨q1, q2⟩ := tdiv_neg_bounds (Int.tdiv (z * d) 256 + z * c) 256 (by omega) (by decide)
  have hq1 : -8388608 ≤ Int.tdiv (Int.tdiv (z * d) 256 + z * c) 256 := by
    have e : Int.tdiv (Int.tdiv (z * d) 256 + z * c) 256 =
        -((-(Int.tdiv (z * d) 256 + z * c)) / 256) := by
      have := Int.neg_tdiv (-(Int.tdiv (z * d) 256 + z * c)) 256
      rw [Int.neg_neg] at this
      rw [this, Int.tdiv_eq_ediv_of_nonneg (by omega)]
    rw [e]; omega
  have e6 : chk (Int.tdiv (Int.tdiv (z * d) 256 + z * c) 256 + z * b) =
      some (Int.tdiv (Int.tdiv (z * d) 256 + z * c) 256 + z * b) := chk_ok _ (by omega) (by omega)
  obtain ⟨r1, r2⟩ := tdiv_neg_bounds (Int.tdiv (Int.tdiv (z * d) 256 + z * c) 256 + z * b) 16
    (by omega) (by decide)
  have e7 : chk (Int.tdiv (Int.tdiv (Int.tdiv (z * d) 256 + z * c) 256 + z * b) 16 - z * 16) =
      some (Int.tdiv (Int.tdiv (Int.tdiv (z * d) 256 + z * c) 256 + z * b) 16 - z * 16) :=
    chk_ok _ (by omega) (by omega)
  have e16 : Int.tdiv 256 16 = 16 := by decide
  simp only [e1, e2, e3, e4, e5, e6, e16, bind, Option.bind]
  by_cases hv : v < 0
  · simp only [hv, if_true] at hA
    subst hA
    simp [e7]
  · simp only [hv, if_false] at hA
    subst hA
    simp

end C17
