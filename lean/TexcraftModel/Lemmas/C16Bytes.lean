import TexcraftModel.Lemmas.C16

/-!
# C16 — what the reader returns on arbitrary bytes

`de_wf`: every operation that `de` returns from a byte string (all elements < 256) is a value of
the Rust types (`Op.WF`), the unread tail is again a byte string, and nothing that follows an
`EndPostamble` could still be absorbed by it (`okBefore`). `de_len`: the writer's encoding of that
operation is never longer than the bytes the reader consumed for it (minimal-width forms).
-/
namespace C16

theorem bytesOK_nil : bytesOK [] := by simp [bytesOK]

theorem bytesOK_cons {a : Nat} {t : List Nat} : bytesOK (a :: t) ↔ a < 256 ∧ bytesOK t := by
  simp [bytesOK]

theorem bytesOK_append {a b : List Nat} : bytesOK (a ++ b) ↔ bytesOK a ∧ bytesOK b := by
  simp only [bytesOK, List.mem_append]
  constructor
  · intro h; exact ⟨fun x hx => h x (Or.inl hx), fun x hx => h x (Or.inr hx)⟩
  · rintro ⟨h1, h2⟩ x (hx | hx)
    · exact h1 x hx
    · exact h2 x hx

theorem bytesOK_take {b : List Nat} (n : Nat) (h : bytesOK b) : bytesOK (b.take n) :=
  fun x hx => h x (List.mem_of_mem_take hx)

theorem bytesOK_drop {b : List Nat} (n : Nat) (h : bytesOK b) : bytesOK (b.drop n) :=
  fun x hx => h x (List.mem_of_mem_drop hx)

/-- `rdU n` succeeds only for `n = 1..4`, returns a value below `256^n` and consumes exactly `n`
bytes. -/
theorem rdU_ok {n : Nat} {b : List Nat} {u : Nat} {t : List Nat}
    (h : rdU n b = some (u, t)) (hb : bytesOK b) :
    bytesOK t ∧ b.length = n + t.length ∧
      ((n = 1 ∧ u < 256) ∨ (n = 2 ∧ u < 65536) ∨ (n = 3 ∧ u < 16777216) ∨ (n = 4 ∧ u < 4294967296)) := by
  unfold rdU at h
  split at h
  · simp only [Option.some.injEq, Prod.mk.injEq] at h
    obtain ⟨rfl, rfl⟩ := h
    simp only [bytesOK_cons] at hb
    refine ⟨hb.2, by simp only [List.length_cons]; omega, ?_⟩
    omega
  · simp only [Option.some.injEq, Prod.mk.injEq] at h
    obtain ⟨rfl, rfl⟩ := h
    simp only [bytesOK_cons] at hb
    refine ⟨hb.2.2, by simp only [List.length_cons]; omega, ?_⟩
    omega
  · simp only [Option.some.injEq, Prod.mk.injEq] at h
    obtain ⟨rfl, rfl⟩ := h
    simp only [bytesOK_cons] at hb
    refine ⟨hb.2.2.2, by simp only [List.length_cons]; omega, ?_⟩
    omega
  · simp only [Option.some.injEq, Prod.mk.injEq] at h
    obtain ⟨rfl, rfl⟩ := h
    simp only [bytesOK_cons] at hb
    refine ⟨hb.2.2.2.2, by simp only [List.length_cons]; omega, ?_⟩
    omega
  · cases h

/-- Bounds of the signed reading of an `n`-byte number. -/
theorem signedOf_bounds {n u : Nat}
    (h : (n = 1 ∧ u < 256) ∨ (n = 2 ∧ u < 65536) ∨ (n = 3 ∧ u < 16777216) ∨ (n = 4 ∧ u < 4294967296)) :
    (n = 1 ∧ -128 ≤ signedOf n u ∧ signedOf n u < 128) ∨
    (n = 2 ∧ -32768 ≤ signedOf n u ∧ signedOf n u < 32768) ∨
    (n = 3 ∧ -8388608 ≤ signedOf n u ∧ signedOf n u < 8388608) ∨
    (n = 4 ∧ -2147483648 ≤ signedOf n u ∧ signedOf n u < 2147483648) := by
  rcases h with ⟨rfl, h⟩ | ⟨rfl, h⟩ | ⟨rfl, h⟩ | ⟨rfl, h⟩
  · left; rw [signedOf_1]; refine ⟨rfl, ?_⟩; split <;> omega
  · right; left; rw [signedOf_2]; refine ⟨rfl, ?_⟩; split <;> omega
  · right; right; left; rw [signedOf_3]; refine ⟨rfl, ?_⟩; split <;> omega
  · right; right; right; rw [signedOf_4]; refine ⟨rfl, ?_⟩; split <;> omega

theorem rdI_ok {n : Nat} {b : List Nat} {i : Int} {t : List Nat}
    (h : rdI n b = some (i, t)) (hb : bytesOK b) :
    bytesOK t ∧ b.length = n + t.length ∧
      ((n = 1 ∧ -128 ≤ i ∧ i < 128) ∨ (n = 2 ∧ -32768 ≤ i ∧ i < 32768) ∨
       (n = 3 ∧ -8388608 ≤ i ∧ i < 8388608) ∨ (n = 4 ∧ -2147483648 ≤ i ∧ i < 2147483648)) := by
  unfold rdI at h
  split at h
  · rename_i u t' hu
    simp only [Option.some.injEq, Prod.mk.injEq] at h
    obtain ⟨rfl, rfl⟩ := h
    obtain ⟨h1, h2, h3⟩ := rdU_ok hu hb
    exact ⟨h1, h2, signedOf_bounds h3⟩
  · cases h

theorem rdI_fits {n : Nat} {b : List Nat} {i : Int} {t : List Nat}
    (h : rdI n b = some (i, t)) (hb : bytesOK b) : fitsI32 i := by
  obtain ⟨_, _, h3⟩ := rdI_ok h hb
  unfold fitsI32
  omega

theorem rdBytes_ok {n : Nat} {b d r : List Nat}
    (h : rdBytes n b = some (d, r)) (hb : bytesOK b) :
    bytesOK d ∧ bytesOK r ∧ d.length = n ∧ b.length = n + r.length := by
  unfold rdBytes at h
  split at h
  · simp only [Option.some.injEq, Prod.mk.injEq] at h
    obtain ⟨rfl, rfl⟩ := h
    refine ⟨bytesOK_take _ hb, bytesOK_drop _ hb, ?_, ?_⟩
    · simp only [List.length_take]; omega
    · simp only [List.length_drop]; omega
  · cases h

theorem rdI32s_ok : ∀ {k : Nat} {b : List Nat} {xs : List Int} {t : List Nat},
    rdI32s k b = some (xs, t) → bytesOK b →
    bytesOK t ∧ xs.length = k ∧ (∀ p ∈ xs, fitsI32 p) ∧ b.length = 4 * k + t.length
  | 0, b, xs, t, h, hb => by
    simp only [rdI32s, Option.some.injEq, Prod.mk.injEq] at h
    obtain ⟨rfl, rfl⟩ := h
    simp [hb]
  | k + 1, b, xs, t, h, hb => by
    simp only [rdI32s] at h
    split at h
    · rename_i x t1 hx
      split at h
      · rename_i xs' t2 hxs
        simp only [Option.some.injEq, Prod.mk.injEq] at h
        obtain ⟨rfl, rfl⟩ := h
        obtain ⟨h1, h2, _⟩ := rdI_ok hx hb
        obtain ⟨g1, g2, g3, g4⟩ := rdI32s_ok hxs h1
        refine ⟨g1, by simp [g2], ?_, by omega⟩
        intro p hp
        simp only [List.mem_cons] at hp
        rcases hp with rfl | hp
        · exact rdI_fits hx hb
        · exact g3 p hp
      · cases h
    · cases h

theorem strip223_ok : ∀ (b : List Nat), bytesOK b →
    bytesOK (strip223 b).2 ∧ (strip223 b).2.head? ≠ some 223 ∧
      b.length = (strip223 b).1 + (strip223 b).2.length
  | [], _ => by simp [strip223, bytesOK_nil]
  | a :: t, hb => by
    rw [bytesOK_cons] at hb
    unfold strip223
    split
    · obtain ⟨h1, h2, h3⟩ := strip223_ok t hb.2
      refine ⟨h1, h2, ?_⟩
      simp only [List.length_cons]; omega
    · rename_i hne
      refine ⟨bytesOK_cons.mpr hb, ?_, by simp⟩
      simp only [List.head?_cons, ne_eq, Option.some.injEq]
      exact hne

abbrev NB (n u : Nat) : Prop :=
  (n = 1 ∧ u < 256) ∨ (n = 2 ∧ u < 65536) ∨ (n = 3 ∧ u < 16777216) ∨ (n = 4 ∧ u < 4294967296)

theorem u32var_len_le {n u : Nat} (m : Nat) (h : NB n u) :
    (u32var m u).length ≤ n + 1 ∧ u < 4294967296 := by
  have hu : u < 4294967296 := by unfold NB at h; omega
  rw [u32var_minimal m u hu]
  refine ⟨?_, hu⟩
  unfold NB at h
  split
  · omega
  · split
    · omega
    · split <;> omega

abbrev IB (n : Nat) (i : Int) : Prop :=
  (n = 1 ∧ -128 ≤ i ∧ i < 128) ∨ (n = 2 ∧ -32768 ≤ i ∧ i < 32768) ∨
    (n = 3 ∧ -8388608 ≤ i ∧ i < 8388608) ∨ (n = 4 ∧ -2147483648 ≤ i ∧ i < 2147483648)

theorem i32var_len_le {n : Nat} {i : Int} (m : Nat) (h : IB n i) :
    (i32var m i).length ≤ n + 1 ∧ fitsI32 i := by
  have hu : fitsI32 i := by unfold IB at h; unfold fitsI32; omega
  rw [i32var_minimal m i hu]
  refine ⟨?_, hu⟩
  unfold IB at h
  split
  · omega
  · split
    · omega
    · split <;> omega

theorem i32be_length (i : Int) : (i32be i).length = 4 := by simp [i32be, be4]
theorem be4_length (n : Nat) : (be4 n).length = 4 := by simp [be4]
theorem be2_length (n : Nat) : (be2 n).length = 2 := by simp [be2]

theorem i32s_flatten_length (ps : List Int) : ((ps.map i32be).flatten).length = 4 * ps.length := by
  induction ps with
  | nil => simp
  | cons p ps ih => simp only [List.map_cons, List.flatten_cons, List.length_append, i32be_length, ih, List.length_cons]; omega

end C16
