/-
C11 — the lig/kern sub-file at the level of its 4-byte words, decoded independently of the
Rust reader (TFtoPL.2014.13 / TeX82 §545: `skip_byte, next_char, op_byte, remainder`), the
word encoder of `serialize.rs`, and PLtoTF's notion of a seven-bit-safe font.

`decodeWord` is what TeX does with a word: skip byte < 128 = number of steps to pass over,
128 = stop, > 128 = unconditional stop whose last two bytes are a restart address (used for
entry-point redirection and, in the last word, for the left-boundary program; in word 0 a
skip byte 255 announces the boundary character). Core Lean only.
-/
import TexcraftModel.Model.C11

namespace C11

structure Word where
  b0 : Nat
  b1 : Nat
  b2 : Nat
  b3 : Nat
  deriving DecidableEq, Repr, Inhabited

/-- op byte of a ligature step → `PostLigOperation` code (inverse of serialize.rs:150–159;
TFtoPL.2014.77: `4a+2b+c`). Non-standard codes read as plain `LIG` (and make tftopl warn). -/
def decodePost : Nat → Nat
  | 3 => 0   -- /LIG/
  | 7 => 1   -- /LIG/>
  | 11 => 2  -- /LIG/>>
  | 1 => 3   -- LIG/
  | 5 => 4   -- LIG/>
  | 2 => 5   -- /LIG
  | 6 => 6   -- /LIG>
  | _ => 7   -- LIG

def encodePost : Nat → Nat
  | 0 => 3 | 1 => 7 | 2 => 11 | 3 => 1 | 4 => 5 | 5 => 2 | 6 => 6 | _ => 0

def decodeWord (w : Word) : Instr :=
  if w.b0 > 128 then ⟨none, w.b1, .redirect (256 * w.b2 + w.b3) true⟩
  else
    ⟨if w.b0 < 128 then some w.b0 else none, w.b1,
     if w.b2 ≥ 128 then .kernAt (256 * (w.b2 - 128) + w.b3) else .lig w.b3 (decodePost w.b2)⟩

/-- An instruction the format can hold. -/
def wordOk (i : Instr) : Bool :=
  (match i.next with | none => true | some s => decide (s < 128)) && decide (i.right < 256) &&
    (match i.op with
      | .kern _ => false
      | .kernAt idx => decide (idx < 32768)
      | .lig c p => decide (c < 256) && decide (p < 8)
      | .redirect u flag => decide (u < 65536) && i.next.isNone)

/-- `impl Serializable for ligkern::lang::Instruction` (serialize.rs:126–172). `none`: the
serialiser panics on an inline `Kern`, or a field does not fit its byte(s) (impossible in Rust,
where the fields are `u8`/`u16`; the model's fields are unbounded `Nat`). -/
def encodeWord (rb : Option Nat) (i : Instr) : Option Word :=
  if !wordOk i then none else
  let first := (i.next.getD 128, i.right)
  match i.op with
  | .kern _ => none
  | .kernAt idx => some ⟨first.1, first.2, idx / 256 + 128, idx % 256⟩
  | .lig c p => some ⟨first.1, first.2, encodePost p, c⟩
  | .redirect u flag =>
    let h : Nat × Nat := if flag then (match rb with | none => (254, 0) | some c => (255, c)) else (255, 0)
    some ⟨h.1, h.2, u / 256, u % 256⟩

/-- The boundary character TeX reads: word 0 has skip byte 255. -/
def rawRb : List Word → Option Nat
  | [] => none
  | w :: _ => if w.b0 = 255 then some w.b1 else none

/-- The left-boundary program TeX reads: the last word has skip byte 255. -/
def rawLb (ws : List Word) : Option Nat :=
  match ws.getLast? with
  | none => none
  | some w => if w.b0 = 255 then some (256 * w.b2 + w.b3) else none

def decodeRaw (ws : List Word) : Prog := ⟨ws.map decodeWord, rawLb ws, rawRb ws⟩

/-! ## Seven-bit safety (PLtoTF.2014.110–112 as implemented in pl/mod.rs:478–556) -/

/-- Lig/kern part: no step of a seven-bit character that applies to a seven-bit right
character inserts an eight-bit character. `entries` = unpacked entry points of the
characters that exist. -/
def ligSafe (instrs : List Instr) (entries : List (Nat × Nat)) : Bool :=
  entries.all fun ce =>
    decide (128 ≤ ce.1) ||
      (chain ce.2 instrs).all fun i =>
        decide (128 ≤ i.right) ||
          (match i.op with
            | .lig z _ => decide (z < 128)
            | _ => true)

/-- The whole definition: lig/kern steps, NEXTLARGER (`lists`: character ↦ next larger) and
VARCHAR (`recipes`: character ↦ the pieces that are present). -/
def safe7 (instrs : List Instr) (entries lists : List (Nat × Nat)) (recipes : List (Nat × List Nat)) : Bool :=
  ligSafe instrs entries &&
    lists.all (fun cn => decide (128 ≤ cn.1) || decide (cn.2 < 128)) &&
    recipes.all (fun cr => decide (128 ≤ cr.1) || cr.2.all (fun x => decide (x < 128)))

end C11
