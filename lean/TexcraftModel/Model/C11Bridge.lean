/-
C11 ↔ C05: a C11 program (with its unpacked entry points and kerns array) as a `C05.Program`,
so that "lig/kern behaviour identical on every character pair and boundary" can be stated
with C05's `rule` (entry point → SKIP/STOP chain walk, first match wins), on which C05's
compiled/interpreted semantics are built. Read-only import of `Model/C05.lean`.
-/
import TexcraftModel.Model.C05
import TexcraftModel.Model.C11

namespace C11

def postLigOf : Nat → C05.PostLig
  | 0 => .bothNowhere
  | 1 => .bothInserted
  | 2 => .bothRight
  | 3 => .rightInserted
  | 4 => .rightRight
  | 5 => .leftNowhere
  | 6 => .leftInserted
  | _ => .neither

def toC05Op : Op → C05.RawOp
  | .kern k => .kern k
  | .kernAt i => .kernAt i
  | .lig c p => .lig c (postLigOf p)
  | .redirect u _ => .redirect u

def toC05Instr (i : Instr) : C05.Instr := ⟨i.next, i.right, toC05Op i.op⟩

/-- The program TeX (or `CompiledProgram::compile`) sees: instructions, boundary data, the
*unpacked* entry points (`char ↦ u16`) and the kerns array. Kern values are the raw
fix_words (C05 scales them by the design size first; both files have the same design size). -/
def toC05 (p : Prog) (entries : List (Nat × Nat)) (kerns : List Int) : C05.Program :=
  { instrs := p.instrs.map toC05Instr, lbEntry := p.lb, rb := p.rb, entries := entries, kerns := kerns }

/-- `CompiledProgram::compile_from_tfm_file` (ligkern/mod.rs:132–151) and `impl From<File> for
pl::File` (pl/mod.rs:551–560): the byte entry points unpacked; invalid ones are dropped. -/
def unpackAll (instrs : List Instr) (pe : List (Nat × Nat)) : List (Nat × Nat) :=
  pe.filterMap fun cu => (unpackEntry instrs cu.2).map (fun e => (cu.1, e))

/-- Left characters that can have a rule in `p`, right characters that can be matched. -/
def lefts (p : C05.Program) : List (Option Nat) := none :: p.entries.map (fun e => some e.1)
def rights (p : C05.Program) : List Nat := p.instrs.map (·.right)

/-- Remove duplicates (keeps the last occurrence). -/
def dedup {α : Type} [DecidableEq α] : List α → List α
  | [] => []
  | x :: xs => if x ∈ dedup xs then dedup xs else x :: dedup xs

/-- First pair on which the two programs' rules differ (searched over the left characters
with an entry point in either program plus the left boundary, and the right characters that
occur in either instruction list; every other pair has no rule in both:
`firstRuleDiff_sound` in `Lemmas/C11Sem.lean`). -/
def firstRuleDiff (p q : C05.Program) : Option (Option Nat × Nat) :=
  let ls := dedup (lefts p ++ lefts q)
  let rs := dedup (rights p ++ rights q)
  ls.findSome? fun l => (rs.find? fun r => C05.rule p l r != C05.rule q l r).map (fun r => (l, r))

end C11
