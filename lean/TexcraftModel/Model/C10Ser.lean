import TexcraftModel.Model.C10

/-!
C10 — the size table written by the serialiser: model of `serialize` in
`crates/tfm/src/serialize.rs:3-42` at the level of *counts* (`FileShape`), i.e. how
`lf, lh, bc, ec, nw, nh, nd, ni, nl, nk, ne, np` are derived from a `tfm::File`.

* `lh`  = `serialize_header`: 18 words (checksum, design size, 40 + 20 string bytes, the
          seven-bit/face word) + `header.additional_data.len()`, converted with
          `try_into::<i16>().expect(..)` (serialize.rs:221-223); the extra words also go through
          `serialize_section`, whose count is converted with `try_into().unwrap()`.
* `bc, ec` = `char_info_bounds()` (smallest / largest key of `char_dimens`), `1, 0` if empty;
          `ec - bc + 1` char-info words are written (`serialize_char_infos`).
* every other count = `serialize_section`: `((b.len() - start) / 4).try_into::<i16>().unwrap()`;
          each element of each table is written as exactly four bytes.
* `lf`  = `valid_lf()` = `checked_valid_lf().expect(..)` (deserialize.rs:252-275).

Every conversion that can panic is an explicit `SerOutcome.panic`.  `nl` is split into the
lig/kern steps accepted by the PL front end (`steps`, bounded together with the distinct kerns
by `pl::MAX_LIG_KERN_WORDS`, pl/mod.rs:50-68) and the words `pack_entrypoints` adds
(`added`: at most 256 redirects in front — location 0 doing double duty for the boundary
character — plus one at the end for the left boundary entry point; ligkern/lang.rs:553-617).

Not modelled: the bytes of the tables (two body-level panics exist there and are outside this
model: an `Operation::Kern` that was not unpacked, and a `KernAtIndex` ≥ 32768).  Core Lean only.
-/
namespace C10

/-- The counts of a `tfm::File` that determine the size table. -/
structure FileShape where
  /-- `header.additional_data.len()` -/
  headerExtra : Nat
  /-- `char_info_bounds()`: smallest and largest character with dimensions -/
  chars : Option (Nat × Nat)
  nw : Nat
  nh : Nat
  nd : Nat
  ni : Nat
  /-- lig/kern steps taken from the property list -/
  steps : Nat
  /-- instructions added by `pack_entrypoints` -/
  added : Nat
  nk : Nat
  ne : Nat
  np : Nat
  deriving DecidableEq, Repr

inductive SerSite
  /-- `(18 + additional_data.len()).try_into().expect(..)` in `serialize_header` -/
  | lhCast
  /-- `serialize_section`'s `try_into().unwrap()` (which table: 0 = header extra, 1 = char
  infos, 2..9 = widths, heights, depths, italics, lig/kern, kerns, extensible, params) -/
  | sectionCast (table : Nat)
  /-- `checked_valid_lf().expect("the sub-file sizes add up to at most i16::MAX words")` -/
  | lfOverflow
  deriving DecidableEq, Repr

inductive SerOutcome
  | ok (s : Sizes)
  | panic (site : SerSite)
  deriving DecidableEq, Repr

/-- `usize -> i16` with `try_into`: `none` = the conversion fails. -/
def toI16 (n : Nat) : Option Int := if n ≤ 32767 then some (n : Int) else none

/-- `serialize_section` for table `k`: the count as an `i16`, or the panic of
`try_into().unwrap()`; `cont` is the rest of the struct literal. -/
def sec (k n : Nat) (cont : Int → SerOutcome) : SerOutcome :=
  match toI16 n with
  | none => .panic (.sectionCast k)
  | some c => cont c

/-- `valid_lf()`: the sum in i32, then `try_into::<i16>().ok()`, then `expect`. -/
def withLf (s : Sizes) : SerOutcome :=
  match validLf lim32 s with
  | none => .panic .lfOverflow
  | some v => if -lim16 ≤ v ∧ v < lim16 then .ok { s with lf := v } else .panic .lfOverflow

/-- `serialize`, counts only, in the evaluation order of the struct literal. -/
def serializeSizes (f : FileShape) : SerOutcome :=
  -- `lh: serialize_header(..)`: the extra words are a section, then the cast of 18 + len
  sec 0 f.headerExtra fun _ =>
  match toI16 (18 + f.headerExtra) with
  | none => .panic .lhCast
  | some lh =>
    let bc : Int := match f.chars with | none => 1 | some (b, _) => b
    let ec : Int := match f.chars with | none => 0 | some (_, e) => e
    -- `serialize_char_infos`: a vector of `ec + 1 - bc` entries, then `serialize_section`
    let nchars : Nat := match f.chars with | none => 0 | some (b, e) => e + 1 - b
    sec 1 nchars fun _ =>
    sec 2 f.nw fun nw => sec 3 f.nh fun nh => sec 4 f.nd fun nd => sec 5 f.ni fun ni =>
    sec 6 (f.steps + f.added) fun nl => sec 7 f.nk fun nk => sec 8 f.ne fun ne => sec 9 f.np fun np =>
    withLf ⟨0, lh, bc, ec, nw, nh, nd, ni, nl, nk, ne, np⟩

/-- The number of body bytes `serialize` writes after the 24-byte size table. -/
def bodyBytes (f : FileShape) : Nat :=
  4 * (18 + f.headerExtra + (match f.chars with | none => 0 | some (b, e) => e + 1 - b) +
    f.nw + f.nh + f.nd + f.ni + (f.steps + f.added) + f.nk + f.ne + f.np)

/-- `pl::MAX_LIG_KERN_WORDS` = `i16::MAX - (6+256+256+256+16+16+64+256+254+258)`. -/
def maxLigKernWords : Nat := 31129

/-- What `From<pl::File> for File` (and the PL front end before it) establishes about the
counts — each clause names where it comes from:

* `header`  a `HEADER` index is a byte and at least 18, so at most 238 extra words (pl/mod.rs:216-228)
* `chars`   character codes are bytes and `bc ≤ ec` (`char_info_bounds`, lib.rs:405-417)
* `nw…ni`   `compress(_, 255 | 15 | 15 | 63)` returns at most that many values after a leading
            zero, so every table has between 1 and 256 / 16 / 16 / 64 entries (lib.rs:523-526, 685-790)
* `lig`     steps + distinct kerns ≤ `MAX_LIG_KERN_WORDS` (pl/mod.rs:248-285); `nk` is the
            number of distinct kerns (`unpack_kerns`)
* `added`   `pack_entrypoints` adds at most 256 + 1 + 1 words
* `ne`      one recipe per character with a `VARCHAR` tag: at most 256 (lib.rs:594-600)
* `np`      a parameter number is between 1 and 254 (ast.rs:499-507)
-/
structure ShapeOK (f : FileShape) : Prop where
  header : f.headerExtra ≤ 238
  chars : ∀ b e, f.chars = some (b, e) → b ≤ e ∧ e ≤ 255
  nw : 1 ≤ f.nw ∧ f.nw ≤ 256
  nh : 1 ≤ f.nh ∧ f.nh ≤ 16
  nd : 1 ≤ f.nd ∧ f.nd ≤ 16
  ni : 1 ≤ f.ni ∧ f.ni ≤ 64
  lig : f.steps + f.nk ≤ maxLigKernWords
  added : f.added ≤ 258
  ne : f.ne ≤ 256
  np : f.np ≤ 254

def shapeOKB (f : FileShape) : Bool :=
  decide (f.headerExtra ≤ 238) &&
  (match f.chars with | none => true | some (b, e) => decide (b ≤ e ∧ e ≤ 255)) &&
  decide (1 ≤ f.nw ∧ f.nw ≤ 256) && decide (1 ≤ f.nh ∧ f.nh ≤ 16) && decide (1 ≤ f.nd ∧ f.nd ≤ 16) &&
  decide (1 ≤ f.ni ∧ f.ni ≤ 64) && decide (f.steps + f.nk ≤ maxLigKernWords) && decide (f.added ≤ 258) &&
  decide (f.ne ≤ 256) && decide (f.np ≤ 254)

/-- Which clause of `ShapeOK` fails first (for the harness's report), 0 = none. -/
def shapeViolation (f : FileShape) : Nat :=
  if ¬ f.headerExtra ≤ 238 then 1
  else if (match f.chars with | none => false | some (b, e) => !decide (b ≤ e ∧ e ≤ 255)) then 2
  else if ¬ (1 ≤ f.nw ∧ f.nw ≤ 256) then 3
  else if ¬ (1 ≤ f.nh ∧ f.nh ≤ 16) then 4
  else if ¬ (1 ≤ f.nd ∧ f.nd ≤ 16) then 5
  else if ¬ (1 ≤ f.ni ∧ f.ni ≤ 64) then 6
  else if ¬ (f.steps + f.nk ≤ maxLigKernWords) then 7
  else if ¬ f.added ≤ 258 then 8
  else if ¬ f.ne ≤ 256 then 9
  else if ¬ f.np ≤ 254 then 10
  else 0

end C10
