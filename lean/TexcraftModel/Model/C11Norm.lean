/-
C11 — the normalisation the TFM→PL→TFM trip performs on the lig/kern instruction list.

Transcribed passes (Rust anchors at /repo HEAD):

* `reachFrom`, `reachable`   — `Program::reachable_array`  (ligkern/lang.rs, "TFtoPL.2014.68–70"):
                               entry points and the left-boundary entry point are reachable, and
                               reachability propagates along `next_instruction` in one forward pass
* `adjSkip`                  — `ReachableIter::next`       (lang.rs): the SKIP count that remains when
                               the unreachable steps between an instruction and its target are dropped
* `printItems`               — `pl::File::lower`, LIGTABLE part (pl/mod.rs:722–815): per reachable
                               word the labels, the LIG/KRN step (none for a redirect word), then
                               SKIP n / STOP / nothing; unreachable and pass-through words give no item
                               (tftopl prints the unreachable ones as a COMMENT)
* `parseStep`, `parseItems`  — `pl::File::from_ast`, `Root::LigTable` arm and "PLtoTF.2014.116"
                               (pl/mod.rs:229–309, 383–388): a LABEL records the number of steps read
                               so far, LIG/KRN append a step with SKIP 0, STOP/SKIP patch the step
                               just read, the final step's SKIP 0 becomes STOP
* `normalise`                — closed form of `parseItems ∘ printItems` (`compact` the reachable
                               steps, renumber SKIPs and labels), valid when no reachable word is a
                               redirect word (`noReachRedirect`); `Lemmas/C11Parse.lean` proves the
                               equality, `Lemmas/C11Norm*.lean` prove that it preserves `C05.rule`.

The program handed to these passes is the one `impl From<tfm::File> for pl::File` builds:
redirect words still in place, kern values inline (`pack_kerns`), entry points already
unpacked to 16-bit positions (`unpack_entrypoint`, `Model/C11.lean`). Core Lean only.
-/
import TexcraftModel.Model.C11

namespace C11

/-! ## `reachable_array` -/

/-- One forward pass. `marks` are the positions (relative to the head of the list) already
known to be reachable: initially the entry points; when a reachable instruction has
`next_instruction = Some(inc)` the position `inc` of the rest is added
(`reachable.get_mut(i + inc + 1)`; a position beyond the end is ignored). -/
def reachFrom (marks : List Nat) : List Instr → List Bool
  | [] => []
  | i :: rest =>
    let r := marks.contains 0
    let shifted := (marks.filter (· ≠ 0)).map (· - 1)
    let marks' := if r then (match i.next with | some inc => inc :: shifted | none => shifted) else shifted
    r :: reachFrom marks' rest

/-- The marks `reachable_array` starts from: every entry point, and the left-boundary entry
point unless it addresses the last word ("There is a bug (?) in Knuth's TFtoPL when the
entrypoint for the boundary char points at the last instruction"; the Rust code evaluates
`len() - 1`, which needs `len ≥ 1` — guaranteed by the reader whenever `lb` is `Some`). -/
def startMarks (p : Prog) (es : List (Nat × Nat)) : List Nat :=
  es.map (·.2) ++ (match p.lb with
    | some l => if l + 1 = p.instrs.length then [] else [l]
    | none => [])

def reachable (p : Prog) (es : List (Nat × Nat)) : List Bool := reachFrom (startMarks p es) p.instrs

def countTrue : List Bool → Nat
  | [] => 0
  | true :: t => countTrue t + 1
  | false :: t => countTrue t

/-! ## `ReachableIter` and the LIGTABLE printer -/

/-- `adjusted_skip` (lang.rs `ReachableIter::next`): for `Some(inc)`, `inc > 0`, the number of
reachable words among the `inc` skipped ones; `None` when there is nothing to adjust or the
range leaves the array. `fl` = the flags of the words behind this one. -/
def adjSkip (next : Option Nat) (fl : List Bool) : Option Nat :=
  match next with
  | none => none
  | some 0 => none
  | some inc => if inc ≤ fl.length then some (countTrue (fl.take inc)) else none

/-- The `next_instruction` the parser will reconstruct from what the printer emits behind a
step: `SKIP n` → `Some(n)`, `STOP` → `None`, nothing → `Some(0)` (pl/mod.rs:797–809). -/
def outNext (next : Option Nat) (fl : List Bool) : Option Nat :=
  match adjSkip next fl with
  | some n => some n
  | none => next

/-- An element of the printed LIGTABLE (`pl::ast::LigTable` without comments). -/
inductive Item
  | label (c : Nat)
  | labelB
  | op (right : Nat) (o : Op)
  | stop
  | skip (n : Nat)
  deriving DecidableEq, Repr, Inhabited

/-- `index_to_labels[k]`: the characters whose entry point is `k`, ascending (the entry list is
kept sorted by character, as `char_tags: BTreeMap` iterates). -/
def labelsAt (es : List (Nat × Nat)) (k : Nat) : List Nat := (es.filter (·.2 = k)).map (·.1)

def tailItems (next : Option Nat) (fl : List Bool) : List Item :=
  match adjSkip next fl with
  | some n => [.skip n]
  | none =>
    match next with
    | none => [.stop]
    | some 0 => []
    | some n => [.skip n]

/-- `lower`, LIGTABLE loop. `k` = index of the head word. -/
def printItems (lb : Option Nat) (es : List (Nat × Nat)) : Nat → List Instr → List Bool → List Item
  | k, i :: rest, f :: fl =>
    (if f then
      (if lb = some k then [Item.labelB] else []) ++ (labelsAt es k).map Item.label ++
        (if i.op.isRedirect then [] else [Item.op i.right i.op]) ++ tailItems i.next fl
     else []) ++ printItems lb es (k + 1) rest fl
  | _, _, _ => []

/-! ## The LIGTABLE parser -/

structure PState where
  instrs : List Instr
  entries : List (Nat × Nat)
  lb : Option Nat
  /-- `lig_kern_precedes` -/
  precedes : Bool
  deriving DecidableEq, Repr, Inhabited

def setLastNext (l : List Instr) (n : Option Nat) : List Instr :=
  match l with
  | [] => []
  | [a] => [{ a with next := n }]
  | a :: b :: t => a :: setLastNext (b :: t) n

/-- `char_tags.insert(c, CharTag::Ligature(u))`: a later label for the same character replaces
the earlier one. -/
def insertEntry (es : List (Nat × Nat)) (c u : Nat) : List (Nat × Nat) :=
  es.filter (·.1 ≠ c) ++ [(c, u)]

def parseStep (s : PState) : Item → PState
  | .label c => { s with entries := insertEntry s.entries c s.instrs.length, precedes := false }
  | .labelB => { s with lb := some s.instrs.length, precedes := false }
  | .op r o => { s with instrs := s.instrs ++ [⟨some 0, r, o⟩], precedes := true }
  | .stop =>
    if s.precedes then { s with instrs := setLastNext s.instrs none, precedes := false }
    else { s with precedes := false }
  | .skip n =>
    if s.precedes then { s with instrs := setLastNext s.instrs (some n), precedes := false }
    else { s with precedes := false }

/-- "PLtoTF.2014.116": a final step that still says SKIP 0 becomes STOP. -/
def fixLast (l : List Instr) : List Instr :=
  match l with
  | [] => []
  | [a] => [if a.next = some 0 then { a with next := none } else a]
  | a :: b :: t => a :: fixLast (b :: t)

def parseItems (items : List Item) : PState :=
  let s := items.foldl parseStep ⟨[], [], none, false⟩
  { s with instrs := fixLast s.instrs }

/-- M for "tftopl prints, pltotf reads": the PL-level program and label positions. -/
def printParse (p : Prog) (es : List (Nat × Nat)) : Prog × List (Nat × Nat) :=
  let s := parseItems (printItems p.lb es 0 p.instrs (reachable p es))
  (⟨s.instrs, s.lb, p.rb⟩, s.entries)

/-! ## Closed form -/

/-- The reachable, non-redirect words in order, SKIPs renumbered. -/
def compact : List Instr → List Bool → List Instr
  | i :: rest, f :: fl =>
    (if f && !i.op.isRedirect then [{ i with next := outNext i.next fl }] else []) ++ compact rest fl
  | _, _ => []

/-- Number of steps printed before word `e` = the position a label in front of word `e` gets. -/
def posOf : List Instr → List Bool → Nat → Nat
  | _ :: _, _ :: _, 0 => 0
  | i :: rest, f :: fl, e + 1 => (if f && !i.op.isRedirect then 1 else 0) + posOf rest fl e
  | _, _, _ => 0

def isReach (fl : List Bool) (e : Nat) : Bool := fl[e]? == some true

/-- Closed form of `printParse` (equal to it when no reachable word is a redirect word; the
entry list is returned in the order of `es`, the parser's is in the order it meets the labels:
the harness sorts both by character, the theorems compare them through `lookup`). -/
def normalise (p : Prog) (es : List (Nat × Nat)) : Prog × List (Nat × Nat) :=
  let fl := reachable p es
  (⟨fixLast (compact p.instrs fl),
    p.lb.bind (fun l => if isReach fl l then some (posOf p.instrs fl l) else none),
    p.rb⟩,
   es.filterMap (fun ce => if isReach fl ce.2 then some (ce.1, posOf p.instrs fl ce.2) else none))

/-- No reachable word is a redirect word (a SKIP chain never runs into one, no entry point
addresses one). -/
def noReachRedirect : List Instr → List Bool → Bool
  | i :: rest, f :: fl => !(f && i.op.isRedirect) && noReachRedirect rest fl
  | _, _ => true

/-- Hypotheses of the normalisation theorems for a TFM-level program with unpacked entry
points: SKIPs stay inside the table, every entry point and the left-boundary entry point
address a word (the latter not the last one), no reachable word is a redirect word. -/
def nwf (p : Prog) (es : List (Nat × Nat)) : Bool :=
  closed p.instrs && es.all (fun ce => decide (ce.2 < p.instrs.length))
    && (match p.lb with | none => true | some l => decide (l + 1 < p.instrs.length))
    && noReachRedirect p.instrs (reachable p es)

end C11
