/-
C11 — the character layer of one TFM→PL→TFM trip at byte level: char_info words of the
existing characters, the width/height/depth/italic tables and the extensible recipes.

tftopl (`impl From<tfm::File> for pl::File`, pl/mod.rs:517–548; `lower`, pl/mod.rs:866–930)
prints for every existing character the four *values* its index bytes select (height, depth and
italic correction only when the index is not 0), NEXTLARGER / the VARCHAR pieces; pltotf
(`impl From<pl::File> for tfm::File`, lib.rs:496–612) pushes every width and every non-zero
height/depth/italic value, builds the tables with `compress` (here on its lossless path:
`Model/C11.lean` `table`/`dimIndex`; the lossy path is C17's) and gives each character with a
VARCHAR its own recipe word, in character order. The real fix_word printing/parsing in
between is exact (C17 `fix_print_parse`). Core Lean only.
-/
import TexcraftModel.Model.C11

namespace C11

/-- One existing character: code, the four index bytes, tag kind (0 none, 1 lig, 2 list, 3 ext)
and remainder. -/
structure CharRow where
  code : Nat
  wi : Nat
  hi : Nat
  di : Nat
  ii : Nat
  tag : Nat
  rem : Nat
  deriving DecidableEq, Repr, Inhabited

/-- A recipe word: top, mid, bot (0 = absent), rep. -/
structure Recipe where
  top : Nat
  mid : Nat
  bot : Nat
  rep : Nat
  deriving DecidableEq, Repr, Inhabited

structure RawChars where
  rows : List CharRow
  W : List Int
  H : List Int
  D : List Int
  I : List Int
  ext : List Recipe
  deriving DecidableEq, Repr, Inhabited

/-- The value an index byte selects (`none`: beyond the table — tftopl warns). -/
def sel (t : List Int) (i : Nat) : Option Int := t[i]?

/-- What pltotf pushes to a height/depth/italic table: the values of the characters whose
index is not 0 and whose value is not 0 (lib.rs:503–514). -/
def contrib (t : List Int) (i : Nat) : Option Int :=
  if i = 0 then none else (sel t i).bind (fun v => if v = 0 then none else some v)

def pushed (t : List Int) (idx : List Nat) : List Int := idx.filterMap (contrib t)

/-- The new index of a character in a height/depth/italic table. -/
def newIdx (t : List Int) (idx : List Nat) (i : Nat) : Nat :=
  if i = 0 then 0 else
    match sel t i with
    | none => 0
    | some v => dimIndex v (pushed t idx)

def widthVals (W : List Int) (rows : List CharRow) : List Int := rows.filterMap fun r => sel W r.wi

/-- The recipe tftopl prints: a `REP` that does not exist is replaced by the character itself
(pl/mod.rs:921–925). -/
def printedRecipe (codes : List Nat) (c : Nat) (r : Recipe) : Recipe :=
  { r with rep := if codes.contains r.rep then r.rep else c }

/-- The recipes of the characters with tag 3, in character order. -/
def newExt (x : RawChars) : List Recipe :=
  let codes := x.rows.map (·.code)
  x.rows.filterMap fun r =>
    if r.tag = 3 then some (printedRecipe codes r.code ((x.ext[r.rem]?).getD default)) else none

/-- The lossless limits of the four tables. -/
def lossless (x : RawChars) : Bool :=
  decide ((sortDedup (widthVals x.W x.rows)).length ≤ 255) &&
  decide ((sortDedup (pushed x.H (x.rows.map (·.hi)))).length ≤ 15) &&
  decide ((sortDedup (pushed x.D (x.rows.map (·.di)))).length ≤ 15) &&
  decide ((sortDedup (pushed x.I (x.rows.map (·.ii)))).length ≤ 63)

/-- The new width index: the position of the character's width among the distinct widths. -/
def newWi (W : List Int) (wv : List Int) (i : Nat) : Nat :=
  match sel W i with
  | some v => dimIndex v wv
  | none => 0

/-- One row after the trip; `n` = number of recipe words given out before it. -/
def tripRow (x : RawChars) (wv : List Int) (his dis iis : List Nat) (n : Nat) (r : CharRow) : CharRow :=
  { r with
    wi := newWi x.W wv r.wi
    hi := newIdx x.H his r.hi
    di := newIdx x.D dis r.di
    ii := newIdx x.I iis r.ii
    rem := if r.tag = 3 then n else if r.tag = 0 then 0 else r.rem }

def tripRows (x : RawChars) (wv : List Int) (his dis iis : List Nat) : Nat → List CharRow → List CharRow
  | _, [] => []
  | n, r :: rest => tripRow x wv his dis iis n r :: tripRows x wv his dis iis (if r.tag = 3 then n + 1 else n) rest

/-- One trip on the character layer (lig remainders are the lig/kern layer's business and are
left alone here). -/
def charsTrip (x : RawChars) : RawChars :=
  let his := x.rows.map (·.hi)
  let dis := x.rows.map (·.di)
  let iis := x.rows.map (·.ii)
  let wv := widthVals x.W x.rows
  { rows := tripRows x wv his dis iis 0 x.rows
    W := table wv
    H := table (pushed x.H his)
    D := table (pushed x.D dis)
    I := table (pushed x.I iis)
    ext := newExt x }

/-- Well-formed character layer (what a warning-free file satisfies): every index is inside
its table, entry 0 of height/depth/italic is 0, every recipe index is inside the recipe table. -/
def charsOk (x : RawChars) : Bool :=
  x.rows.all (fun r =>
    decide (r.wi < x.W.length) && decide (r.hi < x.H.length) && decide (r.di < x.D.length) &&
    decide (r.ii < x.I.length) && (r.tag != 3 || decide (r.rem < x.ext.length))) &&
  x.H[0]? == some 0 && x.D[0]? == some 0 && x.I[0]? == some 0

end C11
