import TexcraftModel.Model.C20

/-!
# C20 — `GroupingVec<V>` = `GroupingContainer<usize, V, Vec<Option<V>>>`

The same generic code of `groupingmap.rs` (`insert`, `begin_group`, `end_group`, `iter_all`,
`FromIterator`) instantiated with the `Vec<Option<V>>` backing container (`VecBacking`,
groupingmap.rs:144-204) instead of the `HashMap`. Clause by clause the same as `GMap`, with
`backing_container.get/insert/remove/iter` replaced by the `VecBacking` functions.
-/
namespace C20

structure VGMap (V : Type) where
  bc : List (Option V)
  groups : List (AList Nat (Action V))     -- innermost first, as in `GMap`

namespace VGMap
variable {V : Type}

def empty : VGMap V := { bc := [], groups := [] }

def get (m : VGMap V) (k : Nat) : Option V := VecBacking.get m.bc k

/-- `GroupingContainer::insert` with the Vec backing. -/
def insert (m : VGMap V) (k : Nat) (v : V) : Scope → VGMap V × Bool
  | .glob =>
    let gs := m.groups.map (aerase k)
    match VecBacking.get m.bc k with
    | none => ({ bc := VecBacking.insert m.bc k v, groups := gs }, false)
    | some _ => ({ bc := VecBacking.insert m.bc k v, groups := gs }, true)
  | .loc =>
    match VecBacking.get m.bc k, m.groups with
    | none, [] => ({ m with bc := VecBacking.insert m.bc k v }, false)
    | none, g :: gs =>
      ({ bc := VecBacking.insert m.bc k v, groups := ainsert k .delete g :: gs }, false)
    | some _, [] => ({ m with bc := VecBacking.insert m.bc k v }, true)
    | some old, g :: gs =>
      let g' := match alookup g k with
        | none => ainsert k (.revert old) g
        | some _ => g
      ({ bc := VecBacking.insert m.bc k v, groups := g' :: gs }, true)

def beginGroup (m : VGMap V) : VGMap V := { m with groups := [] :: m.groups }

def applyLog : AList Nat (Action V) → List (Option V) → List (Option V)
  | [], bc => bc
  | (k, .delete) :: t, bc => applyLog t (VecBacking.remove bc k)
  | (k, .revert v) :: t, bc => applyLog t (VecBacking.insert bc k v)

def endGroup (m : VGMap V) : Option (VGMap V) :=
  match m.groups with
  | [] => none
  | g :: gs => some { bc := applyLog g m.bc, groups := gs }

def step (m : VGMap V) : Op Nat V → VGMap V × Out V
  | .insert k v s => let r := m.insert k v s; (r.1, .existed r.2)
  | .beginGroup => (m.beginGroup, .unit)
  | .endGroup => match m.endGroup with
    | none => (m, .errNoGroup)
    | some m' => (m', .unit)
  | .get k => (m, .val (m.get k))

def run (m : VGMap V) : List (Op Nat V) → VGMap V × List (Out V)
  | [] => (m, [])
  | op :: ops =>
    let r := m.step op
    let rs := run r.1 ops
    (rs.1, r.2 :: rs.2)

/-- `iter_all` with the Vec backing: `IterAll::new`/`next` only use `backing_container.get` and
`backing_container.iter()`; `VecBacking.iter` lists the `(index, value)` pairs in index order, and a
lookup in that list is `VecBacking.get` (theorem `alookup_iter`). So `iter_all` is the generic
`GMap.iterAll` run on that list. -/
def iterAll (m : VGMap V) : Res (List (Item Nat V)) :=
  GMap.iterAll { bc := VecBacking.iter m.bc, groups := m.groups }

def feed (m : VGMap V) : Item Nat V → VGMap V
  | .beginGroup => m.beginGroup
  | .value k v => (m.insert k v .loc).1

def fromIter (items : List (Item Nat V)) : VGMap V := items.foldl feed empty

end VGMap
end C20
