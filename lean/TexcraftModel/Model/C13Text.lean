import TexcraftModel.Model.C13Trie

/-!
C13 — the text front end of `Hyphenator`: `load_patterns(&str)` splits at Unicode white space
(`str::split_whitespace`), `insert_exceptions(&str)` takes the lines, trims them
(`str::trim`) and drops the empty ones. Executed by the driver on the very text the real
code gets. Core Lean only.
-/
namespace C13

/-- `char::is_whitespace` (Unicode `White_Space`). -/
def isWs (c : Char) : Bool :=
  let n := c.toNat
  (decide (9 ≤ n) && decide (n ≤ 13)) || n == 32 || n == 133 || n == 160 || n == 5760 ||
  (decide (8192 ≤ n) && decide (n ≤ 8202)) || n == 8232 || n == 8233 || n == 8239 ||
  n == 8287 || n == 12288

/-- `str::split_whitespace`; `cur` = the token being read. -/
def splitWs : List Char → List Char → List (List Char)
  | [], cur => if cur = [] then [] else [cur]
  | c :: cs, cur =>
    if isWs c then (if cur = [] then splitWs cs [] else cur :: splitWs cs [])
    else splitWs cs (cur ++ [c])

/-- `load_patterns(text)` on the coded hyphenator. -/
def cLoadText (h : CHyph) (text : List Char) : CHyph := (splitWs text []).foldl cLoadPattern h

/-- Pieces between `\n` (`str::lines` additionally strips a `\r` before the `\n` and drops a final
empty piece; both are subsumed by the trim and the filter that follow). -/
def splitNl : List Char → List Char → List (List Char)
  | [], cur => [cur]
  | c :: cs, cur => if c = '\n' then cur :: splitNl cs [] else splitNl cs (cur ++ [c])

/-- `str::trim`. -/
def trimWs (l : List Char) : List Char := ((l.dropWhile isWs).reverse.dropWhile isWs).reverse

/-- `.lines().map(|l| l.trim()).filter(|l| !l.is_empty())` -/
def exceptionLines (text : List Char) : List (List Char) :=
  ((splitNl text []).map trimWs).filter (fun l => !l.isEmpty)

/-- `insert_exceptions(text)` on the coded hyphenator. -/
def cInsertExceptionsText (h : CHyph) (text : List Char) : CHyph :=
  (exceptionLines text).foldl cInsertException h

/-- `a` occurs in the word as a contiguous block. -/
def isInfix (a : List Char) : List Char → Bool
  | [] => a.isEmpty
  | c :: cs => a.isPrefixOf (c :: cs) || isInfix a cs

/-- The patterns that can match `lw` at all: those whose letters occur in it (used by the driver
for very large pattern sets; `liang_restrict` shows nothing is lost). -/
def relevant (ps : List (List Char)) (lw : List Char) : List (List Char) :=
  ps.filter (fun p => isInfix (parsePat p).letters lw)

/-! ## Histories: one hyphenator, any sequence of loads, inserts and queries

`guard = true`: the code (`cLoadPattern`); `guard = false`: the code before `fixes/C13-b.patch`
(a pattern `.w.` loaded after an exception for `w` replaces it). -/

inductive Op where
  /-- `load_patterns(text)` -/
  | loadText (t : List Char)
  /-- `insert_exceptions(text)` -/
  | excText (t : List Char)
  /-- `insert_exception(entry)` -/
  | exc (e : List Char)
  /-- `calculate_indices(lc, word)` (no effect on the hyphenator) -/
  | query (w : List Char)

def applyOpG (guard : Bool) (h : CHyph) : Op → CHyph
  | .loadText t => (splitWs t []).foldl (cLoadPatternG guard) h
  | .excText t => cInsertExceptionsText h t
  | .exc e => cInsertException h e
  | .query _ => h

/-- The patterns / exception entries a history has loaded so far, in order. -/
def patsOf : List Op → List (List Char)
  | [] => []
  | .loadText t :: r => splitWs t [] ++ patsOf r
  | _ :: r => patsOf r

def excsOf : List Op → List (List Char)
  | [] => []
  | .excText t :: r => exceptionLines t ++ excsOf r
  | .exc e :: r => e :: excsOf r
  | _ :: r => excsOf r

end C13
