/-
C06 — decimal digits of a small natural number (`print_int` for the integer part of a printed
dimension, at most 16383). Kept in its own file: `Tables/C06Dec.lean` depends on it only.
-/
namespace C06

/-- Decimal digits of `n < 100000`, most significant first, no leading zeros. -/
def dec5 (n : Nat) : List Nat :=
  if n < 10 then [n]
  else if n < 100 then [n / 10, n % 10]
  else if n < 1000 then [n / 100, n / 10 % 10, n % 10]
  else if n < 10000 then [n / 1000, n / 100 % 10, n / 10 % 10, n % 10]
  else [n / 10000, n / 1000 % 10, n / 100 % 10, n / 10 % 10, n % 10]

/-- `dec5 n` are the digits of Lean's `toString n` (which `Printed.render` uses). -/
def decOK (n : Nat) : Bool := (Nat.toDigits 10 n).map Char.toNat == (dec5 n).map (48 + ·)

end C06
