/-
C14, second part — the reconstitution of one word (`hyphenate_impl` l.290–560 of
`crates/boxworks-hyphenate/src/lib.rs`, TeX §903–§918 as coded) as an executable function over
an ABSTRACT lig/kern engine, the whole pass `hyphList`, and the instantiation of the engine with
C05's model of `CompiledProgram::run` (`C05.goL`), extended with what the pass observes between
two `next()` calls: `RunIter::is_separation_point`.

Where the Rust code would panic (slice out of range, `checked_sub(..).expect`) or loop for
ever (the synchronisation loop when an iterator is exhausted) the model returns `none`.
Core Lean only.
-/
import TexcraftModel.Model.C14
import TexcraftModel.Model.C05

namespace C14

/-! ## The abstract engine -/

/-- `tfm::ligkern::RunItem` (C05's model of it). -/
abbrev Node := C05.Item

/-- What the pass uses of a `CompiledProgram`:
* `run dlb rbo w` = `run_with_options(w, RunOptions { disable_left_boundary: dlb,
  right_boundary_override: rbo })` as the list of items `next()` returns, each paired with the
  value of `is_separation_point()` right after that call (the state only changes inside `next`;
  before the first call it is `true`: no pending ops, `next_left` is `Boundary`/`Char`/`None`);
* `hasRepl l r` = `has_replacement(l, r)` (`none` left = left boundary, `none` right = the font's
  boundary character). -/
structure Engine where
  run : Bool → Option Nat → List Nat → List (Node × Bool)
  hasRepl : Option Nat → Option Nat → Bool

/-- `num_chars` of l.291–321: characters of the word an item accounts for. -/
def numChars : Node → Nat
  | .ch _ => 1
  | .kern _ => 0
  | .lig _ o _ _ => o.length

def countChars (l : List Node) : Nat := (l.map numChars).sum

/-- `last_char` of l.291–321. -/
def lastChar : Node → Option Nat
  | .ch c => some c
  | .kern _ => none
  | .lig c _ _ _ => some c

def toItem (font : Nat) : Node → Item
  | .ch c => .char c font
  | .kern k => .kern 0 k
  | .lig c o lb rb => .lig c font o lb rb

def toDElem (font : Nat) : Node → DElem
  | .ch c => .char c font
  | .kern k => .kern k
  | .lig c o lb rb => .lig c font o lb rb

/-- A `RunIter` between two `next()` calls: what it will still return, and
`is_separation_point()` now. -/
structure Iter where
  rest : List (Node × Bool)
  sep : Bool
deriving Repr

/-- `while let Some(elem) = iter.next() { push(elem); if iter.is_separation_point() { break } }`
(l.427–456 and l.458–487): the items consumed and the iterator afterwards. An exhausted
iterator is left as it is. -/
def advanceL : List (Node × Bool) → List Node × List (Node × Bool)
  | [] => ([], [])
  | (n, f) :: t => if f then ([n], t) else let r := advanceL t; (n :: r.1, r.2)

/-- `is_separation_point()` after the loop: the flag of the last item consumed. -/
def sepAfter : Bool → List (Node × Bool) → Bool
  | s, [] => s
  | _, (_, f) :: t => if f then true else sepAfter false t

def advance (it : Iter) : List Node × Iter :=
  ((advanceL it.rest).1, ⟨(advanceL it.rest).2, sepAfter it.sep it.rest⟩)

/-! ## The synchronisation loop (TeX §916, l.417–489) -/

structure Sync where
  /-- `post_char_left_boundary` -/
  pclb : Bool
  post : Iter
  /-- `post_chars_pushed` -/
  postCP : Nat
  /-- `post_break` -/
  postBreak : List Node
  main : Iter
  /-- `chars_pushed` -/
  cp : Nat
  /-- what the loop pushed to `out` -/
  pushed : List Node
deriving Repr

/-- l.417–489. `none`: the Rust loop never ends (an exhausted iterator is asked to advance). -/
def sync : Nat → Sync → Option Sync
  | 0, _ => none
  | fuel + 1, st =>
    if !st.pclb && st.postCP == st.cp && st.post.sep && st.main.sep then some st
    else if st.pclb || decide (st.postCP < st.cp) then
      let a := advance st.post
      sync fuel { st with pclb := false, post := a.2, postCP := st.postCP + countChars a.1,
                          postBreak := st.postBreak ++ a.1 }
    else
      let a := advance st.main
      sync fuel { st with main := a.2, cp := st.cp + countChars a.1, pushed := st.pushed ++ a.1 }

/-! ## The state of the word loop -/

structure W where
  /-- the part of `out` produced for this word; `true` marks an inserted discretionary -/
  out : List (Item × Bool)
  /-- `chars_pushed` -/
  cp : Nat
  /-- `elements_since_separation_point` -/
  esp : Nat
  /-- `start_of_separation_point` -/
  ssp : Nat
  /-- `next_or` is the head, the tail is what `indices` will still yield -/
  pos : List Nat
  main : Iter
deriving Repr

/-- `next_or = indices.next(); while next_or < chars_pushed { next_or = indices.next() }` (l.541–545),
applied to what `indices` still yields. -/
def skipPast (cp : Nat) : List Nat → List Nat
  | [] => []
  | h :: t => if h < cp then skipPast cp t else h :: t

/-- The pre-break list (l.352–392): the lig/kern run, without left boundary, of the word from the
last separation point to the hyphen position, followed by the hyphen. -/
def preBreak (eng : Engine) (font : Nat) (s : List Nat) (ssp h : Nat) : List DElem :=
  (eng.run true none ((s.drop ssp).take (h - ssp) ++ [hyphenChar])).map (fun x => toDElem font x.1)

/-- l.405–408 and l.490–502: `out` after the synchronisation `r`, with the discretionary inserted
`esp` nodes before the old end; it replaces everything from there to the new end. -/
def insertDisc (font : Nat) (out : List (Item × Bool)) (esp : Nat) (pre : List DElem) (r : Sync) :
    List (Item × Bool) :=
  (out ++ r.pushed.map (fun n => (toItem font n, false))).take (out.length - esp) ++
    (Item.disc pre (r.postBreak.map (toDElem font))
        ((out ++ r.pushed.map (fun n => (toItem font n, false))).length - (out.length - esp)), true) ::
      (out ++ r.pushed.map (fun n => (toItem font n, false))).drop (out.length - esp)

/-- The loop of TeX §914 (l.350–552): one discretionary per iteration. `none` = panic or hang. -/
def hyphLoop (eng : Engine) (font : Nat) (s : List Nat) (rbo : Option Nat) : Nat → W → Option W
  | 0, _ => none
  | fuel + 1, w =>
    match w.pos with
    | [] => none   -- `hyph_next = usize::MAX`: the slice `s[..hyph_next]` panics (never reached)
    | h :: pos' =>
      if h < w.ssp ∨ s.length < h then none   -- slice index out of range
      else if w.out.length < w.esp then none  -- `checked_sub(..).expect(..)`
      else
        let postText := s.drop h
        let st0 : Sync := { pclb := eng.hasRepl none postText.head?, post := ⟨eng.run false rbo postText, true⟩,
                            postCP := h, postBreak := [], main := w.main, cp := w.cp, pushed := [] }
        match sync ((eng.run false rbo postText).length + w.main.rest.length + 2) st0 with
        | none => none
        | some r =>
          let out2 := insertDisc font w.out w.esp (preBreak eng font s w.ssp h) r
          let pos2 := skipPast r.cp pos'
          match pos2 with
          | [] => some { out := out2, cp := r.cp, esp := w.esp, ssp := w.ssp, pos := [], main := r.main }
          | h2 :: _ =>
            if h2 > r.cp then some { out := out2, cp := r.cp, esp := w.esp, ssp := w.ssp, pos := pos2, main := r.main }
            else hyphLoop eng font s rbo fuel { out := out2, cp := r.cp, esp := 0, ssp := r.cp, pos := pos2, main := r.main }

/-- The loop over the items of the main run (l.282–553). -/
def wordLoop (eng : Engine) (font : Nat) (s : List Nat) (rbo : Option Nat) : Nat → W → Option W
  | 0, _ => none
  | fuel + 1, w0 =>
    let w := if w0.main.sep then { w0 with esp := 0, ssp := w0.cp } else w0
    match w.main.rest with
    | [] => some w
    | (n, f) :: t =>
      let w1 : W := { w with main := ⟨t, f⟩, out := w.out ++ [(toItem font n, false)],
                             cp := w.cp + numChars n, esp := w.esp + 1 }
      match lastChar n with
      | none => wordLoop eng font s rbo fuel w1
      | some lc =>
        match w1.pos with
        | [] => wordLoop eng font s rbo fuel w1
        | h :: _ =>
          if h > w1.cp then wordLoop eng font s rbo fuel w1
          else
            let w2 := if h == w1.cp && f && !eng.hasRepl (some lc) (some hyphenChar)
                      then { w1 with esp := 0, ssp := w1.cp } else w1
            match hyphLoop eng font s rbo (w2.pos.length + 1) w2 with
            | none => none
            | some w3 => wordLoop eng font s rbo fuel w3

/-- The rebuilt word: the main run of `s` with the discretionaries inserted (marked `true`).
`dlb` = `disable_left_boundary` of the main run, `pos` = what `IndexIter` yields. -/
def rebuildWord (eng : Engine) (font : Nat) (s : List Nat) (rbo : Option Nat) (dlb : Bool) (pos : List Nat) :
    Option (List (Item × Bool)) :=
  let m := eng.run dlb rbo s
  (wordLoop eng font s rbo (m.length + 1)
    { out := [], cp := 0, esp := 0, ssp := 0, pos := pos, main := ⟨m, true⟩ }).map (·.out)

/-! ## The whole pass -/

/-- `right_boundary_override` (l.143–200): the character of the node of the word's font that
stopped the accumulation. -/
def rboOf (f : Nat) : Option Item → Option Nat
  | some (.char c g) => if g = f then some c else none
  | some (.lig _ g orig _ _) => if g = f then orig.head? else none
  | _ => none

/-- `Action::Start { left_boundary }`: the word starts with a ligature that absorbed the left boundary. -/
def startsWithLB : Option Item → Bool
  | some (.lig _ _ _ lb _) => lb
  | _ => false

/-- l.275–286 (fix C14-e): a ligature made of the left boundary alone directly before the word is
popped from `out` and rebuilt with the word. -/
def popBoundaryLig (f : Nat) (skipped : List Item) (lbStart : Bool) : List Item × Bool :=
  match skipped.getLast? with
  | some (.lig _ g orig lb _) => if lb && orig.isEmpty && g == f then (skipped.dropLast, true) else (skipped, lbStart)
  | _ => (skipped, lbStart)

/-- How one word is rebuilt: font, letters, `right_boundary_override`, `disable_left_boundary`,
positions ↦ the nodes that replace it (marked `true`: inserted discretionary). -/
abbrev Rebuilder := Nat → List Nat → Option Nat → Bool → List Nat → Option (List (Item × Bool))

def unmarkedL (l : List Item) : List (Item × Bool) := l.map (fun x => (x, false))

/-- `hyphenate_impl`, generic in the way a word is rebuilt: the list after the pass, every node
marked (`true` = inserted discretionary); `none` = panic or hang inside a word. `liang` gives the
raw Liang positions of a word's letters. Same traversal as `scan`. -/
def hyphListG (rb : Rebuilder) (lhm rhm : Int) (liang : List Nat → List Nat) :
    Nat → List Item → Option (List (Item × Bool))
  | 0, l => some (unmarkedL l)
  | _, [] => some []
  | fuel + 1, x :: xs =>
    if !x.isGlue then (hyphListG rb lhm rhm liang fuel xs).map ((x, false) :: ·)
    else
      let r := seek false xs 0
      let skipped := xs.take r.1
      let rest := xs.drop r.1
      let cont := (hyphListG rb lhm rhm liang fuel rest).map (fun t => (x, false) :: unmarkedL skipped ++ t)
      match r.2 with
      | none => cont
      | some f =>
        let g := gather f rest [] 0
        if g.1.isEmpty then cont
        else if !terminatorOk (rest.drop g.2) then cont
        else
          let pos := wordPositions lhm rhm g.1.length (liang g.1)
          if pos.isEmpty then cont
          else
            let pb := popBoundaryLig f skipped (startsWithLB rest.head?)
            match rb f g.1 (rboOf f (rest.drop g.2).head?) (!pb.2) pos with
            | none => none
            | some w =>
              (hyphListG rb lhm rhm liang fuel (rest.drop g.2)).map
                (fun t => (x, false) :: unmarkedL pb.1 ++ w ++ t)

/-- The pass as coded: words are rebuilt by `rebuildWord`. -/
def hyphList (eng : Engine) := hyphListG (rebuildWord eng)

def hyphenateM (eng : Engine) (lhm rhm : Int) (liang : List Nat → List Nat) (l : List Item) : Option (List Item) :=
  (hyphList eng lhm rhm liang (l.length + 1) l).map (fun o => o.map (·.1))

/-- A word replaced by its main run only (no discretionaries). -/
def mainRunWord (eng : Engine) : Rebuilder :=
  fun font s rbo dlb _ => some (unmarkedL (((eng.run dlb rbo s).map (·.1)).map (toItem font)))

/-- The list with every word the pass rebuilds replaced by its main lig/kern run: what the output
is "modulo the inserted discretionaries". It equals the input whenever the main run of each
rebuilt word reproduces the word's nodes (always, except for the boundary artefacts C14-f/g/i). -/
def unbrokenM (eng : Engine) (lhm rhm : Int) (liang : List Nat → List Nat) (l : List Item) : Option (List Item) :=
  (hyphListG (mainRunWord eng) lhm rhm liang (l.length + 1) l).map (fun o => o.map (·.1))

/-! ## Which positions get a discretionary (specification of C14-h) -/

/-- Position `p` lies strictly inside what the discretionary `t = (break, span start, span end)`
has swallowed after its break: the synchronisation for the break `t.1` ran on to `t.2.2 > p`. -/
def coveredBy (T : List (Nat × Nat × Nat)) (p : Nat) : Bool :=
  T.any (fun t => decide (t.1 < p) && decide (p < t.2.2))

/-! ## The engine of a compiled program (C05's `goL` with separation points) -/

/-- The items of one drained replacement: inside it `intermediate_ops` is non-empty (no
separation point); after its last item the state is a separation point unless a ligature is
pending in `next_left` (`Lig`/`FinalLig`), i.e. unless `last.is_lig`. -/
def markSeps : List Node → Bool → List (Node × Bool)
  | [], _ => []
  | [x], last => [(x, last)]
  | x :: y :: t, last => (x, false) :: markSeps (y :: t) last

/-- `C05.goL` with `is_separation_point()` after every item (mod.rs:337–340): same clauses. -/
def goLS (tbl : Option Nat → Nat → Option C05.Repl) (rb : Option Nat) :
    List Nat → Option Nat → Bool → Option C05.Pending → List (Node × Bool)
  | [], left, lio, lg =>
    match left with
    | none => []
    | some l =>
      match rb.bind (fun r => tbl left r) with
      | some rep =>
        let d := C05.drain left (!rep.2.lig) rep.1 lg lio
        if rep.2.lig then
          let s := C05.addLeft d.2.2 left (C05.pendOr d.2.1)
          markSeps d.1 false ++ [(.lig rep.2.c s.s s.lb true, true)]
        else markSeps d.1 true
      | none => [(C05.emitLeft l lg, true)]
  | r :: rest, left, lio, lg =>
    match tbl left r with
    | some rep =>
      let d := C05.drain left false rep.1 lg lio
      if rep.2.lig then
        let s := C05.addLeft d.2.2 left (C05.pendOr d.2.1)
        markSeps d.1 false ++ goLS tbl rb rest (some rep.2.c) false (some { s with s := s.s ++ [r] })
      else
        markSeps d.1 true ++ goLS tbl rb rest (some rep.2.c) true d.2.1
    | none =>
      match left with
      | some l => (C05.emitLeft l lg, true) :: goLS tbl rb rest (some r) true none
      | none => goLS tbl rb rest (some r) true lg

/-- `right_for_lookup` at the end of the word (mod.rs:419–422) followed by
`get_replacement`'s `None => self.right_boundary_char?`. -/
def effRb : Option Nat → Option Nat → Option Nat
  | some c, _ => some c
  | none, prb => prb

/-- The engine of a compiled table `tbl` with boundary character `prb`:
`right_boundary_override` replaces the boundary character in the last lookup (mod.rs:419–425),
`disable_left_boundary` makes the first character the first left character (mod.rs:242–247). -/
def engineOf (tbl : Option Nat → Nat → Option C05.Repl) (prb : Option Nat) : Engine where
  run := fun dlb rbo w =>
    let rb := effRb rbo prb
    if dlb then
      match w with
      | [] => []
      | c :: w' => goLS tbl rb w' (some c) true none
    else goLS tbl rb w none true none
  hasRepl := fun l r =>
    match r with
    | some c => (tbl l c).isSome
    | none => (prb.bind (fun c => tbl l c)).isSome

/-- The engine of a lig/kern program as `CompiledProgram::compile` builds it (C05's `table`). -/
def engineOfProgram (p : C05.Program) : Engine := engineOf (C05.table p) p.rb

end C14

namespace C14

/-- The synchronisation loop with the exit test written WITHOUT `post_break_iter.is_separation_point()`
(mutant 25 of the sweep). Not part of the code: it exists to state why that mutant is equivalent
(`sync_post_sep_redundant`). -/
def syncNoPostSep : Nat → Sync → Option Sync
  | 0, _ => none
  | fuel + 1, st =>
    if !st.pclb && st.postCP == st.cp && st.main.sep then some st
    else if st.pclb || decide (st.postCP < st.cp) then
      let a := advance st.post
      syncNoPostSep fuel { st with pclb := false, post := a.2, postCP := st.postCP + countChars a.1,
                                   postBreak := st.postBreak ++ a.1 }
    else
      let a := advance st.main
      syncNoPostSep fuel { st with main := a.2, cp := st.cp + countChars a.1, pushed := st.pushed ++ a.1 }

end C14

namespace C14

/-- Specification of the positions at list level: the absolute letter offsets (letters of the
nodes before the word + position) of every allowed break of every word the pass rebuilds, in
order. Same traversal as `hyphListG`; `acc` = letters before the head of the list. -/
def expectedG (lhm rhm : Int) (liang : List Nat → List Nat) : Nat → List Item → Nat → List Nat
  | 0, _, _ => []
  | _, [], _ => []
  | fuel + 1, x :: xs, acc =>
    if !x.isGlue then expectedG lhm rhm liang fuel xs (acc + (lettersI x).length)
    else
      let r := seek false xs 0
      let skipped := xs.take r.1
      let rest := xs.drop r.1
      let accW := acc + (lettersI x).length + (lettersL skipped).length
      let cont := expectedG lhm rhm liang fuel rest accW
      match r.2 with
      | none => cont
      | some f =>
        let g := gather f rest [] 0
        if g.1.isEmpty then cont
        else if !terminatorOk (rest.drop g.2) then cont
        else
          let pos := wordPositions lhm rhm g.1.length (liang g.1)
          if pos.isEmpty then cont
          else pos.map (· + accW) ++ expectedG lhm rhm liang fuel (rest.drop g.2) (accW + g.1.length)

/-- All allowed break positions of a list, as absolute letter offsets. -/
def expectedM (lhm rhm : Int) (liang : List Nat → List Nat) (l : List Item) : List Nat :=
  expectedG lhm rhm liang (l.length + 1) l 0

end C14
