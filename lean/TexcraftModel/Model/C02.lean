/-!
# C02 — macro parameters bind and substitute exactly as in TeX

Model (M) of

* `crates/texlang/src/texmacro.rs`: `Macro::call`, `Parameter::parse_argument`,
  `parse_delimited_argument`, `should_trim_outer_braces_if_present`,
  `parse_undelimited_argument`, `perform_replacement`, `remove_tokens_from_stream`;
* `crates/texlang-stdlib/src/def.rs`: `parse_prefix_and_parameters`, `parse_replacement_text`
  and the reversal of the literal pieces in `parse_and_set_macro`;
* `crates/texcraft-stdext/src/algorithms/substringsearch.rs`: `Matcher::new`, `Search::next`;
* `crates/texlang/src/parse/mod.rs`: `finish_parsing_balanced_tokens`, `SpacesUnexpanded`;

over a token *list* (the tokens the unexpanded stream of `vm/streams.rs` would deliver, in
order), and an independent specification (S) in the words of TeX §391–§401.

The trimming predicate `shouldTrim` is the one of `fixes/C02-a.patch` (the group opened by
the first token closes exactly at the last token); `shouldTrimOld` is the predicate of the
unpatched tree ("first is `{` and last is `}`"), kept so that the driver can recognise the
known defect C02-a by its exact behaviour.

Error recovery is modelled for the default interaction mode (`\errorstopmode`), in which a
recoverable error (`input.error(..)?`) ends the run: every such place is an `err`.
Core Lean only.
-/
namespace C02

/-- Token values, as far as this code distinguishes them. `ch c`: a character token that is
neither a brace, a space nor a parameter character (`c` = code point; with the default
category codes the code point determines letter/other). `cs n`: a control sequence. -/
inductive Tok
  | bg | eg | sp | param
  | ch (c : Nat)
  | cs (n : Nat)
  deriving DecidableEq, Repr, Inhabited

inductive Err
  | eoiPrefix            -- PrefixEndOfInputError
  | prefixMismatch       -- "unexpected token while matching the prefix ..."
  | eoiDelimited (n : Nat)    -- DelimitedArgumentEndOfInputError { param_num }
  | eoiUndelimited (n : Nat)  -- UnDelimitedArgumentEndOfInputError { param_num }
  | eoiBalanced          -- TokenStreamEndOfInputError in finish_parsing_balanced_tokens
  | eoiParams            -- ParameterPartEndOfInputError
  | eoiReplacement       -- ReplacementPartEndOfInputError
  | unexpectedEndGroup   -- "unexpected end group token while parsing the parameter ..."
  | tooManyParams        -- "Too many parameters; you already have 9"
  | badParamNumber       -- InvalidParameterNumberError ("unexpected parameter")
  | illegalParamNumber   -- "illegal parameter number" (replacement text)
  deriving DecidableEq, Repr

/-- Outcome: a value, a TeX error, or a Rust panic. -/
inductive Res (α : Type)
  | ok (a : α)
  | err (e : Err)
  | panic
  deriving Repr, DecidableEq

/-- `Res` continuation: `r.bind f`. -/
@[inline] def Res.bind {α β : Type} (r : Res α) (f : α → Res β) : Res β :=
  match r with
  | .ok a => f a
  | .err e => .err e
  | .panic => .panic

/-! ## KMP matcher (`substringsearch.rs`) -/

/-- `Matcher<T>`: the substring and its prefix function. -/
structure Matcher where
  sub : List Tok
  pf : List Nat
  deriving DecidableEq, Repr

/-- The `while k > 0 && substring[k] != c { k = prefix_fn[k - 1] }` loop, followed by
`if substring[k] == c { k += 1 }`. `fuel` bounds the loop (the loop strictly decreases `k`
when `pf` is a prefix function; fuel `k` suffices, see `Lemmas`); `none` = an index out of
range (Rust panic) or fuel exhausted. -/
def kmpAdvance (sub : List Tok) (pf : List Nat) (c : Tok) : Nat → Nat → Option Nat
  | _, 0 =>
    match sub[0]? with
    | none => none
    | some x => if x = c then some 1 else some 0
  | 0, _ + 1 => none
  | fuel + 1, k + 1 =>
    match sub[k + 1]? with
    | none => none
    | some x =>
      if x = c then some (k + 2)
      else
        match pf[k]? with
        | none => none
        | some k' => kmpAdvance sub pf c fuel k'

/-- `Matcher::new`, the body of `for i in 1..substring.len()`; `rest` = `substring[i..]`. -/
def prefixFnLoop (sub : List Tok) : List Tok → Nat → List Nat → Option (List Nat)
  | [], _, pf => some pf
  | c :: rest, k, pf =>
    match kmpAdvance sub pf c (k + 1) k with
    | none => none
    | some k' => prefixFnLoop sub rest k' (pf ++ [k'])

/-- `Matcher::new(substring)`; `Nevec::with_capacity(0, ..)` starts `prefix_fn` as `[0]`. -/
def Matcher.new? (sub : List Tok) : Option Matcher :=
  match sub with
  | [] => none   -- `Nevec` is never empty
  | _ :: rest =>
    match prefixFnLoop sub rest 0 [0] with
    | none => none
    | some pf => some ⟨sub, pf⟩

/-- `Search::next`: new state and "the last `m` elements match". -/
def Matcher.next (m : Matcher) (q : Nat) (c : Tok) : Option (Nat × Bool) :=
  match kmpAdvance m.sub m.pf c (q + 1) q with
  | none => none
  | some q' =>
    if q' = m.sub.length then
      match m.pf[q' - 1]? with
      | none => none
      | some q'' => some (q'', true)
    else some (q', false)

/-! ## Calling a macro (`texmacro.rs`) -/

inductive Param
  | undelim
  | delim (m : Matcher)
  deriving DecidableEq, Repr

/-- `Replacement`; the literal pieces are stored *reversed* (`parse_and_set_macro`). -/
inductive Repl
  | toks (rev : List Tok)
  | par (i : Nat)
  deriving DecidableEq, Repr

structure Macro where
  pre : List Tok
  params : List Param
  repl : List Repl
  deriving DecidableEq, Repr

/-- `remove_tokens_from_stream`: the rest of the input after the prefix. -/
def removePrefix : List Tok → List Tok → Res (List Tok)
  | [], inp => .ok inp
  | _ :: _, [] => .err .eoiPrefix
  | p :: ps, t :: ts => if t = p then removePrefix ps ts else .err .prefixMismatch

/-- The `scope_depth` update of the scanning loops (an `i32` in Rust). -/
def depthStep (d : Int) : Tok → Int
  | .bg => d + 1
  | .eg => d - 1
  | _ => d

/-- The loop of `parse_delimited_argument`: returns every token pushed onto `result`
(argument followed by the delimiter) and the rest of the input. -/
def delimLoop (m : Matcher) (closing : Int) (n : Nat) : Nat → Int → List Tok → Res (List Tok × List Tok)
  | _, _, [] => .err (.eoiDelimited n)
  | q, depth, t :: ts =>
    let depth' := depthStep depth t
    match m.next q t with
    | none => .panic
    | some (q', matched) =>
      if depth' = closing ∧ matched = true then .ok ([t], ts)
      else
        match delimLoop m closing n q' depth' ts with
        | .ok (a, rest) => .ok (t :: a, rest)
        | .err e => .err e
        | .panic => .panic

/-- `should_trim_outer_braces_if_present` of the unpatched tree. -/
def shouldTrimOld (l : List Tok) : Bool :=
  if l.length ≤ 1 then false
  else l.head? = some .bg && l.getLast? = some .eg

/-- After the opening brace (depth `d ≥ 1`): does the depth first return to 0 exactly at the
last token? -/
def closesAtEnd : Int → List Tok → Bool
  | _, [] => false
  | d, t :: ts =>
    let d' := depthStep d t
    if d' = 0 then ts.isEmpty else closesAtEnd d' ts

/-- `should_trim_outer_braces_if_present` with `fixes/C02-a.patch`: the list starts with a
begin-group token and the group it opens closes exactly at the last token. -/
def shouldTrim (l : List Tok) : Bool :=
  match l with
  | .bg :: rest => closesAtEnd 1 rest
  | _ => false

/-- `closing_scope_depth`. -/
def closingDepth (m : Matcher) : Int :=
  if m.sub.getLast? = some .bg then 1 else 0

/-- `parse_delimited_argument` + the index arithmetic of `Macro::call`: the argument as it
will be substituted, and the rest of the input. -/
def parseDelimited (trim : List Tok → Bool) (m : Matcher) (n : Nat) (inp : List Tok) :
    Res (List Tok × List Tok) :=
  match delimLoop m (closingDepth m) n 0 0 inp with
  | .ok (consumed, rest) =>
    let raw := consumed.take (consumed.length - m.sub.length)   -- `result.pop()` × len
    if trim raw then .ok ((raw.drop 1).dropLast, rest) else .ok (raw, rest)
  | .err e => .err e
  | .panic => .panic

/-- `SpacesUnexpanded`. -/
def skipSpaces : List Tok → List Tok
  | .sp :: ts => skipSpaces ts
  | l => l

/-- `finish_parsing_balanced_tokens` (the opening brace has been consumed). -/
def finishBalanced : Int → List Tok → Res (List Tok × List Tok)
  | _, [] => .err .eoiBalanced
  | d, t :: ts =>
    if t = .eg ∧ d = 0 then .ok ([], ts)
    else
      match finishBalanced (depthStep d t) ts with
      | .ok (a, rest) => .ok (t :: a, rest)
      | .err e => .err e
      | .panic => .panic

/-- `parse_undelimited_argument`. -/
def parseUndelimited (n : Nat) (inp : List Tok) : Res (List Tok × List Tok) :=
  match skipSpaces inp with
  | [] => .err (.eoiUndelimited n)
  | .bg :: ts => finishBalanced 0 ts
  | t :: ts => .ok ([t], ts)

/-- The `for (i, parameter)` loop of `Macro::call`; `i` is the 0-based index. -/
def parseArgs (trim : List Tok → Bool) : Nat → List Param → List Tok → Res (List (List Tok) × List Tok)
  | _, [], inp => .ok ([], inp)
  | i, p :: ps, inp =>
    let r := match p with
      | .undelim => parseUndelimited (i + 1) inp
      | .delim m => parseDelimited trim m (i + 1) inp
    match r with
    | .ok (a, rest) =>
      match parseArgs trim (i + 1) ps rest with
      | .ok (as, rest') => .ok (a :: as, rest')
      | .err e => .err e
      | .panic => .panic
    | .err e => .err e
    | .panic => .panic

/-- `perform_replacement`: what is pushed onto the expansion stack (whose *last* element is
the next token), i.e. the expansion reversed. `none` = `arguments.get(i).unwrap()` panics. -/
def performReplacement (args : List (List Tok)) : List Repl → Option (List Tok)
  | [] => some []
  | r :: rs =>
    match performReplacement args rs with
    | none => none
    | some tail =>
      match r with
      | .toks rev => some (tail ++ rev)
      | .par i =>
        match args[i]? with
        | none => none
        | some a => some (tail ++ a.reverse)

/-- `Macro::call`: the token list the stream delivers after the call (expansion, then the
untouched rest). -/
def callWith (trim : List Tok → Bool) (m : Macro) (inp : List Tok) : Res (List Tok) :=
  match removePrefix m.pre inp with
  | .ok inp1 =>
    match parseArgs trim 0 m.params inp1 with
    | .ok (args, rest) =>
      match performReplacement args m.repl with
      | none => .panic
      | some stack => .ok (stack.reverse ++ rest)
    | .err e => .err e
    | .panic => .panic
  | .err e => .err e
  | .panic => .panic

/-- The call with the patched trimming predicate. -/
def call (m : Macro) (inp : List Tok) : Res (List Tok) := callWith shouldTrim m inp
/-- The call as in the unpatched tree (C02-a). -/
def callOld (m : Macro) (inp : List Tok) : Res (List Tok) := callWith shouldTrimOld m inp

/-! ## Defining a macro (`def.rs`) -/

/-- `char_to_parameter_index(token.char())`: `'1'..'9'` ↦ `0..8`. (`Token::char()` is `Some`
for every character token; braces, spaces and `#` are not digits.) -/
def paramIndex : Tok → Option Nat
  | .ch c => if 49 ≤ c ∧ c ≤ 57 then some (c - 49) else none
  | _ => none

/-- `RawParameter::push` on the last parameter, or `prefix.push` when there is none.
A raw parameter is its delimiter list; `[]` = `Undelimited`. -/
def pushTok (pre : List Tok) (ps : List (List Tok)) (t : Tok) : List Tok × List (List Tok) :=
  match ps.getLast? with
  | none => (pre ++ [t], ps)
  | some d => (pre, ps.dropLast ++ [d ++ [t]])

structure ParamText where
  pre : List Tok
  raw : List (List Tok)
  endTok : Option Tok
  deriving DecidableEq, Repr

/-- `parse_prefix_and_parameters` (TeX §474); the input starts after the macro's name. -/
def ppLoop : List Tok → List (List Tok) → List Tok → Res (ParamText × List Tok)
  | _, _, [] => .err .eoiParams
  | pre, ps, .bg :: ts => .ok (⟨pre, ps, none⟩, ts)
  | _, _, .eg :: _ => .err .unexpectedEndGroup
  | _, _, [.param] => .err .eoiParams
  | pre, ps, .param :: p :: ts =>
    if p = .bg then
      let (pre', ps') := pushTok pre ps p
      .ok (⟨pre', ps', some p⟩, ts)
    else if ps.length = 9 then .err .tooManyParams
    else if paramIndex p = some ps.length then ppLoop pre (ps ++ [[]]) ts
    else .err .badParamNumber
  | pre, ps, t :: ts =>
    let (pre', ps') := pushTok pre ps t
    ppLoop pre' ps' ts

/-- The `push` closure of `parse_replacement_text` (pieces in reading order here). -/
def pushRepl (rs : List Repl) (t : Tok) : List Repl :=
  match rs.getLast? with
  | some (.toks ts) => rs.dropLast ++ [.toks (ts ++ [t])]
  | _ => rs ++ [.toks [t]]

/-- `parse_replacement_text` (pieces and their tokens in reading order). -/
def replLoop (endTok : Option Tok) (nparams : Nat) : Int → List Repl → List Tok → Res (List Repl × List Tok)
  | _, _, [] => .err .eoiReplacement
  | d, rs, .bg :: ts => replLoop endTok nparams (d + 1) (pushRepl rs .bg) ts
  | d, rs, .eg :: ts =>
    if d = 0 then
      match endTok with
      | some f => .ok (pushRepl rs f, ts)
      | none => .ok (rs, ts)
    else replLoop endTok nparams (d - 1) (pushRepl rs .eg) ts
  | _, _, [.param] => .err .eoiReplacement
  | d, rs, .param :: p :: ts =>
    if p = .param then replLoop endTok nparams d (pushRepl rs p) ts
    else
      match paramIndex p with
      | some i => if i < nparams then replLoop endTok nparams d (rs ++ [.par i]) ts
                  else .err .illegalParamNumber
      | none => .err .illegalParamNumber
  | d, rs, t :: ts => replLoop endTok nparams d (pushRepl rs t) ts

def reverseToks : Repl → Repl
  | .toks ts => .toks ts.reverse
  | r => r

def mkParam : List Tok → Option Param
  | [] => some .undelim
  | d => (Matcher.new? d).map .delim

/-- `raw_parameters.into_iter().map(..)`; `none` = a panic inside `Matcher::new`. -/
def mkParams : List (List Tok) → Option (List Param)
  | [] => some []
  | d :: ds =>
    match mkParam d, mkParams ds with
    | some p, some ps => some (p :: ps)
    | _, _ => none

/-- `parse_and_set_macro` after the name: the macro and the tokens that follow the
definition. -/
def defParse (inp : List Tok) : Res (Macro × List Tok) :=
  match ppLoop [] [] inp with
  | .ok (pt, inp1) =>
    match mkParams pt.raw with
    | none => .panic
    | some params =>
      match replLoop pt.endTok params.length 0 [] inp1 with
      | .ok (rs, rest) => .ok (⟨pt.pre, params, rs.map reverseToks⟩, rest)
      | .err e => .err e
      | .panic => .panic
  | .err e => .err e
  | .panic => .panic

/-! ## Specification (TeX §391–§401, declaratively; independent of the code above) -/

/-- Scan left to right from brace depth `d`: the depth at the end, or `none` if some `}` has
no `{` to close. -/
def runDepth : Nat → List Tok → Option Nat
  | d, [] => some d
  | d, t :: ts =>
    match t with
    | .bg => runDepth (d + 1) ts
    | .eg =>
      match d with
      | 0 => none
      | d' + 1 => runDepth d' ts
    | _ => runDepth d ts

/-- Brace-balanced: scanning from depth 0 never meets an unmatched `}` and ends at depth 0. -/
def Balanced (l : List Tok) : Prop := runDepth 0 l = some 0

instance (l : List Tok) : Decidable (Balanced l) := inferInstanceAs (Decidable (_ = _))

def balancedB (l : List Tok) : Bool := decide (Balanced l)

/-- The binding of a parameter delimited by `d`: the shortest balanced `a` with
`input = a ++ d ++ rest` (search by increasing length; `pre` = candidate so far). -/
def specDelimFrom (d : List Tok) : List Tok → List Tok → Option (List Tok × List Tok)
  | pre, inp =>
    if balancedB pre && d.isPrefixOf inp then some (pre, inp.drop d.length)
    else
      match inp with
      | [] => none
      | t :: ts => specDelimFrom d (pre ++ [t]) ts

def specDelim (d inp : List Tok) : Option (List Tok × List Tok) := specDelimFrom d [] inp

/-- One pair of outer braces is removed iff the whole argument is a single group. -/
def isSingleGroup (a : List Tok) : Bool :=
  match a with
  | .bg :: r => r.getLast? = some .eg && balancedB r.dropLast
  | _ => false

def stripSpec (a : List Tok) : List Tok :=
  if isSingleGroup a then (a.drop 1).dropLast else a

/-- The shortest non-empty balanced prefix of `inp` that starts with `{` — "the next group" —
searched by increasing length; returns its *contents* and the rest. `pre` = tokens after the
opening brace so far. -/
def specGroupFrom : List Tok → List Tok → Option (List Tok × List Tok)
  | _, [] => none
  | pre, t :: ts =>
    if t = .eg ∧ balancedB pre then some (pre, ts)
    else specGroupFrom (pre ++ [t]) ts

/-- The binding of an undelimited parameter: after dropping space tokens, the next token, or
the contents of the next group. A lone `}` is not an argument. -/
def specUndelim (inp : List Tok) : Option (List Tok × List Tok) :=
  match inp.dropWhile (· = .sp) with
  | [] => none
  | .bg :: ts => specGroupFrom [] ts
  | .eg :: _ => none
  | t :: ts => some ([t], ts)

/-- A macro as the *user* wrote it: prefix, one delimiter list per parameter (`[]` =
undelimited), whether the parameter text ends with `#{`, and the replacement text. -/
inductive Item
  | lit (t : Tok)     -- any token other than `#`
  | arg (i : Nat)     -- `#(i+1)`
  | hash              -- `##`
  deriving DecidableEq, Repr

structure SpecMacro where
  pre : List Tok
  delims : List (List Tok)
  hashBrace : Bool
  body : List Item
  deriving DecidableEq, Repr

/-- The delimiters actually matched: `#{` appends `{` to the last delimiter (or the prefix). -/
def SpecMacro.effDelims (s : SpecMacro) : List (List Tok) :=
  if s.hashBrace then
    match s.delims.getLast? with
    | none => []
    | some d => s.delims.dropLast ++ [d ++ [.bg]]
  else s.delims

def SpecMacro.effPre (s : SpecMacro) : List Tok :=
  if s.hashBrace ∧ s.delims = [] then s.pre ++ [.bg] else s.pre

/-- Bind all parameters, left to right. -/
def specBind : List (List Tok) → List Tok → Option (List (List Tok) × List Tok)
  | [], inp => some ([], inp)
  | d :: ds, inp =>
    let r := if d = [] then specUndelim inp
             else (specDelim d inp).map fun (a, rest) => (stripSpec a, rest)
    match r with
    | none => none
    | some (a, rest) =>
      match specBind ds rest with
      | none => none
      | some (as, rest') => some (a :: as, rest')

/-- Substitute: `#n` ↦ the n-th argument, `##` ↦ `#`. -/
def specSubst (args : List (List Tok)) : List Item → Option (List Tok)
  | [] => some []
  | .lit t :: is => (specSubst args is).map (t :: ·)
  | .hash :: is => (specSubst args is).map (Tok.param :: ·)
  | .arg i :: is =>
    match args[i]?, specSubst args is with
    | some a, some r => some (a ++ r)
    | _, _ => none

/-- What TeX delivers after a call of `s` on `inp`, when the call matches. -/
def specExpand (s : SpecMacro) (inp : List Tok) : Option (List Tok) :=
  match s.effPre.isPrefixOf inp with
  | false => none
  | true =>
    match specBind s.effDelims (inp.drop s.effPre.length) with
    | none => none
    | some (args, rest) =>
      match specSubst args s.body with
      | none => none
      | some e => some (e ++ (if s.hashBrace then [.bg] else []) ++ rest)

/-- The definition as token list (what follows `\def\name`). -/
def renderItem : Item → List Tok
  | .lit t => [t]
  | .arg i => [.param, .ch (49 + i)]
  | .hash => [.param, .param]

def renderParams : Nat → List (List Tok) → List Tok
  | _, [] => []
  | i, d :: ds => [.param, .ch (49 + i)] ++ d ++ renderParams (i + 1) ds

def renderDef (s : SpecMacro) : List Tok :=
  s.pre ++ renderParams 0 s.delims ++ (if s.hashBrace then [.param, .bg] else [.bg])
    ++ (s.body.map renderItem).flatten ++ [.eg]

/-- The binding of all parameters, **declaratively** (TeX §391–§401 in one relation; the
executable `specBind` is proved equivalent in `Props/C02.lean`, `spec_bind_iff`).
`Binds delims input args rest`: `delims` = one delimiter per parameter (`[]` = undelimited). -/
inductive Binds : List (List Tok) → List Tok → List (List Tok) → List Tok → Prop
  /-- no parameter left: nothing is consumed -/
  | nil (inp : List Tok) : Binds [] inp [] inp
  /-- undelimited: skip space tokens, take one token that is not a brace -/
  | undelimTok (sps : List Tok) (t : Tok) (inp : List Tok) (ds : List (List Tok))
      (as : List (List Tok)) (rest : List Tok) :
      (∀ x ∈ sps, x = .sp) → t ≠ .sp → t ≠ .bg → t ≠ .eg → Binds ds inp as rest →
      Binds ([] :: ds) (sps ++ t :: inp) ([t] :: as) rest
  /-- undelimited: skip space tokens, take the contents of the group that follows -/
  | undelimGroup (sps a inp : List Tok) (ds : List (List Tok)) (as : List (List Tok)) (rest : List Tok) :
      (∀ x ∈ sps, x = .sp) → Balanced a → Binds ds inp as rest →
      Binds ([] :: ds) (sps ++ .bg :: a ++ .eg :: inp) (a :: as) rest
  /-- delimited by `d`: the shortest balanced `a` followed by `d`; one pair of braces is
  removed iff `a` is a single group (`stripSpec`) -/
  | delim (d a inp : List Tok) (ds : List (List Tok)) (as : List (List Tok)) (rest : List Tok) :
      d ≠ [] → Balanced a →
      (∀ a' r', a ++ d ++ inp = a' ++ d ++ r' → Balanced a' → a.length ≤ a'.length) →
      Binds ds inp as rest →
      Binds (d :: ds) (a ++ d ++ inp) (stripSpec a :: as) rest

end C02
