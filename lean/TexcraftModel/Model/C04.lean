/-
C04 — line breaking: TeX's definition of a feasible break sequence and of its total
demerits, and a reference optimiser (dynamic programme over the number of lines) that is
*proved* optimal in `Props/C04.lean`.

This file is deliberately NOT a transcription of `break_line_single_attempt`'s active-list
bookkeeping (crates/boxworks-knuthplass/src/lib.rs): it is the property's own yardstick (the
transcription is `Model/C04Algo.lean`, proved sound and optimal against this yardstick in
`Props/C04.lean`). The implementation's answer is judged against it on every run (see
harness/src/bin/c04.rs):
the returned break sequence must be feasible, its total (recomputed here) must equal the
proved optimum, and `None` must coincide with "no feasible sequence". The per-line quantities
(badness, fitness class, demerits) are tied to the code through the `debug::Logger` callbacks.

Sources: TeX.2021 §108 (badness), §817 (fitness classes), §831 (penalty clamp), §837–§842
(break width: what is discarded or replaced after a break), §851–§855, §859 (demerits),
§866–§869 (legal breakpoints), §875 (looseness). Core Lean only.
-/
namespace C04

structure Glue where
  w : Int := 0
  st : Int := 0
  so : Nat := 0      -- stretch order 0..3
  sh : Int := 0      -- shrink (the order is ignored by the code, as TeX.2021.825 warns)
  deriving DecidableEq, Repr, Inhabited

inductive Item
  | box (w : Int)                                   -- char, ligature, hbox, vbox, rule
  | inert                                           -- mark, insertion, adjust
  | glue (g : Glue)
  | kern (explicit : Bool) (w : Int)
  | penalty (p : Int)
  | disc (pre post : List Int) (replace : Nat)      -- widths of the pre-/post-break elements
  | math (after : Bool)
  deriving DecidableEq, Repr, Inhabited

/-- Width, stretch per order, shrink. -/
structure Totals where
  w : Int := 0
  s0 : Int := 0
  s1 : Int := 0
  s2 : Int := 0
  s3 : Int := 0
  sh : Int := 0
  deriving DecidableEq, Repr, Inhabited

def Totals.add (a b : Totals) : Totals :=
  ⟨a.w + b.w, a.s0 + b.s0, a.s1 + b.s1, a.s2 + b.s2, a.s3 + b.s3, a.sh + b.sh⟩
def Totals.sub (a b : Totals) : Totals :=
  ⟨a.w - b.w, a.s0 - b.s0, a.s1 - b.s1, a.s2 - b.s2, a.s3 - b.s3, a.sh - b.sh⟩
def Totals.ofGlue (g : Glue) : Totals :=
  match g.so with
  | 0 => ⟨g.w, g.st, 0, 0, 0, g.sh⟩
  | 1 => ⟨g.w, 0, g.st, 0, 0, g.sh⟩
  | 2 => ⟨g.w, 0, 0, g.st, 0, g.sh⟩
  | _ => ⟨g.w, 0, 0, 0, g.st, g.sh⟩
def Totals.ofWidth (w : Int) : Totals := ⟨w, 0, 0, 0, 0, 0⟩

structure Params where
  linePenalty : Int := 10
  hyphenPenalty : Int := 50
  exHyphenPenalty : Int := 50
  adjDemerits : Int := 10000
  doubleHyphenDemerits : Int := 10000
  finalHyphenDemerits : Int := 5000
  leftSkip : Glue := {}
  rightSkip : Glue := {}
  emergencyStretch : Int := 0
  tolerance : Int := 200
  /-- Line widths; the last one repeats. Non-empty in every real call. -/
  widths : List Int := [0]
  deriving Repr, Inhabited

structure Inst where
  items : List Item
  p : Params
  deriving Repr, Inhabited

def Inst.n (x : Inst) : Nat := x.items.length

def lineWidth (ws : List Int) (L : Nat) : Int :=
  match ws[L]? with
  | some w => w
  | none => ws.getLast?.getD 0

/-! ## What the main loop adds to the running totals when it passes an item (§866) -/

def Item.contrib : Item → Totals
  | .box w => .ofWidth w
  | .glue g => .ofGlue g
  | .kern _ w => .ofWidth w
  | _ => {}

/-- Totals of the items before index `i`. -/
def cum (items : List Item) (i : Nat) : Totals :=
  (items.take i).foldl (fun t it => t.add it.contrib) {}

/-- `auto_breaking` when the item at index `b` is examined: false between math-on and math-off. -/
def autoAt (items : List Item) (b : Nat) : Bool :=
  (items.take (b + 1)).foldl (fun a it => match it with | .math after => after | _ => a) true

/-- TeX.2021.148 `precedes_break`, with non-explicit kerns as in §868. -/
def Item.precedesBreak : Item → Bool
  | .box _ | .inert | .disc _ _ _ => true
  | .kern e _ => !e
  | _ => false

/-- Discarded after a break (§837, §879): glue, penalties, math nodes, explicit kerns. -/
def Item.discardable : Item → Bool
  | .glue _ | .penalty _ | .math _ => true
  | .kern e _ => e
  | _ => false

def Item.isGlue : Item → Bool
  | .glue _ => true
  | _ => false

def sumW (l : List Int) : Int := l.foldl (· + ·) 0

/-- Is index `b` one of the nodes replaced by an earlier discretionary? TeX.2021.869 steps over
them, so none of them is tried as a breakpoint (only an explicit kern could be). -/
def insideReplaced (items : List Item) (b : Nat) : Bool :=
  (List.range b).any fun a =>
    match items[a]? with
    | some (.disc _ _ r) => b < a + 1 + r
    | _ => false

/-- The raw `(penalty, hyphenated)` of a legal breakpoint (§866–§869), before the clamp. -/
def rawBreak (x : Inst) (b : Nat) : Option (Int × Bool) :=
  if b = x.n then some (-10000, true)        -- the final break (§873)
  else
    match x.items[b]? with
    | none => none
    | some (.glue _) =>
        if autoAt x.items b ∧ 0 < b ∧ ((x.items[b - 1]?).map Item.precedesBreak).getD false
        then some (0, false) else none
    | some (.kern e _) =>
        if e ∧ autoAt x.items b ∧ ((x.items[b + 1]?).map Item.isGlue).getD false
            ∧ ¬ insideReplaced x.items b
        then some (0, false) else none
    | some (.math _) =>
        if autoAt x.items b ∧ ((x.items[b + 1]?).map Item.isGlue).getD false
        then some (0, false) else none
    | some (.penalty p) => some (p, false)
    | some (.disc pre _ _) =>
        some (if pre.isEmpty then x.p.exHyphenPenalty else x.p.hyphenPenalty, true)
    | some _ => none

/-- §831: penalties ≥ 10000 forbid the break, penalties ≤ −10000 force it. -/
def breakInfo (x : Inst) (b : Nat) : Option (Int × Bool) :=
  match rawBreak x b with
  | none => none
  | some (p, h) => if 10000 ≤ p then none else if p ≤ -10000 then some (-10000, h) else some (p, h)

def forced (x : Inst) (b : Nat) : Bool :=
  match breakInfo x b with
  | some (p, _) => p == -10000
  | none => false

def hyphAt (x : Inst) : Option Nat → Bool
  | none => false
  | some a => match breakInfo x a with | some (_, h) => h | none => false

/-- Index of the first item at or after `i` that is not discardable. -/
def pruneEnd (items : List Item) (i : Nat) : Nat :=
  i + ((items.drop i).takeWhile Item.discardable).length

/-- Running totals at the point where the line after a break at `a` starts (§837–§842): the
break item and the discardable items after it are not part of the next line; after a
discretionary the replaced items are gone and the post-break material is there instead
(and discardable items are pruned only if there is no post-break material). -/
def afterRef (x : Inst) : Option Nat → Totals
  | none => {}
  | some a =>
    match x.items[a]? with
    | some (.disc _ post r) =>
        let j := a + 1 + r
        let e := if post.isEmpty then pruneEnd x.items j else j
        (cum x.items e).sub (.ofWidth (sumW post))
    | _ => cum x.items (pruneEnd x.items a)

def background (p : Params) : Totals :=
  ((Totals.ofGlue p.leftSkip).add (.ofGlue p.rightSkip)).add ⟨0, p.emergencyStretch, 0, 0, 0, 0⟩

def preWidth (x : Inst) (b : Nat) : Int :=
  match x.items[b]? with
  | some (.disc pre _ _) => sumW pre
  | _ => 0

/-- Natural width, stretch and shrink of the line from break `a` to break `b`. -/
def lineTotals (x : Inst) (a : Option Nat) (b : Nat) : Totals :=
  (((cum x.items b).sub (afterRef x a)).add (background x.p)).add (.ofWidth (preWidth x b))

/-- TeX.2021.108. -/
def badness (t s : Int) : Int :=
  if t = 0 then 0
  else if s ≤ 0 then 10000
  else
    let r := if t ≤ 7230584 then (t * 297) / s else if 1663497 ≤ s then t / (s / 297) else t
    if 1290 < r then 10000 else (r * r * r + 131072) / 262144

inductive Fit | veryLoose | loose | decent | tight
  deriving DecidableEq, Repr, Inhabited

def Fit.toNat : Fit → Nat
  | .veryLoose => 0 | .loose => 1 | .decent => 2 | .tight => 3
def Fit.ofIdx : Nat → Fit
  | 0 => .veryLoose | 1 => .loose | 2 => .decent | _ => .tight
def Fit.all : List Fit := [.veryLoose, .loose, .decent, .tight]

/-- Badness and fitness class of a line with the given totals set to `width` (§851–§853).
Overfull is badness 10001. -/
def rate (t : Totals) (width : Int) : Int × Fit :=
  let shortfall := width - t.w
  if 0 < shortfall then
    if t.s1 ≠ 0 ∨ t.s2 ≠ 0 ∨ t.s3 ≠ 0 then (0, .decent)
    else
      let b := badness shortfall t.s0
      (b, if b ≤ 12 then .decent else if b ≤ 99 then .loose else .veryLoose)
  else
    let b := if t.sh < -shortfall then 10001 else badness (-shortfall) t.sh
    (b, if b ≤ 12 then .decent else .tight)

def lt? : Option Nat → Nat → Bool
  | none, _ => true
  | some a, b => a < b

/-- Is there a forced break strictly between `a` and `b`? -/
def forcedBetween (x : Inst) (a : Option Nat) (b : Nat) : Bool :=
  (List.range b).any fun c => lt? a c && forced x c

/-- TeX.2021.863: `if threshold > inf_bad then threshold := inf_bad` — an overfull line
(badness 10001) is never within the tolerance of a pass. -/
def threshold (p : Params) : Int := if 10000 < p.tolerance then 10000 else p.tolerance

/-- The line from break `a` (or the start) to break `b`, as line number `L` (0-based):
`none` unless `b` is a legal breakpoint after `a`, no forced break is passed over, and the
badness is within the tolerance; otherwise the badness and fitness class. -/
def lineEval (x : Inst) (a : Option Nat) (L : Nat) (b : Nat) : Option (Int × Fit) :=
  match breakInfo x b with
  | none => none
  | some _ =>
    if lt? a b ∧ b ≤ x.n ∧ ¬ forcedBetween x a b then
      let r := rate (lineTotals x a b) (lineWidth x.p.widths L)
      if r.1 ≤ threshold x.p then some r else none
    else none

def Fit.farFrom (a b : Fit) : Bool :=
  (a.toNat + 1 < b.toNat) || (b.toNat + 1 < a.toNat)

/-- TeX.2021.859, for the line ending at break `b` that follows break `a`. -/
def demerits (x : Inst) (a : Option Nat) (prevFit : Fit) (b : Nat) (bad : Int) (fit : Fit) : Int :=
  let pen : Int := match breakInfo x b with | some (p, _) => p | none => 0
  let hyB : Bool := match breakInfo x b with | some (_, h) => h | none => false
  let d0 := x.p.linePenalty + bad
  let d1 := if 10000 ≤ d0 ∨ d0 ≤ -10000 then 10000 else d0
  let d2 := d1 * d1
  let d3 := if 0 < pen then d2 + pen * pen else if -10000 < pen then d2 - pen * pen else d2
  let d4 :=
    if hyphAt x a ∧ b = x.n then d3 + x.p.finalHyphenDemerits
    else if hyphAt x a ∧ hyB then d3 + x.p.doubleHyphenDemerits
    else d3
  if prevFit.farFrom fit then d4 + x.p.adjDemerits else d4

/-! ## Break sequences -/

structure St where
  pos : Option Nat := none
  L : Nat := 0
  fit : Fit := .decent
  deriving DecidableEq, Repr, Inhabited

/-- Follow a sequence of breaks from a state: total demerits and final state, or `none` as
soon as a line is not feasible. -/
def run (x : Inst) : St → List Nat → Option (Int × St)
  | st, [] => some (0, st)
  | st, b :: bs =>
    match lineEval x st.pos st.L b with
    | none => none
    | some (bad, fit) =>
      match run x ⟨some b, st.L + 1, fit⟩ bs with
      | none => none
      | some (c, st') => some (demerits x st.pos st.fit b bad fit + c, st')

/-- Total demerits of a complete break sequence (it must end with the final break). -/
def total (x : Inst) (s : List Nat) : Option Int :=
  match run x {} s with
  | some (c, st) => if st.pos = some x.n then some c else none
  | none => none

def Feasible (x : Inst) (s : List Nat) : Prop := (total x s).isSome

/-! ## The reference optimiser: one row per number of lines -/

def optMin : Option Int → Option Int → Option Int
  | none, b => b
  | a, none => a
  | some a, some b => some (min a b)

def minOpt (l : List (Option Int)) : Option Int := l.foldr optMin none

abbrev Row := Array (Option Int)

def posIdx : Option Nat → Nat
  | none => 0
  | some b => b + 1
def idxPos : Nat → Option Nat
  | 0 => none
  | k + 1 => some k

def idx (pos : Option Nat) (f : Fit) : Nat := posIdx pos * 4 + f.toNat

def lookup (r : Row) (pos : Option Nat) (f : Fit) : Option Int :=
  (r[idx pos f]?).join

def preds (b : Nat) : List (Option Nat) := none :: (List.range b).map some

/-- Cost of reaching `(b, f)` in `L+1` lines through `(prev, f')` in `L` lines. -/
def cand (x : Inst) (r : Row) (L : Nat) (prev : Option Nat) (f' : Fit) (b : Nat) (f : Fit) : Option Int :=
  match lookup r prev f' with
  | none => none
  | some c =>
    match lineEval x prev L b with
    | none => none
    | some (bad, fit) => if fit = f then some (c + demerits x prev f' b bad fit) else none

def cell (x : Inst) (r : Row) (L : Nat) (i : Nat) : Option Int :=
  match idxPos (i / 4) with
  | none => none
  | some b =>
    match breakInfo x b with
    | none => none        -- not a legal breakpoint: no line can end here
    | some _ =>
      let f := Fit.ofIdx (i % 4)
      minOpt ((preds b).flatMap fun prev => Fit.all.map fun f' => cand x r L prev f' b f)

def rowSize (x : Inst) : Nat := (x.n + 2) * 4

def row0 (x : Inst) : Row :=
  ((List.range (rowSize x)).map fun i => if i = idx none .decent then some (0 : Int) else none).toArray

/-- `row x L`: for every (position, fitness class of the last line), the least total demerits
of a sequence of exactly `L` feasible lines from the start of the paragraph that ends there. -/
def row (x : Inst) : Nat → Row
  | 0 => row0 x
  | L + 1 => ((List.range (rowSize x)).map (cell x (row x L) L)).toArray


def nextRow (x : Inst) (r : Row) (L : Nat) : Row :=
  ((List.range (rowSize x)).map (cell x r L)).toArray

/-- The answer read off a row: least total over the fitness classes at the final break. -/
def dpOf (x : Inst) (r : Row) : Option Int :=
  minOpt (Fit.all.map fun f => lookup r (some x.n) f)

/-- Least total demerits over complete feasible sequences of exactly `L` lines. -/
def dp (x : Inst) (L : Nat) : Option Int := dpOf x (row x L)

/-- `dp` for every possible number of lines (a sequence of breaks is strictly increasing,
so it has at most `n+1` lines). -/
def dpAll (x : Inst) : List (Option Int) := (List.range (x.n + 2)).map (dp x)

/-- The same vector computed row by row (what the driver runs; `dpAllFast_eq` in Props). -/
def dpFrom (x : Inst) (r : Row) (L : Nat) : Nat → List (Option Int)
  | 0 => []
  | k + 1 => dpOf x r :: dpFrom x (nextRow x r L) (L + 1) k

def dpAllFast (x : Inst) : List (Option Int) := dpFrom x (row0 x) 0 (x.n + 2)

/-- Least total demerits over all complete feasible sequences. -/
def dpBest (x : Inst) : Option Int := minOpt (dpAll x)

/-! ## Looseness (TeX.2021.875), stated on the vector `all = dpAll x` of per-line-count optima

`best` is the line count of the overall optimum; with looseness `q ≠ 0` the chosen line count
is the feasible one closest to `best + q` among those between `best` and `best + q`. -/

def lineCountsOf (all : List (Option Int)) : List Nat :=
  (List.range all.length).filter fun L => (all[L]?.join).isSome

/-- Line counts whose optimum equals the overall optimum. -/
def bestCountsOf (all : List (Option Int)) : List Nat :=
  (lineCountsOf all).filter fun L => all[L]?.join == minOpt all

def looseTargetOf (all : List (Option Int)) (best : Nat) (q : Int) : Nat :=
  let cands := (lineCountsOf all).filter fun (L : Nat) =>
    let d : Int := (L : Int) - (best : Int)
    if 0 ≤ q then 0 ≤ d ∧ d ≤ q else q ≤ d ∧ d ≤ 0
  -- closest to best + q
  cands.foldl (fun (acc L : Nat) =>
    if ((L : Int) - ((best : Int) + q)).natAbs < ((acc : Int) - ((best : Int) + q)).natAbs then L else acc) best

/-! ## The monotonicity the active-list pruning assumes (the quantifier's restriction) -/

def overfull (x : Inst) (a : Option Nat) (L : Nat) (b : Nat) : Bool :=
  (rate (lineTotals x a b) (lineWidth x.p.widths L)).1 == 10001

def legalBreaks (x : Inst) : List Nat := (List.range (x.n + 1)).filter fun b => (breakInfo x b).isSome

/-- "line from a to b is overfull" is upward closed in b, for every start and line class. -/
def monotone (x : Inst) : Bool :=
  let bs := legalBreaks x
  let starts : List (Option Nat) := none :: bs.map some
  let classes := List.range (x.p.widths.length)
  starts.all fun a => classes.all fun L =>
    let later := bs.filter (lt? a)
    -- once overfull, always overfull
    (later.foldl (fun (st : Bool × Bool) b =>
        let o := overfull x a L b
        (st.1 && (!st.2 || o), st.2 || o)) (true, false)).1

end C04
