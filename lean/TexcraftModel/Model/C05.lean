/-
C05 — lig/kern programs: model of `crates/tfm/src/ligkern/{lang,compiler,mod}.rs` and the
specification (TeX's main loop, TeX82 §1034–§1040, as a cursor machine).

Characters are `Nat` (`tfm::Char` is a `u8`; word characters are Rust `char`s, a word
character ≥ 256 simply never has a table entry). Kern payloads are `Int`: they are the
*already scaled* values (`FixWord::to_scaled(design_size)` is font-metric arithmetic, C17;
the harness applies the real function before handing the program to Lean).
Core Lean only.
-/
namespace C05

/-! ## The raw language (`lang.rs`) -/

/-- `lang::PostLigOperation`. PL names: `/LIG/ /LIG/> /LIG/>> LIG/ LIG/> /LIG /LIG> LIG`. -/
inductive PostLig
  | bothNowhere | bothInserted | bothRight | rightInserted | rightRight
  | leftNowhere | leftInserted | neither
  deriving DecidableEq, Repr, Inhabited

/-- `lang::Operation` (kern payload already scaled; `kernAt` = `KernAtIndex`). -/
inductive RawOp
  | kern (k : Int)
  | kernAt (i : Nat)
  | lig (c : Nat) (p : PostLig)
  | redirect (u : Nat)
  deriving DecidableEq, Repr, Inhabited

/-- `lang::Instruction`. -/
structure Instr where
  next : Option Nat
  right : Nat
  op : RawOp
  deriving DecidableEq, Repr, Inhabited

/-- `lang::Program` together with the entry points and the kerns array handed to `compile`. -/
structure Program where
  instrs : List Instr
  lbEntry : Option Nat
  rb : Option Nat
  /-- `entrypoints: HashMap<Char, u16>` as an association list with distinct keys. -/
  entries : List (Nat × Nat)
  /-- `kerns: &[FixWord]`, already scaled. -/
  kerns : List Int
  deriving Repr, Inhabited

/-- A resolved operation: what a pair's instruction does. -/
inductive Op
  | kern (k : Int)
  | lig (c : Nat) (p : PostLig)
  deriving DecidableEq, Repr, Inhabited

/-- The operation the compiler executes for an instruction (compiler.rs `calculate_replacements`):
`KernAtIndex` reads the kerns array (missing index = 0, `unwrap_or_default`); an
`EntrypointRedirect` word met in a chain is recorded for its pair but never executed
(`EntrypointRedirect(_, _) => continue`), exactly as TeX82 §1039 skips a word whose
`skip_byte` exceeds `stop_flag`.

(Before fix C05-a the compiler decoded the redirect payload with
`lig_kern_operation_from_bytes` and executed it — tftopl's "phantom ligature"; that
behaviour is now confined to `compile_tftopl_compatible`, used for validation warnings only.) -/
def resolveOp (kerns : List Int) : RawOp → Option Op
  | .kern k => some (.kern k)
  | .kernAt i => some (.kern ((kerns[i]?).getD 0))
  | .lig c p => some (.lig c p)
  | .redirect _ => none

/-- Walk the SKIP/STOP chain (`InstructionsForEntrypointIter`, lang.rs:1013;
`build_node_to_program_start_map`, compiler.rs:127–146): `skip` instructions are jumped
over, then the first instruction whose `right` matches wins (`or_insert`); a `STOP`
(`next = none`) or the end of the array ends the walk. -/
def findInstr (r : Nat) : Nat → List Instr → Option Instr
  | _, [] => none
  | 0, i :: rest =>
    if i.right = r then some i
    else match i.next with
      | none => none
      | some inc => findInstr r inc rest
  | s + 1, _ :: rest => findInstr r s rest

def entryOf (p : Program) : Option Nat → Option Nat
  | none => p.lbEntry
  | some c => (p.entries.find? (·.1 = c)).map (·.2)

/-- The raw instruction of a pair, if any. -/
def rawRule (p : Program) (l : Option Nat) (r : Nat) : Option Instr :=
  match entryOf p l with
  | none => none
  | some e => findInstr r e p.instrs

/-- M: the operation the compiler associates with a pair (`none`: the pair has no rule). -/
def rule (p : Program) (l : Option Nat) (r : Nat) : Option Op :=
  (rawRule p l r).bind (fun i => resolveOp p.kerns i.op)

/-! ## The compiler (`compiler.rs`) -/

/-- `compiler::C`. -/
structure C where
  c : Nat
  lig : Bool
  deriving DecidableEq, Repr, Inhabited

/-- `IntermediateOp`. -/
inductive IOp
  | kern (k : Int)
  | ch (c : C)
  deriving DecidableEq, Repr, Inhabited

/-- `compiler::Replacement(ops, last)`. -/
abbrev Repl := List IOp × C

/-- `C::left_char` followed by `filter_left_boundary!`: the left character as a list of ops. -/
def leftOps : Option Nat → List IOp
  | none => []
  | some c => [.ch ⟨c, false⟩]

def leftC : Option Nat → Option C
  | none => none
  | some c => some ⟨c, false⟩

/-- compiler.rs:367–378: copy a child's ops; the first character op inherits
`consumes_left_lig`, which is then cleared. Returns the flag that is left over. -/
def markFirst : Bool → List IOp → List IOp × Bool
  | cl, [] => ([], cl)
  | cl, .kern k :: t => let r := markFirst cl t; (.kern k :: r.1, r.2)
  | cl, .ch c :: t => (.ch ⟨c.c, c.lig || cl⟩ :: t, false)

/-- compiler.rs:347–385: resolve the pending pair `(pl, pr)` given the child's table entry
(`none`: the child pair has no rule). Result: ops to append, and `last`. -/
def applyChild (pl : Option C) (pr : C) : Option Repl → List IOp × C
  | none => ((match pl with | none => [] | some l => [.ch l]), pr)
  | some rep =>
    let cl := match pl with | none => false | some l => l.lig
    let m := markFirst cl rep.1
    (m.1, ⟨rep.2.c, rep.2.lig || m.2 || pr.lig⟩)

/-- The value `calculate_replacements` computes for a pair, as a recursive denotation.
Outer `none`: out of fuel (the worklist never finishes this pair — an infinite loop);
`some none`: the pair has no rule; `some (some rep)`: `result[pair] = rep`. -/
def pairResult : Nat → Program → Option Nat → Nat → Option (Option Repl)
  | 0, _, _, _ => none
  | fuel + 1, p, l, r =>
    match rule p l r with
    | none => some none
    | some (.kern k) => some (some (leftOps l ++ [.kern k], ⟨r, false⟩))
    | some (.lig z post) =>
      let Z : C := ⟨z, true⟩
      let R : C := ⟨r, false⟩
      match post with
      | .bothNowhere =>
        match pairResult fuel p l z with
        | none => none
        | some c1 =>
          let s1 := applyChild (leftC l) Z c1
          match pairResult fuel p (some s1.2.c) r with
          | none => none
          | some c2 =>
            let s2 := applyChild (some s1.2) R c2
            some (some (s1.1 ++ s2.1, s2.2))
      | .bothInserted =>
        match pairResult fuel p (some z) r with
        | none => none
        | some c1 =>
          let s1 := applyChild (some Z) R c1
          some (some (leftOps l ++ s1.1, s1.2))
      | .bothRight => some (some (leftOps l ++ [.ch Z], R))
      | .rightInserted =>
        match pairResult fuel p (some z) r with
        | none => none
        | some c1 => some (some (applyChild (some Z) R c1))
      | .rightRight => some (some ([.ch Z], R))
      | .leftNowhere =>
        match pairResult fuel p l z with
        | none => none
        | some c1 => some (some (applyChild (leftC l) Z c1))
      | .leftInserted => some (some (leftOps l, Z))
      | .neither => some (some ([], Z))

/-- Left characters that can have rules: entry-point characters and the boundary. -/
def lefts (p : Program) : List (Option Nat) :=
  (if p.lbEntry.isSome then [none] else []) ++ p.entries.map (fun e => some e.1)

/-- Every pair that can have a rule (a superset of `pair_to_instruction`'s keys). -/
def candPairs (p : Program) : List (Option Nat × Nat) :=
  (lefts p).flatMap (fun l => p.instrs.map (fun i => (l, i.right)))

/-- Fuel that suffices for every terminating pair (`loop_exact`). -/
def bound (p : Program) : Nat := (candPairs p).length + 1

/-- M: `CompiledProgram.replacements` as a function. A pair whose evaluation does not
finish is absent (it stays in `node_to_parents`), exactly like a pair without a rule. -/
def table (p : Program) (l : Option Nat) (r : Nat) : Option Repl :=
  match pairResult (bound p) p l r with
  | some (some rep) => some rep
  | _ => none

/-- M: the pair is left unresolved by the compiler (it is in an infinite loop or depends on one). -/
def loopsM (p : Program) (l : Option Nat) (r : Nat) : Bool :=
  (pairResult (bound p) p l r).isNone

/-- The compiler reports no infinite loop: every candidate pair resolves (decidable; pairs
outside `candPairs` have no rule and resolve trivially). -/
def acyclicB (p : Program) : Bool := (candPairs p).all (fun q => !loopsM p q.1 q.2)

/-! ## Running a compiled program (`RunIter`, mod.rs:296–452) -/

/-- `PendingLigature`. (`includes_right_boundary` is only ever written immediately before
`into_ligature`, so it is not part of the pending state.) -/
structure Pending where
  s : List Nat := []
  lb : Bool := false
  deriving DecidableEq, Repr, Inhabited

/-- `RunItem`. -/
inductive Item
  | ch (c : Nat)
  | kern (k : Int)
  | lig (c : Nat) (orig : List Nat) (lb rb : Bool)
  deriving DecidableEq, Repr, Inhabited

/-- mod.rs:366–372 / 388–394 / 400–406: credit the left character (or the left boundary) of
the current replacement to the pending ligature if it has not been credited yet. -/
def addLeft (cl : Bool) (left : Option Nat) (s : Pending) : Pending :=
  if cl then
    match left with
    | some l => { s with s := s.s ++ [l] }
    | none => { s with lb := true }
  else s

def pendOr (lg : Option Pending) : Pending :=
  match lg with
  | some s => s
  | none => {}

/-- mod.rs:376–378: the op just emitted is the last character op of the replacement. -/
def tailIsEnd : List IOp → Bool
  | [] => true
  | [.kern _] => true
  | _ => false

/-- mod.rs:350–382 applied until `intermediate_ops` is empty. `left` and `nlNone`
(`next_left` is `NextLeft::None`) are fixed while one replacement is drained; the state is
`(ligature, consumes_left)`. -/
def drain (left : Option Nat) (nlNone : Bool) :
    List IOp → Option Pending → Bool → List Item × Option Pending × Bool
  | [], lg, cl => ([], lg, cl)
  | .kern k :: t, lg, cl =>
    let r := drain left nlNone t lg cl
    (.kern k :: r.1, r.2)
  | .ch ⟨c, false⟩ :: t, lg, _ =>
    let it := match lg with
      | some l => Item.lig c l.s l.lb false
      | none => Item.ch c
    let r := drain left nlNone t none false
    (it :: r.1, r.2)
  | .ch ⟨c, true⟩ :: t, lg, cl =>
    let s := addLeft cl left (pendOr lg)
    let it := Item.lig c s.s s.lb (nlNone && tailIsEnd t)
    let r := drain left nlNone t none false
    (it :: r.1, r.2)

/-- mod.rs:442–447: emit the left character when the pair has no replacement. -/
def emitLeft (l : Nat) (lg : Option Pending) : Item :=
  match lg with
  | some s => .lig l s.s s.lb false
  | none => .ch l

/-- The lookup half of `RunIter::next` (mod.rs:383–450), iterated over the word.
Arguments: the rest of the word, the left character of the next lookup (`none` = left
boundary), `left_in_original`, and the pending ligature. -/
def goL (tbl : Option Nat → Nat → Option Repl) (rb : Option Nat) :
    List Nat → Option Nat → Bool → Option Pending → List Item
  | [], left, lio, lg =>
    match left with
    | none => []
    | some l =>
      match rb.bind (fun r => tbl left r) with
      | some rep =>
        let d := drain left (!rep.2.lig) rep.1 lg lio
        if rep.2.lig then
          -- NextLeft::FinalLig
          let s := addLeft d.2.2 left (pendOr d.2.1)
          d.1 ++ [.lig rep.2.c s.s s.lb true]
        else d.1
      | none => [emitLeft l lg]
  | r :: rest, left, lio, lg =>
    match tbl left r with
    | some rep =>
      let d := drain left false rep.1 lg lio
      if rep.2.lig then
        -- NextLeft::Lig(c, right), processed at the start of the next call
        let s := addLeft d.2.2 left (pendOr d.2.1)
        d.1 ++ goL tbl rb rest (some rep.2.c) false (some { s with s := s.s ++ [r] })
      else
        d.1 ++ goL tbl rb rest (some rep.2.c) true d.2.1
    | none =>
      match left with
      | some l => emitLeft l lg :: goL tbl rb rest (some r) true none
      | none => goL tbl rb rest (some r) true lg

/-- M: `CompiledProgram::run(word).collect()` for a compiled table. -/
def runCompiled (tbl : Option Nat → Nat → Option Repl) (rb : Option Nat) (w : List Nat) : List Item :=
  goL tbl rb w none true none

/-- M, end to end: compile, then run. -/
def runM (p : Program) (w : List Nat) : List Item := runCompiled (table p) p.rb w

/-- M: `run_with_options(word, RunOptions { disable_left_boundary: true, .. })` (mod.rs:242–247):
the first character is the first left character; an empty word yields nothing. -/
def runNoLB (p : Program) : List Nat → List Item
  | [] => []
  | c :: w => goL (table p) p.rb w (some c) true none

/-- `RunOptions::right_boundary_override` (mod.rs `RunIter::next`: `right_for_lookup`, then
`get_replacement`): at the end of the word the caller's override is looked up if there is
one, otherwise the font's own boundary character. -/
def effRb (p : Program) (ov : Option Nat) : Option Nat :=
  match ov with
  | some c => some c
  | none => p.rb

/-- M: `run_with_options(word, RunOptions { disable_left_boundary, right_boundary_override })`. -/
def runOpt (p : Program) (noLB : Bool) (ov : Option Nat) (w : List Nat) : List Item :=
  if noLB then
    match w with
    | [] => []
    | c :: w => goL (table p) (effRb p ov) w (some c) true none
  else runCompiled (table p) (effRb p ov) w

/-- The program with another right boundary character (S for an override: the override
simply *is* the right boundary of the run). -/
def withRb (p : Program) (rb : Option Nat) : Program := { p with rb := rb }

/-! ## Observations -/

/-- What the property compares: characters, ligature glyphs and kerns, in order. -/
inductive Glyph
  | glyph (c : Nat)
  | kern (k : Int)
  deriving DecidableEq, Repr, Inhabited

def Item.glyph : Item → Glyph
  | .ch c => .glyph c
  | .kern k => .kern k
  | .lig c _ _ _ => .glyph c

def glyphs (l : List Item) : List Glyph := l.map Item.glyph

/-- The characters recorded on an item: a plain character is itself, a ligature its originals. -/
def Item.originals : Item → List Nat
  | .ch c => [c]
  | .kern _ => []
  | .lig _ o _ _ => o

def originals (l : List Item) : List Nat := l.flatMap Item.originals

/-! ## S: TeX's main loop as a cursor machine

The sequence is `[LB?] c₁ … cₙ [RB?]`, held as the list of elements from the cursor onwards.
One step looks up the *raw* instruction for (current, next):
none → emit current, advance; kern → emit current and the kern, advance;
ligature `op = 4a+2b+c` → insert the new character between them, delete current if `b = 0`,
delete next if `c = 0`, pass over `a` elements (emitting them); stop when the cursor is on the
right boundary or on the last element. TeX (§1039) skips an instruction whose `skip_byte`
exceeds `stop_flag`; in this representation that is a `redirect` word. -/

inductive El
  | lb
  | ch (c : Nat)
  | rb
  deriving DecidableEq, Repr, Inhabited

def El.emit : El → List Glyph
  | .ch c => [.glyph c]
  | _ => []

/-- `(a, b, c)` of `op_byte = 4a + 2b + c` (TeX82 §545): pass over `a`, keep current iff `b`,
keep next iff `c`. -/
def PostLig.abc : PostLig → Nat × Bool × Bool
  | .bothNowhere => (0, true, true)      -- |=:|
  | .bothInserted => (1, true, true)     -- |=:|>
  | .bothRight => (2, true, true)        -- |=:|>>
  | .rightInserted => (0, false, true)   -- =:|
  | .rightRight => (1, false, true)      -- =:|>
  | .leftNowhere => (0, true, false)     -- |=:
  | .leftInserted => (1, true, false)    -- |=:>
  | .neither => (0, false, false)        -- =:

/-- S's own reading of the raw program (TeX82 §1039): walk the chain from the entry point;
the first instruction whose `next_char` matches decides; a word with `skip_byte > stop_flag`
(a redirect) is never executed; `KernAtIndex` reads the kern table. -/
def specRule (p : Program) (l : Option Nat) (r : Nat) : Option Op :=
  match rawRule p l r with
  | none => none
  | some i =>
    match i.op with
    | .kern k => some (.kern k)
    | .kernAt j => some (.kern ((p.kerns[j]?).getD 0))
    | .lig c q => some (.lig c q)
    | .redirect _ => none

def El.left : El → Option Nat
  | .ch c => some c
  | _ => none

/-- The cursor machine. `none` = out of fuel. -/
def interp (p : Program) : Nat → List El → Option (List Glyph)
  | 0, _ => none
  | _ + 1, [] => some []
  | _ + 1, [x] => some x.emit
  | fuel + 1, x :: y :: tail =>
    match x with
    | .rb => some []
    | _ =>
      let right : Option Nat := match y with
        | .ch c => some c
        | .rb => p.rb
        | .lb => none
      match right.bind (specRule p x.left) with
      | none => (interp p fuel (y :: tail)).map (x.emit ++ ·)
      | some (.kern k) => (interp p fuel (y :: tail)).map (x.emit ++ Glyph.kern k :: ·)
      | some (.lig z post) =>
        let abc := post.abc
        let seq := (if abc.2.1 then [x] else []) ++ [El.ch z] ++ (if abc.2.2 then [y] else []) ++ tail
        (interp p fuel (seq.drop abc.1)).map ((seq.take abc.1).flatMap El.emit ++ ·)

/-! ### S with node types

TeX makes a *ligature node* of exactly the characters that a lig/kern instruction inserted
(TeX82 §1040: every ligature command puts the new character where `ligature_present` will
be true when it is wrapped up, §1035 `pack_lig`); characters of the word that are only
passed over stay character nodes. `interpT` is `interp` on elements that carry that flag. -/

inductive TGlyph
  | glyph (c : Nat) (lig : Bool)
  | kern (k : Int)
  deriving DecidableEq, Repr, Inhabited

def emitT : El × Bool → List TGlyph
  | (.ch c, b) => [.glyph c b]
  | _ => []

def interpT (p : Program) : Nat → List (El × Bool) → Option (List TGlyph)
  | 0, _ => none
  | _ + 1, [] => some []
  | _ + 1, [x] => some (emitT x)
  | fuel + 1, x :: y :: tail =>
    match x.1 with
    | .rb => some []
    | _ =>
      let right : Option Nat := match y.1 with
        | .ch c => some c
        | .rb => p.rb
        | .lb => none
      match right.bind (specRule p x.1.left) with
      | none => (interpT p fuel (y :: tail)).map (emitT x ++ ·)
      | some (.kern k) => (interpT p fuel (y :: tail)).map (emitT x ++ TGlyph.kern k :: ·)
      | some (.lig z post) =>
        let abc := post.abc
        let seq := (if abc.2.1 then [x] else []) ++ [(El.ch z, true)] ++ (if abc.2.2 then [y] else []) ++ tail
        (interpT p fuel (seq.drop abc.1)).map ((seq.take abc.1).flatMap emitT ++ ·)

def TGlyph.erase : TGlyph → Glyph
  | .glyph c _ => .glyph c
  | .kern k => .kern k

def Item.tglyph : Item → TGlyph
  | .ch c => .glyph c false
  | .kern k => .kern k
  | .lig c _ _ _ => .glyph c true

/-- The sequence for a word: left boundary always (TeX starts every word with
`cur_l = non_char` and the font's left-boundary program), right boundary iff the font has
a boundary character. -/
def seqOf (p : Program) (w : List Nat) : List El :=
  [El.lb] ++ w.map El.ch ++ (if p.rb.isSome then [El.rb] else [])

/-- The sequence for a word run without the left boundary. -/
def seqNoLB (p : Program) (w : List Nat) : List El :=
  w.map El.ch ++ (if p.rb.isSome then [El.rb] else [])

def elOf : Option Nat → El
  | none => .lb
  | some c => .ch c

/-- S: the instructions for the pair never terminate (two-element sequence; `l = none` is
the left boundary). -/
def pairLoops (p : Program) (l : Option Nat) (r : Nat) : Prop :=
  ∀ fuel, interp p fuel [elOf l, El.ch r] = none

end C05
