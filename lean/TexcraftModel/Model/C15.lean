/-
C15 — hpack: model of `HBox::pack` (`crates/boxworks/src/ds.rs`) and of the default method
`FontRepo::width_height_depth` (`crates/boxworks/src/lib.rs`), and an independent
specification: TeX82 §649–§667 with the totals defined declaratively.

The model describes the code *after* `fixes/C15-a.patch` (four totals per sign, order
chosen after the loop), `fixes/C15-b.patch` (overfull ratio −1) and `fixes/C15-c.patch`
(boxes and rules contribute `[width, height, depth]`, not `[height, width, depth]`). `hpackOld` at the end of
the file transcribes the running dominating order of the unpatched code; it is only used
to state, in Lean, which theorem the unpatched code violates.

Dimensions are unbounded `Int` (scaled points). The Rust code computes in `i32` with
overflow checks in the harness build; `inRange` says that no intermediate value of the
computation leaves `i32` (outside it the Rust code panics or wraps; out of the quantifier,
as in TeX, whose hpack assumes |dimension| < 2^30 and small sums).
Core Lean only. Reused by C12 for box widths (`natWidth`, `hpack`).
-/
namespace C15

/-- `common::GlueOrder` (derives `Ord`: Normal < Fil < Fill < Filll). -/
inductive Order | normal | fil | fill | filll
  deriving DecidableEq, Repr, Inhabited

def Order.toNat : Order → Nat
  | .normal => 0 | .fil => 1 | .fill => 2 | .filll => 3

/-- `common::Glue`. -/
structure GlueSpec where
  width : Int
  stretch : Int
  stretchOrder : Order
  shrink : Int
  shrinkOrder : Order
  deriving DecidableEq, Repr, Inhabited

/-- The elements of a horizontal list that `HBox::pack` handles (`Mark`, `Insertion`,
`Adjust` and `Math` hit `todo!()`; they are outside the property's quantifier). -/
inductive Item
  /-- `Char` or `Ligature`: what the font repository answers for `width`, `height`, `depth`. -/
  | char (w h d : Option Int)
  /-- `HBox` or `VBox` with its shift. -/
  | box (height width depth shift : Int)
  | rule (height width depth : Int)
  | glue (g : GlueSpec)
  | kern (width : Int)
  /-- `Penalty`, `Discretionary`, `Whatsit`: `continue`. -/
  | inert
  deriving DecidableEq, Repr, Inhabited

/-- `FontRepo::width_height_depth` (lib.rs): no width → `None`; missing height/depth → 0. -/
def fontWhd (w h d : Option Int) : Option (Int × Int × Int) :=
  match w with
  | none => none
  | some w => some (w, h.getD 0, d.getD 0)

/-- The `[w, h, d]` of the big `match` in the loop; `none` = `continue`. -/
def Item.whd : Item → Option (Int × Int × Int)
  | .char w h d => fontWhd w h d
  | .box height width depth shift => some (width, height - shift, depth + shift)
  | .rule height width depth => some (width, height, depth)
  | .glue g => some (g.width, 0, 0)
  | .kern w => some (w, 0, 0)
  | .inert => none

/-- `PackWidth`. -/
inductive PackWidth
  | exact (w : Int)
  | additional (a : Int)
  deriving DecidableEq, Repr, Inhabited

/-- `match pack_width { Exact(exact) => exact, Additional(additional) => natural_width + additional }`
(TeX §657). -/
def PackWidth.width (pw : PackWidth) (nat : Int) : Int :=
  match pw with
  | .exact w => w
  | .additional a => nat + a

/-- `Scaled::ONE`. -/
def ONE : Int := 65536

/-- The observable fields of the returned `ds::HBox` (`shift_amount` is 0, `list` is the
input). `num`/`den` are `GlueRatio`'s fields exactly as stored; the ratio is *signed*:
negative = shrinking (as `boxworks::tex::parse_glue_set` reads TeX's `glue set - r`). -/
structure HBox where
  height : Int
  width : Int
  depth : Int
  order : Order
  num : Int
  den : Int
  deriving DecidableEq, Repr, Inhabited

/-- `[Scaled; 4]` indexed by `GlueOrder as usize`. -/
structure Totals where
  normal : Int := 0
  fil : Int := 0
  fill : Int := 0
  filll : Int := 0
  deriving DecidableEq, Repr, Inhabited

def Totals.get (t : Totals) : Order → Int
  | .normal => t.normal | .fil => t.fil | .fill => t.fill | .filll => t.filll

/-- `totals[o as usize] += v`. -/
def Totals.add (t : Totals) (o : Order) (v : Int) : Totals :=
  match o with
  | .normal => { t with normal := t.normal + v }
  | .fil => { t with fil := t.fil + v }
  | .fill => { t with fill := t.fill + v }
  | .filll => { t with filll := t.filll + v }

/-- `[Filll, Fill, Fil].into_iter().find(|o| totals[o] != 0).unwrap_or(Normal)`. -/
def Totals.dominating (t : Totals) : Order :=
  if t.filll ≠ 0 then .filll else if t.fill ≠ 0 then .fill else if t.fil ≠ 0 then .fil else .normal

/-- Loop state of `HBox::pack`. -/
structure Acc where
  natW : Int := 0
  h : Int := 0
  d : Int := 0
  st : Totals := {}
  sh : Totals := {}
  deriving DecidableEq, Repr, Inhabited

/-- One iteration of `for elem in &hbox.list`. -/
def step (a : Acc) (i : Item) : Acc :=
  let a : Acc :=
    match i with
    | .glue g => { a with st := a.st.add g.stretchOrder g.stretch, sh := a.sh.add g.shrinkOrder g.shrink }
    | _ => a
  match i.whd with
  | none => a
  | some (w, h, d) =>
    { a with natW := a.natW + w, h := if h > a.h then h else a.h, d := if d > a.d then d else a.d }

def loop (a : Acc) : List Item → Acc
  | [] => a
  | i :: l => loop (step a i) l

/-- The code after the loop (TeX §657, §658, §664 as written in `pack`), given the
dominating totals. -/
def setGlue (h d natW : Int) (stretch : Int) (so : Order) (shrink : Int) (sho : Order)
    (pw : PackWidth) : HBox :=
  let width := pw.width natW
  let excess := width - natW
  if excess < 0 then
    if sho = .normal ∧ shrink < -excess then
      if shrink = 0 then ⟨h, width, d, sho, 0, ONE⟩ else ⟨h, width, d, sho, -ONE, ONE⟩
    else if shrink ≠ 0 then ⟨h, width, d, sho, excess, shrink⟩
    else ⟨h, width, d, sho, 0, ONE⟩
  else if excess = 0 then ⟨h, width, d, .normal, 0, 1⟩
  else if stretch ≠ 0 then ⟨h, width, d, so, excess, stretch⟩
  else ⟨h, width, d, .normal, 0, 1⟩

def finish (a : Acc) (pw : PackWidth) : HBox :=
  let so := a.st.dominating
  let sho := a.sh.dominating
  setGlue a.h a.d a.natW (a.st.get so) so (a.sh.get sho) sho pw

/-- **M**: `HBox::pack(font_repo, list, pack_width)`. -/
def hpack (l : List Item) (pw : PackWidth) : HBox := finish (loop {} l) pw

/-! ## Machine width (side condition, not part of the theorems) -/

def i32 (x : Int) : Bool := decide (-2147483648 ≤ x ∧ x ≤ 2147483647)

def Totals.ok (t : Totals) : Bool := i32 t.normal && i32 t.fil && i32 t.fill && i32 t.filll

/-- The `[w, h, d]` an item hands over fit in `i32` (`height - shift`, `depth + shift` of a
box are computed in `i32`). -/
def Item.whdOk (i : Item) : Bool :=
  match i.whd with
  | some (w, h, d) => i32 w && i32 h && i32 d
  | none => true

/-- Every item's own fields and every state after each iteration fit in `i32`. -/
def loopRange (a : Acc) : List Item → Bool
  | [] => true
  | i :: l =>
    let a' := step a i
    i.whdOk && i32 a'.natW && a'.st.ok && a'.sh.ok && loopRange a' l

/-- No `i32` overflow anywhere in `pack`: the loop, `natural_width + additional`,
`hbox.width - natural_width`, and `-excess` (evaluated only when `excess < 0` and the shrink
order is normal). -/
def inRange (l : List Item) (pw : PackWidth) : Bool :=
  let a := loop {} l
  let width := pw.width a.natW
  let excess := width - a.natW
  loopRange {} l && i32 width && i32 excess &&
    (!(decide (excess < 0) && decide (a.sh.dominating = .normal)) || i32 (-excess))

/-! ## S: TeX82 §649–§667, totals defined declaratively -/

/-- §651–§656: what each node adds to the natural width `x`. -/
def Item.natWidth : Item → Int
  | .char (some w) _ _ => w
  | .char none _ _ => 0
  | .box _ w _ _ => w
  | .rule _ w _ => w
  | .glue g => g.width
  | .kern w => w
  | .inert => 0

/-- §653/§654: the height a node asks of the box (shifted boxes adjusted); 0 = no demand
(`h` starts at 0). -/
def Item.boxHeight : Item → Int
  | .char (some _) (some h) _ => h
  | .box h _ _ s => h - s
  | .rule h _ _ => h
  | _ => 0

def Item.boxDepth : Item → Int
  | .char (some _) _ (some d) => d
  | .box _ _ d s => d + s
  | .rule _ _ d => d
  | _ => 0

def sum : List Int → Int
  | [] => 0
  | x :: l => x + sum l

/-- Maximum of a list and 0. -/
def max0 : List Int → Int
  | [] => 0
  | x :: l => max x (max0 l)

def natWidth (l : List Item) : Int := sum (l.map Item.natWidth)
def boxHeight (l : List Item) : Int := max0 (l.map Item.boxHeight)
def boxDepth (l : List Item) : Int := max0 (l.map Item.boxDepth)

def Item.stretchAt (o : Order) : Item → Int
  | .glue g => if g.stretchOrder = o then g.stretch else 0
  | _ => 0

def Item.shrinkAt (o : Order) : Item → Int
  | .glue g => if g.shrinkOrder = o then g.shrink else 0
  | _ => 0

/-- `total_stretch[o]` of §656. -/
def totalStretch (l : List Item) (o : Order) : Int := sum (l.map (Item.stretchAt o))
/-- `total_shrink[o]` of §656. -/
def totalShrink (l : List Item) (o : Order) : Int := sum (l.map (Item.shrinkAt o))

/-- §659 / §665: the highest order of infinity with a non-zero total (else normal). -/
def texOrder (total : Order → Int) : Order :=
  if total .filll ≠ 0 then .filll
  else if total .fill ≠ 0 then .fill
  else if total .fil ≠ 0 then .fil
  else .normal

/-- §657: "now `x` is the excess to be made up". -/
def excess (l : List Item) (pw : PackWidth) : Int := pw.width (natWidth l) - natWidth l

/-- §664: TeX calls the box overfull (`o = normal` and `total_shrink[o] < -x`). -/
def Overfull (l : List Item) (pw : PackWidth) : Prop :=
  excess l pw < 0 ∧ texOrder (totalShrink l) = .normal ∧ totalShrink l .normal < -excess l pw

instance (l : List Item) (pw : PackWidth) : Decidable (Overfull l pw) := by
  unfold Overfull; exact inferInstance

/-- `o` is the highest order of infinity with a non-zero total (normal if there is none). -/
def IsHighestNonzero (total : Order → Int) (o : Order) : Prop :=
  (total o ≠ 0 ∨ o = .normal) ∧ ∀ o' : Order, o.toNat < o'.toNat → total o' = 0

/-! ## TeX's size discipline as a decidable hypothesis

TeX keeps every dimension below `max_dimen = 2^30 − 1` in absolute value (§421) and its hpack
adds them up without checking (§649–§657). `Small l pw` is the corresponding explicit bound
on a whole list: the absolute widths add up to at most `max_dimen`, so do the absolute
stretch and the absolute shrink amounts, each `[w, h, d]` fits, and the requested (additional
or exact) width is at most `max_dimen` in absolute value. Under it no intermediate value of
`pack` leaves `i32` (`Props/C15.lean`, `small_inRange`), so neither the overflow panic of a
debug build nor the silent wrap of a release build can occur. -/

def maxDimen : Int := 1073741823

def iabs (x : Int) : Int := if x < 0 then -x else x

def Item.absStretch : Item → Int
  | .glue g => iabs g.stretch
  | _ => 0

def Item.absShrink : Item → Int
  | .glue g => iabs g.shrink
  | _ => 0

def PackWidth.amount : PackWidth → Int
  | .exact w => w
  | .additional a => a

def Small (l : List Item) (pw : PackWidth) : Bool :=
  l.all Item.whdOk &&
  decide (sum (l.map fun i => iabs i.natWidth) ≤ maxDimen) &&
  decide (sum (l.map Item.absStretch) ≤ maxDimen) &&
  decide (sum (l.map Item.absShrink) ≤ maxDimen) &&
  decide (iabs pw.amount ≤ maxDimen)

/-- `glue_sign`. -/
inductive Sign | normal | stretching | shrinking
  deriving DecidableEq, Repr, Inhabited

/-- The box TeX's `hpack` returns: `glue_set` is kept as an exact fraction. -/
structure TexBox where
  height : Int
  width : Int
  depth : Int
  sign : Sign
  order : Order
  setNum : Int
  setDen : Int
  deriving DecidableEq, Repr, Inhabited

/-- **S**: TeX82 `hpack(p, w, m)`, §657 (width and excess), §658–§659 (stretching),
§664–§665 (shrinking; overfull: `set_glue_ratio_one`). -/
def texHpack (l : List Item) (pw : PackWidth) : TexBox :=
  let h := boxHeight l
  let d := boxDepth l
  let x := natWidth l
  let w := pw.width x
  let x := w - x  -- now x is the excess to be made up
  if x = 0 then ⟨h, w, d, .normal, .normal, 0, 1⟩
  else if x > 0 then
    let o := texOrder (totalStretch l)
    if totalStretch l o ≠ 0 then ⟨h, w, d, .stretching, o, x, totalStretch l o⟩
    else ⟨h, w, d, .normal, o, 0, 1⟩
  else
    let o := texOrder (totalShrink l)
    -- glue_sign := shrinking; if total_shrink[o] = 0 then glue_sign := normal
    let sign := if totalShrink l o ≠ 0 then Sign.shrinking else Sign.normal
    if totalShrink l o < -x ∧ o = .normal ∧ l ≠ [] then ⟨h, w, d, sign, o, 1, 1⟩ -- set_glue_ratio_one
    else if totalShrink l o ≠ 0 then ⟨h, w, d, sign, o, -x, totalShrink l o⟩
    else ⟨h, w, d, sign, o, 0, 1⟩

/-- How a `ds::HBox` (signed exact ratio, no sign field) represents TeX's box: same
dimensions and order, non-zero denominators, and the signed ratio equals `±glue_set`
(cross-multiplied), `0` when `glue_sign` is normal. -/
def HBox.agrees (b : HBox) (t : TexBox) : Prop :=
  b.height = t.height ∧ b.width = t.width ∧ b.depth = t.depth ∧ b.order = t.order ∧
  b.den ≠ 0 ∧ t.setDen ≠ 0 ∧
  (match t.sign with
   | .normal => b.num = 0
   | .stretching => b.num * t.setDen = t.setNum * b.den
   | .shrinking => b.num * t.setDen = -t.setNum * b.den)

instance (b : HBox) (t : TexBox) : Decidable (b.agrees t) := by
  unfold HBox.agrees; cases t.sign <;> exact inferInstance

/-! ## Applying the glue setting node by node (TeX §625)

`hlist_out` gives a glue node of the box's order and sign the width `width(g) +
glue_set·stretch(g)` (or `− glue_set·shrink(g)`); every other node keeps its width. With the
signed exact ratio `num/den` of a `ds::HBox` that is `width + (num/den)·stretch` resp.
`width + (num/den)·shrink` (`num < 0` when shrinking). `setWidthTimesDen` is that width
multiplied by `den`, so that the statement needs no division. (TeX itself rounds each product
to a scaled point, §625; nothing in /repo applies a glue ratio yet, so no rounding is modelled.) -/

def Item.setWidthTimesDen (b : HBox) (stretching : Bool) (i : Item) : Int :=
  i.natWidth * b.den +
    b.num * (if stretching then i.stretchAt b.order else i.shrinkAt b.order)

/-- The set widths of the nodes add up to the box width exactly whenever TeX sets the glue
and does not call the box overfull; an overfull box with shrinkability comes out at
`natural − total_shrink`. Executable: the driver evaluates it on the *real* box. -/
def fillsExactly (l : List Item) (pw : PackWidth) (b : HBox) : Bool :=
  let x := excess l pw
  if 0 < x ∧ totalStretch l (texOrder (totalStretch l)) ≠ 0 then
    decide (b.den ≠ 0 ∧ sum (l.map (Item.setWidthTimesDen b true)) = b.width * b.den)
  else if Overfull l pw ∧ totalShrink l .normal ≠ 0 then
    decide (b.den ≠ 0 ∧
      sum (l.map (Item.setWidthTimesDen b false)) = (natWidth l - totalShrink l .normal) * b.den)
  else if x < 0 ∧ totalShrink l (texOrder (totalShrink l)) ≠ 0 ∧ ¬ Overfull l pw then
    decide (b.den ≠ 0 ∧ sum (l.map (Item.setWidthTimesDen b false)) = b.width * b.den)
  else true

/-! ## The overfull boundary written with `<=` (mutant 19 of the sweep)

`setGlueLe` is `setGlue` with `shrink <= -excess` in the overfull test. At the boundary
`shrink = -excess` it stores `-ONE/ONE` where `setGlue` stores `excess/shrink`: the same
ratio −1. `Props/C15.lean` proves that `hpackLe` is TeX's box too, i.e. the two are
indistinguishable for the property. -/

def setGlueLe (h d natW : Int) (stretch : Int) (so : Order) (shrink : Int) (sho : Order)
    (pw : PackWidth) : HBox :=
  let width := pw.width natW
  let excess := width - natW
  if excess < 0 then
    if sho = .normal ∧ shrink ≤ -excess then
      if shrink = 0 then ⟨h, width, d, sho, 0, ONE⟩ else ⟨h, width, d, sho, -ONE, ONE⟩
    else if shrink ≠ 0 then ⟨h, width, d, sho, excess, shrink⟩
    else ⟨h, width, d, sho, 0, ONE⟩
  else if excess = 0 then ⟨h, width, d, .normal, 0, 1⟩
  else if stretch ≠ 0 then ⟨h, width, d, so, excess, stretch⟩
  else ⟨h, width, d, .normal, 0, 1⟩

def hpackLe (l : List Item) (pw : PackWidth) : HBox :=
  let a := loop {} l
  let so := a.st.dominating
  let sho := a.sh.dominating
  setGlueLe a.h a.d a.natW (a.st.get so) so (a.sh.get sho) sho pw

/-! ## The unpatched code (running dominating order), for the record of C15-a / C15-b -/

def Order.lt (a b : Order) : Bool := a.toNat < b.toNat

/-- `match total.order.cmp(&glue.order) { Less => replace, Equal => add, Greater => {} }`. -/
def runAdd (tot : Int × Order) (v : Int) (o : Order) : Int × Order :=
  if tot.2.lt o then (v, o) else if tot.2 = o then (tot.1 + v, tot.2) else tot

structure AccOld where
  natW : Int := 0
  h : Int := 0
  d : Int := 0
  st : Int × Order := (0, .normal)
  sh : Int × Order := (0, .normal)

/-- The unpatched `[w, h, d]`: boxes and rules hand over `[height, width, depth]`, so their
height is added to the natural width and their width competes for the height (C15-c). -/
def Item.whdOld : Item → Option (Int × Int × Int)
  | .box height width depth shift => some (height - shift, width, depth + shift)
  | .rule height width depth => some (height, width, depth)
  | i => i.whd

def stepOld (a : AccOld) (i : Item) : AccOld :=
  let a : AccOld :=
    match i with
    | .glue g => { a with sh := runAdd a.sh g.shrink g.shrinkOrder, st := runAdd a.st g.stretch g.stretchOrder }
    | _ => a
  match i.whdOld with
  | none => a
  | some (w, h, d) =>
    { a with natW := a.natW + w, h := if h > a.h then h else a.h, d := if d > a.d then d else a.d }

def loopOld (a : AccOld) : List Item → AccOld
  | [] => a
  | i :: l => loopOld (stepOld a i) l

/-- The tail of the unpatched `pack`: as `setGlue` but the overfull ratio is `+ONE/ONE`. -/
def setGlueOld (h d natW : Int) (stretch : Int) (so : Order) (shrink : Int) (sho : Order)
    (pw : PackWidth) : HBox :=
  let width := pw.width natW
  let excess := width - natW
  if excess < 0 ∧ sho = .normal ∧ shrink < -excess ∧ shrink ≠ 0 then ⟨h, width, d, sho, ONE, ONE⟩
  else setGlue h d natW stretch so shrink sho pw

/-- `HBox::pack` before `fixes/C15-a.patch`, `fixes/C15-b.patch` and `fixes/C15-c.patch`. -/
def hpackOld (l : List Item) (pw : PackWidth) : HBox :=
  let a := loopOld {} l
  setGlueOld a.h a.d a.natW a.st.1 a.st.2 a.sh.1 a.sh.2 pw

def loopRangeOld (a : AccOld) : List Item → Bool
  | [] => true
  | i :: l =>
    let a' := stepOld a i
    (match i.whdOld with | some (w, h, d) => i32 w && i32 h && i32 d | none => true)
      && i32 a'.natW && i32 a'.st.1 && i32 a'.sh.1 && loopRangeOld a' l

/-- No `i32` overflow in the unpatched `pack`. -/
def inRangeOld (l : List Item) (pw : PackWidth) : Bool :=
  let a := loopOld {} l
  let width := pw.width a.natW
  let excess := width - a.natW
  loopRangeOld {} l && i32 width && i32 excess &&
    (!(decide (excess < 0) && decide (a.sh.2 = .normal)) || i32 (-excess))

end C15
