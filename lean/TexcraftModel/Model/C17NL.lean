import TexcraftModel.Model.C17
/-!
C17 — clause-by-clause transcription of `NextLargerProgram::new` and `get`
(crates/tfm/src/lib.rs, "Build a new next larger program from an iterator over edges"):
the first loop (edge map and in-degree counts), the work-list loop (leaf stripping, cut at
the largest remaining non-leaf), the array layout (`next_larger` with offsets, `entrypoints`)
and the iterator.

* `HashMap<Char, _>` = association list, first match wins (`insert` = cons, `remove` = filter).
* The only place where the iteration order of a `HashMap` is observable inside `new` is
  `for (node, num_smaller) in &node_to_num_smaller` (it fixes the initial order of `leaves`).
  The transcription takes that order as the parameter `order`; `next_larger_algo` holds for
  every order, the driver uses the ascending one.
* `Vec` used as a stack (`leaves`) = list with the top at the head. `sorted_chars` and
  `infinite_loop_warnings` are kept most-recent-first, i.e. as their `.rev()`, which is the only
  way the code reads them.
* Every `expect`/`checked_*`/`try_into` that can fire is a `panic`; `fuel` = the model's fuel
  ran out (`wl_fuel`: it never does for `2·|nodes| + 2`).
Core Lean only.
-/
namespace C17

inductive Res (α : Type)
  | ok (a : α)
  | panic
  | fuel
  deriving Repr, DecidableEq

/-- The state of the work-list loop. -/
structure WL where
  /-- `node_to_larger` -/
  g : List (Nat × Nat)
  /-- `node_to_num_smaller` -/
  cnt : List (Nat × Nat)
  /-- `leaves` (top of the stack first) -/
  leaves : List Nat
  /-- `non_leaves` -/
  nonLeaves : List Nat
  /-- `sorted_chars`, most recently pushed first -/
  sorted : List Nat
  /-- `infinite_loop_warnings`, most recently pushed first -/
  loops : List (Nat × Nat)
  deriving Repr

/-- `map.get(&k)` / `get_mut`. -/
def cntGet (cnt : List (Nat × Nat)) (c : Nat) : Option Nat := nxt cnt c

/-- `*map.get_mut(&k).unwrap() = v`. -/
def cntSet (cnt : List (Nat × Nat)) (c v : Nat) : List (Nat × Nat) :=
  cnt.map (fun e => if e.1 = c then (e.1, v) else e)

/-- `BTreeSet::last`. -/
def maxOf : List Nat → Option Nat
  | [] => none
  | x :: t => match maxOf t with
    | none => some x
    | some y => some (if x < y then y else x)

/-- The `loop { while let Some(smaller) = leaves.pop() { … } … }` of `new`, one pop or one cut
per unit of fuel. -/
def wlRun : Nat → WL → Res WL
  | 0, _ => .fuel
  | n + 1, σ =>
    match σ.leaves with
    | s :: rest =>
      match nxt σ.g s with
      | some l =>
        match cntGet σ.cnt l with
        | none => .panic                      -- "`node_to_num_smaller` contains all nodes"
        | some 0 => .panic                    -- `checked_sub(1)`
        | some (k + 1) =>
          if k = 0 then
            wlRun n { σ with cnt := cntSet σ.cnt l k, leaves := l :: rest,
                             nonLeaves := σ.nonLeaves.filter (· != l), sorted := s :: σ.sorted }
          else
            wlRun n { σ with cnt := cntSet σ.cnt l k, leaves := rest, sorted := s :: σ.sorted }
      | none => wlRun n { σ with leaves := rest, sorted := s :: σ.sorted }
    | [] =>
      match maxOf σ.nonLeaves with
      | none => .ok σ                          -- `None => break`
      | some s =>
        match nxt σ.g s with
        | none => .panic                       -- "General graph fact: …"
        | some l =>
          wlRun n { σ with g := σ.g.filter (fun e => e.1 != s), loops := (s, l) :: σ.loops,
                           leaves := [l], nonLeaves := σ.nonLeaves.filter (· != l) }

def countIn (g : List (Nat × Nat)) (c : Nat) : Nat := (g.filter (fun e => e.2 == c)).length

/-- Keys of `node_to_num_smaller`: every endpoint of a kept edge. -/
def nodesOf (g : List (Nat × Nat)) : List Nat :=
  (g.foldr (fun e acc => e.1 :: e.2 :: acc) []).eraseDups

/-- The state after the first `for` loop and the split into `leaves` / `non_leaves`, for the
iteration order `order` of `node_to_num_smaller`. -/
def wlInit (g : List (Nat × Nat)) (order : List Nat) : WL :=
  { g := g
    cnt := order.map (fun c => (c, countIn g c))
    leaves := (order.filter (fun c => countIn g c == 0)).reverse
    nonLeaves := order.filter (fun c => countIn g c != 0)
    sorted := []
    loops := [] }

/-- The block `let next_larger = { … }` before `next_larger.reverse()`: `ord` is
`sorted_chars.iter().rev()`, `arr` the vector so far, `pos` is `node_to_position`. -/
def buildArr (g : List (Nat × Nat)) (parents : List Nat) :
    List Nat → List (Nat × Nat) → List (Nat × Nat) → Res (List (Nat × Nat))
  | [], arr, _ => .ok arr
  | c :: t, arr, pos =>
    if !parents.contains c then buildArr g parents t arr pos
    else if arr.length > 255 then .panic                  -- `len().try_into::<u8>()`
    else
      match nxt g c with
      | none => buildArr g parents t (arr ++ [(c, 255)]) ((c, arr.length) :: pos)
      | some par =>
        match nxt pos par with
        | none => .panic                                  -- "parent has already been inserted"
        | some pp =>
          if arr.length ≤ pp then .panic                  -- `checked_sub` / `NonZeroU8`
          else buildArr g parents t (arr ++ [(c, arr.length - pp)]) ((c, arr.length) :: pos)

/-- `next_larger.iter().enumerate().map(|(i, (c, _))| (*c, i as u8)).collect::<HashMap>()`:
a later index replaces an earlier one. -/
def posOf : Nat → List (Nat × Nat) → List (Nat × Nat) → Res (List (Nat × Nat))
  | _, [], acc => .ok acc
  | i, (c, _) :: t, acc => if i > 255 then .panic else posOf (i + 1) t ((c, i) :: acc)

/-- The block `let entrypoints = { … }`. -/
def buildEntry (g pos : List (Nat × Nat)) : List Nat → List (Nat × Nat) → Res (List (Nat × Nat))
  | [], acc => .ok acc
  | c :: t, acc =>
    match nxt g c with
    | none => buildEntry g pos t acc
    | some par =>
      match nxt pos par with
      | none => .panic                                    -- "parent has already been inserted"
      | some i => buildEntry g pos t ((c, i) :: acc)

/-- The compiled program. -/
structure Prog where
  entry : List (Nat × Nat)
  nextLarger : List (Nat × Nat)
  deriving Repr, DecidableEq

/-- Everything after the first loop of `new`, for the kept edges `g` (later edge first) and
the iteration order `order`: the program and the `InfiniteLoop` warnings in reporting order. -/
def nlCompile (g : List (Nat × Nat)) (order : List Nat) : Res (Prog × List (Nat × Nat)) :=
  match wlRun (2 * order.length + 2) (wlInit g order) with
  | .panic => .panic
  | .fuel => .fuel
  | .ok σ =>
    let parents := σ.g.map Prod.snd
    match buildArr σ.g parents σ.sorted [] [] with
    | .panic => .panic
    | .fuel => .fuel
    | .ok arr =>
      let nl := arr.reverse
      match posOf 0 nl [] with
      | .panic => .panic
      | .fuel => .fuel
      | .ok pos =>
        match buildEntry σ.g pos σ.sorted [] with
        | .panic => .panic
        | .fuel => .fuel
        | .ok entry => .ok (⟨entry, nl⟩, σ.loops)

/-- `NextLargerProgramIter::next`, collected; `cur` is `self.current`. -/
def getIter (nl : List (Nat × Nat)) : Nat → Option Nat → List Nat
  | 0, _ => []
  | _ + 1, none => []
  | n + 1, some cur =>
    match nl[cur]? with
    | none => []
    | some (ch, inc) => ch :: getIter nl n (if cur + inc ≤ 255 then some (cur + inc) else none)

/-- `program.get(c).collect()`. The index grows by at least 1 per step and is a `u8`. -/
def progGet (p : Prog) (c : Nat) : List Nat := getIter p.nextLarger 257 (nxt p.entry c)

end C17
