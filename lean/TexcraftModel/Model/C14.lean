/-
C14 — hyphenating a horizontal list changes nothing unless a break is taken.

Model (M) of the word discovery of `crates/boxworks-hyphenate/src/lib.rs::hyphenate_impl`
(TeX §894–§899 as coded), of `IndexIter` (hyphen minimums), and the decidable invariants
P1/P2 that the Lean driver evaluates on the REAL output of `Hyphenator::hyphenate`.
The ligature reconstitution across a cut (TeX §903–§918) is NOT modelled: it is validated
per run through P1, P2 and the position check.  Core Lean only.
-/
namespace C14

/-! ## Data: `boxworks::ds::Horizontal`, reduced to what the hyphenation pass looks at -/

/-- Node kinds the pass only classifies (never looks inside). -/
inductive Kind where
  | glue | penalty | whatsit | math | hbox | vbox | rule | mark | ins | adjust
deriving DecidableEq, Repr

/-- `ds::DiscretionaryElem`. -/
inductive DElem where
  | char (c font : Nat)
  | lig (c font : Nat) (orig : List Nat) (lb rb : Bool)
  | kern (w : Int)
  | other (tag : Nat)
deriving DecidableEq, Repr

/-- `ds::Horizontal`. `kern kind w`: kind 0 = `KernKind::Normal`, 1 explicit, 2 accent, 3 math.
`other k payload`: the payload identifies the node (width, penalty value, …) so that
"node for node" means something. -/
inductive Item where
  | char (c font : Nat)
  | lig (c font : Nat) (orig : List Nat) (lb rb : Bool)
  | kern (kind : Nat) (w : Int)
  | other (k : Kind) (payload : List Int)
  | disc (pre post : List DElem) (rc : Nat)
deriving DecidableEq, Repr

/-- `char::is_ascii_alphabetic` (the code's stand-in for `\lccode ≠ 0`). -/
def isLetter (c : Nat) : Bool := (decide (65 ≤ c) && decide (c ≤ 90)) || (decide (97 ≤ c) && decide (c ≤ 122))

def Item.isGlue : Item → Bool
  | .other .glue _ => true
  | _ => false

/-! ## Word discovery as coded (lib.rs l.46–236) -/

/-- The `Action` enum of the §896 loop (l.62–116). `hyf_char` is the constant 3, so the
`Abort` inside the `Char`/`Ligature` arms is unreachable and not modelled. -/
inductive Act where
  | start (font : Nat)
  | cont
  | abort
deriving DecidableEq, Repr

def classify : Item → Act
  | .char c f => if isLetter c then .start f else .cont
  | .lig _ f orig _ _ =>
    match orig with
    | [] => .cont
    | c :: _ => if isLetter c then .start f else .cont
  | .other .whatsit _ => .cont
  | .kern k _ => if k = 0 then .cont else .abort
  | _ => .abort

/-- §896: the loop l.60–131. Returns the number of nodes consumed and the font of the word
that starts right after them (`none`: no word). `abortConsumes = true` is the code before
`fixes/C14-a.patch` (the `Abort` arm did `i += 1`), `false` is the fixed code. -/
def seek (abortConsumes : Bool) : List Item → Nat → Nat × Option Nat
  | [], n => (n, none)
  | x :: xs, n =>
    match classify x with
    | .start f => (n, some f)
    | .cont => seek abortConsumes xs (n + 1)
    | .abort => (if abortConsumes then n + 1 else n, none)

/-- §897/§898: the accumulation loop l.143–200. `s` = letters so far, `n` = nodes consumed.
Stops (without consuming) at: another font, a non-letter, a ligature that is not all
letters, the 63-letter cap (`s.len() + k >= 64`), a non-normal kern, any other node. -/
def gather (f : Nat) : List Item → List Nat → Nat → List Nat × Nat
  | [], s, n => (s, n)
  | x :: xs, s, n =>
    match x with
    | .char c g =>
      if g ≠ f then (s, n)
      else if !isLetter c then (s, n)
      else if s.length + 1 ≥ 64 then (s, n)
      else gather f xs (s ++ [c]) (n + 1)
    | .lig _ g orig _ _ =>
      if g ≠ f then (s, n)
      else if !orig.all isLetter then (s, n)
      else if s.length + orig.length ≥ 64 then (s, n)
      else gather f xs (s ++ orig) (n + 1)
    | .kern k _ => if k = 0 then gather f xs s (n + 1) else (s, n)
    | _ => (s, n)

/-- §899: the terminating-node test l.208–232 (`should_hyphenate`). -/
def terminatorOk : List Item → Bool
  | [] => true
  | x :: xs =>
    match x with
    | .char .. => terminatorOk xs
    | .lig .. => terminatorOk xs
    | .kern k _ => if k = 0 then terminatorOk xs else true
    | .other k _ =>
      match k with
      | .hbox | .vbox | .rule | .math => false
      | _ => true
    | .disc .. => false

/-- A word the pass tries: index of its first node, number of nodes it spans (letters,
ligatures, normal kerns), font, letters (`s`). -/
structure Word where
  start : Nat
  nodes : Nat
  font : Nat
  letters : List Nat
deriving DecidableEq, Repr

/-- The outer `while` loop l.46–236 (fuel = an upper bound on the iterations; `findWords`
supplies enough). `i` is the index of the head of `l` in the whole list. An empty `s`
(only possible when the starting ligature mixes letters and non-letters) skips the word:
that is `fixes/C14-b.patch`; the unpatched code asserts (panics) there. -/
def scan (ac : Bool) : Nat → Nat → List Item → List Word
  | 0, _, _ => []
  | _, _, [] => []
  | fuel + 1, i, x :: xs =>
    if !x.isGlue then scan ac fuel (i + 1) xs
    else
      let r := seek ac xs 0
      let rest := xs.drop r.1
      match r.2 with
      | none => scan ac fuel (i + 1 + r.1) rest
      | some f =>
        let g := gather f rest [] 0
        if g.1.isEmpty then scan ac fuel (i + 1 + r.1) rest
        else if !terminatorOk (rest.drop g.2) then scan ac fuel (i + 1 + r.1) rest
        else ⟨i + 1 + r.1, g.2, f, g.1⟩ :: scan ac fuel (i + 1 + r.1 + g.2) (rest.drop g.2)

/-- Words tried by the fixed code. -/
def findWords (l : List Item) : List Word := scan false (l.length + 1) 0 l

/-- Words tried by the code before `fixes/C14-a.patch`. -/
def findWordsPrefix (l : List Item) : List Word := scan true (l.length + 1) 0 l

/-! ## Specification of word discovery (independent: one clause per glue node, no loop state) -/

/-- Nodes TeX steps over while looking for the first letter after a glue. -/
def skippable : Item → Bool
  | .char c _ => !isLetter c
  | .lig _ _ orig _ _ => match orig with | [] => true | c :: _ => !isLetter c
  | .other .whatsit _ => true
  | .kern k _ => k == 0
  | _ => false

/-- The font of a node that starts a word. -/
def startFont : Item → Option Nat
  | .char c f => if isLetter c then some f else none
  | .lig _ f orig _ _ => match orig with | [] => none | c :: _ => if isLetter c then some f else none
  | _ => none

/-- A node that can be part of a word in font `f`. -/
def wordNode (f : Nat) : Item → Bool
  | .char c g => g == f && isLetter c
  | .lig _ g orig _ _ => g == f && orig.all isLetter
  | .kern k _ => k == 0
  | _ => false

def lettersI : Item → List Nat
  | .char c _ => [c]
  | .lig _ _ o _ _ => o
  | _ => []

def lettersL (l : List Item) : List Nat := (l.map lettersI).flatten

/-- `p` is an admissible word body in font `f`: word nodes only, at most 63 letters. -/
def admissible (f : Nat) (p : List Item) : Bool := p.all (wordNode f) && decide ((lettersL p).length ≤ 63)

/-- Length of the longest admissible prefix (admissibility is prefix-closed). -/
def longestAdmissible (f : Nat) (l : List Item) : Nat :=
  ((List.range (l.length + 1)).filter (fun n => admissible f (l.take n))).foldl max 0

/-- A char, ligature or font kern: what may sit between the word and its terminating node. -/
def charLigKern : Item → Bool
  | .char .. => true
  | .lig .. => true
  | .kern k _ => k == 0
  | _ => false

/-- The node that decides: hboxes, vboxes, rules, discretionaries and math forbid (§899). -/
def forbids : Item → Bool
  | .other .hbox _ | .other .vbox _ | .other .rule _ | .other .math _ => true
  | .disc .. => true
  | _ => false

/-- The word tried because of the glue node at index `g`; `suffix` is the list from that glue on. -/
def specAt (g : Nat) (suffix : List Item) : Option Word :=
  match suffix with
  | [] => none
  | x :: after =>
    if !x.isGlue then none
    else
      let k := (after.takeWhile skippable).length
      let rest := after.dropWhile skippable
      match rest.head? >>= startFont with
      | none => none
      | some f =>
        let n := longestAdmissible f rest
        let body := rest.take n
        let tail := (rest.drop n).dropWhile charLigKern
        if (lettersL body).isEmpty then none
        else if (tail.head?.map forbids).getD false then none
        else some ⟨g + 1 + k, n, f, lettersL body⟩

/-- Every glue node of the list gets its chance. -/
def specWords (l : List Item) : List Word :=
  (List.range l.length).filterMap (fun g => specAt g (l.drop g))

/-! ## `IndexIter` (l.522–544) and the hyphen minimums (l.243–252) -/

/-- `IndexIter::next`: pull from the inner iterator until a value lies in `[min, max]`. -/
def iterNext (min max : Nat) : List Nat → Option (Nat × List Nat)
  | [] => none
  | n :: t => if n ≥ min ∧ n ≤ max then some (n, t) else iterNext min max t

/-- Everything the iterator yields (`fuel` bounds the number of `next` calls). -/
def drainN (min max : Nat) : Nat → List Nat → List Nat
  | 0, _ => []
  | fuel + 1, l =>
    match iterNext min max l with
    | none => []
    | some (n, t) => n :: drainN min max fuel t

def drain (min max : Nat) (l : List Nat) : List Nat := drainN min max (l.length + 1) l

/-- `match v.try_into() { Ok(0) | Err(_) => 1, Ok(i) => i }` for an `i32` hyphen minimum. -/
def effMin (v : Int) : Nat := if v ≤ 0 then 1 else v.toNat

/-- Positions tried in a word of `len` letters whose raw Liang positions are `raw`
(`hyph_max = l.saturating_sub(right_hyphen_min)`). -/
def wordPositions (lhm rhm : Int) (len : Nat) (raw : List Nat) : List Nat :=
  drain (effMin lhm) (len - effMin rhm) raw

/-- Spec: a Liang position `p` survives iff at least `max 1 lhm` letters precede the break and
at least `max 1 rhm` follow it. -/
def specPositions (lhm rhm : Int) (len : Nat) (raw : List Nat) : List Nat :=
  raw.filter (fun p => decide (max 1 lhm ≤ (p : Int)) && decide ((p : Int) + max 1 rhm ≤ (len : Int)))

/-! ## The invariants P1, P2 (decidable; evaluated on the real output) -/

def lettersD : DElem → List Nat
  | .char c _ => [c]
  | .lig _ _ o _ _ => o
  | _ => []

def lettersDL (l : List DElem) : List Nat := (l.map lettersD).flatten

def hyphenChar : Nat := 45

/-- Letters of the pre-break material minus its hyphen (`none`: it does not end with the hyphen). -/
def preLetters (pre : List DElem) : Option (List Nat) :=
  let s := lettersDL pre
  if s.getLast? = some hyphenChar then some s.dropLast else none

/-- Delete the marked nodes. -/
def erase : List Bool → List Item → List Item
  | m :: ms, x :: xs => if m then erase ms xs else x :: erase ms xs
  | _, _ => []

def Item.isDisc : Item → Bool
  | .disc .. => true
  | _ => false

def allMarkedDisc : List Bool → List Item → Bool
  | m :: ms, x :: xs => (!m || x.isDisc) && allMarkedDisc ms xs
  | [], [] => true
  | _, _ => false

/-- P1: the marks select discretionary nodes only, and deleting them gives the input back,
node for node. -/
def P1 (marks : List Bool) (out inp : List Item) : Bool :=
  allMarkedDisc marks out && decide (erase marks out = inp)

/-- P2 at one inserted discretionary, `xs`/`ms` = what follows it. -/
def discOk (pre post : List DElem) (rc : Nat) (ms : List Bool) (xs : List Item) : Bool :=
  decide (rc ≤ xs.length) && (ms.take rc).all (fun m => !m) &&
    match preLetters pre with
    | none => false
    | some a => decide (a ++ lettersDL post = lettersL (xs.take rc))

/-- P2: at every inserted discretionary the pre-break letters minus the hyphen followed by the
post-break letters are the letters of the `replace_count` nodes it covers (which are original
nodes, inside the list). -/
def P2 : List Bool → List Item → Bool
  | m :: ms, x :: xs =>
    (if m then
      match x with
      | .disc pre post rc => discOk pre post rc ms xs
      | _ => false
     else true) && P2 ms xs
  | [], [] => true
  | _, _ => false

/-- Greedy alignment used by the driver: an output node equal to the next input node is
original; otherwise it must be a discretionary and is taken as inserted. -/
def align : List Item → List Item → Option (List Bool)
  | [], [] => some []
  | inp, o :: out =>
    match inp with
    | i :: inp' =>
      if o = i then (align inp' out).map (false :: ·)
      else if o.isDisc then (align inp out).map (true :: ·)
      else none
    | [] => if o.isDisc then (align [] out).map (true :: ·) else none
  | _ :: _, [] => none

/-- What a reader sees when the breaks selected by `taken` are taken: an untaken inserted
discretionary shows nothing; a taken one shows its pre-break letters (without the hyphen),
the line break, its post-break letters, and hides the next `replace_count` nodes. `skip` =
nodes still hidden. -/
def render : List Bool → List Bool → List Item → Nat → List Nat
  | m :: ms, t :: ts, x :: xs, skip =>
    if m then
      match x with
      | .disc pre post rc =>
        if t && skip == 0 then ((preLetters pre).getD []) ++ lettersDL post ++ render ms ts xs rc
        else render ms ts xs (skip - 1)
      | _ => render ms ts xs (skip - 1)
    else if skip == 0 then lettersI x ++ render ms ts xs 0
    else render ms ts xs (skip - 1)
  | _, _, _, _ => []

/-! ## Positions of the inserted discretionaries, read off the real output -/

/-- Absolute letter offsets (in the whole list) of the breaks offered by the inserted
discretionaries: letters of the original nodes before it plus its pre-break letters minus the
hyphen. Also the covered span `[a, b)` of each. `acc` = letters of original nodes so far. -/
def discPositions : List Bool → List Item → Nat → List (Nat × Nat × Nat)
  | m :: ms, x :: xs, acc =>
    if m then
      match x with
      | .disc pre _ rc =>
        let p := acc + ((preLetters pre).getD (lettersDL pre)).length
        (p, acc, acc + (lettersL (xs.take rc)).length) :: discPositions ms xs acc
      | _ => discPositions ms xs acc
    else discPositions ms xs (acc + (lettersI x).length)
  | _, _, _ => []

/-- Absolute letter offsets expected from a word list and per-word positions. -/
def expectedPositions (inp : List Item) (ws : List Word) (pos : List (List Nat)) : List Nat :=
  ((ws.zip pos).map (fun (w, ps) => ps.map (fun p => (lettersL (inp.take w.start)).length + p))).flatten

end C14
