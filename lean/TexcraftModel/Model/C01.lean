import TexcraftModel.Model.C20

/-!
# C01 — group scoping of the Texlang VM: model `VMState` and specification `Spec`

Sources (all under `/repo/crates`):

* `texlang/src/vm/mod.rs`            — `VM::begin_group` (600-604), `VM::end_group` (647-662), the
  `Command::Font` arm of the main loop (195-223), `Command::Variable` arm (175-179);
* `texlang/src/variable.rs`          — `TypedVariable::set` (307-317), `update_save_stack` (400-427),
  `SaveStackMap::{save, remove, restore}` (697-718);
* `texlang/src/command/map.rs`       — `Map::insert` (137-152), `alias_control_sequence` (117-126),
  `begin_group` / `end_group` (172-179);
* `texcraft-stdext/.../groupingmap.rs` — through `C20.GMap` (property C20: verified transcription);
* `texlang-stdlib/src/prefix.rs`     — `read_and_reset_global` (98-106), `set_scope` (108-116),
  `process_prefixes` (219-286);
* `texlang-stdlib/src/{def,alias,registers,chardef,mathchardef}.rs` — where each primitive calls
  `variable_assignment_scope_hook` and what it inserts.

The model describes the code **after** the three repairs `fixes/C01-{a,b,c}.patch`. The behaviour
before each repair is kept as a `Variant` flag so that the pre-fix witnesses can be evaluated
(`Variant.preFix`); every theorem is about `Variant.fixed`.

Conventions (as in `Model/C20.lean`): `Vec`s used as stacks are lists **innermost first**;
`HashMap`s are association lists read through `alookup` only; a Rust `unwrap` on `None` is the
outcome `panic`; a fatal TeX error is an `err…` outcome and stops the run.

Identity of a variable is `(kind, index)` here and `(getter fn ptr, setter fn ptr, index)` in Rust
(`TypedVariable::key`): modelled, not verified. A variable that was never assigned has the value
`none` ("the initial value", whatever the component's `Default` says); the save stack stores
`Action.delete` for "restore the initial value" and `Action.revert x` for "restore `x`", so that
`SaveStackMap::restore` is `C20.applyLog`. Core Lean only. Reusable by C08 (`VMState`).
-/
namespace C01
open C20

/-! ## Vocabulary -/

/-- The kinds of variables of `StdLibState` (each is one pair of getters in Rust). `param` are the
singleton parameters: index 0 = `\globaldefs`, 1 = `\endlinechar`, 2 = `\year`, 3 = `\month`, … -/
inductive VKind where
  | count | dimen | skip | toks | catcode | mathcode | param
  deriving DecidableEq, Repr

structure Var where
  kind : VKind
  idx : Nat
  deriving DecidableEq, Repr

/-- Values are integers (a dimension in sp, a glue by its width, a token list / cat code / math code
by a number: the *content* of a value plays no role in scoping, only its identity). -/
abbrev Val := Int

/-- `\globaldefs` (`prefix::Component.global_defs_value`). -/
def globaldefsVar : Var := ⟨.param, 0⟩

/-- `token::CommandRef`: control sequence (interned name) or active character. -/
inductive CTarget where
  | cs (n : Nat)
  | act (c : Nat)
  deriving DecidableEq, Repr

/-- `command::Command` as far as scoping can tell commands apart. -/
inductive Cmd where
  | mac (n : Nat)        -- `Command::Macro` (body number `n`)
  | chr (c : Nat)        -- `Command::Character`
  | mchr (n : Nat)       -- `Command::MathCharacter`
  | alias (v : Var)      -- `Command::Variable` with `IndexResolver::Static` (`\countdef`, `\toksdef`)
  | tok (c : Nat)        -- `Command::CharacterTokenAlias`
  | font (f : Nat)       -- `Command::Font`
  | prim (p : Nat)       -- a built-in execution / expansion / variable primitive
  deriving DecidableEq, Repr

/-- Right-hand side of a definition: which primitive is used. -/
inductive Def where
  | mac (n : Nat)          -- `\def t{…}`
  | gmac (n : Nat)         -- `\gdef t{…}`
  | chr (c : Nat)          -- `\chardef t=c`
  | mchr (n : Nat)         -- `\mathchardef t=n`
  | cdef (i : Nat)         -- `\countdef t=i`
  | tdef (i : Nat)         -- `\toksdef t=i`
  | ltok (c : Nat)         -- `\let t=<character token>`
  | lbuiltin (c : Cmd)     -- `\let t=<a built-in name that is never redefined>` (`\relax`, a font selector)
  | lcs (src : CTarget)    -- `\let t=<target>`; nothing happens if `src` is undefined (map.rs:123)
  deriving DecidableEq, Repr

/-- Everything that can be read. -/
inductive Target where
  | var (v : Var)
  | cmd (t : CTarget)
  | font
  deriving DecidableEq, Repr

/-- `pre` = number of `\global` prefixes written before the command. -/
inductive Op where
  | beginGroup
  | endGroup
  | assign (pre : Nat) (v : Var) (x : Val)
  | define (pre : Nat) (t : CTarget) (d : Def)
  | selectFont (pre : Nat) (f : Nat)
  | read (t : Target)
  deriving DecidableEq, Repr

inductive Out where
  | unit
  | errNoGroup                                   -- `}` with no open group: fatal `EndOfGroupError`
  | errPrefix                                    -- "this command cannot be prefixed by \global" (fatal)
  | panic                                        -- an `unwrap` failed
  | val (o : Option Val)                         -- `\the<variable>`; `none` = initial value
  | cmd (c : Option Cmd) (aliased : Option Val)  -- meaning of a command; for an alias also the register's value
  | fnt (f : Nat)                                -- current font
  deriving DecidableEq, Repr

def Out.fatal : Out → Bool
  | .errNoGroup => true
  | .errPrefix => true
  | .panic => true
  | _ => false

/-- Which of the three repairs are in place. -/
structure Variant where
  /-- C01-a: the `Global` loop of `update_save_stack` indexes `groups()[i]` (before: `[0]`). -/
  fixA : Bool
  /-- C01-b: `Map::begin_group`/`end_group` also group `active_char`. -/
  fixB : Bool
  /-- C01-c: `\chardef`, `\mathchardef` (and `\read`) may be prefixed by `\global`. -/
  fixC : Bool
  deriving DecidableEq, Repr

def Variant.fixed : Variant := ⟨true, true, true⟩
def Variant.preFix : Variant := ⟨false, false, false⟩

/-! ## M: the VM state -/

structure VMState where
  /-- the variables' storage in the state (`none` from `alookup` = still the initial value) -/
  vars : AList Var Val
  /-- `Internal.save_stack`, innermost first -/
  save : List (AList Var (Action Val))
  /-- `Map.commands` -/
  cmds : GMap Nat Cmd
  /-- `Map.active_char` -/
  active : GMap Nat Cmd
  /-- `Internal.current_font` (0 = `NULL_FONT`) -/
  font : Nat
  /-- `Internal.fonts_save_stack`, innermost first -/
  fontSave : List (Option Nat)
  /-- `prefix::Component.scope`: the pending `\global` -/
  scopeBit : Scope
  deriving Repr

def VMState.init : VMState :=
  { vars := [], save := [], cmds := GMap.empty, active := GMap.empty, font := 0, fontSave := [],
    scopeBit := .loc }

/-- `prefix::Component.global_defs_value` (initially 0). -/
def globalDefs (m : VMState) : Int :=
  match alookup m.vars globaldefsVar with
  | none => 0
  | some x => x

/-! ### prefix.rs -/

/-- `Component::set_scope` (prefix.rs:108-116). -/
def setScope (m : VMState) (s : Scope) : VMState :=
  { m with scopeBit := if globalDefs m = 0 then s else .loc }

/-- `Component::read_and_reset_global` (prefix.rs:98-106) = `variable_assignment_scope_hook`. -/
def readAndResetGlobal (m : VMState) : Scope × VMState :=
  if globalDefs m < 0 then (.loc, m)
  else if globalDefs m = 0 then (m.scopeBit, { m with scopeBit := .loc })
  else (.glob, m)

/-- `\global` in front of a prefixable command: `process_prefixes` calls `set_scope(Global)` once,
however many `\global`s were collected by `complete_prefix`. -/
def prefixGlobal (m : VMState) : VMState := setScope m .glob

def applyPrefix (pre : Nat) (m : VMState) : VMState :=
  if pre = 0 then m else prefixGlobal m

/-! ### variable.rs -/

/-- `SaveStackMap::save` (variable.rs:698-706): keep the first saved value. -/
def saveEntry (g : AList Var (Action Val)) (v : Var) (old : Action Val) : AList Var (Action Val) :=
  match alookup g v with
  | some _ => g                    -- `Entry::Occupied(_) => Some(value)`
  | none => ainsert v old g        -- `Entry::Vacant(v) => v.insert(value)`

/-- The `Global` loop of `update_save_stack` (variable.rs:411-417), literally:
`for i in 0..n { groups()[idx].remove(variable) }` with `idx = i` (fixed) or `idx = 0` (before
C01-a). `k` counts the iterations left, so `i = n - k`; `Vec` index `j` is list position
`n - 1 - j` (the list is innermost first). -/
def purgeLoop (fixA : Bool) (v : Var) (n : Nat) :
    Nat → List (AList Var (Action Val)) → List (AList Var (Action Val))
  | 0, s => s
  | k + 1, s =>
    let i := n - (k + 1)
    let idx := if fixA then i else 0
    purgeLoop fixA v n k (s.modify (n - 1 - idx) (aerase v))

/-- `update_save_stack` (variable.rs:400-427). -/
def updateSaveStack (cfg : Variant) (m : VMState) (v : Var) (scope : Scope) (old : Action Val) :
    VMState :=
  match scope with
  | .glob => { m with save := purgeLoop cfg.fixA v m.save.length m.save.length m.save }
  | .loc =>
    match m.save with
    | [] => m                                            -- `current_group_mut()` is `None`
    | g :: gs => { m with save := saveEntry g v old :: gs }

/-- `TypedVariable::set` (variable.rs:307-317). -/
def setVar (cfg : Variant) (m : VMState) (v : Var) (x : Val) (scope : Scope) : VMState :=
  let old : Action Val := match alookup m.vars v with
    | some o => .revert o
    | none => .delete
  let m1 := { m with vars := ainsert v x m.vars }        -- `std::mem::replace(r, value)`
  if m.save.isEmpty then m1 else updateSaveStack cfg m1 v scope old

/-! ### command/map.rs -/

/-- `Map::get_command` -/
def getCmd (m : VMState) : CTarget → Option Cmd
  | .cs n => m.cmds.get n
  | .act c => m.active.get c

/-- `Map::insert` (map.rs:137-152) -/
def insertCmd (m : VMState) (t : CTarget) (c : Cmd) (s : Scope) : VMState :=
  match t with
  | .cs n => { m with cmds := (m.cmds.insert n c s).1 }
  | .act ch => { m with active := (m.active.insert ch c s).1 }

/-- `Map::begin_group` -/
def mapBeginGroup (cfg : Variant) (m : VMState) : VMState :=
  { m with cmds := m.cmds.beginGroup,
           active := if cfg.fixB then m.active.beginGroup else m.active }

/-- `Map::end_group`; `none` = `Err(NoGroupToEndError)` -/
def mapEndGroup (cfg : Variant) (m : VMState) : Option VMState :=
  match m.cmds.endGroup with
  | none => none
  | some c' =>
    if cfg.fixB then
      match m.active.endGroup with
      | none => none
      | some a' => some { m with cmds := c', active := a' }
    else some { m with cmds := c' }

/-! ### vm/mod.rs -/

/-- `VM::begin_group` -/
def beginGroup (cfg : Variant) (m : VMState) : VMState :=
  let m1 := mapBeginGroup cfg m
  { m1 with save := [] :: m1.save, fontSave := none :: m1.fontSave }

inductive EndRes where
  | ok (m : VMState)
  | errNoGroup
  | panic

/-- `VM::end_group` -/
def endGroup (cfg : Variant) (m : VMState) : EndRes :=
  match mapEndGroup cfg m with
  | none => .errNoGroup
  | some m1 =>
    match m1.save with
    | [] => .panic                                       -- `save_stack.pop().unwrap()`
    | g :: gs =>
      let m2 := { m1 with vars := GMap.applyLog g m1.vars, save := gs }   -- `group.restore(..)`
      match m2.fontSave with
      | [] => .panic                                     -- `fonts_save_stack.pop().unwrap()`
      | none :: fs => .ok { m2 with fontSave := fs }
      | some f :: fs => .ok { m2 with font := f, fontSave := fs }

/-- The `Command::Font` arm of the main loop (vm/mod.rs:195-223). -/
def selectFont (m0 : VMState) (pre : Nat) (f : Nat) : VMState :=
  let r := readAndResetGlobal (applyPrefix pre m0)
  let m := r.2
  let fs : List (Option Nat) := match r.1 with
    | .loc =>
      match m.fontSave with
      | [] => []
      | none :: rest => some m.font :: rest
      | some x :: rest => some x :: rest
    | .glob => m.fontSave.map (fun _ => none)
  { m with font := f, fontSave := fs }

/-- A variable command in the main loop, or `\count n=…` etc.: hook, then `set`. -/
def assign (cfg : Variant) (m0 : VMState) (pre : Nat) (v : Var) (x : Val) : VMState :=
  let r := readAndResetGlobal (applyPrefix pre m0)
  setVar cfg r.2 v x r.1

/-- What a definition primitive inserts (`none`: nothing, for `\let` to an undefined name). -/
def resolveDef (m : VMState) : Def → Option Cmd
  | .mac n => some (.mac n)
  | .gmac n => some (.mac n)
  | .chr c => some (.chr c)
  | .mchr n => some (.mchr n)
  | .cdef i => some (.alias ⟨.count, i⟩)
  | .tdef i => some (.alias ⟨.toks, i⟩)
  | .ltok c => some (.tok c)
  | .lbuiltin c => some c
  | .lcs src => getCmd m src

/-- `\gdef`: `if set_globally_override { scope = Global }` (def.rs:48-51). -/
def defScope (d : Def) (s : Scope) : Scope :=
  match d with
  | .gmac _ => .glob
  | _ => s

/-- Commands whose tag is not registered as prefixable before C01-c. -/
def needsFixC : Def → Bool
  | .chr _ => true
  | .mchr _ => true
  | _ => false

/-- `\def`, `\gdef`, `\let`, `\countdef`, `\toksdef`, `\chardef`, `\mathchardef`: every one
calls the hook first, then parses, then inserts. `none` = "cannot be prefixed by \global". -/
def define (cfg : Variant) (m0 : VMState) (pre : Nat) (t : CTarget) (d : Def) : Option VMState :=
  if pre ≠ 0 ∧ needsFixC d ∧ cfg.fixC = false then none
  else
    let r := readAndResetGlobal (applyPrefix pre m0)
    match resolveDef r.2 d with
    | none => some r.2
    | some c => some (insertCmd r.2 t c (defScope d r.1))

def readTarget (m : VMState) : Target → Out
  | .var v => .val (alookup m.vars v)
  | .cmd t =>
    let c := getCmd m t
    .cmd c (match c with
      | some (.alias v) => alookup m.vars v
      | _ => none)
  | .font => .fnt m.font

def step (cfg : Variant) (m : VMState) : Op → VMState × Out
  | .beginGroup => (beginGroup cfg m, .unit)
  | .endGroup =>
    match endGroup cfg m with
    | .ok m' => (m', .unit)
    | .errNoGroup => (m, .errNoGroup)
    | .panic => (m, .panic)
  | .assign pre v x => (assign cfg m pre v x, .unit)
  | .define pre t d =>
    match define cfg m pre t d with
    | none => (m, .errPrefix)
    | some m' => (m', .unit)
  | .selectFont pre f => (selectFont m pre f, .unit)
  | .read t => (m, readTarget m t)

/-- A whole program; a fatal outcome ends the run (the VM shuts down). -/
def run (cfg : Variant) : VMState → List Op → VMState × List Out
  | m, [] => (m, [])
  | m, op :: ops =>
    let r := step cfg m op
    if r.2.fatal then (r.1, [r.2])
    else
      let rs := run cfg r.1 ops
      (rs.1, r.2 :: rs.2)

/-! ## S: TeX's semantics — a stack of full environments

An environment gives every variable, every control sequence, every active character and the
current font a value. `{` pushes a copy of the current environment, `}` pops it back. A local
assignment changes the current environment; a global one changes the current environment and
every saved copy. Whether an assignment is global is decided *for that assignment alone* from its
own `\global` prefix and the current `\globaldefs` (TeX §1211, §1214): there is no pending flag in
the specification.

Known finding C01-d: `\let t=\undefinedname` leaves `t` alone in the code (`Map::alias_control_sequence`
does nothing when the source is undefined) whereas TeX gives `t` the undefined meaning, in the scope
of the assignment (§1221). `Spec.step` / `Spec.run` below have the code's behaviour at exactly this
point (so that the refinement can be stated for *every* program); `Spec.stepTeX` / `Spec.runTeX`
(end of this file) are TeX's, and `Spec.noUndefLet` says that a program never executes such a
`\let`: the two specifications coincide on those programs. -/

structure Env where
  var : Var → Option Val
  cs : Nat → Option Cmd
  act : Nat → Option Cmd
  font : Nat

structure Spec where
  cur : Env
  /-- one saved environment per open group, innermost first -/
  saved : List Env

namespace Spec

def init : Spec :=
  { cur := { var := fun _ => none, cs := fun _ => none, act := fun _ => none, font := 0 }, saved := [] }

/-- Apply an environment update locally or globally. -/
def update (s : Spec) (sc : Scope) (f : Env → Env) : Spec :=
  match sc with
  | .loc => { s with cur := f s.cur }
  | .glob => { cur := f s.cur, saved := s.saved.map f }

def globalDefs (s : Spec) : Int :=
  match s.cur.var globaldefsVar with
  | none => 0
  | some x => x

/-- TeX §1211: `\globaldefs` < 0 makes every assignment local, > 0 global, = 0 obeys the prefix. -/
def effScope (g : Int) (pre : Nat) : Scope :=
  if g < 0 then .loc
  else if g = 0 then (if pre = 0 then .loc else .glob)
  else .glob

def setVarEnv (v : Var) (x : Val) (e : Env) : Env := { e with var := Snap.fupd e.var v (some x) }
def setFontEnv (f : Nat) (e : Env) : Env := { e with font := f }
def setCmdEnv (t : CTarget) (c : Cmd) (e : Env) : Env :=
  match t with
  | .cs n => { e with cs := Snap.fupd e.cs n (some c) }
  | .act ch => { e with act := Snap.fupd e.act ch (some c) }

def getCmd (e : Env) : CTarget → Option Cmd
  | .cs n => e.cs n
  | .act c => e.act c

def resolveDef (e : Env) : Def → Option Cmd
  | .mac n => some (.mac n)
  | .gmac n => some (.mac n)
  | .chr c => some (.chr c)
  | .mchr n => some (.mchr n)
  | .cdef i => some (.alias ⟨.count, i⟩)
  | .tdef i => some (.alias ⟨.toks, i⟩)
  | .ltok c => some (.tok c)
  | .lbuiltin c => some c
  | .lcs src => getCmd e src

def readTarget (e : Env) : Target → Out
  | .var v => .val (e.var v)
  | .cmd t =>
    let c := getCmd e t
    .cmd c (match c with
      | some (.alias v) => e.var v
      | _ => none)
  | .font => .fnt e.font

def step (s : Spec) : Op → Spec × Out
  | .beginGroup => ({ cur := s.cur, saved := s.cur :: s.saved }, .unit)
  | .endGroup =>
    match s.saved with
    | [] => (s, .errNoGroup)
    | e :: rest => ({ cur := e, saved := rest }, .unit)
  | .assign pre v x => (s.update (effScope s.globalDefs pre) (setVarEnv v x), .unit)
  | .define pre t d =>
    match resolveDef s.cur d with
    | none => (s, .unit)
    | some c => (s.update (defScope d (effScope s.globalDefs pre)) (setCmdEnv t c), .unit)
  | .selectFont pre f => (s.update (effScope s.globalDefs pre) (setFontEnv f), .unit)
  | .read t => (s, readTarget s.cur t)

def run : Spec → List Op → Spec × List Out
  | s, [] => (s, [])
  | s, op :: ops =>
    let r := s.step op
    if r.2.fatal then (r.1, [r.2])
    else
      let rs := run r.1 ops
      (rs.1, r.2 :: rs.2)

end Spec

/-! ## Vocabulary of the corollaries (`close_restores`, `global_survives`) -/

/-- The value of a target: a variable's value, a command's meaning, the current font. -/
inductive TVal where
  | v (o : Option Val)
  | c (o : Option Cmd)
  | f (n : Nat)
  deriving DecidableEq, Repr

/-- Value of a target in the VM (the *meaning* of a command name, not what an alias points at). -/
def valOf (m : VMState) : Target → TVal
  | .var x => .v (alookup m.vars x)
  | .cmd t => .c (getCmd m t)
  | .font => .f m.font

/-- Value of a target in an environment. -/
def Env.valOf (e : Env) : Target → TVal
  | .var x => .v (e.var x)
  | .cmd t => .c (Spec.getCmd e t)
  | .font => .f e.font

/-- Well-bracketed programs: every `}` closes a `{` of the same program. -/
inductive Bal : List Op → Prop where
  | nil : Bal []
  | assign (pre : Nat) (v : Var) (x : Val) {l : List Op} : Bal l → Bal (.assign pre v x :: l)
  | define (pre : Nat) (t : CTarget) (d : Def) {l : List Op} : Bal l → Bal (.define pre t d :: l)
  | selectFont (pre f : Nat) {l : List Op} : Bal l → Bal (.selectFont pre f :: l)
  | read (t : Target) {l : List Op} : Bal l → Bal (.read t :: l)
  | group {a b : List Op} : Bal a → Bal b → Bal (.beginGroup :: (a ++ .endGroup :: b))

namespace Spec

/-- The target an operation assigns **globally** in state `s` (by TeX's rule: its own `\global`
prefix and the current `\globaldefs`; `\gdef` always), if any. -/
def globalTarget (s : Spec) : Op → Option Target
  | .assign pre v _ => match effScope s.globalDefs pre with | .glob => some (.var v) | .loc => none
  | .selectFont pre _ => match effScope s.globalDefs pre with | .glob => some .font | .loc => none
  | .define pre t d =>
    match resolveDef s.cur d with
    | none => none
    | some _ => match defScope d (effScope s.globalDefs pre) with | .glob => some (.cmd t) | .loc => none
  | _ => none

/-- All targets assigned globally while `ops` run from `s`. -/
def globals : Spec → List Op → List Target
  | _, [] => []
  | s, op :: ops =>
    match globalTarget s op with
    | none => globals (s.step op).1 ops
    | some t => t :: globals (s.step op).1 ops

end Spec

/-- The operation does not assign `\globaldefs`. -/
def Op.noGlobaldefs : Op → Bool
  | .assign _ v _ => decide (v ≠ globaldefsVar)
  | _ => true

/-- The operation is written without `\global`, is not `\gdef`, and does not assign `\globaldefs`. -/
def Op.plain : Op → Bool
  | .assign pre v _ => decide (pre = 0) && decide (v ≠ globaldefsVar)
  | .define pre _ d => decide (pre = 0) && (match d with | .gmac _ => false | _ => true)
  | .selectFont pre _ => decide (pre = 0)
  | _ => true

/-! ## TeX's `\let` from an undefined name (known finding C01-d) -/

namespace Spec

/-- Give `t` the undefined meaning. -/
def unsetCmdEnv (t : CTarget) (e : Env) : Env :=
  match t with
  | .cs n => { e with cs := Snap.fupd e.cs n none }
  | .act ch => { e with act := Snap.fupd e.act ch none }

/-- `op` is a `\let` whose source has no meaning in `s`. -/
def undefLet (s : Spec) : Op → Bool
  | .define _ _ d => (resolveDef s.cur d).isNone
  | _ => false

/-- TeX's step: as `step`, except that `\let t=<undefined name>` makes `t` undefined, locally or
globally like any other assignment (TeX §1221: `eq_define`/`geq_define` with `undefined_cs`). -/
def stepTeX (s : Spec) (op : Op) : Spec × Out :=
  match op with
  | .define pre t d =>
    match resolveDef s.cur d with
    | none => (s.update (defScope d (effScope s.globalDefs pre)) (unsetCmdEnv t), .unit)
    | some _ => s.step op
  | _ => s.step op

def runTeX : Spec → List Op → Spec × List Out
  | s, [] => (s, [])
  | s, op :: ops =>
    let r := s.stepTeX op
    if r.2.fatal then (r.1, [r.2])
    else
      let rs := runTeX r.1 ops
      (rs.1, r.2 :: rs.2)

/-- The program never executes a `\let` from an undefined name (decidable, computed along the run). -/
def noUndefLet : Spec → List Op → Bool
  | _, [] => true
  | s, op :: ops =>
    !(undefLet s op) && (if (s.step op).2.fatal then true else noUndefLet (s.step op).1 ops)

end Spec

/-! ## The input side: items whose effect depends on the current state

The programs above (`List Op`) fix in advance which tokens open and close groups. In the real VM
that is decided token by token from *scoped* state: a character opens a group iff its **current**
category code is 1 (`Value::BeginGroup`, vm/mod.rs:227-231; the lexer asks
`TexlangState::cat_code` lazily, character by character), closes one iff it is 2, and a control
sequence or active character that was `\let` to a character token (`Command::CharacterTokenAlias`,
vm/mod.rs:180-184: the stored token is put back) acts like that token with the category code it
had **when the `\let` ran**. `Item`s are the surface programs; `elabItem` is the modelled dispatch
from an item to an `Op` (or to a typeset character) in the current state. A character token value
is coded `c + 256 * catcode` in `Cmd.tok` / `Def.ltok`. -/

/-- `CatCode::PLAIN_TEX_DEFAULTS` on the characters the surface programs use: `{` 1, `}` 2,
letters 11, the others (`[ ] < > …`) 12. -/
def defaultCat (c : Nat) : Nat :=
  if c = 123 then 1
  else if c = 125 then 2
  else if (65 ≤ c ∧ c ≤ 90) ∨ (97 ≤ c ∧ c ≤ 122) then 11
  else 12

def tokCode (c cat : Nat) : Nat := c + 256 * cat

/-- `codes::cat_code(state, c)`: the current `\catcode` of `c`. -/
def catOf (m : VMState) (c : Nat) : Nat :=
  match alookup m.vars ⟨.catcode, c⟩ with
  | some x => x.toNat
  | none => defaultCat c

inductive Item where
  | op (o : Op)                                   -- anything of the op language, written as before
  | chr (c : Nat)                                 -- the character `c` typed in the source
  | exec (t : CTarget)                            -- the name `t` used as a command
  | letChr (pre : Nat) (t : CTarget) (c : Nat)    -- `\let t=<the character c>` (category code as of now)
  deriving DecidableEq, Repr

/-- What an item turns out to be. -/
inductive Elab where
  | op (o : Op)
  | out (o : Out)      -- no effect on the state; `unit` = the harness does not write the item
  deriving DecidableEq, Repr

/-- A character token in the main loop (vm/mod.rs:227-239): category 1 begins a group, 2 ends one,
anything else goes to the character handler (typeset: reported as the token). -/
def charAction (c cat : Nat) : Elab :=
  if cat = 1 then .op .beginGroup
  else if cat = 2 then .op .endGroup
  else .out (.cmd (some (.tok (tokCode c cat))) none)

def elabItem (cat : Nat → Nat) (meaning : CTarget → Option Cmd) : Item → Elab
  | .op o => .op o
  | .chr c => charAction c (cat c)
  | .exec t =>
    match meaning t with
    | some (.tok code) => charAction (code % 256) (code / 256)   -- the aliased token is put back
    | some (.font f) => .op (.selectFont 0 f)                   -- `Command::Font`
    | _ => .out .unit                                           -- (macros, variables, …: not written)
  | .letChr pre t c => .op (.define pre t (.ltok (tokCode c (cat c))))

def stepItem (cfg : Variant) (m : VMState) (it : Item) : VMState × Out :=
  match elabItem (catOf m) (getCmd m) it with
  | .op o => step cfg m o
  | .out o => (m, o)

def runItems (cfg : Variant) : VMState → List Item → VMState × List Out
  | m, [] => (m, [])
  | m, it :: its =>
    let r := stepItem cfg m it
    if r.2.fatal then (r.1, [r.2])
    else
      let rs := runItems cfg r.1 its
      (rs.1, r.2 :: rs.2)

namespace Spec

def catOf (e : Env) (c : Nat) : Nat :=
  match e.var ⟨.catcode, c⟩ with
  | some x => x.toNat
  | none => defaultCat c

/-- The specification reads an item in its current environment. -/
def stepItem (s : Spec) (it : Item) : Spec × Out :=
  match elabItem (catOf s.cur) (getCmd s.cur) it with
  | .op o => s.step o
  | .out o => (s, o)

def runItems : Spec → List Item → Spec × List Out
  | s, [] => (s, [])
  | s, it :: its =>
    let r := s.stepItem it
    if r.2.fatal then (r.1, [r.2])
    else
      let rs := runItems r.1 its
      (rs.1, r.2 :: rs.2)

/-- … and with TeX's `\let` from an undefined name (C01-d). -/
def stepItemTeX (s : Spec) (it : Item) : Spec × Out :=
  match elabItem (catOf s.cur) (getCmd s.cur) it with
  | .op o => s.stepTeX o
  | .out o => (s, o)

def runItemsTeX : Spec → List Item → Spec × List Out
  | s, [] => (s, [])
  | s, it :: its =>
    let r := s.stepItemTeX it
    if r.2.fatal then (r.1, [r.2])
    else
      let rs := runItemsTeX r.1 its
      (rs.1, r.2 :: rs.2)

/-- No item of the program turns out to be a `\let` from an undefined name. -/
def noUndefLetItems : Spec → List Item → Bool
  | _, [] => true
  | s, it :: its =>
    (match elabItem (catOf s.cur) (getCmd s.cur) it with
      | .op o => !(undefLet s o)
      | .out _ => true) &&
    (if (s.stepItem it).2.fatal then true else noUndefLetItems (s.stepItem it).1 its)

end Spec

/-! ## Two code variants that the mutation sweep could not tell from the code (mutants 15, 29) -/

/-- Mutant 15: `VM::begin_group` pushes `Some(current_font)` instead of `None`. -/
def beginGroupEager (m : VMState) : VMState :=
  let m1 := mapBeginGroup .fixed m
  { m1 with save := [] :: m1.save, fontSave := some m1.font :: m1.fontSave }

def stepEager (m : VMState) : Op → VMState × Out
  | .beginGroup => (beginGroupEager m, .unit)
  | op => step .fixed m op

def runEager : VMState → List Op → VMState × List Out
  | m, [] => (m, [])
  | m, op :: ops =>
    let r := stepEager m op
    if r.2.fatal then (r.1, [r.2])
    else
      let rs := runEager r.1 ops
      (rs.1, r.2 :: rs.2)

/-- Mutant 29: a definition primitive calls the scope hook *after* it has parsed (resolved) its
arguments. -/
def defineLate (cfg : Variant) (m0 : VMState) (pre : Nat) (t : CTarget) (d : Def) : Option VMState :=
  if pre ≠ 0 ∧ needsFixC d ∧ cfg.fixC = false then none
  else
    let m1 := applyPrefix pre m0
    match resolveDef m1 d with
    | none => some (readAndResetGlobal m1).2
    | some c =>
      let r := readAndResetGlobal m1
      some (insertCmd r.2 t c (defScope d r.1))

end C01
