import TexcraftModel.Model.C13

/-!
C13 — the trie *as coded* (`mod trie` of `crates/hyphenate/src/lib.rs`): numbered vertices,
one map from `(Vertex, Edge)` to `(Vertex, Option<Value>)`, a counter for fresh vertices, the
root `Vertex(u32::MAX)`; and `Hyphenator` on top of it (`cBuild`, `cAggregateScores`,
`cCalculateIndices`). This is the model the driver executes. `Props/C13.lean` proves that it
computes exactly what the prefix-map model of `Model/C13.lean` computes (`trie_refines_*`), so
the prefix map is a theorem, not a modelling choice.

The `HashMap` is an association list without duplicate keys (an insertion only happens
after a failed lookup); vertex numbers are `Nat`, and the theorems carry the hypothesis
that fewer than `u32::MAX` vertices are allocated (beyond that `next_vertex.0 + 1`
overflows: a panic in this build profile, a collision with the root otherwise).
Core Lean only.
-/
namespace C13

abbrev CMap := List ((Nat × Edge) × (Nat × Option Nat))

structure CTrie where
  /-- `m: HashMap<(Vertex, Edge), (Vertex, Option<Value>)>` -/
  m : CMap := []
  /-- `next_vertex` -/
  next : Nat := 0

/-- `Trie::root()`: `Vertex(u32::MAX)`. -/
def rootV : Nat := 4294967295

def assoc : CMap → Nat × Edge → Option (Nat × Option Nat)
  | [], _ => none
  | (k', x) :: r, k => if k' = k then some x else assoc r k

/-- `Trie::next_or`. -/
def CTrie.nextOr (t : CTrie) (v : Nat) (e : Edge) : Option (Nat × Option Nat) := assoc t.m (v, e)

/-- `Trie::next`: `entry((current, edge)).or_insert_with(|| (fresh vertex, None))`; returns the
vertex (the `&mut Option<Value>` is the entry with key `(current, edge)`). -/
def CTrie.next' (t : CTrie) (v : Nat) (e : Edge) : CTrie × Nat :=
  match assoc t.m (v, e) with
  | some (v', _) => (t, v')
  | none => ({ m := ((v, e), (t.next, none)) :: t.m, next := t.next + 1 }, t.next)

/-- `*value = Some(Value(off))` through the `&mut` returned by the `next` call with key `k`. -/
def setVal (m : CMap) (k : Nat × Edge) (off : Nat) : CMap :=
  m.map (fun kx => if kx.1 = k then (kx.1, (kx.2.1, some off)) else kx)

/-- The successive `(vertex, value) = self.patterns.next(vertex, edge)` calls of one pattern or
exception; `last` = key of the entry `value` points to (`none`: the dummy `empty_value`). -/
def insertPath : CTrie → Nat → List Edge → Option (Nat × Edge) → CTrie × Option (Nat × Edge)
  | t, _, [], last => (t, last)
  | t, v, e :: es, _ => insertPath (t.next' v e).1 (t.next' v e).2 es (some (v, e))

def cAddPath (t : CTrie) (path : List Edge) (off : Nat) : CTrie :=
  match insertPath t rootV path none with
  | (t', none) => t'
  | (t', some k) => { t' with m := setVal t'.m k off }

structure CHyph where
  data : List Nat := []
  trie : CTrie := {}

/-- End of one `load_patterns` iteration: `guard = true` is the code (`holds_exception`: the
value of a vertex that holds an exception is kept), `guard = false` the code before
`fixes/C13-b.patch` (only used by the driver to recognise finding C13-b). -/
def entryHoldsExc (data : List Nat) : Option (Nat × Option Nat) → Bool
  | some (_, some o) => isExcAt data o
  | _ => false

def cAddPathG (guard : Bool) (t : CTrie) (data : List Nat) (path : List Edge) (off : Nat) : CTrie :=
  match insertPath t rootV path none with
  | (t', none) => t'
  | (t', some k) =>
    if guard && entryHoldsExc data (assoc t'.m k) then t' else { t' with m := setVal t'.m k off }

def cLoadPatternG (guard : Bool) (h : CHyph) (p : List Char) : CHyph :=
  { data := h.data ++ (patOps p).1,
    trie := cAddPathG guard h.trie h.data (patOps p).2 h.data.length }

def cLoadPattern (h : CHyph) (p : List Char) : CHyph := cLoadPatternG true h p

def cInsertException (h : CHyph) (e : List Char) : CHyph :=
  let r := excScan e [excNo] [.start]
  { data := h.data ++ r.1 ++ [10], trie := cAddPath h.trie (r.2 ++ [.stop]) h.data.length }

def cBuild (ps es : List (List Char)) : CHyph :=
  es.foldl cInsertException (ps.foldl cLoadPattern {})

/-- `let Some(pattern) = pattern else { continue }; for_each(Pattern{data: &self.data[pattern.0..]})` -/
def cVisit (h : CHyph) (off : Nat) (val : Option Nat) (s : List Nat) : Option (List Nat) :=
  match val with
  | none => some s
  | some o => applyOps (h.data.drop o) off s

/-- The `process` closure, walking by vertex numbers. -/
def cProcess (h : CHyph) (lc : Char → Option Char) (off : Nat) :
    Nat → List Char → List Nat → Option (List Nat)
  | v, [], s =>
    match h.trie.nextOr v .stop with
    | none => some s
    | some x => cVisit h off x.2 s
  | v, c :: cs, s =>
    match lc c with
    | none => some s
    | some l =>
      match h.trie.nextOr v (.ch l) with
      | none => some s
      | some x =>
        match cVisit h off x.2 s with
        | none => none
        | some s' => cProcess h lc off x.1 cs s'

def cOffsets (h : CHyph) (lc : Char → Option Char) : Nat → List Char → List Nat → Option (List Nat)
  | _, [], s => some s
  | off, c :: cs, s =>
    match lc c with
    | none => some s
    | some _ =>
      match cProcess h lc off rootV (c :: cs) s with
      | none => none
      | some s' => cOffsets h lc (off + 1) cs s'

def cForEachPattern (h : CHyph) (lc : Char → Option Char) (w : List Char) (s : List Nat) :
    Option (List Nat) :=
  match (match h.trie.nextOr rootV .start with
         | some x => cProcess h lc 0 x.1 w s
         | none => some s) with
  | none => none
  | some s' => cOffsets h lc 0 w s'

def cAggregateScores (h : CHyph) (lc : Char → Option Char) (w : List Char) : Option (List Nat) :=
  match cForEachPattern h lc w (List.replicate (byteLen w + 1) 0) with
  | none => none
  | some s => some ((s.set 0 0).take w.length)

def cCalculateIndices (h : CHyph) (lc : Char → Option Char) (w : List Char) : Option (List Nat) :=
  (cAggregateScores h lc w).map (oddIdx 0)

/-- Number of `next` calls of a whole build: an upper bound for the vertices allocated. -/
def edgeCount (ps es : List (List Char)) : Nat :=
  (ps.map (fun p => (patOps p).2.length)).sum +
  (es.map (fun e => (excScan e [excNo] [.start]).2.length + 1)).sum

end C13
