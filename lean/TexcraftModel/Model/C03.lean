/-
C03 — the lexer and the tracer.

M (namespace `C03`, sections "model"): a clause-by-clause transcription of
`crates/texlang/src/token/lexer.rs` (`RawLexer::{start_new_line,end_line,next,peek,advance,
maybe_apply_caret_notation}`, `Lexer::{next,read_control_sequence}`) and of
`crates/texlang/src/token/trace.rs` (`KeyRange::{next,peek,advance_by}`,
`Tracer::{register_source_code,trace}`) over `List Char`.  Every index the public API reports
is a character index; byte positions occur only inside `RawLexer` (lemma `byteLen_append`
etc. in `Lemmas/C03.lean` ties them to whole characters).  The model describes the code
*with* `fixes/C03-a.patch` and `fixes/C03-b.patch` applied.

S (namespace `C03.Spec`): TeX82 §343–§356 over lines, written without keys, counters or a
step machine: the source is split into lines, every line is right-trimmed and gets the
end-line character, and is then scanned from state N; every item carries the line number,
the column and the text of the source line it started at.

Core Lean only.
-/
namespace C03

/-! ## Shared vocabulary -/

inductive CatCode
  | escape | beginGroup | endGroup | mathShift | alignmentTab | endOfLine | parameter
  | superscript | subscript | ignored | space | letter | other | active | comment | invalid
  deriving DecidableEq, Repr, Inhabited

def CatCode.code : CatCode → Nat
  | .escape => 0 | .beginGroup => 1 | .endGroup => 2 | .mathShift => 3 | .alignmentTab => 4
  | .endOfLine => 5 | .parameter => 6 | .superscript => 7 | .subscript => 8 | .ignored => 9
  | .space => 10 | .letter => 11 | .other => 12 | .active => 13 | .comment => 14 | .invalid => 15

def CatCode.ofCode : Nat → CatCode
  | 0 => .escape | 1 => .beginGroup | 2 => .endGroup | 3 => .mathShift | 4 => .alignmentTab
  | 5 => .endOfLine | 6 => .parameter | 7 => .superscript | 8 => .subscript | 9 => .ignored
  | 10 => .space | 11 => .letter | 13 => .active | 14 => .comment | 15 => .invalid
  | _ => .other

/-- The lexer configuration (`lexer::Config`): sampled at every use. -/
structure Cfg where
  cat : Char → CatCode
  endline : Option Char

/-- Token values (`token::Value`): a character with one of the ten character categories, an
active character, or a control sequence (by name). -/
inductive Tok
  | chr (c : Char) (cat : CatCode)
  | active (c : Char)
  | cs (name : List Char)
  deriving DecidableEq, Repr

/-- One result of `Lexer::next` (`lexer::Result`), parametrised by what a position is: a trace
key (a `Nat`) in the model, a `Pos` in the specification.  `panic` stands for a Rust panic,
`fuel` for an exhausted recursion budget (proved unreachable). -/
inductive Res (P : Type)
  | token (t : Tok) (p : P)
  | invalid (c : Char) (p : P)
  | endOfLine
  | endOfInput
  | panic
  | fuel
  deriving DecidableEq, Repr

def Res.map {P Q : Type} (f : P → Q) : Res P → Res Q
  | .token t p => .token t (f p)
  | .invalid c p => .invalid c (f p)
  | .endOfLine => .endOfLine
  | .endOfInput => .endOfInput
  | .panic => .panic
  | .fuel => .fuel

/-- The position a result carries, if any. -/
def Res.pos? {P : Type} : Res P → Option P
  | .token _ p => some p
  | .invalid _ p => some p
  | _ => none

/-- What `Tracer::trace` reports: line number (from 1), column (characters, from 0), and the
text of that line. -/
structure Pos where
  line : Nat
  col : Nat
  text : List Char
  deriving DecidableEq, Repr

/-- NewLine / MidLine / SkipBlanks (TeX's N, M, S). -/
inductive St | newLine | midLine | skipBlanks
  deriving DecidableEq, Repr

/-- `^^c`: `c + 64` below 64, `c - 64` from 64 (TeX §352; lexer.rs `0x00..=0x3F => u + 0x40`). -/
def caretChar (c : Char) : Char :=
  if c.toNat < 64 then Char.ofNat (c.toNat + 64) else Char.ofNat (c.toNat - 64)

/-- Value of a lower-case hexadecimal digit (TeX §352 `is_hex`). -/
def hexVal (c : Char) : Option Nat :=
  if 48 ≤ c.toNat ∧ c.toNat ≤ 57 then some (c.toNat - 48)
  else if 97 ≤ c.toNat ∧ c.toNat ≤ 102 then some (c.toNat - 87)
  else none

def parName : List Char := ['p', 'a', 'r']

/-! ## M: the model of `RawLexer` -/

/-- `RawLexer`, in characters.  `rest` = `source_code[next_line..]`, `line` =
`current_line[pos..]` (reductions are written into its head), `key`/`limit` = the
`KeyRange` relative to the first key of the source, `trimmed` = `num_trimmed_right`. -/
structure Raw where
  rest : List Char
  line : List Char
  key : Nat
  limit : Nat
  trimmed : Nat
  deriving Repr

/-- The `for c in self.source_code[self.next_line..].chars()` loop of `start_new_line`:
returns (`source_code[start..end]`, `num_spaces`, the source after `next_line`). -/
def scanLineGo (acc : List Char) (pending : Nat) : List Char → List Char × Nat × List Char
  | [] => (acc, pending, [])
  | c :: t =>
    if c = '\n' then (acc, pending + 1, t)
    else if c = ' ' then scanLineGo acc (pending + 1) t
    else scanLineGo (acc ++ List.replicate pending ' ' ++ [c]) 0 t

/-- `RawLexer::end_line`. -/
def Raw.endLine (r : Raw) : Raw :=
  { r with key := r.key + r.line.length, line := [] }

/-- `RawLexer::start_new_line`. -/
def Raw.startNewLine (cfg : Cfg) (r : Raw) : Bool × Raw :=
  let key := r.key + r.line.length + r.trimmed
  match r.rest with
  | [] => (false, { r with key := key, line := [] })
  | c :: t =>
    match scanLineGo [] 0 (c :: t) with
    | (content, nsp, rest') =>
      match cfg.endline with
      | none => (true, { r with key := key, line := content, trimmed := nsp, rest := rest' })
      | some e =>
        (true, { r with key := key, line := content ++ [e], trimmed := nsp - 1, rest := rest' })

/-- Result of `RawLexer::next`. -/
inductive Nx
  | eol
  | panic
  | got (c : Char) (key : Nat) (r : Raw)

/-- `RawLexer::next` (`KeyRange::next` panics when the range is used up). -/
def Raw.next (r : Raw) : Nx :=
  match r.line with
  | [] => .eol
  | c :: l =>
    if r.key < r.limit then .got c r.key { r with line := l, key := r.key + 1 } else .panic

/-- Result of `maybe_apply_caret_notation`. -/
inductive Cr
  | no
  | panic
  | yes (r : Raw)

/-- `RawLexer::maybe_apply_caret_notation` (with C03-a and C03-b repaired): `skip` = 0 when
`char_1` was consumed, 1 when it was only peeked.  `advance` is called `skip + 1` times
(`skip + 2` for the hex form), each of which asks the key range for a key. -/
def Raw.caret (r : Raw) (c1 : Char) (consumed : Bool) : Cr :=
  let skip := if consumed then 0 else 1
  match r.line.drop skip with
  | c2 :: c3 :: l3 =>
    if c2 ≠ c1 then .no
    else if 128 ≤ c3.toNat then .no
    else
      match hexVal c3, l3.head?.bind hexVal with
      | some hi, some lo =>
        if r.key + (skip + 2) ≤ r.limit then
          .yes { r with key := r.key + (skip + 2), line := Char.ofNat (16 * hi + lo) :: l3.drop 1 }
        else .panic
      | _, _ =>
        if r.key + (skip + 1) ≤ r.limit then
          .yes { r with key := r.key + (skip + 1), line := caretChar c3 :: l3 }
        else .panic
  | _ => .no

/-- Outcome of a helper that can panic or run out of fuel. -/
inductive Out (α : Type)
  | ok (a : α)
  | panic
  | fuel

/-- The `while let Some(raw_token) = self.raw_lexer.peek(config)` loop of
`read_control_sequence`. -/
def readLetters (cfg : Cfg) : Nat → List Char → Raw → Out (List Char × Raw)
  | 0, _, _ => .fuel
  | f + 1, acc, r =>
    match r.line with
    | [] => .ok (acc, r)
    | c :: l =>
      if r.limit ≤ r.key then .panic -- KeyRange::peek
      else
        match cfg.cat c with
        | .letter => readLetters cfg f (acc ++ [c]) { r with line := l, key := r.key + 1 }
        | .superscript =>
          match r.caret c false with
          | .yes r' => readLetters cfg f acc r'
          | .panic => .panic
          | .no => .ok (acc, r)
        | _ => .ok (acc, r)

/-- `Lexer::read_control_sequence`. -/
def readCS (cfg : Cfg) : Nat → Raw → Out (List Char × St × Raw)
  | 0, _ => .fuel
  | f + 1, r =>
    match r.next with
    | .eol => .ok ([], .newLine, r)
    | .panic => .panic
    | .got c _ r1 =>
      match cfg.cat c with
      | .letter =>
        match readLetters cfg (r1.line.length + 1) [c] r1 with
        | .ok (name, r2) => .ok (name, .skipBlanks, r2)
        | .panic => .panic
        | .fuel => .fuel
      | .superscript =>
        match r1.caret c true with
        | .yes r2 => readCS cfg f r2
        | .panic => .panic
        | .no => .ok ([c], .midLine, r1)
      | .space => .ok ([c], .skipBlanks, r1)
      | _ => .ok ([c], .midLine, r1)

/-- `Lexer`. -/
structure Lexer where
  raw : Raw
  st : St
  started : Bool
  deriving Repr

/-- The measure that every iteration of the loop in `Lexer::next` decreases. -/
def Lexer.mu (L : Lexer) : Nat := 3 * L.raw.rest.length + L.raw.line.length

/-- `Lexer::next`: the `loop`, with a fuel argument (`Lexer.next` supplies enough). -/
def Lexer.nextF (cfg : Cfg) (rep : Bool) : Nat → Lexer → Res Nat × Lexer
  | 0, L => (.fuel, L)
  | f + 1, L =>
    match L.raw.next with
    | .eol =>
      match L.raw.startNewLine cfg with
      | (more, raw) =>
        let L1 : Lexer := { L with raw := raw, st := .newLine }
        if !more then (.endOfInput, L1)
        else if rep then
          if L.started then (.endOfLine, L1) else Lexer.nextF cfg rep f { L1 with started := true }
        else Lexer.nextF cfg rep f L1
    | .panic => (.panic, L)
    | .got c key raw =>
      match cfg.cat c with
      | .escape =>
        match readCS cfg (raw.line.length + 1) raw with
        | .ok (name, st, raw') => (.token (.cs name) key, { L with raw := raw', st := st })
        | .panic => (.panic, { L with raw := raw })
        | .fuel => (.fuel, { L with raw := raw })
      | .endOfLine =>
        match L.st with
        | .newLine => (.token (.cs parName) key, { L with raw := raw.endLine, st := .newLine })
        | .midLine => (.token (.chr ' ' .space) key, { L with raw := raw.endLine, st := .newLine })
        | .skipBlanks => Lexer.nextF cfg rep f { L with raw := raw.endLine }
      | .space =>
        match L.st with
        | .midLine => (.token (.chr ' ' .space) key, { L with raw := raw, st := .skipBlanks })
        | _ => Lexer.nextF cfg rep f { L with raw := raw }
      | .superscript =>
        match raw.caret c true with
        | .yes raw' => Lexer.nextF cfg rep f { L with raw := raw' }
        | .panic => (.panic, { L with raw := raw })
        | .no => (.token (.chr c .superscript) key, { L with raw := raw, st := .midLine })
      | .comment => Lexer.nextF cfg rep f { L with raw := raw.endLine }
      | .ignored => Lexer.nextF cfg rep f { L with raw := raw }
      | .invalid => (.invalid c key, { L with raw := raw })
      | .active => (.token (.active c) key, { L with raw := raw, st := .midLine })
      | cc => (.token (.chr c cc) key, { L with raw := raw, st := .midLine })

def Lexer.next (cfg : Cfg) (rep : Bool) (L : Lexer) : Res Nat × Lexer :=
  Lexer.nextF cfg rep (L.mu + 1) L

/-- Call `Lexer::next` until it reports the end of the input (or panics). -/
def lexAllF (cfg : Cfg) (rep : Bool) : Nat → Lexer → List (Res Nat)
  | 0, _ => [.fuel]
  | f + 1, L =>
    match L.next cfg rep with
    | (.endOfInput, _) => [.endOfInput]
    | (.panic, _) => [.panic]
    | (.fuel, _) => [.fuel]
    | (r, L') => r :: lexAllF cfg rep f L'

/-- `char::len_utf8`. -/
def utf8Len (c : Char) : Nat :=
  if c.toNat < 128 then 1 else if c.toNat < 2048 then 2 else if c.toNat < 65536 then 3 else 4

/-- `str::len` (bytes). -/
def byteLen : List Char → Nat
  | [] => 0
  | c :: t => utf8Len c + byteLen t

/-- Number of keys `Tracer::register_source_code` puts in the range. -/
def keyLimit (src : List Char) : Nat :=
  if byteLen src = 0 then 1 else byteLen src + 1

/-- `Lexer::new` on a freshly registered source. -/
def Lexer.init (src : List Char) : Lexer :=
  { raw := { rest := src, line := [], key := 0, limit := keyLimit src, trimmed := 0 },
    st := .newLine, started := false }

def lexAll (cfg : Cfg) (rep : Bool) (src : List Char) : List (Res Nat) :=
  lexAllF cfg rep ((Lexer.init src).mu + 2) (Lexer.init src)

/-! ## M: the model of `Tracer::trace` (one registered source; keys relative to its first key) -/

/-- The `for (char_index, (byte_index, c)) in content.char_indices().enumerate()` loop:
arguments are the wanted offset, the index, the line number, the index of the line start, the
content from the line start, the content from the index. -/
def traceLoop (off : Nat) : Nat → Nat → Nat → List Char → List Char → Nat × Nat × List Char
  | _, ln, ls, tail, [] => (ln, ls, tail)
  | i, ln, ls, tail, c :: t =>
    if i = off then (ln, ls, tail)
    else if c = '\n' then traceLoop off (i + 1) (ln + 1) (i + 1) t t
    else traceLoop off (i + 1) ln ls tail t

/-- `Tracer::trace`: line number, index in the line, line content. -/
def trace (src : List Char) (key : Nat) : Pos :=
  match traceLoop key 0 1 0 src src with
  | (ln, ls, tail) => ⟨ln, key - ls, tail.takeWhile (· ≠ '\n')⟩

/-- A text made of complete lines: each line followed by its newline. -/
def joined (ls : List (List Char)) : List Char := (ls.map (· ++ ['\n'])).flatten

/-- What a user observes: every result with its trace. -/
def lexTraced (cfg : Cfg) (rep : Bool) (src : List Char) : List (Res Pos) :=
  (lexAll cfg rep src).map (Res.map (trace src))

/-! ## S: TeX §343–§356 over lines -/
namespace Spec

/-- The lines of a text: `'\n'` terminates a line (a final newline does not start another). -/
def splitLinesAux : List Char → List Char → List (List Char)
  | cur, [] => if cur = [] then [] else [cur]
  | cur, c :: t => if c = '\n' then cur :: splitLinesAux [] t else splitLinesAux (cur ++ [c]) t

/- `cur = []` at the end only happens for the empty text and directly after a newline. -/
def splitLines (src : List Char) : List (List Char) := splitLinesAux [] src

/-- Remove the blanks (character 32) at the right end (§31 `last_nonblank`). -/
def trimRight : List Char → List Char
  | [] => []
  | c :: t =>
    let r := trimRight t
    if c = ' ' ∧ r = [] then [] else c :: r

/-- The buffer TeX scans for a source line: trimmed, plus the end-line character (§360). -/
def buffer (cfg : Cfg) (l : List Char) : List Char :=
  trimRight l ++ cfg.endline.toList

def isHex (c : Char) : Bool :=
  (decide ('0' ≤ c) && decide (c ≤ '9')) || (decide ('a' ≤ c) && decide (c ≤ 'f'))

def hexDigit (c : Char) : Nat := if c ≤ '9' then c.toNat - '0'.toNat else c.toNat - 'a'.toNat + 10

/-- §352/§355: an expanded code `^^c` or `^^xy` after a superscript character `c`: the
reduced character, what follows the code, and how many characters further right the last
character of the code is. -/
def expanded (c : Char) (l : List Char) : Option (Char × List Char × Nat) :=
  match l with
  | c2 :: c3 :: l3 =>
    if c2 = c ∧ c3.toNat < 128 then
      match l3 with
      | c4 :: l4 =>
        if isHex c3 ∧ isHex c4 then some (Char.ofNat (16 * hexDigit c3 + hexDigit c4), l4, 3)
        else some (if c3.toNat < 64 then Char.ofNat (c3.toNat + 64) else Char.ofNat (c3.toNat - 64), l3, 2)
      | [] => some (if c3.toNat < 64 then Char.ofNat (c3.toNat + 64) else Char.ofNat (c3.toNat - 64), [], 2)
    else none
  | _ => none

/-- §356: more letters of a control sequence name, reducing expanded codes on the way.
Returns the name, the rest of the buffer and the column of the rest. -/
def moreLetters (cfg : Cfg) : Nat → List Char → List Char → Nat → Option (List Char × List Char × Nat)
  | 0, _, _, _ => none
  | f + 1, acc, l, col =>
    match l with
    | [] => some (acc, [], col)
    | c :: t =>
      if cfg.cat c = .letter then moreLetters cfg f (acc ++ [c]) t (col + 1)
      else if cfg.cat c = .superscript then
        match expanded c t with
        | some (c', t', n) => moreLetters cfg f acc (c' :: t') (col + n)
        | none => some (acc, l, col)
      else some (acc, l, col)

/-- §354: the control sequence after an escape character: name, next state, rest, column. -/
def csName (cfg : Cfg) : Nat → List Char → Nat → Option (List Char × St × List Char × Nat)
  | 0, _, _ => none
  | f + 1, l, col =>
    match l with
    | [] => some ([], .newLine, [], col)
    | c :: t =>
      if cfg.cat c = .letter then
        match moreLetters cfg (t.length + 1) [c] t (col + 1) with
        | some (name, t', col') => some (name, .skipBlanks, t', col')
        | none => none
      else if cfg.cat c = .superscript then
        match expanded c t with
        | some (c', t', n) => csName cfg f (c' :: t') (col + n)
        | none => some ([c], .midLine, t, col + 1)
      else some ([c], if cfg.cat c = .space then .skipBlanks else .midLine, t, col + 1)

/-- §344–§353: scan a buffer from a state; every item carries the column it started at (for an
expanded code: the column of the last character of the code). -/
def scan (cfg : Cfg) : Nat → St → List Char → Nat → List (Res Nat)
  | 0, _, _, _ => [.fuel]
  | f + 1, st, l, col =>
    match l with
    | [] => []
    | c :: t =>
      match cfg.cat c with
      | .escape =>
        match csName cfg (t.length + 1) t (col + 1) with
        | some (name, st', t', col') => .token (.cs name) col :: scan cfg f st' t' col'
        | none => [.fuel]
      | .endOfLine =>
        match st with
        | .newLine => [.token (.cs parName) col]
        | .midLine => [.token (.chr ' ' .space) col]
        | .skipBlanks => []
      | .space =>
        match st with
        | .midLine => .token (.chr ' ' .space) col :: scan cfg f .skipBlanks t (col + 1)
        | _ => scan cfg f st t (col + 1)
      | .superscript =>
        match expanded c t with
        | some (c', t', n) => scan cfg f st (c' :: t') (col + n)
        | none => .token (.chr c .superscript) col :: scan cfg f .midLine t (col + 1)
      | .comment => []
      | .ignored => scan cfg f st t (col + 1)
      | .invalid => .invalid c col :: scan cfg f st t (col + 1)
      | .active => .token (.active c) col :: scan cfg f .midLine t (col + 1)
      | cc => .token (.chr c cc) col :: scan cfg f .midLine t (col + 1)

/-- All lines from line number `n` on. -/
def lines (cfg : Cfg) (rep : Bool) : Nat → List (List Char) → List (Res Pos)
  | _, [] => [.endOfInput]
  | n, l :: ls =>
    (if rep ∧ 1 < n then [.endOfLine] else [])
      ++ (scan cfg ((buffer cfg l).length + 1) .newLine (buffer cfg l) 0).map
          (Res.map fun col => ⟨n, col, l⟩)
      ++ lines cfg rep (n + 1) ls

/-- The specification: what a TeX scanner delivers for a source text, with positions. -/
def specAll (cfg : Cfg) (rep : Bool) (src : List Char) : List (Res Pos) :=
  lines cfg rep 1 (splitLines src)

/-! ### S with a configuration that changes between calls (`specSched`)

TeX samples the configuration just in time: `cat_code(c)` when `get_next` looks at the character
`c` (§343 `reswitch`, §354–§356 for every character of a name and the character that ends it —
which is only looked at, not consumed, and is categorised again by the call that consumes it),
and `end_line_char` when a line is brought into the buffer (§360). Commands are executed
between calls of `get_next`, so the configuration is constant during one call and a function of
what has been delivered so far: `sched : List (Res Pos) → Cfg` maps the history of delivered
items to the configuration of the next call. -/

/-- §343–§353 up to the first item: the item, and state / rest of the buffer / column where the
next call resumes; `none` when the buffer is used up (or dropped) without an item. -/
def scan1 (cfg : Cfg) : Nat → St → List Char → Nat → Option (Res Nat × St × List Char × Nat)
  | 0, st, _, col => some (.fuel, st, [], col)
  | f + 1, st, l, col =>
    match l with
    | [] => none
    | c :: t =>
      match cfg.cat c with
      | .escape =>
        match csName cfg (t.length + 1) t (col + 1) with
        | some (name, st', t', col') => some (.token (.cs name) col, st', t', col')
        | none => some (.fuel, st, [], col)
      | .endOfLine =>
        match st with
        | .newLine => some (.token (.cs parName) col, .newLine, [], col + 1 + t.length)
        | .midLine => some (.token (.chr ' ' .space) col, .newLine, [], col + 1 + t.length)
        | .skipBlanks => none
      | .space =>
        match st with
        | .midLine => some (.token (.chr ' ' .space) col, .skipBlanks, t, col + 1)
        | _ => scan1 cfg f st t (col + 1)
      | .superscript =>
        match expanded c t with
        | some (c', t', n) => scan1 cfg f st (c' :: t') (col + n)
        | none => some (.token (.chr c .superscript) col, .midLine, t, col + 1)
      | .comment => none
      | .ignored => scan1 cfg f st t (col + 1)
      | .invalid => some (.invalid c col, st, t, col + 1)
      | .active => some (.token (.active c) col, .midLine, t, col + 1)
      | cc => some (.token (.chr c cc) col, .midLine, t, col + 1)

/-- Where the scanner is between two calls: in line number `n` (0 = no line brought in yet) with
text `text`, state `st`, the unread part `buf` of its buffer starting at column `col`; `rest`
are the lines not yet brought in. -/
structure SState where
  n : Nat
  text : List Char
  st : St
  buf : List Char
  col : Nat
  rest : List (List Char)
  deriving Repr

/-- One call of `get_next` under the configuration `cfg`: the delivered item and the new state.
Lines are brought in (with `cfg`'s end-line character) until one yields an item. -/
def step (cfg : Cfg) (rep : Bool) :
    List (List Char) → Nat → List Char → St → List Char → Nat → Res Pos × SState
  | rest, n, text, st, buf, col =>
    match scan1 cfg (buf.length + 1) st buf col with
    | some (item, st', buf', col') =>
      (item.map (fun c => ⟨n, c, text⟩), ⟨n, text, st', buf', col', rest⟩)
    | none =>
      match rest with
      | [] => (.endOfInput, ⟨n, text, st, [], col, []⟩)
      | l :: ls =>
        if rep ∧ 0 < n then (.endOfLine, ⟨n + 1, l, .newLine, buffer cfg l, 0, ls⟩)
        else step cfg rep ls (n + 1) l .newLine (buffer cfg l) 0

def SState.step (cfg : Cfg) (rep : Bool) (s : SState) : Res Pos × SState :=
  Spec.step cfg rep s.rest s.n s.text s.st s.buf s.col

/-- Call after call, each under the configuration the history determines. -/
def runSched (sched : List (Res Pos) → Cfg) (rep : Bool) : Nat → List (Res Pos) → SState → List (Res Pos)
  | 0, _, _ => [.fuel]
  | f + 1, hist, s =>
    match s.step (sched hist) rep with
    | (.endOfInput, _) => [.endOfInput]
    | (.panic, _) => [.panic]
    | (.fuel, _) => [.fuel]
    | (item, s') => item :: runSched sched rep f (hist ++ [item]) s'

def SState.init (src : List Char) : SState := ⟨0, [], .newLine, [], 0, splitLines src⟩

/-- The specification for a configuration that is a function of what has been delivered. -/
def specSched (sched : List (Res Pos) → Cfg) (rep : Bool) (src : List Char) : List (Res Pos) :=
  runSched sched rep (3 * src.length + 3) [] (SState.init src)

end Spec

/-! ## M with a configuration that changes between calls -/

/-- Call `Lexer::next` until the end of the input, each call with the configuration that the
history of (traced) results determines — what a VM does: it executes what it was given before
it asks for the next token. -/
def lexAllFSched (sched : List (Res Pos) → Cfg) (rep : Bool) (src : List Char) :
    Nat → List (Res Pos) → Lexer → List (Res Pos)
  | 0, _, _ => [.fuel]
  | f + 1, hist, L =>
    match L.next (sched hist) rep with
    | (.endOfInput, _) => [.endOfInput]
    | (.panic, _) => [.panic]
    | (.fuel, _) => [.fuel]
    | (r, L') => r.map (trace src) :: lexAllFSched sched rep src f (hist ++ [r.map (trace src)]) L'

def lexTracedSched (sched : List (Res Pos) → Cfg) (rep : Bool) (src : List Char) : List (Res Pos) :=
  lexAllFSched sched rep src (3 * src.length + 3) [] (Lexer.init src)

end C03
