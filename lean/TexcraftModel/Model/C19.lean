/-!
# C19 — `\input`, `\endinput`, `\read`: files are lines standing in place

Model (M) of the source stack of `crates/texlang/src/vm/mod.rs` (`Internal::push_source`,
`pop_source`, `end_current_file`), `vm/streams.rs` (`stream::next_unexpanded`),
`token/lexer.rs` (`Lexer::end`, `start_new_line`) and of `crates/texlang-stdlib/src/input.rs`
(`input_fn`, `endinput_fn`, `openin_fn`, `closein_fn`, `read_fn`, `drain_line`, `IsEof`).

Lexing is abstracted: a line is the list of tokens the lexer delivers for it (including the
token made from the end-of-line character: a space, `\par`, or nothing).  The harness computes
that list for the restricted vocabulary it generates.

Specification (S): *inlining* (`inline`): `\input f` stands for the lines of `f`, the rest of
the `\input` line resuming after the file; `\endinput` lets the current line finish (TeX §362);
`\read` per TeX §485–§486 (`texReadFile`): a file is its lines followed by an empty line, and
the stream is closed when that empty line has been consumed.

Core Lean only.
-/

namespace C19

/-- Tokens as far as this property cares. `cs n` is any control sequence that is opaque to the
input machinery (`\relax`, `\iftrue`, a user macro, …). -/
inductive Tok where
  | chr (c : Nat)
  | sp
  | bg
  | eg
  | par
  | cs (n : Nat)
  deriving DecidableEq, Repr, Inhabited

/-- What can sit in a macro body / the pending expansion list. -/
inductive Atom where
  | tok (t : Tok)
  | input (f : Nat)     -- `\input f␣` (file name properly terminated)
  | endinput
  deriving DecidableEq, Repr

/-- What can sit in a line of a source file: an atom or the call of a parameterless macro
whose body is pushed onto the pending expansions of the *current* source. -/
inductive Item where
  | atom (a : Atom)
  | call (body : List Atom)
  deriving DecidableEq, Repr

abbrev Line := List Item
abbrev File := List Line
/-- The file system: association list name ↦ lines. -/
abbrev FS := List (Nat × File)

def lookup {α : Type} (fs : List (Nat × α)) (f : Nat) : Option α :=
  match fs with
  | [] => none
  | (g, x) :: r => if g = f then some x else lookup r f

/-! ## M: the source stack (vm/mod.rs `Source`, `Internal.current_source`, `Internal.sources`) -/

/-- `Source { expansions, root: Lexer }`: `pending` = `expansions` (next token first),
`cur` = unread part of `RawLexer.current_line`, `rest` = lines from `next_line` on. -/
structure Source where
  pending : List Atom
  cur : List Item
  rest : List Line
  deriving DecidableEq, Repr

inductive Status where
  | running
  | halted      -- `next_unexpanded` returned `None`: normal end of the run
  | notFound    -- `read_file_to_string` failed: fatal error
  | tooDeep     -- `TooManyInputs`
  deriving DecidableEq, Repr

/-- `srcs.head` is `current_source`, `srcs.tail` is `sources` (top first). -/
structure St where
  srcs : List Source
  out : List Tok
  status : Status
  deriving DecidableEq, Repr

/-- `input_fn`: `if input.vm().num_current_sources() > 100`. -/
def maxSources : Nat := 100

/-- Execute one atom delivered by the current source `s` (already advanced past it);
`below` = `Internal.sources`. -/
def exec (fs : FS) (a : Atom) (s : Source) (below : List Source) (out : List Tok) : St :=
  match a with
  | .tok t => ⟨s :: below, out ++ [t], .running⟩
  | .input f =>
    -- input_fn: first read the file, then check the depth, then push_source
    match lookup fs f with
    | none => ⟨s :: below, out, .notFound⟩
    | some file =>
      -- num_current_sources() = sources.len() + 1
      if below.length + 1 > maxSources then ⟨s :: below, out, .tooDeep⟩
      else ⟨⟨[], [], file⟩ :: s :: below, out, .running⟩
  | .endinput =>
    -- Lexer::end: pos = current_line.len(); next_line = source_code.len().
    -- The pending expansions are untouched.
    ⟨{ s with cur := [], rest := [] } :: below, out, .running⟩

/-- One turn of `next_unexpanded` + dispatch. -/
def step (fs : FS) (st : St) : St :=
  match st.status with
  | .running =>
    match st.srcs with
    | [] => { st with status := .halted }
    | s :: below =>
      match s.pending with
      | a :: p => exec fs a { s with pending := p } below st.out      -- expansions.pop()
      | [] =>
        match s.cur with
        | .atom a :: c => exec fs a { s with cur := c } below st.out  -- lexer token
        | .call body :: c =>                                          -- macro: push_expansion
          ⟨{ s with pending := body, cur := c } :: below, st.out, .running⟩
        | [] =>
          match s.rest with
          | l :: ls => ⟨{ s with cur := l, rest := ls } :: below, st.out, .running⟩ -- start_new_line
          | [] =>
            match below with                                          -- EndOfInput: pop_source
            | [] => { st with status := .halted }
            | _ :: _ => ⟨below, st.out, .running⟩
  | _ => st

def iter (fs : FS) : Nat → St → St
  | 0, st => st
  | n + 1, st => iter fs n (step fs st)

/-- `iter` that stops stepping once the machine is no longer running (`step` is the identity
then: `iterFast_eq_iter` in Lemmas/C19.lean). Used by the driver. -/
def iterFast (fs : FS) : Nat → St → St
  | 0, st => st
  | n + 1, st => if st.status = .running then iterFast fs n (step fs st) else st

inductive Outcome where
  | ok (out : List Tok)
  | notFound (out : List Tok)
  | tooDeep (out : List Tok)
  | outOfFuel
  deriving DecidableEq, Repr

/-- `VM::new` has an empty default source; `vm.push_source(main)` pushes it down. -/
def initSt (main : File) : St := ⟨[⟨[], [], main⟩, ⟨[], [], []⟩], [], .running⟩

def outcomeOf (st : St) : Outcome :=
  match st.status with
  | .halted => .ok st.out
  | .notFound => .notFound st.out
  | .tooDeep => .tooDeep st.out
  | .running => .outOfFuel

def run (fs : FS) (fuel : Nat) (main : File) : Outcome := outcomeOf (iter fs fuel (initSt main))

/-! ## S: inlining

`keep = true` is TeX (§362: `\endinput` — "the current line is finished"), `keep = false`
is what `Lexer::end` does (the rest of the line is dropped). A result is the delivered tokens
and whether the file has been ended. -/

def denAtoms (denF : Nat → List Tok) : List Atom → List Tok × Bool
  | [] => ([], false)
  | .tok t :: r => (t :: (denAtoms denF r).1, (denAtoms denF r).2)
  | .input f :: r => (denF f ++ (denAtoms denF r).1, (denAtoms denF r).2)
  | .endinput :: r => ((denAtoms denF r).1, true)

def denItems (keep : Bool) (denF : Nat → List Tok) : List Item → List Tok × Bool
  | [] => ([], false)
  | .atom (.tok t) :: r => (t :: (denItems keep denF r).1, (denItems keep denF r).2)
  | .atom (.input f) :: r => (denF f ++ (denItems keep denF r).1, (denItems keep denF r).2)
  | .atom .endinput :: r => if keep then ((denItems keep denF r).1, true) else ([], true)
  | .call body :: r =>
    if (denAtoms denF body).2 && !keep then ((denAtoms denF body).1, true)
    else ((denAtoms denF body).1 ++ (denItems keep denF r).1,
          (denAtoms denF body).2 || (denItems keep denF r).2)

def denLines (keep : Bool) (denF : Nat → List Tok) : List Line → List Tok
  | [] => []
  | l :: ls =>
    if (denItems keep denF l).2 then (denItems keep denF l).1
    else (denItems keep denF l).1 ++ denLines keep denF ls

/-- Tokens of file `f` with nesting budget `d`. -/
def denFile (keep : Bool) (fs : FS) : Nat → Nat → List Tok
  | 0, _ => []
  | d + 1, f =>
    match lookup fs f with
    | none => []
    | some file => denLines keep (denFile keep fs d) file

/-- The inlined program: one line of plain tokens. -/
def inlineToks (keep : Bool) (fs : FS) (d : Nat) (main : File) : List Tok :=
  denLines keep (denFile keep fs d) main

def inline (keep : Bool) (fs : FS) (d : Nat) (main : File) : File :=
  [(inlineToks keep fs d main).map (fun t => Item.atom (.tok t))]

/-! Well-formed trees: every `\input` names an existing file, nesting at most `d` deep. -/

def wfAtoms (wfF : Nat → Bool) : List Atom → Bool
  | [] => true
  | .input f :: r => wfF f && wfAtoms wfF r
  | _ :: r => wfAtoms wfF r

def wfItems (wfF : Nat → Bool) : List Item → Bool
  | [] => true
  | .atom (.input f) :: r => wfF f && wfItems wfF r
  | .atom _ :: r => wfItems wfF r
  | .call body :: r => wfAtoms wfF body && wfItems wfF r

def wfLines (wfF : Nat → Bool) : List Line → Bool
  | [] => true
  | l :: ls => wfItems wfF l && wfLines wfF ls

def wfFile (fs : FS) : Nat → Nat → Bool
  | 0, _ => false
  | d + 1, f =>
    match lookup fs f with
    | none => false
    | some file => wfLines (wfFile fs d) file

/-- The tree under `main` exists and nests at most `d` levels of `\input`. -/
def WF (fs : FS) (d : Nat) (main : File) : Bool := wfLines (wfFile fs d) main

/-! `\endinput` is the last thing on its line (then TeX and `Lexer::end` agree). -/

def noEndAtoms : List Atom → Bool
  | [] => true
  | .endinput :: _ => false
  | _ :: r => noEndAtoms r

def endLastItems : List Item → Bool
  | [] => true
  | .atom .endinput :: r => r.isEmpty
  | .atom _ :: r => endLastItems r
  | .call body :: r => (noEndAtoms body || r.isEmpty) && endLastItems r

def endLastLines : List Line → Bool
  | [] => true
  | l :: ls => endLastItems l && endLastLines ls

def endLastFS : FS → Bool
  | [] => true
  | (_, file) :: r => endLastLines file && endLastFS r

/-! ## M: `\openin`, `\read`, `\ifeof`, `\closein` (input.rs) -/

abbrev TLine := List Tok

inductive LineRes where
  | eol (acc : List Tok) (depth : Nat)   -- the line ended; `braces.len() = depth`
  | cut (acc : List Tok)                 -- an unmatched `}`: rest of the line is drained
  deriving DecidableEq, Repr

/-- The token loop of `read_fn` over one line. -/
def scanLine : List Tok → Nat → List Tok → LineRes
  | [], d, acc => .eol acc d
  | .bg :: r, d, acc => scanLine r (d + 1) (acc ++ [.bg])
  | .eg :: _, 0, acc => .cut acc
  | .eg :: r, d + 1, acc => scanLine r d (acc ++ [.eg])
  | t :: r, d, acc => scanLine r d (acc ++ [t])

inductive ReadRes where
  | ok (toks : List Tok) (remaining : Option (List TLine))   -- `none`: stream not returned (closed)
  | unmatched                                                -- `UnmatchedBracesError`
  deriving DecidableEq, Repr

/-- `read_fn`, `Mode::File`. The lexer reports `EndOfLine` when a *further* line could be
started and `EndOfInput` otherwise. -/
def readFile : List TLine → Nat → List Tok → ReadRes
  | [], d, acc => if d > 0 then .unmatched else .ok acc none
  | l :: ls, d, acc =>
    match scanLine l d acc with
    | .cut acc' => .ok acc' (if ls.isEmpty then none else some ls)   -- drain_line
    | .eol acc' d' =>
      match ls with
      | [] => if d' > 0 then .unmatched else .ok acc' none           -- EndOfInput
      | _ :: _ => if d' = 0 then .ok acc' (some ls) else readFile ls d' acc'

/-- `ensure_ends_in_newline` seen on lines: the empty file becomes one empty line (`\par`). -/
def ensureNewline (ls : List TLine) : List TLine := if ls.isEmpty then [[.par]] else ls

inductive TermRes where
  | ok (toks : List Tok) (term : List TLine)
  | exhausted                      -- "failed to read from the terminal"
  deriving DecidableEq, Repr

/-- `read_fn`, `Mode::Terminal`: one lexer per terminal line, more lines while braces are open. -/
def readTerm : List TLine → Nat → List Tok → TermRes
  | [], _, _ => .exhausted
  | l :: ls, d, acc =>
    match scanLine l d acc with
    | .cut acc' => .ok acc' ls
    | .eol acc' d' => if d' > 0 then readTerm ls d' acc' else .ok acc' ls

/-- S: TeX §485–§486. `input_ln` failing closes the file and yields an empty line
(`\par` through the end-of-line character); "File ended within \read" with open braces. -/
def texReadFile : List TLine → Nat → List Tok → ReadRes
  | [], d, acc => if d > 0 then .unmatched else .ok (acc ++ [.par]) none
  | l :: ls, d, acc =>
    match scanLine l d acc with
    | .cut acc' => .ok acc' (some ls)
    | .eol acc' d' => if d' = 0 then .ok acc' (some ls) else texReadFile ls d' acc'

/-- A line of a file or of the terminal before its end-of-line character is attached.
`defEol = none`: the line ends in a comment (the end-of-line character never becomes a token);
`some d`: what the default end-of-line character (13) becomes after these tokens (`[]` after a
control word, `[sp]`, or `[par]` for an empty line). -/
structure RawLine where
  toks : List Tok
  defEol : Option (List Tok)
  deriving DecidableEq, Repr

/-- `\endlinechar`: the default (13), none (negative), or a character of category "other". -/
inductive Elc where
  | default | none | other (c : Nat)
  deriving DecidableEq, Repr

/-- `RawLexer::start_new_line`: the current `\endlinechar` is pushed onto the trimmed line. -/
def attach (e : Elc) (l : RawLine) : TLine :=
  match l.defEol with
  | none => l.toks
  | some d =>
    match e with
    | .default => l.toks ++ d
    | .none => l.toks
    | .other c => l.toks ++ [.chr c]

/-- A line of an open stream. The model and TeX use `raw` only: a line gets its end-of-line
character when it is read (`Lexer::next` as repaired by fixes/C19-d.patch: an end of line is
reported without starting the next line). `loaded` records what the *unrepaired* lexer did —
it started the next line during the previous `\read`, to tell `EndOfLine` from `EndOfInput`,
with the `\endlinechar` of that moment (finding C19-d) — and is read by `mat false` only, which
no theorem and neither M nor S uses (the driver uses it to name that finding). -/
structure Slot where
  loaded : Option TLine
  raw : RawLine
  deriving DecidableEq, Repr

/-- The tokens of a line when a `\read` runs under `\endlinechar = e`: `lazy = true` the
model and TeX; `lazy = false` the unrepaired lexer. -/
def mat (lazy : Bool) (e : Elc) (s : Slot) : TLine :=
  match lazy, s.loaded with
  | false, some l => l
  | _, _ => attach e s.raw

/-- `ensure_ends_in_newline` on raw lines. -/
def rawEnsureNewline (ls : List RawLine) : List RawLine :=
  if ls.isEmpty then [⟨[], some [.par]⟩] else ls

/-- The last `k` lines stay. (The unrepaired lexer had started the first of them under `e`;
`mat true` ignores `loaded`.) -/
def afterRead (e : Elc) (slots : List Slot) (k : Nat) : List Slot :=
  match slots.drop (slots.length - k) with
  | [] => []
  | h :: t => ⟨some (attach e h.raw), h.raw⟩ :: t

inductive Op where
  | openin (n : Nat) (f : Nat)
  | closein (n : Nat)
  | read (g : Bool) (n : Int) (x : Nat)     -- `g`: prefixed by `\global`
  | ifeof (n : Nat)
  | use (x : Nat)
  | setElc (e : Elc)
  | bgroup
  | egroup
  deriving DecidableEq, Repr

inductive RStatus where
  | running | badStream | unmatched | termExhausted | badGroup
  deriving DecidableEq, Repr

structure RSt where
  streams : List (Option (List Slot))    -- `Component<16>.files`
  term : List RawLine
  macros : List (Nat × List Tok)
  saved : List (List (Nat × List Tok) × Elc)   -- macro meanings and `\endlinechar` at the start of each open group
  elc : Elc
  out : List Tok
  status : RStatus
  deriving DecidableEq, Repr

def numStreams : Nat := 16

def initR (term : List RawLine) : RSt :=
  ⟨List.replicate numStreams none, term, [], [], .default, [], .running⟩

/-- `take_file`: `None` for a negative or too large index or a closed stream. -/
def takeFile (streams : List (Option (List Slot))) (n : Int) : Option (List Slot) :=
  if n < 0 then none else (streams.getD n.toNat none)

def chrT : Tok := .chr 84
def chrF : Tok := .chr 70
def chrL : Tok := .chr 91
def chrR : Tok := .chr 93

/-- `insert_macro(cmd_ref, macro, scope)`: local, or (after `\global`) at every group level. -/
def defMacro (g : Bool) (x : Nat) (toks : List Tok) (st : RSt) : RSt :=
  if g then { st with macros := (x, toks) :: st.macros, saved := st.saved.map (fun m => ((x, toks) :: m.1, m.2)) }
  else { st with macros := (x, toks) :: st.macros }

/-- One primitive. `tex = true` runs the specification (TeX) instead of the model. -/
def opStep (tex : Bool) (rfs : List (Nat × List RawLine)) (st : RSt) (op : Op) : RSt :=
  match st.status with
  | .running =>
    match op with
    | .openin n f =>
      if n ≥ numStreams then { st with status := .badStream }
      else
        let ls := (lookup rfs f).map (fun l =>
          (if tex then l else rawEnsureNewline l).map (fun r => (⟨none, r⟩ : Slot)))
        { st with streams := st.streams.set n ls }
    | .closein n =>
      if n ≥ numStreams then { st with status := .badStream }
      else { st with streams := st.streams.set n none }
    | .ifeof n =>
      if n ≥ numStreams then { st with status := .badStream }
      else { st with out := st.out ++ [if (st.streams.getD n none).isNone then chrT else chrF] }
    | .use x =>
      { st with out := st.out ++ [chrL] ++ ((lookup st.macros x).getD [.cs x]) ++ [chrR] }
    | .setElc e => { st with elc := e }
    | .bgroup => { st with saved := (st.macros, st.elc) :: st.saved }
    | .egroup =>
      match st.saved with
      | [] => { st with status := .badGroup }
      | m :: r => { st with macros := m.1, elc := m.2, saved := r }   -- both are restored
    | .read g n x =>
      match takeFile st.streams n with
      | some slots =>
        let ls := slots.map (mat true st.elc)
        match (if tex then texReadFile ls 0 [] else readFile ls 0 []) with
        | .unmatched => { st with status := .unmatched }
        | .ok toks rem =>
          defMacro g x toks
            { st with streams := st.streams.set n.toNat (rem.map (fun r => afterRead st.elc slots r.length)) }
      | none =>
        match readTerm (st.term.map (attach st.elc)) 0 [] with
        | .exhausted => { st with status := .termExhausted }
        | .ok toks term' =>
          defMacro g x toks { st with term := st.term.drop (st.term.length - term'.length) }
  | _ => st

def runOps (tex : Bool) (rfs : List (Nat × List RawLine)) (term : List RawLine) (ops : List Op) : RSt :=
  ops.foldl (opStep tex rfs) (initR term)

/-- Brace depth after a token list, `none` if it ever goes negative. -/
def depthAfter : List Tok → Nat → Option Nat
  | [], d => some d
  | .bg :: r, d => depthAfter r (d + 1)
  | .eg :: _, 0 => none
  | .eg :: r, d + 1 => depthAfter r d
  | _ :: r, d => depthAfter r d

def Balanced (l : List Tok) : Prop := depthAfter l 0 = some 0

/-! ## The two pinned deviations as program / result transformations (used by the exact
characterisations `read_is_tex_read_closing_early`, `endinput_is_tex_on_truncated_program`) -/

/-- Close a stream that is left open on zero lines. -/
def closeEmpty : ReadRes → ReadRes
  | .ok toks (some []) => .ok toks none
  | r => r

/-- Delete what follows an `\endinput` (or a macro call whose body holds one) on its line. -/
def truncItems : List Item → List Item
  | [] => []
  | .atom .endinput :: _ => [.atom .endinput]
  | .atom a :: r => .atom a :: truncItems r
  | .call body :: r => if noEndAtoms body then .call body :: truncItems r else [.call body]

def truncLines (ls : List Line) : List Line := ls.map truncItems

def truncFS : FS → FS
  | [] => []
  | (g, file) :: r => (g, truncLines file) :: truncFS r

end C19
