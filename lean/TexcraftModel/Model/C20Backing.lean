import TexcraftModel.Model.C20

/-!
# C20 — `GroupingContainer<K, V, T: BackingContainer<K, V>>`, generic in the backing container

The Rust container code (`insert`, `begin_group`, `end_group`, `iter_all`, `FromIterator`, `len`,
`iter`; groupingmap.rs:256-385, 506-585) is written once, against the trait `BackingContainer`
(groupingmap.rs:76-104). `Backing` is that trait; `BMap bk` is the container code over any
backing `bk`, clause by clause the same as `GMap` (which is the instance with the association
list that models `HashMap`). `hashBacking` and `vecBacking` are the two `impl`s of the trait
(groupingmap.rs:106-136 and 144-204).

Client properties (C01, C08) can state their theorems for `BMap bk` with `bk.Lawful` and get both
`GroupingHashMap` and `GroupingVec` (theorems `bmap_*` in `Props/C20.lean`).
-/
namespace C20

/-- `trait BackingContainer<K, V>: Default` — the operations the container code calls. -/
structure Backing (K V : Type) where
  B : Type
  /-- `Default::default()` -/
  empty : B
  get : B → K → Option V
  insert : B → K → V → B
  remove : B → K → B
  /-- `iter()`: the `(key, value)` pairs in the backing's own order -/
  iter : B → AList K V
  len : B → Nat
  /-- representation invariant of the backing (e.g. distinct keys), kept by every operation -/
  ok : B → Prop

/-- What the container code needs of a backing container. -/
structure Backing.Lawful {K V : Type} [DecidableEq K] (bk : Backing K V) : Prop where
  ok_empty : bk.ok bk.empty
  ok_insert : ∀ b k v, bk.ok b → bk.ok (bk.insert b k v)
  ok_remove : ∀ b k, bk.ok b → bk.ok (bk.remove b k)
  get_empty : ∀ k, bk.get bk.empty k = none
  get_insert : ∀ b k v k', bk.get (bk.insert b k v) k' = if k = k' then some v else bk.get b k'
  get_remove : ∀ b k k', bk.get (bk.remove b k) k' = if k = k' then none else bk.get b k'
  iter_get : ∀ b k, alookup (bk.iter b) k = bk.get b k
  iter_nodup : ∀ b, bk.ok b → ((bk.iter b).map (·.1)).Nodup
  len_iter : ∀ b, bk.ok b → bk.len b = (bk.iter b).length

/-- `impl BackingContainer<K, V> for HashMap<K, V>` (association-list model of the hash map). -/
def hashBacking (K V : Type) [DecidableEq K] : Backing K V where
  B := AList K V
  empty := []
  get := alookup
  insert := fun b k v => ainsert k v b
  remove := fun b k => aerase k b
  iter := fun b => b
  len := List.length
  ok := fun b => (b.map (·.1)).Nodup

/-- `impl BackingContainer<usize, V> for Vec<Option<V>>`. -/
def vecBacking (V : Type) : Backing Nat V where
  B := List (Option V)
  empty := []
  get := VecBacking.get
  insert := VecBacking.insert
  remove := VecBacking.remove
  iter := VecBacking.iter
  len := VecBacking.len
  ok := fun _ => True

/-- `GroupingContainer { backing_container: T, groups }`; `groups` innermost first. -/
structure BMap {K V : Type} (bk : Backing K V) where
  bc : bk.B
  groups : List (AList K (Action V))

namespace BMap
variable {K V : Type} [DecidableEq K] {bk : Backing K V}

def empty : BMap bk := { bc := bk.empty, groups := [] }

def get (m : BMap bk) (k : K) : Option V := bk.get m.bc k

/-- `GroupingContainer::insert` (groupingmap.rs:258-295). -/
def insert (m : BMap bk) (k : K) (v : V) : Scope → BMap bk × Bool
  | .glob =>
    let gs := m.groups.map (aerase k)
    match bk.get m.bc k with
    | none => ({ bc := bk.insert m.bc k v, groups := gs }, false)
    | some _ => ({ bc := bk.insert m.bc k v, groups := gs }, true)
  | .loc =>
    match bk.get m.bc k, m.groups with
    | none, [] => ({ m with bc := bk.insert m.bc k v }, false)
    | none, g :: gs =>
      ({ bc := bk.insert m.bc k v, groups := ainsert k .delete g :: gs }, false)
    | some _, [] => ({ m with bc := bk.insert m.bc k v }, true)
    | some old, g :: gs =>
      let g' := match alookup g k with
        | none => ainsert k (.revert old) g
        | some _ => g
      ({ bc := bk.insert m.bc k v, groups := g' :: gs }, true)

def beginGroup (m : BMap bk) : BMap bk := { m with groups := [] :: m.groups }

def applyLog : AList K (Action V) → bk.B → bk.B
  | [], bc => bc
  | (k, .delete) :: t, bc => applyLog t (bk.remove bc k)
  | (k, .revert v) :: t, bc => applyLog t (bk.insert bc k v)

def endGroup (m : BMap bk) : Option (BMap bk) :=
  match m.groups with
  | [] => none
  | g :: gs => some { bc := applyLog g m.bc, groups := gs }

def step (m : BMap bk) : Op K V → BMap bk × Out V
  | .insert k v s => let r := m.insert k v s; (r.1, .existed r.2)
  | .beginGroup => (m.beginGroup, .unit)
  | .endGroup => match m.endGroup with
    | none => (m, .errNoGroup)
    | some m' => (m', .unit)
  | .get k => (m, .val (m.get k))

def run (m : BMap bk) : List (Op K V) → BMap bk × List (Out V)
  | [] => (m, [])
  | op :: ops =>
    let r := m.step op
    let rs := run r.1 ops
    (rs.1, r.2 :: rs.2)

def iter (m : BMap bk) : AList K V := bk.iter m.bc
def len (m : BMap bk) : Nat := bk.len m.bc
def isEmpty (m : BMap bk) : Bool := m.len == 0

/-- `iter_all`: `IterAll::new`/`next` use only `backing_container.get` and `.iter()`; a lookup in
`bk.iter b` is `bk.get b` (law `iter_get`), so it is the generic `GMap.iterAll` on that list. -/
def iterAll (m : BMap bk) : Res (List (Item K V)) :=
  GMap.iterAll { bc := bk.iter m.bc, groups := m.groups }

def feed (m : BMap bk) : Item K V → BMap bk
  | .beginGroup => m.beginGroup
  | .value k v => (m.insert k v .loc).1

def fromIter (items : List (Item K V)) : BMap bk := items.foldl feed empty

end BMap
end C20
