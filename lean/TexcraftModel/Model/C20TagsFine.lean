import TexcraftModel.Model.C20

/-!
# C20 — tags, instruction-level interleaving model

`Model/C20Tags.lean` takes one whole `Tag::new` call as the atomic step. Here the step is one
*instruction* of a thread, and the mutex is a primitive with `acquire` (enabled only while nobody
holds it) and `release`. Threads run a program in a loop (one iteration = one call); a schedule is
the list of thread ids that take the next step; any number of threads, any number of calls.

* `lockProg`  = `Tag::new` as coded (command/mod.rs:304-309): lock; read `*n`; write `*n = n + 1`
  (the call returns the value read); unlock.
* `racyProg`  = mutant 35 of the sweep (`mutants/C20/35-tag-load-then-store.diff`): lock; read;
  unlock; lock; write; unlock.

Same machine, two programs: the theorems (`Props/C20.lean`) say the first gives pairwise distinct
tags for every schedule, the second has a schedule with a duplicate. What is assumed is therefore
exactly: `Mutex::lock` is exclusive. (`u32` overflow is in the call-level model, not here.)

`StaticFine`: the same for `StaticTag::get`: `codedProg` = `OnceLock::get_or_init(Tag::new)` as
one atomic instruction (the assumption), `mutantProg` = mutant 36 (`get()`, then `Tag::new()`, then
`set()`).
-/
namespace C20.TagsFine

inductive Instr where
  | acquire   -- `NEXT_TAG_VALUE.lock()`: enabled only while no thread holds the mutex
  | release   -- the guard is dropped
  | load      -- `reg := *n`
  | store     -- `*n = reg + 1`; the call returns `Tag(reg)`
  deriving DecidableEq, Repr

structure Th where
  pc : Nat
  reg : Nat
  deriving Repr

structure St where
  counter : Nat
  owner : Option Nat
  th : Nat → Th
  /-- `(thread, tag)` for every call that has returned, newest first -/
  out : List (Nat × Nat)

def upd (f : Nat → Th) (i : Nat) (t : Th) : Nat → Th := fun j => if j = i then t else f j

/-- Program counter after instruction `pc`: the program is run in a loop. -/
def next (prog : List Instr) (pc : Nat) : Nat := if pc + 1 < prog.length then pc + 1 else 0

/-- Thread `i` takes one step (a blocked `acquire` leaves the state unchanged). -/
def step (prog : List Instr) (s : St) (i : Nat) : St :=
  let t := s.th i
  match prog[t.pc]? with
  | none => { s with th := upd s.th i { t with pc := 0 } }
  | some .acquire =>
    match s.owner with
    | none => { s with owner := some i, th := upd s.th i { t with pc := next prog t.pc } }
    | some _ => s
  | some .release => { s with owner := none, th := upd s.th i { t with pc := next prog t.pc } }
  | some .load => { s with th := upd s.th i { pc := next prog t.pc, reg := s.counter } }
  | some .store =>
    { s with counter := t.reg + 1, out := (i, t.reg) :: s.out,
             th := upd s.th i { t with pc := next prog t.pc } }

/-- `static NEXT_TAG_VALUE: Mutex<u32> = Mutex::new(1)`; every thread at the start of a call. -/
def init : St := { counter := 1, owner := none, th := fun _ => { pc := 0, reg := 0 }, out := [] }

def run (prog : List Instr) (s : St) (sched : List Nat) : St := sched.foldl (step prog) s

def tags (s : St) : List Nat := s.out.map (·.2)

/-- `Tag::new` as coded. -/
def lockProg : List Instr := [.acquire, .load, .store, .release]

/-- Mutant 35: the lock is released between the read and the write. -/
def racyProg : List Instr := [.acquire, .load, .release, .acquire, .store, .release]

end C20.TagsFine

namespace C20.StaticFine

inductive Instr where
  | getOrInit  -- `OnceLock::get_or_init(Tag::new)` as one atomic step (the assumption); returns the cell
  | check      -- `reg := self.0.get()`
  | create     -- if `reg` is `None`: `tag := Tag::new()` (atomic: see `TagsFine`)
  | set        -- if `reg` is `None`: `let _ = self.0.set(tag)`; return `tag`; else return `reg`
  deriving DecidableEq, Repr

structure Th where
  pc : Nat
  reg : Option Nat
  tag : Nat
  deriving Repr

structure St where
  counter : Nat
  cell : Option Nat
  th : Nat → Th
  /-- `(thread, value returned by get())`, newest first -/
  out : List (Nat × Nat)

def upd (f : Nat → Th) (i : Nat) (t : Th) : Nat → Th := fun j => if j = i then t else f j

def next (prog : List Instr) (pc : Nat) : Nat := if pc + 1 < prog.length then pc + 1 else 0

def step (prog : List Instr) (s : St) (i : Nat) : St :=
  let t := s.th i
  match prog[t.pc]? with
  | none => { s with th := upd s.th i { t with pc := 0 } }
  | some .getOrInit =>
    match s.cell with
    | some v => { s with out := (i, v) :: s.out, th := upd s.th i { t with pc := next prog t.pc } }
    | none =>
      { s with cell := some s.counter, counter := s.counter + 1, out := (i, s.counter) :: s.out,
               th := upd s.th i { t with pc := next prog t.pc } }
  | some .check => { s with th := upd s.th i { t with pc := next prog t.pc, reg := s.cell } }
  | some .create =>
    match t.reg with
    | some _ => { s with th := upd s.th i { t with pc := next prog t.pc } }
    | none =>
      { s with counter := s.counter + 1, th := upd s.th i { t with pc := next prog t.pc, tag := s.counter } }
  | some .set =>
    match t.reg with
    | some v => { s with out := (i, v) :: s.out, th := upd s.th i { t with pc := next prog t.pc } }
    | none =>
      { s with cell := (match s.cell with | none => some t.tag | some c => some c),
               out := (i, t.tag) :: s.out, th := upd s.th i { t with pc := next prog t.pc } }

def init : St := { counter := 1, cell := none, th := fun _ => { pc := 0, reg := none, tag := 0 }, out := [] }

def run (prog : List Instr) (s : St) (sched : List Nat) : St := sched.foldl (step prog) s

def vals (s : St) : List Nat := s.out.map (·.2)

/-- `StaticTag::get` as coded (command/mod.rs:343-345). -/
def codedProg : List Instr := [.getOrInit]

/-- Mutant 36: `match self.0.get() { Some(t) => *t, None => { let t = Tag::new(); let _ = self.0.set(t); t } }` -/
def mutantProg : List Instr := [.check, .create, .set]

end C20.StaticFine
