import TexcraftModel.Model.C03

/-!
C03 — `RawLexer` with **byte positions**, as the Rust code has them.

`Model/C03.lean` keeps the unread part of the source and of the current line as character lists.
The code keeps two `String`s and byte offsets into them (`next_line`, `pos`, and the locals
`start`, `end`, `char_2_start`, `char_3_start`), computes new offsets by adding `len_utf8()` of
characters and counts of one-byte characters, and slices with `&s[p..]` / `&s[a..b]`, which panic
when an offset is not a character boundary; the in-place `^^` rewrite is an `unsafe` byte write
(`as_bytes_mut()[pos] = m`) or `replace_range(pos..pos + 1, …)`.

Here a `String` is its list of characters and an offset is a number of bytes; `sliceFrom` is
`&s[p..]` with its panic. Every method of `RawLexer` is transcribed with exactly the offset
arithmetic of lexer.rs; `none` = a slice off a character boundary (or out of range, or the
`unsafe` write hitting a multi-byte character). `Lemmas/C03Bytes.lean` proves that this never
happens and that the byte-level lexer is the character-level one.
-/
namespace C03
namespace Bytes

/-- `&s[p..]`: `none` = panic (`p` inside a character or beyond the end). -/
def sliceFrom : List Char → Nat → Option (List Char)
  | l, 0 => some l
  | [], _ + 1 => none
  | c :: t, p + 1 => if p + 1 < utf8Len c then none else sliceFrom t (p + 1 - utf8Len c)

/-- `&s[..n]` for `n` bytes: `none` = panic. -/
def takeBytes : List Char → Nat → Option (List Char)
  | _, 0 => some []
  | [], _ + 1 => none
  | c :: t, n + 1 =>
    if n + 1 < utf8Len c then none else (takeBytes t (n + 1 - utf8Len c)).map (c :: ·)

/-- `&s[a..b]`. -/
def sliceRange (l : List Char) (a b : Nat) : Option (List Char) :=
  if b < a then none else (sliceFrom l a).bind (takeBytes · (b - a))

/-- `RawLexer` (lexer.rs:390): `source_code`, `next_line`, `current_line`, `pos` in bytes. -/
structure BRaw where
  src : List Char
  nextLine : Nat
  cur : List Char
  pos : Nat
  key : Nat
  limit : Nat
  trimmed : Nat
  deriving Repr

/-- The loop of `start_new_line` on `end` and `num_spaces` (bytes). -/
def lineLoop : Nat → Nat → List Char → Nat × Nat
  | e, n, [] => (e, n)
  | e, n, c :: t =>
    if c = '\n' then (e, n + 1)
    else if c = ' ' then lineLoop e (n + 1) t
    else lineLoop (e + utf8Len c + n) 0 t

/-- `RawLexer::start_new_line`. -/
def BRaw.startNewLine (cfg : Cfg) (b : BRaw) : Option (Bool × BRaw) :=
  match sliceFrom b.cur b.pos with
  | none => none
  | some tail =>
    let key := b.key + tail.length + b.trimmed
    if byteLen b.src ≤ b.nextLine then some (false, { b with key := key, pos := 0, cur := [] })
    else
      match sliceFrom b.src b.nextLine with
      | none => none
      | some s =>
        match lineLoop b.nextLine 0 s with
        | (e, nsp) =>
          match sliceRange b.src b.nextLine e with
          | none => none
          | some content =>
            match cfg.endline with
            | none =>
              some (true, { b with key := key, pos := 0, cur := content, trimmed := nsp,
                                   nextLine := e + nsp })
            | some ch =>
              some (true, { b with key := key, pos := 0, cur := content ++ [ch],
                                   trimmed := nsp - 1, nextLine := e + nsp })

/-- `RawLexer::end_line`. -/
def BRaw.endLine (b : BRaw) : Option BRaw :=
  (sliceFrom b.cur b.pos).map fun tail =>
    { b with key := b.key + tail.length, pos := byteLen b.cur }

inductive BNx
  | eol
  | panic
  | got (c : Char) (key : Nat) (b : BRaw)

/-- `RawLexer::next`. -/
def BRaw.next (b : BRaw) : Option BNx :=
  match sliceFrom b.cur b.pos with
  | none => none
  | some [] => some .eol
  | some (c :: _) =>
    if b.key < b.limit then some (.got c b.key { b with pos := b.pos + utf8Len c, key := b.key + 1 })
    else some .panic

/-- `RawLexer::advance`, `n` times: outer `none` = bad slice / `unwrap` of `None`, inner `none` =
key range exhausted. -/
def BRaw.advance : Nat → BRaw → Option (Option BRaw)
  | 0, b => some (some b)
  | n + 1, b =>
    match sliceFrom b.cur b.pos with
    | some (c :: _) =>
      if b.key < b.limit then BRaw.advance n { b with pos := b.pos + utf8Len c, key := b.key + 1 }
      else some none
    | _ => none

/-- `as_bytes_mut()[pos] = m` for a one-byte `m`: sound only when `pos` is the boundary of a
one-byte character (otherwise the `String` stops being UTF-8: `none`). -/
def writeAscii : List Char → Nat → Char → Option (List Char)
  | [], _, _ => none
  | c :: t, 0, m => if utf8Len c = 1 then some (m :: t) else none
  | c :: t, p + 1, m => if p + 1 < utf8Len c then none else (writeAscii t (p + 1 - utf8Len c) m).map (c :: ·)

/-- `replace_range(pos..pos + 1, m)`: panics unless `pos` and `pos + 1` are boundaries. -/
def replaceOne : List Char → Nat → Char → Option (List Char) := writeAscii

inductive BCr
  | no
  | panic
  | yes (b : BRaw)

/-- The first character of `&s[p..]`: outer `none` = panic. -/
def charAt (l : List Char) (p : Nat) : Option (Option Char) :=
  (sliceFrom l p).map List.head?

/-- `RawLexer::maybe_apply_caret_notation` with its offsets `char_2_start`, `char_3_start`. -/
def BRaw.caret (b : BRaw) (c1 : Char) (consumed : Bool) : Option BCr :=
  let skip := if consumed then 0 else 1
  let c2s := if consumed then b.pos else b.pos + utf8Len c1
  match charAt b.cur c2s with
  | none => none
  | some none => some .no
  | some (some c2) =>
    if c2 ≠ c1 then some .no
    else
      let c3s := c2s + utf8Len c2
      match charAt b.cur c3s with
      | none => none
      | some none => some .no
      | some (some c3) =>
        if 128 ≤ c3.toNat then some .no
        else
          match charAt b.cur (c3s + utf8Len c3) with
          | none => none
          | some c4 =>
            match hexVal c3, c4.bind hexVal with
            | some hi, some lo =>
              match b.advance (skip + 2) with
              | none => none
              | some none => some .panic
              | some (some b') =>
                (replaceOne b'.cur b'.pos (Char.ofNat (16 * hi + lo))).map fun cur =>
                  .yes { b' with cur := cur }
            | _, _ =>
              match b.advance (skip + 1) with
              | none => none
              | some none => some .panic
              | some (some b') =>
                (writeAscii b'.cur b'.pos (caretChar c3)).map fun cur => .yes { b' with cur := cur }

/-- What the character-level model keeps of a byte-level state: `none` if an offset is not a
boundary. -/
def BRaw.abs (b : BRaw) : Option Raw :=
  match sliceFrom b.src b.nextLine, sliceFrom b.cur b.pos with
  | some rest, some line => some ⟨rest, line, b.key, b.limit, b.trimmed⟩
  | _, _ => none

def BRaw.init (src : List Char) : BRaw :=
  { src := src, nextLine := 0, cur := [], pos := 0, key := 0, limit := keyLimit src, trimmed := 0 }

/-! ### `Lexer` over the byte-level `RawLexer` (the same code as in `Model/C03.lean`, which never
touches an offset itself); outer `none` = a slice panic somewhere below. -/

structure BLexer where
  raw : BRaw
  st : St
  started : Bool
  deriving Repr

def bReadLetters (cfg : Cfg) : Nat → List Char → BRaw → Option (Out (List Char × BRaw))
  | 0, _, _ => some .fuel
  | f + 1, acc, b =>
    match sliceFrom b.cur b.pos with
    | none => none
    | some [] => some (.ok (acc, b))
    | some (c :: _) =>
      if b.limit ≤ b.key then some .panic
      else
        match cfg.cat c with
        | .letter =>
          match b.advance 1 with
          | some (some b') => bReadLetters cfg f (acc ++ [c]) b'
          | some none => some .panic
          | none => none
        | .superscript =>
          match b.caret c false with
          | none => none
          | some (.yes b') => bReadLetters cfg f acc b'
          | some .panic => some .panic
          | some .no => some (.ok (acc, b))
        | _ => some (.ok (acc, b))

def bReadCS (cfg : Cfg) : Nat → BRaw → Option (Out (List Char × St × BRaw))
  | 0, _ => some .fuel
  | f + 1, b =>
    match b.next with
    | none => none
    | some .eol => some (.ok ([], .newLine, b))
    | some .panic => some .panic
    | some (.got c _ b1) =>
      match cfg.cat c with
      | .letter =>
        match sliceFrom b1.cur b1.pos with
        | none => none
        | some l =>
          match bReadLetters cfg (l.length + 1) [c] b1 with
          | none => none
          | some (.ok (name, b2)) => some (.ok (name, .skipBlanks, b2))
          | some .panic => some .panic
          | some .fuel => some .fuel
      | .superscript =>
        match b1.caret c true with
        | none => none
        | some (.yes b2) => bReadCS cfg f b2
        | some .panic => some .panic
        | some .no => some (.ok ([c], .midLine, b1))
      | .space => some (.ok ([c], .skipBlanks, b1))
      | _ => some (.ok ([c], .midLine, b1))

def BLexer.nextF (cfg : Cfg) (rep : Bool) : Nat → BLexer → Option (Res Nat × BLexer)
  | 0, L => some (.fuel, L)
  | f + 1, L =>
    match L.raw.next with
    | none => none
    | some .eol =>
      match L.raw.startNewLine cfg with
      | none => none
      | some (more, raw) =>
        let L1 : BLexer := { L with raw := raw, st := .newLine }
        if !more then some (.endOfInput, L1)
        else if rep then
          if L.started then some (.endOfLine, L1) else BLexer.nextF cfg rep f { L1 with started := true }
        else BLexer.nextF cfg rep f L1
    | some .panic => some (.panic, L)
    | some (.got c key raw) =>
      match cfg.cat c with
      | .escape =>
        match sliceFrom raw.cur raw.pos with
        | none => none
        | some l =>
          match bReadCS cfg (l.length + 1) raw with
          | none => none
          | some (.ok (name, st, raw')) => some (.token (.cs name) key, { L with raw := raw', st := st })
          | some .panic => some (.panic, { L with raw := raw })
          | some .fuel => some (.fuel, { L with raw := raw })
      | .endOfLine =>
        match raw.endLine with
        | none => none
        | some rawE =>
          match L.st with
          | .newLine => some (.token (.cs parName) key, { L with raw := rawE, st := .newLine })
          | .midLine => some (.token (.chr ' ' .space) key, { L with raw := rawE, st := .newLine })
          | .skipBlanks => BLexer.nextF cfg rep f { L with raw := rawE }
      | .space =>
        match L.st with
        | .midLine => some (.token (.chr ' ' .space) key, { L with raw := raw, st := .skipBlanks })
        | _ => BLexer.nextF cfg rep f { L with raw := raw }
      | .superscript =>
        match raw.caret c true with
        | none => none
        | some (.yes raw') => BLexer.nextF cfg rep f { L with raw := raw' }
        | some .panic => some (.panic, { L with raw := raw })
        | some .no => some (.token (.chr c .superscript) key, { L with raw := raw, st := .midLine })
      | .comment =>
        match raw.endLine with
        | none => none
        | some rawE => BLexer.nextF cfg rep f { L with raw := rawE }
      | .ignored => BLexer.nextF cfg rep f { L with raw := raw }
      | .invalid => some (.invalid c key, { L with raw := raw })
      | .active => some (.token (.active c) key, { L with raw := raw, st := .midLine })
      | cc => some (.token (.chr c cc) key, { L with raw := raw, st := .midLine })

/-- Bytes of the source still unread plus bytes of the line still unread, as characters — only
used for the recursion budget (the same measure as `Lexer.mu`). -/
def BLexer.mu (L : BLexer) : Nat :=
  match sliceFrom L.raw.src L.raw.nextLine, sliceFrom L.raw.cur L.raw.pos with
  | some rest, some line => 3 * rest.length + line.length
  | _, _ => 0

def bLexAllF (cfg : Cfg) (rep : Bool) : Nat → BLexer → Option (List (Res Nat))
  | 0, _ => some [.fuel]
  | f + 1, L =>
    match L.nextF cfg rep (L.mu + 1) with
    | none => none
    | some (.endOfInput, _) => some [.endOfInput]
    | some (.panic, _) => some [.panic]
    | some (.fuel, _) => some [.fuel]
    | some (r, L') => (bLexAllF cfg rep f L').map (r :: ·)

def BLexer.init (src : List Char) : BLexer := ⟨BRaw.init src, .newLine, false⟩

/-- The byte-level lexer run to the end of the input; `none` = it sliced off a boundary. -/
def bLexAll (cfg : Cfg) (rep : Bool) (src : List Char) : Option (List (Res Nat)) :=
  bLexAllF cfg rep (3 * src.length + 2) (BLexer.init src)

end Bytes
end C03
