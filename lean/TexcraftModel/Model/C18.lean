/-
C18 — the Box language (crates/boxworks/src/lang): model.

Three layers, mirroring the Rust code:

* text  ⇄ tokens   `lex` (lexer.rs `Lexer::next`, `parse_number`) and the leaf printers
                   (`escapeStr` = `char::escape_debug` as used by cst.rs `Value::fmt`,
                   `printInt`, `printNoUnits` = `Scaled::display_no_units`)
* tokens ⇄ CST     `printCalls` (cst.rs `pretty_print_impl` / `ArgsPrinter`, layout dropped)
                   and `parseCalls` (cst.rs `ParseTreeIter` / `ParseArgsIter`, well-formed input)
* CST ⇄ lists      `lowerH/V/D` (convert.rs `ToBoxLang` + ast.rs `lower_arg`) and
                   `buildCalls` (ast.rs `Args::build`, `Arg::assign`, the `Value` casts,
                   convert.rs `ToBoxworks`)

Core Lean only. Strings are `List Char` (a Lean `Char` is a Unicode scalar value, like a
Rust `char`). The model describes the code *with fixes C18-a and C18-b applied* (see
notes/C18.md): every place where the unfixed lexer panics is an `err` here.
-/
namespace C18

abbrev Str := List Char

/-! ## Leaf level: glue orders -/

inductive Order where
  | normal | fil | fill | filll
deriving DecidableEq, Repr, Inhabited

/-- Orders that can follow a number as an "infinite" unit (`GlueOrder::parse`). -/
inductive InfOrder where
  | fil | fill | filll
deriving DecidableEq, Repr, Inhabited

def InfOrder.toOrder : InfOrder → Order
  | .fil => .fil | .fill => .fill | .filll => .filll

/-- `GlueOrder::inf_str` / `Display` unit of an infinite order. -/
def InfOrder.unit : InfOrder → Str
  | .fil => ['f','i','l'] | .fill => ['f','i','l','l'] | .filll => ['f','i','l','l','l']

/-- `common::GlueOrder::parse`. -/
def InfOrder.ofUnit (s : Str) : Option InfOrder :=
  if s = ['f','i','l'] then some .fil
  else if s = ['f','i','l','l'] then some .fill
  else if s = ['f','i','l','l','l'] then some .filll
  else none

/-- ast.rs `impl Value for common::GlueOrder`: `lower`. -/
def Order.keyword : Order → Str
  | .normal => ['n','o','r','m','a','l'] | .fil => ['f','i','l']
  | .fill => ['f','i','l','l'] | .filll => ['f','i','l','l','l']

/-- ast.rs `impl Value for common::GlueOrder`: `try_cast_string`. -/
def Order.ofKeyword (s : Str) : Option Order :=
  if s = ['n','o','r','m','a','l'] then some .normal
  else if s = ['f','i','l'] then some .fil
  else if s = ['f','i','l','l'] then some .fill
  else if s = ['f','i','l','l','l'] then some .filll
  else none

/-! ## Leaf level: decimal integers -/

def digitChar : Nat → Char
  | 0 => '0' | 1 => '1' | 2 => '2' | 3 => '3' | 4 => '4'
  | 5 => '5' | 6 => '6' | 7 => '7' | 8 => '8' | _ => '9'

def digitVal (c : Char) : Option Nat :=
  if c = '0' then some 0 else if c = '1' then some 1 else if c = '2' then some 2
  else if c = '3' then some 3 else if c = '4' then some 4 else if c = '5' then some 5
  else if c = '6' then some 6 else if c = '7' then some 7 else if c = '8' then some 8
  else if c = '9' then some 9 else none

/-- Decimal digits, least significant first (`fuel` ≥ number of digits). -/
def lsdAux : Nat → Nat → List Nat
  | 0, _ => []
  | f + 1, n => if n < 10 then [n] else n % 10 :: lsdAux f (n / 10)

def natDigits (n : Nat) : List Nat := (lsdAux (n + 1) n).reverse

def natChars (n : Nat) : Str := (natDigits n).map digitChar

/-- Rust `{}` of an `i32`. -/
def printInt (n : Int) : Str :=
  if n < 0 then '-' :: natChars n.natAbs else natChars n.natAbs

/-- The digit loop of `parse_number`: consume decimal digits, accumulating a value. -/
def scanDigits : Nat → List Char → Nat × List Char
  | acc, [] => (acc, [])
  | acc, c :: r =>
    match digitVal c with
    | some d => scanDigits (acc * 10 + d) r
    | none => (acc, c :: r)

/-- Fraction digits after the decimal point: the digit values and the rest. -/
def scanFrac : List Char → List Nat × List Char
  | [] => ([], [])
  | c :: r =>
    match digitVal c with
    | some d => let (ds, r') := scanFrac r; (d :: ds, r')
    | none => ([], c :: r)

/-! ## Leaf level: scaled numbers -/

/-- `Scaled::from_decimal_digits` (TeX §102 `round_decimals`) on a 17-slot buffer:
only the first 17 digits are kept by the lexer, trailing zero slots contribute nothing. -/
def fromDecimalDigits (ds : List Nat) : Nat :=
  ((ds.take 17).foldr (fun d a => (a + d * 131072) / 10) 0 + 1) / 2

/-- The digit loop of `Scaled::display_no_units` (TeX §103 `print_scaled`). -/
def fracDigitsAux : Nat → Nat → Nat → List Nat
  | 0, _, _ => []
  | k + 1, f, delta =>
    let f := if delta > 65536 then f + 32768 - 50000 else f
    let d := f / 65536
    let f' := (f % 65536) * 10
    let delta' := delta * 10
    d :: (if f' ≤ delta' then [] else fracDigitsAux k f' delta')

def fracDigits (fp : Nat) : List Nat := fracDigitsAux 17 (fp * 10 + 5) 10

/-- `Scaled::display_no_units`. -/
def printNoUnits (s : Int) : Str :=
  (if s < 0 then ['-'] else []) ++ natChars (s.natAbs / 65536) ++ ['.']
    ++ (fracDigits (s.natAbs % 65536)).map digitChar

/-- `Display for Scaled`. -/
def printScaled (s : Int) : Str := printNoUnits s ++ ['p','t']

/-- The decimal round trip of the fraction part (TeX §102/§103). This is the content of
C06's `print_scaled`/`round_decimals` theorem; here it is a named hypothesis. -/
def ScaledRoundTrip : Prop :=
  ∀ fp : Nat, fp < 65536 →
    fromDecimalDigits (fracDigits fp) = fp ∧ (∀ d ∈ fracDigits fp, d < 10) ∧ fracDigits fp ≠ []

/-- `ScaledUnit::parse` + `conversion_fraction`: `(n, d, isSp)`. -/
def unitFraction (u : Str) : Option (Nat × Nat × Bool) :=
  if u = ['p','t'] then some (1, 1, false)
  else if u = ['p','c'] then some (12, 1, false)
  else if u = ['i','n'] then some (7227, 100, false)
  else if u = ['b','p'] then some (7227, 7200, false)
  else if u = ['c','m'] then some (7227, 254, false)
  else if u = ['m','m'] then some (7227, 2540, false)
  else if u = ['d','d'] then some (1238, 1157, false)
  else if u = ['c','c'] then some (14856, 1157, false)
  else if u = ['s','p'] then some (1, 65536, true)
  else none

def maxDimen : Int := 1073741823

/-- `Scaled::new(integer_part, fractional_part, unit)` (TeX §458); `none` = `OverflowError`. -/
def scaledNew (n : Int) (f : Nat) (num den : Nat) (isSp : Bool) : Option Int :=
  if isSp then (if n > maxDimen then none else some n)
  else
    let b := n * (num : Int)
    let rem := b.tmod den
    let q := b.tdiv den
    if q < -maxDimen || q > maxDimen then none
    else
      let fq := (((f * num : Nat) : Int) + rem * 65536).tdiv den
      let ip := q + fq.tdiv 65536
      if ip ≥ 16384 || ip ≤ -16384 then none
      else some (ip * 65536 + fq.tmod 65536)

/-! ## Leaf level: strings -/

def hexDigitChar : Nat → Char
  | 0 => '0' | 1 => '1' | 2 => '2' | 3 => '3' | 4 => '4' | 5 => '5' | 6 => '6' | 7 => '7'
  | 8 => '8' | 9 => '9' | 10 => 'a' | 11 => 'b' | 12 => 'c' | 13 => 'd' | 14 => 'e' | _ => 'f'

/-- `char::to_digit(16)`. -/
def hexVal (c : Char) : Option Nat :=
  match digitVal c with
  | some d => some d
  | none =>
    if c = 'a' ∨ c = 'A' then some 10 else if c = 'b' ∨ c = 'B' then some 11
    else if c = 'c' ∨ c = 'C' then some 12 else if c = 'd' ∨ c = 'D' then some 13
    else if c = 'e' ∨ c = 'E' then some 14 else if c = 'f' ∨ c = 'F' then some 15
    else none

def hexLsdAux : Nat → Nat → List Nat
  | 0, _ => []
  | f + 1, n => if n < 16 then [n] else n % 16 :: hexLsdAux f (n / 16)

def hexChars (n : Nat) : Str := ((hexLsdAux (n + 1) n).reverse).map hexDigitChar

/-- `char::escape_debug` as used by cst.rs `Value::fmt`. Which characters Rust prints raw
(its `is_printable` / grapheme-extend tables) is a parameter: the round trip holds for
every choice. The seven named escapes are fixed. -/
def escapeChar (raw : Char → Bool) (c : Char) : Str :=
  if c = '\x00' then ['\\', '0']
  else if c = '\t' then ['\\', 't']
  else if c = '\r' then ['\\', 'r']
  else if c = '\n' then ['\\', 'n']
  else if c = '\\' then ['\\', '\\']
  else if c = '"' then ['\\', '"']
  else if c = '\'' then ['\\', '\'']
  else if raw c then [c]
  else ['\\', 'u', '{'] ++ hexChars c.toNat ++ ['}']

def escapeStr (raw : Char → Bool) : Str → Str
  | [] => []
  | c :: r => escapeChar raw c ++ escapeStr raw r

/-- The string token as printed: quote, escaped body, quote. -/
def printStr (raw : Char → Bool) (s : Str) : Str := '"' :: (escapeStr raw s ++ ['"'])

/-- Where an error is: the suffix of the source at which the offending piece starts, and the
suffix after it (the byte range of the real `Str` is `len src - len from .. len src - len to`
in UTF-8 bytes; `lex_error_located`: both are suffixes of the source, `to` a suffix of `from`). -/
abbrev Span := List Char × List Char

/-- The lexer's error classes (`lang::Error` variants recorded by lexer.rs), plus two that
never leave the model's lexer: `unterminatedString` (end of text inside a string: the real
lexer silently stops producing tokens, `lexAux` turns it into the end of the token list) and
`parse` (used by `parseText` for an error of the parser or of `Args::build`). -/
inductive LexErr where
  | invalidCharacter (sp : Span)
  | unknownEscapeSequence (sp : Span)
  | numberOutOfRange (sp : Span)
  | multipleDecimalPoints (sp : Span)
  | numberWithoutUnits (sp : Span)
  | invalidDimensionUnit (sp : Span)
  | unterminatedString
  | parse
deriving DecidableEq, Repr

/-- The label span of an error (`Error::labels` has exactly one label for each lexer error). -/
def LexErr.span : LexErr → Option Span
  | .invalidCharacter sp | .unknownEscapeSequence sp | .numberOutOfRange sp
  | .multipleDecimalPoints sp | .numberWithoutUnits sp | .invalidDimensionUnit sp => some sp
  | .unterminatedString | .parse => none

/-- Results of the text level: `err e` = the real lexer records error `e` (before fix C18-a
some of these were panics); `unsupported` = the fuel of `lexAux` ran out (`lex_total`: it never
does). -/
inductive Res (α : Type) where
  | ok (a : α)
  | err (e : LexErr)
  | unsupported
deriving Repr, DecidableEq

def Res.map {α β} (f : α → β) : Res α → Res β
  | .ok a => .ok (f a) | .err e => .err e | .unsupported => .unsupported

inductive SState where
  | norm
  /-- after a backslash; `bs` = the text from the backslash on -/
  | esc (bs : List Char)
  /-- after `\u` -/
  | afterU (bs : List Char)
  | hex (bs : List Char) (v : Nat) (valid : Bool)

def Res.push {α} (c : Char) : Res (Str × α) → Res (Str × α)
  | .ok p => .ok (c :: p.1, p.2) | .err e => .err e | .unsupported => .unsupported

/-- The string branch of `Lexer::next`, started after the opening quote; one character per
step. Reaching the end of the text inside a string is `err unterminatedString` (the real lexer
silently stops producing tokens; see `lexStep`). -/
def scanStr : SState → List Char → Res (Str × List Char)
  | .norm, [] => .err .unterminatedString
  | .esc _, [] => .err .unterminatedString
  -- the text ends inside a `\u` escape: the escape is reported, then the string is unterminated
  | .afterU bs, [] => .err (.unknownEscapeSequence (bs, []))
  | .hex bs _ _, [] => .err (.unknownEscapeSequence (bs, []))
  | .norm, c :: r =>
    if c = '"' then .ok ([], r)
    else if c = '\\' then scanStr (.esc (c :: r)) r
    else (scanStr .norm r).push c
  | .esc bs, n :: r =>
    if n = '"' ∨ n = '\'' ∨ n = '\\' then (scanStr .norm r).push n
    else if n = 'n' then (scanStr .norm r).push '\n'
    else if n = 't' then (scanStr .norm r).push '\t'
    else if n = '0' then (scanStr .norm r).push '\x00'
    else if n = 'r' then (scanStr .norm r).push '\r'
    else if n = 'u' then scanStr (.afterU bs) r
    else .err (.unknownEscapeSequence (bs, r))
  | .afterU bs, c :: r =>
    if c = '{' then scanStr (.hex bs 0 true) r
    -- malformed `\u` escape (an error since fix C18-a); `c` is not part of it
    else .err (.unknownEscapeSequence (bs, c :: r))
  | .hex bs v valid, c :: r =>
    if c = '}' then
      if valid ∧ Nat.isValidChar v then (scanStr .norm r).push (Char.ofNat v)
      else .err (.unknownEscapeSequence (bs, r))          -- not a scalar value
    else
      match hexVal c with
      | some d => scanStr (.hex bs (v * 16 + d) valid) r
      | none => .err (.unknownEscapeSequence (bs, c :: r)) -- malformed `\u{…` escape

/-! ## Tokens and the lexer -/

inductive BTok where
  | kw (s : Str)
  | lparen | rparen | lbrack | rbrack | comma | eq
  | str (s : Str)
  | int (n : Int)
  | dim (sp : Int)
  | inf (sp : Int) (o : InfOrder)
deriving DecidableEq, Repr

def isAlpha (c : Char) : Bool :=
  ('a'.toNat ≤ c.toNat && c.toNat ≤ 'z'.toNat) || ('A'.toNat ≤ c.toNat && c.toNat ≤ 'Z'.toNat)

/-- `char::is_whitespace` (Unicode `White_Space`). -/
def isWs (c : Char) : Bool :=
  let n := c.toNat
  (9 ≤ n && n ≤ 13) || n = 32 || n = 0x85 || n = 0xA0 || n = 0x1680 || (0x2000 ≤ n && n ≤ 0x200A)
    || n = 0x2028 || n = 0x2029 || n = 0x202F || n = 0x205F || n = 0x3000

/-- Keyword / unit tail: `[a-zA-Z_]*`. -/
def scanWord : List Char → Str × List Char
  | [] => ([], [])
  | c :: r =>
    if isAlpha c || c = '_' then let (w, r') := scanWord r; (c :: w, r') else ([], c :: r)

def dropLine : List Char → List Char
  | [] => []
  | c :: r => if c = '\n' then r else dropLine r

/-- The unit branch of `parse_number`: `st` = the text from the start of the number (for the
error span), `n` = integer part, `ds` = fraction digits, `r` = the text starting at the unit's
first letter. With fix C18-a every overflow is an error. -/
def lexUnit (st : List Char) (neg : Bool) (n : Nat) (ds : List Nat) (r : List Char) :
    Res (BTok × List Char) :=
  let sign : Int := if neg then -1 else 1
  let (u, r') := scanWord r
  if n > 2147483647 then .err (.numberOutOfRange (st, r')) else
  let frac := fromDecimalDigits ds
  match unitFraction u with
  | some (num, den, isSp) =>
    match scaledNew n frac num den isSp with
    | some s => .ok (.dim (sign * s), r')
    | none => .err (.numberOutOfRange (st, r'))
  | none =>
    match InfOrder.ofUnit u with
    | some o =>
      let s : Int := (frac : Int) + 65536 * (n : Int)
      if s > 2147483647 then .err (.numberOutOfRange (st, r')) else .ok (.inf (sign * s) o, r')
    | none => .err (.invalidDimensionUnit (r, r'))

def lexInt (st : List Char) (neg : Bool) (n : Nat) (r : List Char) : Res (BTok × List Char) :=
  if n > 2147483647 then .err (.numberOutOfRange (st, r))
  else .ok (.int ((if neg then -1 else 1) * (n : Int)), r)

/-- `Lexer::parse_number`, started at the first digit (or after the `-`); `st` = the text from
the start of the number (including the `-`). The error is the first one the real lexer
records, with its label span. -/
def lexNumber (st : List Char) (neg : Bool) (cs : List Char) : Res (BTok × List Char) :=
  let (n, r1) := scanDigits 0 cs
  match r1 with
  | [] => lexInt st neg n r1
  | c :: r2 =>
    if c = '.' then
      let (ds, r3) := scanFrac r2
      match r3 with
      | [] => .err (.numberWithoutUnits ([], []))
      | c' :: r4 =>
        if isAlpha c' then lexUnit st neg n ds r3
        else if c' = '.' then .err (.multipleDecimalPoints (r3, r4))
        else .err (.numberWithoutUnits (r3, r4))
    else if isAlpha c then lexUnit st neg n [] r1
    else lexInt st neg n r1

def Res.cons {α} (a : α) : Res (List α) → Res (List α)
  | .ok l => .ok (a :: l) | .err e => .err e | .unsupported => .unsupported

/-- One call of `Lexer::next` at a non-empty text `c :: r`. -/
inductive Step where
  /-- whitespace or a comment was skipped -/
  | skip (rest : List Char)
  | tok (t : BTok) (rest : List Char)
  | err (e : LexErr)
  /-- the lexer returns `None` (end of text inside a string) -/
  | stop

def Step.ofRes : Res (BTok × List Char) → Step
  | .ok (t, r) => .tok t r
  | .err .unterminatedString => .stop
  | .err e => .err e
  | .unsupported => .stop

def lexStep (c : Char) (r : List Char) : Step :=
  if c = '#' then .skip (dropLine r)
  else if isWs c then .skip r
  else if c = '(' then .tok .lparen r
  else if c = ')' then .tok .rparen r
  else if c = '[' then .tok .lbrack r
  else if c = ']' then .tok .rbrack r
  else if c = ',' then .tok .comma r
  else if c = '=' then .tok .eq r
  else if c = '"' then Step.ofRes ((scanStr .norm r).map (fun p => (BTok.str p.1, p.2)))
  else if c = '-' then Step.ofRes (lexNumber (c :: r) true r)
  else if (digitVal c).isSome then Step.ofRes (lexNumber (c :: r) false (c :: r))
  else if isAlpha c then
    let (w, r') := scanWord r
    .tok (.kw (c :: w)) r'
  else .err (.invalidCharacter (c :: r, r))

/-- `Lexer::next` iterated (comments dropped: they do not reach the lists). Every step consumes
at least one character (`lexStep_shorter`), so fuel `length + 1` suffices (`lex_total`). -/
def lexAux : Nat → List Char → Res (List BTok)
  | 0, _ => .unsupported
  | _ + 1, [] => .ok []
  | f + 1, c :: r =>
    match lexStep c r with
    | .skip r' => lexAux f r'
    | .tok t r' => (lexAux f r').cons t
    | .err e => .err e
    | .stop => .ok []

def lex (src : List Char) : Res (List BTok) := lexAux (src.length + 1) src

/-! ## Concrete syntax trees -/

mutual
inductive Val where
  | int (n : Int)
  | dim (sp : Int)
  | inf (sp : Int) (o : InfOrder)
  | str (s : Str)
  | list (cs : List Call)
inductive Arg where
  | mk (key : Option Str) (v : Val)
inductive Call where
  | mk (name : Str) (args : List Arg)
end

instance : Inhabited Val := ⟨.int 0⟩

def Val.isList : Val → Bool
  | .list _ => true | _ => false
def Arg.isList : Arg → Bool
  | .mk _ v => v.isList

/-- `ArgsPrinter`: a call is laid out one argument per line (each followed by a comma) iff
it has a list argument or more than four arguments; otherwise on one line with separating
commas. Only the comma tokens of the layout survive at the token level. -/
def multiline (args : List Arg) : Bool := args.any Arg.isList || decide (args.length ≥ 5)

mutual
def printVal : Val → List BTok
  | .int n => [.int n]
  | .dim s => [.dim s]
  | .inf s o => [.inf s o]
  | .str s => [.str s]
  | .list cs => .lbrack :: (printCalls cs ++ [.rbrack])
def printArg : Arg → List BTok
  | .mk none v => printVal v
  | .mk (some k) v => .kw k :: .eq :: printVal v
/-- multi-line style: every argument is followed by a comma. -/
def printArgsMulti : List Arg → List BTok
  | [] => []
  | a :: r => printArg a ++ .comma :: printArgsMulti r
/-- single-line style: commas between arguments. -/
def printArgsSingle : List Arg → List BTok
  | [] => []
  | a :: r => printArg a ++ (match r with | [] => [] | _ :: _ => .comma :: printArgsSingle r)
def printCall : Call → List BTok
  | .mk name args =>
    .kw name :: .lparen ::
      ((if multiline args then printArgsMulti args else printArgsSingle args) ++ [.rparen])
def printCalls : List Call → List BTok
  | [] => []
  | c :: r => printCall c ++ printCalls r
end

/-- The optional comma after an argument value (`parse_optional`). -/
def skipComma : List BTok → List BTok
  | .comma :: t => t
  | t => t

mutual
/-- cst.rs `ParseTreeIter::next` on well-formed input: a sequence of `name ( args )`. Stops
(successfully) at the first token that does not start a call. -/
def parseCalls : Nat → List BTok → Option (List Call × List BTok)
  | 0, _ => none
  | f + 1, toks =>
    match toks with
    | .kw name :: .lparen :: t =>
      match parseArgs f t with
      | some (args, t') =>
        match parseCalls f t' with
        | some (cs, t'') => some (.mk name args :: cs, t'')
        | none => none
      | none => none
    | t => some ([], t)
/-- cst.rs `ParseArgsIter::next`: arguments up to the closing parenthesis; a comma after a
value is optional. -/
def parseArgs : Nat → List BTok → Option (List Arg × List BTok)
  | 0, _ => none
  | f + 1, toks =>
    match toks with
    | .rparen :: t => some ([], t)
    | .kw k :: .eq :: t =>
      match parseVal f t with
      | some (v, t') =>
        match parseArgs f (skipComma t') with
        | some (as, t'') => some (.mk (some k) v :: as, t'')
        | none => none
      | none => none
    | t =>
      match parseVal f t with
      | some (v, t') =>
        match parseArgs f (skipComma t') with
        | some (as, t'') => some (.mk none v :: as, t'')
        | none => none
      | none => none
def parseVal : Nat → List BTok → Option (Val × List BTok)
  | 0, _ => none
  | f + 1, toks =>
    match toks with
    | .int n :: t => some (.int n, t)
    | .dim s :: t => some (.dim s, t)
    | .inf s o :: t => some (.inf s o, t)
    | .str s :: t => some (.str s, t)
    | .lbrack :: t =>
      match parseCalls f t with
      | some (cs, .rbrack :: t') => some (.list cs, t')
      | _ => none
    | _ => none
end

/-- A whole source: calls up to the end of the tokens. -/
def parseSource (toks : List BTok) : Option (List Call) :=
  match parseCalls (toks.length + 1) toks with
  | some (cs, []) => some cs
  | _ => none

/-- Token-level `lang::format`: parse to a CST and pretty-print it. -/
def formatToks (toks : List BTok) : Option (List BTok) :=
  (parseSource toks).map printCalls

/-! ## Functions and fields (ast.rs `functions!`) -/

inductive Fn where
  | chars | glue | penalty | kern | hbox | lig | vbox | disc | rule | mark | adjust
  | insertion | math
deriving DecidableEq, Repr

inductive Field where
  | content | font | width | stretch | shrink | value | height | depth | shift_amount
  | glue_ratio | glue_order | char | original_chars | includes_left_boundary
  | includes_right_boundary | pre_break | post_break | replace_count | dummy | box_number
  | split_max_depth | split_top_skip_width | split_top_skip_stretch | split_top_skip_shrink
  | float_penalty | vbox | kind
deriving DecidableEq, Repr

def Fn.name : Fn → Str
  | .chars => ['c','h','a','r','s'] | .glue => ['g','l','u','e']
  | .penalty => ['p','e','n','a','l','t','y'] | .kern => ['k','e','r','n']
  | .hbox => ['h','b','o','x'] | .lig => ['l','i','g'] | .vbox => ['v','b','o','x']
  | .disc => ['d','i','s','c'] | .rule => ['r','u','l','e'] | .mark => ['m','a','r','k']
  | .adjust => ['a','d','j','u','s','t'] | .insertion => ['i','n','s','e','r','t','i','o','n']
  | .math => ['m','a','t','h']

def Fn.all : List Fn :=
  [.chars, .glue, .penalty, .kern, .hbox, .lig, .vbox, .disc, .rule, .mark, .adjust, .insertion, .math]

def fnOfName (s : Str) : Option Fn := Fn.all.find? (fun f => f.name = s)

def Field.name : Field → Str
  | .content => "content".toList | .font => "font".toList | .width => "width".toList
  | .stretch => "stretch".toList | .shrink => "shrink".toList | .value => "value".toList
  | .height => "height".toList | .depth => "depth".toList
  | .shift_amount => "shift_amount".toList | .glue_ratio => "glue_ratio".toList
  | .glue_order => "glue_order".toList | .char => "char".toList
  | .original_chars => "original_chars".toList
  | .includes_left_boundary => "includes_left_boundary".toList
  | .includes_right_boundary => "includes_right_boundary".toList
  | .pre_break => "pre_break".toList | .post_break => "post_break".toList
  | .replace_count => "replace_count".toList | .dummy => "dummy".toList
  | .box_number => "box_number".toList | .split_max_depth => "split_max_depth".toList
  | .split_top_skip_width => "split_top_skip_width".toList
  | .split_top_skip_stretch => "split_top_skip_stretch".toList
  | .split_top_skip_shrink => "split_top_skip_shrink".toList
  | .float_penalty => "float_penalty".toList | .vbox => "vbox".toList | .kind => "kind".toList

def Field.all : List Field :=
  [.content, .font, .width, .stretch, .shrink, .value, .height, .depth, .shift_amount,
   .glue_ratio, .glue_order, .char, .original_chars, .includes_left_boundary,
   .includes_right_boundary, .pre_break, .post_break, .replace_count, .dummy, .box_number,
   .split_max_depth, .split_top_skip_width, .split_top_skip_stretch, .split_top_skip_shrink,
   .float_penalty, .vbox, .kind]

def fieldOfName (s : Str) : Option Field := Field.all.find? (fun f => f.name = s)

/-- `Func::FIELD_NAMES`. -/
def Fn.fields : Fn → List Field
  | .chars => [.content, .font]
  | .glue => [.width, .stretch, .shrink]
  | .penalty => [.value]
  | .kern => [.width]
  | .hbox => [.height, .width, .depth, .shift_amount, .glue_ratio, .glue_order, .content]
  | .lig => [.char, .original_chars, .font, .includes_left_boundary, .includes_right_boundary]
  | .vbox => [.height, .width, .depth, .shift_amount, .content]
  | .disc => [.pre_break, .post_break, .replace_count]
  | .rule => [.height, .width, .depth]
  | .mark => [.dummy]
  | .adjust => [.content]
  | .insertion => [.box_number, .height, .split_max_depth, .split_top_skip_width,
      .split_top_skip_stretch, .split_top_skip_shrink, .float_penalty, .vbox]
  | .math => [.kind]

/-- `Func::DEFAULT_NUM_POS_ARG`. -/
def Fn.npos : Fn → Nat
  | .chars => 1 | .glue => 3 | .penalty => 1 | .kern => 1 | .hbox => 0 | .lig => 2 | .vbox => 0
  | .disc => 0 | .rule => 3 | .mark => 0 | .adjust => 0 | .insertion => 1 | .math => 1

inductive Mode where
  | H | V | D
deriving DecidableEq, Repr

/-- Which functions exist in which list kind (the `impl Horizontal/Vertical/DiscretionaryElem`
clauses of `functions!`). -/
def allowedV : Fn → Bool
  | .glue | .penalty | .kern | .hbox | .vbox | .rule | .mark | .insertion | .math => true
  | _ => false
def allowedD : Fn → Bool
  | .chars | .kern | .hbox | .vbox | .lig | .rule => true
  | _ => false
def allowed : Mode → Fn → Bool
  | .H, _ => true
  | .V, f => allowedV f
  | .D, f => allowedD f

/-! ## Lists (ds.rs) -/

inductive Node where
  | char (c : Char) (font : Nat)
  | glue (kind : Nat) (w st : Int) (sto : Order) (sh : Int) (sho : Order)
  | kern (kind : Nat) (w : Int)
  | penalty (p : Int)
  | rule (h w d : Int)
  | lig (c : Char) (orig : Str) (font : Nat) (left right : Bool)
  | disc (pre post : List Node) (replace : Nat)
  /-- `ratio`: the glue ratio as the scaled value its printed form denotes. -/
  | hbox (h w d shift : Int) (ratio : Int) (order : Order) (l : List Node)
  /-- `gset`: the box carries a non-default glue ratio/order (not expressible). -/
  | vbox (h w d shift : Int) (gset : Bool) (l : List Node)
  | mark (n : Nat)
  | adjust (l : List Node)
  | ins (box : Nat) (h maxd w st : Int) (sto : Order) (sh : Int) (sho : Order) (floatp : Nat)
      (l : List Node)
  | math (after : Bool)
deriving Repr, Inhabited

def running : Int := -2147483648

/-- `u32 as i32`. -/
def toI32 (n : Nat) : Int := if n < 2147483648 then n else (n : Int) - 4294967296
/-- `i32 as u32`. -/
def toU32 (i : Int) : Nat := (i % 4294967296).toNat
/-- `i32 as u8`. -/
def toU8 (i : Int) : Nat := (i % 256).toNat

def boolStr (b : Bool) : Str := if b then ['t','r','u','e'] else ['f','a','l','s','e']

/-- ast.rs `impl Value for (Scaled, GlueOrder)`: `lower` (a finite component prints with
the unit `pt`, which the lexer reads back as a plain dimension). -/
def stretchVal (s : Int) : Order → Val
  | .normal => .dim s | .fil => .inf s .fil | .fill => .inf s .fill | .filll => .inf s .filll

/-- ast.rs `MaybeRunning::from_scaled` + `lower`. -/
def runningVal (s : Int) : Val := if s = running then .str ['r','u','n','n','i','n','g'] else .dim s

/-- The `lower_arg` loop: the first `npos` fields positionally, the rest by keyword. -/
def mkArgs : Nat → List Field → List Val → List Arg
  | _, [], _ => []
  | _, _ :: _, [] => []
  | 0, f :: fs, v :: vs => .mk (some f.name) v :: mkArgs 0 fs vs
  | n + 1, _ :: fs, v :: vs => .mk none v :: mkArgs n fs vs

def mkCall (fn : Fn) (vals : List Val) : Call := .mk fn.name (mkArgs fn.npos fn.fields vals)

def charsCall (s : Str) (font : Nat) : Call := mkCall .chars [.str s, .int (toI32 font)]

mutual
/-- convert.rs `ToBoxLang for ds::Horizontal / Vertical / DiscretionaryElem` + `lower_arg`. -/
def lowerNode : Node → Call
  | .char c font => charsCall [c] font
  | .glue _ w st sto sh sho => mkCall .glue [.dim w, stretchVal st sto, stretchVal sh sho]
  | .kern _ w => mkCall .kern [.dim w]
  | .penalty p => mkCall .penalty [.int p]
  | .rule h w d => mkCall .rule [runningVal h, runningVal w, runningVal d]
  | .lig c orig font left right =>
    mkCall .lig [.str [c], .str orig, .int (toI32 font), .str (boolStr left), .str (boolStr right)]
  | .disc pre post replace =>
    mkCall .disc [.list (lowerD pre), .list (lowerD post), .int (toI32 replace)]
  | .hbox h w d shift ratio order l =>
    mkCall .hbox [.dim h, .dim w, .dim d, .dim shift, .str (printNoUnits ratio),
      .str order.keyword, .list (goH none l)]
  | .vbox h w d shift _ l => mkCall .vbox [.dim h, .dim w, .dim d, .dim shift, .list (lowerV l)]
  | .mark _ => mkCall .mark [.int 0]
  | .adjust l => mkCall .adjust [.list (lowerV l)]
  | .ins box h maxd w st sto sh sho floatp l =>
    mkCall .insertion [.int box, .dim h, .dim maxd, .dim w, stretchVal st sto, stretchVal sh sho,
      .int (toI32 floatp), .list (lowerV l)]
  | .math after => mkCall .math [.str (if after then ['a','f','t','e','r'] else ['b','e','f','o','r','e'])]
/-- convert.rs `ToBoxLang for Vec<ds::Horizontal>`: runs of characters in one font are
merged into one `chars` call (`cur` = the pending run: font and buffer). -/
def goH : Option (Nat × Str) → List Node → List Call
  | none, [] => []
  | some (f, buf), [] => [charsCall buf f]
  | none, .char c font :: r => goH (some (font, [c])) r
  | some (f, buf), .char c font :: r =>
    if font = f then goH (some (f, buf ++ [c])) r
    else charsCall buf f :: goH (some (font, [c])) r
  | none, n :: r => lowerNode n :: goH none r
  | some (f, buf), n :: r => charsCall buf f :: lowerNode n :: goH none r
def lowerV : List Node → List Call
  | [] => []
  | n :: r => lowerNode n :: lowerV r
def lowerD : List Node → List Call
  | [] => []
  | n :: r => lowerNode n :: lowerD r
end

def lowerH (l : List Node) : List Call := goH none l

/-- The per-element printer (`Display for ds::Horizontal`, used by boxworks-testing): no
merging across elements. -/
def lowerEach : List Node → List Call
  | [] => []
  | n :: r => lowerNode n :: lowerEach r

def lower : Mode → List Node → List Call
  | .H => lowerH | .V => lowerV | .D => lowerD

/-! ## CST → lists (ast.rs `Args::build` + convert.rs `ToBoxworks`) -/

/-- `Args::build`: positional arguments take the next field name, keyword arguments name
their field; a positional argument after a keyword one, too many positionals and unknown
keywords are errors. -/
def resolve (fields : List Field) : List Field → Bool → List Arg → Option (List (Field × Val))
  | _, _, [] => some []
  | pos, seen, .mk none v :: r =>
    if seen then none
    else match pos with
      | [] => none
      | f :: pos' => (resolve fields pos' false r).map ((f, v) :: ·)
  | pos, _, .mk (some k) v :: r =>
    match fieldOfName k with
    | some f => if f ∈ fields then (resolve fields pos true r).map ((f, v) :: ·) else none
    | none => none

/-- `Arg::assign`: a second assignment to a field is an error. -/
def nodupFields : List (Field × Val) → Bool
  | [] => true
  | (f, _) :: r => !(r.any (fun p => p.1 = f)) && nodupFields r

def getField (r : List (Field × Val)) (f : Field) : Option Val :=
  match r.find? (fun p => p.1 = f) with
  | some p => some p.2
  | none => none

def getDim (r : List (Field × Val)) (f : Field) : Option Int :=
  match getField r f with
  | none => some 0
  | some (.dim s) => some s
  | some _ => none

def getInt (r : List (Field × Val)) (f : Field) : Option Int :=
  match getField r f with
  | none => some 0
  | some (.int n) => some n
  | some _ => none

def getStr (r : List (Field × Val)) (f : Field) : Option (Option Str) :=
  match getField r f with
  | none => some none
  | some (.str s) => some (some s)
  | some _ => none

/-- `impl Value for (Scaled, GlueOrder)`. -/
def getStretch (r : List (Field × Val)) (f : Field) : Option (Int × Order) :=
  match getField r f with
  | none => some (0, .normal)
  | some (.dim s) => some (s, .normal)
  | some (.inf s o) => some (s, o.toOrder)
  | some _ => none

/-- `impl Value for MaybeRunning` + `to_scaled`. -/
def getRunning (r : List (Field × Val)) (f : Field) : Option Int :=
  match getField r f with
  | none => some 0
  | some (.dim s) => some s
  | some (.str s) => if s = ['r','u','n','n','i','n','g'] then some running else none
  | some _ => none

def getList (r : List (Field × Val)) (f : Field) : Option (List Call) :=
  match getField r f with
  | none => some []
  | some (.list cs) => some cs
  | some _ => none

def getBool (r : List (Field × Val)) (f : Field) : Option Bool :=
  match getStr r f with
  | some none => some false
  | some (some s) =>
    if s = ['t','r','u','e'] then some true else if s = ['f','a','l','s','e'] then some false else none
  | none => none

/-- `str::parse::<i32>`: optional sign, at least one digit, in range. -/
def parseI32 (s : Str) : Option Int :=
  match s with
  | [] => none
  | c :: r =>
    let ds := if c = '-' ∨ c = '+' then r else c :: r
    match ds with
    | [] => none
    | _ :: _ =>
      match scanDigits 0 ds with
      | (n, []) =>
        let v : Int := if c = '-' then -(n : Int) else n
        if v < -2147483648 || v > 2147483647 then none else some v
      | _ => none

def splitDot : List Char → List Char × Option (List Char)
  | [] => ([], none)
  | c :: r => if c = '.' then ([], some r) else let (a, b) := splitDot r; (c :: a, b)

/-- `GlueRatio::from_float_str` (with fix C18-e): an optional `-` for the whole number, an
`i32` integer part, an optional fraction of decimal digits (`from_decimal_digits`), the value
`integer * 2^16 + fraction` in the range of an `i32` other than `i32::MIN`. Before C18-e the
number was read as a dimension (`Scaled::parse_from_string(s ++ "pt")`) and values of 16384
and more — which `Display for GlueRatio` writes, up to `20000.0` — were rejected. -/
def parseRatioAbs (s : Str) : Option Int :=
  let (ip, fr) := splitDot s
  match parseI32 ip with
  | none => none
  | some n =>
    let fs := fr.getD []
    match scanFrac fs with
    | (ds, []) =>
      let v : Int := n * 65536 + (((ds.foldr (fun d a => (a + d * 131072) / 10) 0 + 1) / 2 : Nat) : Int)
      if v < -2147483647 || v > 2147483647 then none else some v
    | _ => none

def parseRatio (s : Str) : Option Int :=
  match s with
  | [] => none
  | c :: r => if c = '-' then (parseRatioAbs r).map (fun v => -v) else parseRatioAbs (c :: r)

def getRatio (r : List (Field × Val)) (f : Field) : Option Int :=
  match getStr r f with
  | some none => some 0
  | some (some s) => parseRatio s
  | none => none

def getOrder (r : List (Field × Val)) (f : Field) : Option Order :=
  match getStr r f with
  | some none => some .normal
  | some (some s) => Order.ofKeyword s
  | none => none

/-- `impl Value for char`: a string of exactly one character; default `'\0'`. -/
def getChar (r : List (Field × Val)) (f : Field) : Option Char :=
  match getStr r f with
  | some none => some '\x00'
  | some (some [c]) => some c
  | _ => none

mutual
def buildCalls : Nat → Mode → List Call → Option (List Node)
  | 0, _, _ => none
  | f + 1, m, cs =>
    match cs with
    | [] => some []
    | c :: r =>
      match buildCall f m c with
      | some a =>
        match buildCalls f m r with
        | some b => some (a ++ b)
        | none => none
      | none => none
/-- `convert_call_to_*_elem` + `Args::build`: resolve the function and its arguments. -/
def buildCall : Nat → Mode → Call → Option (List Node)
  | 0, _, _ => none
  | f + 1, m, .mk name args =>
    match fnOfName name with
    | none => none
    | some fn =>
      if !allowed m fn then none else
      match resolve fn.fields fn.fields false args with
      | none => none
      | some r => if !nodupFields r then none else buildFn f fn r
/-- The typed fields of each function (`Arg::assign` casts) and `ToBoxworks`. -/
def buildFn : Nat → Fn → List (Field × Val) → Option (List Node)
  | 0, _, _ => none
  | f + 1, fn, r =>
    match fn with
    | .chars =>
      match getStr r .content, getInt r .font with
      | some s, some font => some ((s.getD []).map (Node.char · (toU32 font)))
      | _, _ => none
    | .glue =>
      match getDim r .width, getStretch r .stretch, getStretch r .shrink with
      | some w, some st, some sh => some [.glue 0 w st.1 st.2 sh.1 sh.2]
      | _, _, _ => none
    | .penalty =>
      match getInt r .value with
      | some p => some [.penalty p]
      | none => none
    | .kern =>
      match getDim r .width with
      | some w => some [.kern 0 w]
      | none => none
    | .hbox =>
      match getDim r .height, getDim r .width, getDim r .depth, getDim r .shift_amount,
        getRatio r .glue_ratio, getOrder r .glue_order, getList r .content with
      | some h, some w, some d, some s, some g, some o, some cs =>
        match buildCalls f .H cs with
        | some l => some [.hbox h w d s g o l]
        | none => none
      | _, _, _, _, _, _, _ => none
    | .lig =>
      match getChar r .char, getStr r .original_chars, getInt r .font,
        getBool r .includes_left_boundary, getBool r .includes_right_boundary with
      | some c, some o, some font, some lb, some rb =>
        some [.lig c (o.getD []) (toU32 font) lb rb]
      | _, _, _, _, _ => none
    | .vbox =>
      match getDim r .height, getDim r .width, getDim r .depth, getDim r .shift_amount,
        getList r .content with
      | some h, some w, some d, some s, some cs =>
        match buildCalls f .V cs with
        | some l => some [.vbox h w d s false l]
        | none => none
      | _, _, _, _, _ => none
    | .disc =>
      match getList r .pre_break, getList r .post_break, getInt r .replace_count with
      | some pre, some post, some rc =>
        match buildCalls f .D pre, buildCalls f .D post with
        | some a, some b => some [.disc a b (toU32 rc)]
        | _, _ => none
      | _, _, _ => none
    | .rule =>
      match getRunning r .height, getRunning r .width, getRunning r .depth with
      | some h, some w, some d => some [.rule h w d]
      | _, _, _ => none
    | .mark =>
      match getInt r .dummy with
      | some _ => some [.mark 0]
      | none => none
    | .adjust =>
      match getList r .content with
      | some cs =>
        match buildCalls f .V cs with
        | some l => some [.adjust l]
        | none => none
      | none => none
    | .insertion =>
      match getInt r .box_number, getDim r .height, getDim r .split_max_depth,
        getDim r .split_top_skip_width, getStretch r .split_top_skip_stretch,
        getStretch r .split_top_skip_shrink, getInt r .float_penalty, getList r .vbox with
      | some b, some h, some md, some w, some st, some sh, some fp, some cs =>
        match buildCalls f .V cs with
        | some l => some [.ins (toU8 b) h md w st.1 st.2 sh.1 sh.2 (toU32 fp) l]
        | none => none
      | _, _, _, _, _, _, _, _ => none
    | .math =>
      match getStr r .kind with
      | some k => some [.math (decide (k.getD [] = ['a','f','t','e','r']))]
      | none => none
end

mutual
def valSize : Val → Nat
  | .list cs => callsSize cs + 1
  | _ => 1
def argSize : Arg → Nat
  | .mk _ v => valSize v + 1
def argsSize : List Arg → Nat
  | [] => 1
  | a :: r => argSize a + argsSize r + 1
def callSize : Call → Nat
  | .mk _ args => argsSize args + 1
def callsSize : List Call → Nat
  | [] => 1
  | c :: r => callSize c + callsSize r + 1
end

def build (m : Mode) (cs : List Call) : Option (List Node) := buildCalls (2 * callsSize cs + 1) m cs

/-- Token level `parse_horizontal_list` (m = H) / vertical counterpart. -/
def parseToks (m : Mode) (toks : List BTok) : Option (List Node) :=
  match parseSource toks with
  | some cs => build m cs
  | none => none

/-- Text level. -/
def parseText (m : Mode) (src : List Char) : Res (List Node) :=
  match lex src with
  | .ok toks => match parseToks m toks with | some l => .ok l | none => .err .parse
  | .err e => .err e
  | .unsupported => .unsupported

def printNodes (m : Mode) (l : List Node) : List BTok := printCalls (lower m l)

/-! ## What the language can express -/

def dimOk (s : Int) : Bool := decide (-maxDimen ≤ s ∧ s ≤ maxDimen)
def ruleDimOk (s : Int) : Bool := s = running || dimOk s
def intOk (n : Int) : Bool := decide (-2147483647 ≤ n ∧ n ≤ 2147483647)
def u32Ok (n : Nat) : Bool := decide (n < 4294967296 ∧ n ≠ 2147483648)
def stretchOk (s : Int) : Order → Bool
  | .normal => dimOk s
  | _ => intOk s

def kindFn : Node → Fn
  | .char .. => .chars | .glue .. => .glue | .kern .. => .kern | .penalty .. => .penalty
  | .rule .. => .rule | .lig .. => .lig | .disc .. => .disc | .hbox .. => .hbox | .vbox .. => .vbox
  | .mark .. => .mark | .adjust .. => .adjust | .ins .. => .insertion | .math .. => .math

mutual
/-- The list values the language can express (the quantifier of C18, made exact). -/
def exprNode : Node → Bool
  | .char _ font => u32Ok font
  | .glue kind w st sto sh sho => kind = 0 && dimOk w && stretchOk st sto && stretchOk sh sho
  | .kern kind w => kind = 0 && dimOk w
  | .penalty p => intOk p
  | .rule h w d => ruleDimOk h && ruleDimOk w && ruleDimOk d
  | .lig _ _ font _ _ => u32Ok font
  | .disc pre post replace => exprList .D pre && exprList .D post && u32Ok replace
  | .hbox h w d shift ratio _ l =>
    dimOk h && dimOk w && dimOk d && dimOk shift && decide (0 ≤ ratio) && intOk ratio && exprList .H l
  | .vbox h w d shift gset l =>
    dimOk h && dimOk w && dimOk d && dimOk shift && !gset && exprList .V l
  | .mark n => n = 0
  | .adjust l => exprList .V l
  | .ins box h maxd w st sto sh sho floatp l =>
    decide (box < 256) && dimOk h && dimOk maxd && dimOk w && stretchOk st sto && stretchOk sh sho
      && u32Ok floatp && exprList .V l
  | .math _ => true
def exprList : Mode → List Node → Bool
  | _, [] => true
  | m, n :: r => allowed m (kindFn n) && exprNode n && exprList m r
end

/-! ## What printing forgets, and what the token level needs -/

mutual
/-- The list that printing and parsing back produces: kern kinds, glue kinds, mark contents
and the glue set of a vbox have no syntax and come back as their defaults. -/
def normNode : Node → Node
  | .char c f => .char c f
  | .glue _ w st sto sh sho => .glue 0 w st sto sh sho
  | .kern _ w => .kern 0 w
  | .penalty p => .penalty p
  | .rule h w d => .rule h w d
  | .lig c o f l r => .lig c o f l r
  | .disc pre post rc => .disc (normList pre) (normList post) rc
  | .hbox h w d s g o l => .hbox h w d s g o (normList l)
  | .vbox h w d s _ l => .vbox h w d s false (normList l)
  | .mark _ => .mark 0
  | .adjust l => .adjust (normList l)
  | .ins b h md w st sto sh sho fp l => .ins b h md w st sto sh sho fp (normList l)
  | .math a => .math a
def normList : List Node → List Node
  | [] => []
  | n :: r => normNode n :: normList r
end

mutual
/-- What the *token level* round trip needs (the dimension and integer ranges of `exprNode`
are needed only when tokens become text). -/
def reprNode : Node → Bool
  | .char _ font => decide (font < 4294967296)
  | .lig _ _ font _ _ => decide (font < 4294967296)
  | .disc pre post rc => reprList .D pre && reprList .D post && decide (rc < 4294967296)
  | .hbox _ _ _ _ ratio _ l => decide (0 ≤ ratio) && decide (ratio ≤ 2147483647) && reprList .H l
  | .vbox _ _ _ _ _ l => reprList .V l
  | .adjust l => reprList .V l
  | .ins box _ _ _ _ _ _ _ fp l => decide (box < 256) && decide (fp < 4294967296) && reprList .V l
  | _ => true
def reprList : Mode → List Node → Bool
  | _, [] => true
  | m, n :: r => allowed m (kindFn n) && reprNode n && reprList m r
end

/-! ## The printer's concrete text (cst.rs `pretty_print_impl`, `ArgsPrinter`)

What `cst::pretty_print` writes for a CST without comments, character by character: a call
is `<indent>name(` … `)` + newline; in the one-line layout the arguments are separated by
`", "`; in the one-argument-per-line layout every argument is on its own line, indented by
two more spaces and followed by a comma, and the closing parenthesis is on its own line; a
list argument is `[` + newline + its calls four columns deeper + `<indent+2>]`, or `[]`. -/

def indent (d : Nat) : List Char := List.replicate d ' '

mutual
/-- `Value::fmt` (cst.rs) for the leaves; a list is printed by `pretty_print_impl` at depth
`d + 4`, where `d` is the depth of the enclosing call. -/
def renderVal (raw : Char → Bool) (d : Nat) : Val → List Char
  | .int n => printInt n
  | .dim s => printScaled s
  | .inf s o => printNoUnits s ++ o.unit
  | .str s => printStr raw s
  | .list cs =>
    '[' :: ((match cs with
      | [] => []
      | _ :: _ => '\n' :: (renderCalls raw (d + 4) cs ++ indent (d + 2))) ++ [']'])
def renderArg (raw : Char → Bool) (d : Nat) : Arg → List Char
  | .mk none v => renderVal raw d v
  | .mk (some k) v => k ++ '=' :: renderVal raw d v
/-- `ArgsPrinter::print_multiline` for every argument. -/
def renderArgsMulti (raw : Char → Bool) (d : Nat) : List Arg → List Char
  | [] => []
  | a :: r => '\n' :: (indent d ++ ' ' :: ' ' :: (renderArg raw d a ++ ',' :: renderArgsMulti raw d r))
/-- `ArgsPrinter::flush` of the buffered arguments. -/
def renderArgsSingle (raw : Char → Bool) (d : Nat) : List Arg → List Char
  | [] => []
  | a :: r =>
    renderArg raw d a ++ (match r with | [] => [] | _ :: _ => ',' :: ' ' :: renderArgsSingle raw d r)
def renderCall (raw : Char → Bool) (d : Nat) : Call → List Char
  | .mk name args =>
    indent d ++ (name ++ '(' ::
      ((if multiline args then renderArgsMulti raw d args ++ '\n' :: indent d
        else renderArgsSingle raw d args) ++ [')', '\n']))
def renderCalls (raw : Char → Bool) (d : Nat) : List Call → List Char
  | [] => []
  | c :: r => renderCall raw d c ++ renderCalls raw d r
end

/-- The text of a list: `Vec<_>::to_box_lang` + `cst::pretty_print` at depth 0. -/
def renderNodes (raw : Char → Bool) (m : Mode) (l : List Node) : List Char :=
  renderCalls raw 0 (lower m l)

/-- The text of a horizontal list printed element by element (`Display for ds::Horizontal`). -/
def renderEach (raw : Char → Bool) (l : List Node) : List Char :=
  renderCalls raw 0 (lowerEach l)

/-- UTF-8 length of a text (the real `Str` spans are byte ranges). -/
def utf8Len : List Char → Nat
  | [] => 0
  | c :: r => c.utf8Size + utf8Len r

/-- The byte range of a span in `src`. -/
def byteRange (src : List Char) (sp : Span) : Nat × Nat :=
  (utf8Len src - utf8Len sp.1, utf8Len src - utf8Len sp.2)

/-! ## The bracket pre-pass (lexer.rs `Lexer::build`)

The real parser does not find the end of an argument list or of a list by parsing: a pass
over the whole source matches every opening bracket with a closing one (of either kind)
counting depth, skipping comments and strings (with `\` escaping the next character), and the
parser hands the text between the brackets to a sub-lexer. `closeScan st d txt` is that pass
started after an opening bracket (`d` = brackets opened since): the text up to the matching
closer, the closer, the text after it. -/

inductive PState where
  | regular | comment | string | escaped
deriving DecidableEq, Repr

def consIn (c : Char) : Option (List Char × Char × List Char) → Option (List Char × Char × List Char)
  | some (ins, cl, aft) => some (c :: ins, cl, aft)
  | none => none

def closeScan : PState → Nat → List Char → Option (List Char × Char × List Char)
  | _, _, [] => none
  | .regular, d, c :: r =>
    if c = '(' ∨ c = '[' then consIn c (closeScan .regular (d + 1) r)
    else if c = ')' ∨ c = ']' then
      match d with
      | 0 => some ([], c, r)
      | d' + 1 => consIn c (closeScan .regular d' r)
    else if c = '#' then consIn c (closeScan .comment d r)
    else if c = '"' then consIn c (closeScan .string d r)
    else consIn c (closeScan .regular d r)
  | .comment, d, c :: r =>
    if c = '\n' then consIn c (closeScan .regular d r) else consIn c (closeScan .comment d r)
  | .string, d, c :: r =>
    if c = '"' then consIn c (closeScan .regular d r)
    else if c = '\\' then consIn c (closeScan .escaped d r)
    else consIn c (closeScan .string d r)
  | .escaped, d, c :: r => consIn c (closeScan .string d r)

/-- For every bracket token of the text, in order: the byte offset of the closing bracket the
pre-pass matches it with (`TokenValue::RoundOpen/SquareOpen { closing }`), `none` = unmatched. -/
def bracketCloses (src : List Char) : Nat → List Char → List (Option Nat)
  | 0, _ => []
  | _ + 1, [] => []
  | f + 1, c :: r =>
    match lexStep c r with
    | .skip r' => bracketCloses src f r'
    | .tok t r' =>
      (if t = .lparen ∨ t = .lbrack then
        [match closeScan .regular 0 r' with
         | some (_, _, aft) => some (utf8Len src - utf8Len aft - 1)
         | none => none]
       else []) ++ bracketCloses src f r'
    -- after an error the real lexer goes on; the model stops (compared up to here)
    | .err _ => []
    | .stop => []

/-- Text level `lang::format` for a text without comments (the model lexer drops comments,
the real formatter keeps them): lex, parse to a CST, pretty-print. -/
def formatText (raw : Char → Bool) (src : List Char) : Res (List Char) :=
  match lex src with
  | .ok toks =>
    match parseSource toks with
    | some cs => .ok (renderCalls raw 0 cs)
    | none => .err .parse
  | .err e => .err e
  | .unsupported => .unsupported

/-- A function or argument name: a letter, then letters and underscores. -/
def isWord : Str → Bool
  | [] => false
  | c :: t => isAlpha c && t.all (fun x => isAlpha x || decide (x = '_'))

/-- Sizes for fuel. -/
def tokFuel (toks : List BTok) : Nat := toks.length + 1

end C18
