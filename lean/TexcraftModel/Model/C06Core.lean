/-
C06 — the part of the model and of the specification that the kernel-evaluated fraction tables
(`Tables/C06*.lean`) depend on: `from_decimal_digits` (TeX §102), the digit loop of
`display_no_units`, and Knuth's `print_scaled` loop (§103). Kept apart from `Model/C06.lean` so
that a change to the scanning or arithmetic model does not rebuild the tables. Core Lean only.
-/
namespace C06

/-- The loop of `Scaled::from_decimal_digits` (last digit first). -/
def rdAcc : List Nat → Int
  | [] => 0
  | d :: ds => (rdAcc ds + (d : Int) * 131072) / 10

/-- `Scaled::from_decimal_digits` (TeX §102). -/
def fromDecimalDigits (ds : List Nat) : Int := (rdAcc ds + 1) / 2

/-- The digit loop of `display_no_units`. `none` = a panic (`char::from_digit(..).unwrap()`,
`try_into().unwrap()`) or fuel exhausted (proved unreachable for fractions `< 2^16`). -/
def printFracLoop : Nat → Int → Int → Option (List Nat)
  | 0, _, _ => none
  | fuel + 1, f, delta =>
    let f1 := if delta > 65536 then f + (32768 - 50000) else f
    let d := Int.tdiv f1 65536
    if d < 0 ∨ d ≥ 10 then none
    else
      let f2 := Int.tmod f1 65536 * 10
      let delta2 := delta * 10
      if f2 ≤ delta2 then some [d.toNat]
      else (printFracLoop fuel f2 delta2).map (d.toNat :: ·)

/-- Fraction digits of a fractional part `0 ≤ fr < 2^16`. -/
def printFrac (fr : Int) : Option (List Nat) := printFracLoop 8 (fr * 10 + 5) 10

/-- Zero-fill to 17 digits (`let mut f = [0_u8; 17]`). -/
def pad17 (ds : List Nat) : List Nat := ds ++ List.replicate (17 - ds.length) 0

namespace Spec

/-- §103, the `repeat … until s<=delta` loop. `s`, `delta` as in the Pascal text. At most
`k` more digits (the loop provably stops after five). -/
def printLoop : Nat → Nat → Nat → List Nat
  | 0, _, _ => []
  | k + 1, s, delta =>
    let s := if delta > 65536 then s + 32768 - 50000 else s
    let digit := s / 65536
    let s := 10 * (s % 65536)
    let delta := delta * 10
    if s ≤ delta then [digit] else digit :: printLoop k s delta

end Spec

end C06
