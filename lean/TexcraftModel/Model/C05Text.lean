import TexcraftModel.Model.C05

/-
C05 — the call site: model of `TextPreprocessorImpl::add_word` (boxworks-text/src/lib.rs) and
of `TextPreprocessor::add_text` (boxworks/src/lib.rs) as far as lig/kern is concerned: which
character, ligature, kern, discretionary and glue nodes appear and in which order. The glue's
*amount* (space factor, C12) is not modelled: a glue node is just `glue`. Core Lean only.
-/
namespace C05

/-- The horizontal-list nodes the text preprocessor produces. -/
inductive HNode
  | ch (c font : Nat)
  | lig (c font : Nat) (orig : List Nat) (lb rb : Bool)
  | kern (k : Int)
  | disc
  | glue
  deriving DecidableEq, Repr, Inhabited

/-- `add_word`, one run item (lib.rs `match elem`): a character or ligature node in the current
font; an empty discretionary after the hyphen char `-` (TeX.2021.1035: after a character that
is `-`, after a ligature whose originals end in `-`); a font kern. -/
def nodesOf (font : Nat) : Item → List HNode
  | .ch c => .ch c font :: (if c == 45 then [.disc] else [])
  | .kern k => [.kern k]
  | .lig c o lb rb => .lig c font o lb rb :: (if o.getLast? == some 45 then [.disc] else [])

/-- `add_word` with font `font` (program `p`) active. -/
def addWord (p : Program) (font : Nat) (w : List Nat) : List HNode :=
  (runM p w).flatMap (nodesOf font)

def isWs (c : Nat) : Bool := c == 32 || c == 9 || c == 10 || c == 12 || c == 13

/-- `str::split_ascii_whitespace`. -/
def splitWs : List Nat → List (List Nat)
  | [] => []
  | c :: t =>
    if isWs c then splitWs t
    else match t with
      | [] => [[c]]
      | d :: _ =>
        if isWs d then [c] :: splitWs t
        else match splitWs t with
          | w :: ws => (c :: w) :: ws
          | [] => [[c]]

/-- The loop of `add_text`: a glue before every word but the first (`pending_space`). -/
def addWords (p : Program) (font : Nat) : Bool → List (List Nat) → List HNode
  | _, [] => []
  | pending, w :: rest => (if pending then [HNode.glue] else []) ++ addWord p font w ++ addWords p font true rest

/-- `add_text`: `pending_space` starts as "the text begins with white space" (an empty text
counts as beginning with a space). -/
def addText (p : Program) (font : Nat) (t : List Nat) : List HNode :=
  addWords p font (match t with | c :: _ => isWs c | [] => true) (splitWs t)

/-- Cut a list at its glue nodes (what is between two glues is one word's material). -/
def cutAtGlue : List HNode → List (List HNode)
  | [] => [[]]
  | .glue :: t => [] :: cutAtGlue t
  | x :: t =>
    match cutAtGlue t with
    | s :: ss => (x :: s) :: ss
    | [] => [[x]]

/-- The glyph/kern sequence of a node list (discretionaries and glue carry none). -/
def HNode.glyph : HNode → List Glyph
  | .ch c _ => [.glyph c]
  | .lig c _ _ _ _ => [.glyph c]
  | .kern k => [.kern k]
  | _ => []

def HNode.fontOk (font : Nat) : HNode → Bool
  | .ch _ f => f == font
  | .lig _ f _ _ _ => f == font
  | _ => true

end C05
