/-
C13 — Liang hyphenation: model of `crates/hyphenate/src/lib.rs`
(`Hyphenator::{load_patterns, insert_exception(s), for_each_pattern,
calculate_aggregate_scores, calculate_indices}` and the private `trie` module) and the
specification (Liang's definition, exceptions verbatim, lower-case map).

The model describes the code *with `fixes/C13-a.patch` and `fixes/C13-b.patch` applied* (exceptions are stored as
ops 12/13, which lie above every pattern digit, and only ops 10/11 terminate a stream); the
unpatched code stores them as 6/7 and treats every op ≥ 10 as a terminator, which differs
only on words that are listed exceptions (finding C13-a).

Representation choices (all checked by the correspondence run, none by translation):
* bytes of the op stream are `Nat` (< 256 by construction), chars are `Char`;
* a trie vertex is the *path* of edges leading to it (the Rust trie allocates fresh
  vertex numbers; the path is the canonical name of a vertex), the `HashMap` is an
  association list, newest entry first, so `next` = "make sure the path exists" and the
  value of a vertex = the first entry whose key is the path; `next_or(v, e) = None`
  iff no inserted path has `v ++ [e]` as a prefix (`hasPrefix`);
* `Option.none` of the score functions = the Rust code panics (`scores[p.offset + k]`
  out of range).  Theorem `index_bounds` shows it never happens.
Core Lean only.
-/
namespace C13

/-! ## Trie and op stream -/

inductive Edge where
  | start
  | ch (c : Char)
  | stop
  deriving DecidableEq, Repr

structure Hyph where
  /-- `Hyphenator.data` -/
  data : List Nat := []
  /-- `Hyphenator.patterns`: (path of the vertex, `Value` = offset into `data`), newest first -/
  trie : List (List Edge × Nat) := []

/-- Value stored at the vertex named by `p` (`Option<Value>` of the entry). -/
def lookup : List (List Edge × Nat) → List Edge → Option Nat
  | [], _ => none
  | (k, v) :: r, p => if k = p then some v else lookup r p

/-- `next_or` succeeds: some inserted path runs through the vertex named by `p`. -/
def hasPrefix (t : List (List Edge × Nat)) (p : List Edge) : Bool :=
  t.any (fun kv => p.isPrefixOf kv.1)

/-! ## `load_patterns` -/

def isDig (c : Char) : Bool := decide (48 ≤ c.toNat) && decide (c.toNat ≤ 57)
def digVal (c : Char) : Nat := c.toNat - 48

/-- `enum State` of `load_patterns`. -/
inductive St where
  | afterChar (n : Nat)
  | afterScore
  deriving DecidableEq, Repr

/-- The `while let Some(m) = n.checked_sub(16) { push(15*16); n = m }` loop followed by
`push(op + n*16)`: `n / 16` overflow bytes, then the op with the remaining `n % 16` zeros. -/
def zerosThen (n op : Nat) : List Nat := List.replicate (n / 16) 240 ++ [op + (n % 16) * 16]

/-- The `for c in pattern.chars()` loop. `ops` = bytes pushed by this pattern so far
(`self.data[data_start..]`), `path` = the current vertex. -/
def scan : List Char → List Nat → List Edge → St → List Nat × List Edge × St
  | [], ops, path, st => (ops, path, st)
  | c :: cs, ops, path, st =>
    if isDig c then
      match st with
      | .afterChar n => scan cs (ops ++ zerosThen n (digVal c)) path .afterScore
      -- two consecutive digits: `self.data.pop()`, then push the new op with 0 zeros
      | .afterScore => scan cs (ops.dropLast ++ [digVal c]) path .afterScore
    else if c = '.' then scan cs ops path st
    else
      scan cs ops (path ++ [.ch c])
        (match st with | .afterChar n => .afterChar (n + 1) | .afterScore => .afterChar 0)

/-- Bytes and trie path of one pattern. -/
def patOps (p : List Char) : List Nat × List Edge :=
  let path0 : List Edge := if p.head? = some '.' then [.start] else []
  let r := scan p [] path0 (.afterChar 0)
  let ends := p.getLast? = some '.'
  let path := if ends then r.2.1 ++ [.stop] else r.2.1
  let term := if ends then 11 else 10
  let tail := match r.2.2 with
    | .afterChar n => zerosThen n term
    | .afterScore => [term]
  (r.1 ++ tail, path)

/-- The stream at offset `o` is an exception's: it starts with an exception score (12/13). -/
def isExcAt (data : List Nat) (o : Nat) : Bool := decide (12 ≤ data.getD o 0 % 16)

/-- The vertex named `p` holds an exception. -/
def holdsExc (h : Hyph) (p : List Edge) : Bool :=
  match lookup h.trie p with
  | some o => isExcAt h.data o
  | none => false

/-- One iteration of the `for pattern in patterns.split_whitespace()` loop. A pattern
without any edge writes its `Value` to the dummy `empty_value`: no trie entry. A vertex that
holds an exception keeps it (`holds_exception`, fix C13-b): a pattern `.w.` never replaces the
exception for `w`. -/
def loadPattern (h : Hyph) (p : List Char) : Hyph :=
  let r := patOps p
  { data := h.data ++ r.1,
    trie := if r.2 = [] then h.trie
            else if holdsExc h r.2 then h.trie
            else (r.2, h.data.length) :: h.trie }

def loadPatterns (h : Hyph) (ps : List (List Char)) : Hyph := ps.foldl loadPattern h

/-! ## `insert_exception` (patched: 12 = no hyphen here, 13 = hyphen here) -/

def excNo : Nat := 12
def excHyph : Nat := 13

/-- The `for c in hyphenated_word.chars()` loop; `ops` starts as `[excNo]`. -/
def excScan : List Char → List Nat → List Edge → List Nat × List Edge
  | [], ops, path => (ops, path)
  | c :: cs, ops, path =>
    if c = '-' then excScan cs (ops.dropLast ++ [excHyph]) path
    else excScan cs (ops ++ [excNo]) (path ++ [.ch c])

def insertException (h : Hyph) (e : List Char) : Hyph :=
  let r := excScan e [excNo] [.start]
  { data := h.data ++ r.1 ++ [10],
    trie := (r.2 ++ [.stop], h.data.length) :: h.trie }

def insertExceptions (h : Hyph) (es : List (List Char)) : Hyph := es.foldl insertException h

/-- `plain_tex_en_us` order: patterns first, then exceptions. -/
def build (ps es : List (List Char)) : Hyph := insertExceptions (loadPatterns {} ps) es

/-! ## `calculate_aggregate_scores` -/

/-- The closure body: run one op stream against `scores`; `pos` = `p.offset + k`. -/
def applyOps : List Nat → Nat → List Nat → Option (List Nat)
  | [], _, s => some s
  | b :: bs, pos, s =>
    let pos := pos + b / 16
    let op := b % 16
    if op = 10 ∨ op = 11 then some s
    else if pos < s.length then
      applyOps bs (pos + 1) (if s.getD pos 0 < op then s.set pos op else s)
    else none

/-- What happens at a vertex that `next_or` found: call the closure if it carries a value. -/
def visit (h : Hyph) (off : Nat) (v : List Edge) (s : List Nat) : Option (List Nat) :=
  match lookup h.trie v with
  | none => some s
  | some o => applyOps (h.data.drop o) off s

/-- The `process` closure of `for_each_pattern`: from vertex `v` follow the lower-cased
characters `cs`, then the end-of-word edge. (After the end-of-word edge the Rust loop asks
for a second end-of-word edge, which no insertion ever creates: the walk ends.) -/
def process (h : Hyph) (lc : Char → Option Char) (off : Nat) :
    List Edge → List Char → List Nat → Option (List Nat)
  | v, [], s =>
    if hasPrefix h.trie (v ++ [.stop]) then visit h off (v ++ [.stop]) s else some s
  | v, c :: cs, s =>
    match lc c with
    | none => some s
    | some l =>
      if hasPrefix h.trie (v ++ [.ch l]) then
        match visit h off (v ++ [.ch l]) s with
        | none => none
        | some s' => process h lc off (v ++ [.ch l]) cs s'
      else some s

/-- The `while let Some(c) = word[lower..].chars().next()` loop. -/
def offsets (h : Hyph) (lc : Char → Option Char) : Nat → List Char → List Nat → Option (List Nat)
  | _, [], s => some s
  | off, c :: cs, s =>
    match lc c with
    | none => some s
    | some _ =>
      match process h lc off [] (c :: cs) s with
      | none => none
      | some s' => offsets h lc (off + 1) cs s'

def forEachPattern (h : Hyph) (lc : Char → Option Char) (w : List Char) (s : List Nat) :
    Option (List Nat) :=
  match (if hasPrefix h.trie [.start] then process h lc 0 [.start] w s else some s) with
  | none => none
  | some s' => offsets h lc 0 w s'

/-- `word.len()`: UTF-8 bytes. -/
def byteLen (w : List Char) : Nat := (w.map Char.utf8Size).sum

def aggregateScores (h : Hyph) (lc : Char → Option Char) (w : List Char) : Option (List Nat) :=
  match forEachPattern h lc w (List.replicate (byteLen w + 1) 0) with
  | none => none
  | some s => some ((s.set 0 0).take w.length)

/-- `enumerate().filter(score % 2 != 0).map(i)`. -/
def oddIdx : Nat → List Nat → List Nat
  | _, [] => []
  | i, x :: xs => if x % 2 ≠ 0 then i :: oddIdx (i + 1) xs else oddIdx (i + 1) xs

def calculateIndices (h : Hyph) (lc : Char → Option Char) (w : List Char) : Option (List Nat) :=
  (aggregateScores h lc w).map (oddIdx 0)

/-! ## Lower-case maps used by the correspondence run -/

/-- `AsciiLowerCaser`. -/
def asciiLc (c : Char) : Option Char :=
  if 65 ≤ c.toNat ∧ c.toNat ≤ 90 then some (Char.ofNat (c.toNat + 32))
  else if 97 ≤ c.toNat ∧ c.toNat ≤ 122 then some c
  else none

/-- The harness's table-driven `LowerCaser` (an `\lccode`-style map): ASCII letters as
above, `!`→`a`, `?`→`b`, `+`→`c`, `É`/`é`→`é`. -/
def tableLc (c : Char) : Option Char :=
  if c = '!' then some 'a' else if c = '?' then some 'b' else if c = '+' then some 'c'
  else if c.toNat = 201 ∨ c.toNat = 233 then some (Char.ofNat 233)
  else asciiLc c

/-! ## Specification (independent of the trie and of the op stream) -/

/-- What an op stream means: the scores it emits (zeros written out) up to its terminator. -/
def decodeOps : List Nat → List Nat
  | [] => []
  | b :: bs =>
    if b % 16 = 10 ∨ b % 16 = 11 then []
    else List.replicate (b / 16) 0 ++ (b % 16 :: decodeOps bs)

structure Pat where
  anchorStart : Bool
  letters : List Char
  /-- one digit per inter-letter position: `letters.length + 1` entries -/
  digits : List Nat
  anchorEnd : Bool
  deriving DecidableEq, Repr

/-- Digits of a pattern body (dots removed): the digit written before each letter and after
the last one, 0 where none is written. Of two adjacent digits the later one counts. -/
def digitsOf : List Char → List Nat
  | [] => [0]
  | [c] => if isDig c then [digVal c] else [0, 0]
  | c :: c' :: rest =>
    if isDig c then
      if isDig c' then digitsOf (c' :: rest) else digVal c :: digitsOf rest
    else 0 :: digitsOf (c' :: rest)

def parsePat (p : List Char) : Pat :=
  let body := p.filter (· ≠ '.')
  { anchorStart := p.head? = some '.',
    letters := body.filter (fun c => !isDig c),
    digits := digitsOf body,
    anchorEnd := p.getLast? = some '.' }

/-- A well-formed Liang pattern: never two digits in a row (TeX §962 rejects them), dots
only at the two ends (`wellFormed` below). -/
def noAdjDigits : List Char → Bool
  | c :: c' :: rest => !(isDig c && isDig c') && noAdjDigits (c' :: rest)
  | _ => true

/-- Dots only as the first and/or the last character. -/
def dotsAtEnds (p : List Char) : Bool := ((p.drop 1).dropLast).all (· ≠ '.')

def wellFormed (p : List Char) : Bool := noAdjDigits (p.filter (· ≠ '.')) && dotsAtEnds p

/-- Pattern `p` matches the (lower-cased) word `w` at offset `o`. -/
def matchesAt (p : Pat) (w : List Char) (o : Nat) : Bool :=
  decide (p.letters ≠ []) &&
  p.letters.isPrefixOf (w.drop o) &&
  (!p.anchorStart || decide (o = 0)) &&
  (!p.anchorEnd || decide (o + p.letters.length = w.length))

def maxOver {α : Type} (l : List α) (f : α → Nat) : Nat := l.foldr (fun x m => max (f x) m) 0

/-- What pattern `p` placed at offset `o` says about inter-letter position `i`. -/
def contrib (p : Pat) (w : List Char) (o i : Nat) : Nat :=
  if matchesAt p w o && decide (o ≤ i) then p.digits.getD (i - o) 0 else 0

/-- Liang: the maximum digit over all (pattern, offset) matches. -/
def liangAt (ps : List Pat) (w : List Char) (i : Nat) : Nat :=
  maxOver ps (fun p => maxOver (List.range (w.length + 1)) (fun o => contrib p w o i))

/-- Scores for positions `0 .. |w|-1` (position `i` = before letter `i`); never before the
first letter. -/
def liangScores (ps : List Pat) (w : List Char) : List Nat :=
  (List.range w.length).map (fun i => if i = 0 then 0 else liangAt ps w i)

def stripHyphens (e : List Char) : List Char := e.filter (· ≠ '-')

/-- For every letter of an exception entry: is it directly preceded by a `-`? -/
def marks : List Char → Bool → List Bool
  | [], _ => []
  | c :: cs, pending => if c = '-' then marks cs true else pending :: marks cs false

def trueIdx : Nat → List Bool → List Nat
  | _, [] => []
  | i, b :: bs => if b then i :: trueIdx (i + 1) bs else trueIdx (i + 1) bs

/-- The hyphen positions an exception entry lists: before letter `i` for every marked letter
except the first (never before the first letter). -/
def listed (e : List Char) : List Nat := (trueIdx 0 (marks e false)).filter (fun i => decide (0 < i))

def lowerWord (lc : Char → Option Char) (w : List Char) : Option (List Char) := w.mapM lc

/-- The exception entry for the lower-cased word: the last entry whose letters are the word
(a later entry replaces an earlier one). -/
def findException : List (List Char) → List Char → Option (List Char)
  | [], _ => none
  | e :: es, lw =>
    match findException es lw with
    | some x => some x
    | none => if stripHyphens e = lw then some e else none

/-- The property: permitted hyphen positions of `w` (all letters). -/
def specIndices (ps es : List (List Char)) (lw : List Char) : List Nat :=
  match findException es lw with
  | some e => listed e
  | none => oddIdx 0 (liangScores (ps.map parsePat) lw)

/-- Trie key of a parsed pattern (used to state "no two patterns have the same letters
and anchors", which TeX §963 rejects as `Duplicate pattern`). -/
def Pat.key (p : Pat) : List Edge :=
  (if p.anchorStart then [Edge.start] else []) ++ p.letters.map Edge.ch ++
    (if p.anchorEnd then [Edge.stop] else [])

end C13
