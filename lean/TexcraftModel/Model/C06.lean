import TexcraftModel.Model.C06Core
/-
C06 — integers, dimensions, glue.  Model (M) of

* `crates/common/src/lib.rs`: `Scaled::{from_integer, from_decimal_digits, new, xn_over_d,
  nx_plus_y, parse_no_units, display_no_units, checked_mul, checked_div}`, `Glue`
  `{wrapping_add, checked_mul, checked_div, Display}`;
* `crates/texlang/src/parse/integer.rs`: `parse_optional_signs`, `parse_constant`, `add_lsd`,
  the sign handling of `parse_integer`;
* `crates/texlang/src/parse/dimen.rs`: `scan_dimen`, `scan_constant_dimen`,
  `scan_and_apply_units`, `handle_overflow`, `scan_decimal_fraction`;
* `crates/texlang/src/parse/glue.rs`: `Glue::parse_impl`;
* `crates/texlang-stdlib/src/math.rs`: `Op::apply` for `\advance`, `\multiply`, `\divide`.

Scanning is modelled on token-free inputs (sign string parity, digit lists, radix, unit, an
optional internal value); the harness renders these to TeX source.  All numbers are `Int`;
the 32-bit (and 64-bit) width is explicit: where an `i32` operation of the Rust code would
overflow (a panic in the build profile used by the harness) the model says `panic`.

The model describes the code *with* `fixes/C06-{a,b,c,d,e,g,h,i}.patch` applied (see notes/C06.md).
Core Lean only.
-/
namespace C06

/-! ## Machine arithmetic -/

def maxDimen : Int := 1073741823
def unity : Int := 65536

def inI32 (x : Int) : Bool := decide (-2147483648 ≤ x) && decide (x ≤ 2147483647)

/-- `i32::wrapping_*`: reduce into `[-2^31, 2^31)`. -/
def wrap32 (x : Int) : Int := (x + 2147483648) % 4294967296 - 2147483648

/-- Outcome of a numeric kernel: a value, the code's `OverflowError`, or a Rust panic. -/
inductive Res (α : Type) where
  | ok (a : α)
  | overflow
  | panic
  deriving Repr, DecidableEq

/-- A checked `i32` result (`+`, `-`, `*` with overflow checks on). -/
def chk32 (x : Int) : Res Int := if inI32 x then .ok x else .panic

/-! ## Units -/

inductive TUnit | pt | pc | inch | bp | cm | mm | dd | cc | sp
  deriving DecidableEq, Repr

/-- `ScaledUnit::conversion_fraction`. -/
def TUnit.frac : TUnit → Int × Int
  | .pt => (1, 1) | .pc => (12, 1) | .inch => (7227, 100) | .bp => (7227, 7200)
  | .cm => (7227, 254) | .mm => (7227, 2540) | .dd => (1238, 1157) | .cc => (14856, 1157)
  | .sp => (1, 65536)

/-! ## `common::Scaled` kernels -/

/-- `Scaled::from_integer`. -/
def fromInteger (i : Int) : Option Int :=
  if i ≥ 16384 ∨ i ≤ -16384 then none else some (65536 * i)

/-- `Scaled::xn_over_d` (64-bit). `(quotient, remainder)`. -/
def xnOverD (x n d : Int) : Res (Int × Int) :=
  if n > 65536 ∨ d > 65536 then .panic          -- debug_assert!
  else if d = 0 then .panic                     -- `b % 0`
  else
    let b := x * n
    let r := Int.tmod b d
    let q := Int.tdiv b d
    if q < -maxDimen ∨ q > maxDimen then .overflow else .ok (q, r)

/-- `Scaled::nx_plus_y` (64-bit form of fixes/C06-b.patch). -/
def nxPlusY (x n y : Int) : Res Int :=
  if n = 0 then .ok y
  else
    let r := x * n + y
    if -maxDimen ≤ r ∧ r ≤ maxDimen then .ok r else .overflow

/-- `Scaled::new`. -/
def scaledNew (ip f : Int) (u : TUnit) : Res Int :=
  if u = .sp then (if ip > maxDimen then .overflow else .ok ip)
  else
    let n := u.frac.1
    let d := u.frac.2
    match xnOverD ip n d with
    | .overflow => .overflow
    | .panic => .panic
    | .ok (i, rem) =>
      match fromInteger rem with
      | none => .panic                                        -- first `expect`
      | some y =>
        match nxPlusY f n y with
        | .overflow => .panic                                 -- second `expect`
        | .panic => .panic
        | .ok t =>
          let ff := Int.tdiv t d
          match chk32 (i + Int.tdiv ff unity) with
          | .ok ipart =>
            match fromInteger ipart with
            | none => .overflow
            | some ip2 => chk32 (ip2 + Int.tmod ff unity)
          | _ => .panic

/-- `Scaled::checked_mul`. -/
def scaledCheckedMul (x n : Int) : Option Int :=
  match nxPlusY x n 0 with
  | .ok r => some r
  | _ => none

/-- `i32::checked_div`. -/
def checkedDiv (x n : Int) : Option Int :=
  if n = 0 then none else if x = -2147483648 ∧ n = -1 then none else some (Int.tdiv x n)

/-! ## Printing (`display_no_units`, TeX §103) -/

structure Printed where
  neg : Bool
  ip : Nat
  frac : List Nat
  deriving Repr, DecidableEq

/-- `Scaled::display_no_units`. -/
def printScaled (s : Int) : Option Printed :=
  (printFrac (Int.tmod s 65536).natAbs).map fun ds =>
    { neg := decide (s < 0), ip := (Int.tdiv s 65536).natAbs, frac := ds }

def digitChar (d : Nat) : Char := Char.ofNat (48 + d)

def Printed.render (p : Printed) : String :=
  (if p.neg then "-" else "") ++ toString p.ip ++ "." ++ String.ofList (p.frac.map digitChar)

/-- `Scaled::parse_no_units` on the structured form of `-?<int>.<digits>`. -/
def scanNoUnits (p : Printed) : Res Int :=
  if (p.ip : Int) > 2147483647 then .panic         -- `.parse::<i32>().expect(..)`
  else if p.frac.length > 17 then .panic           -- `f[k]` out of bounds
  else
    match scaledNew p.ip (fromDecimalDigits (pad17 p.frac)) .pt with
    | .ok sc => .ok (if p.neg then -sc else sc)
    | .overflow => .overflow
    | .panic => .panic

/-- `Scaled::parse_from_string` on the structured form of `-?<int>[.<digits>]<unit>` (with
fixes/C06-h.patch: the sign is taken off first and applied to the whole value). -/
def parseFromString (p : Printed) (u : TUnit) : Res Int :=
  if (p.ip : Int) > 2147483647 then .overflow        -- "invalid number" (an `Err`, not a panic)
  else
    match scaledNew p.ip (fromDecimalDigits p.frac) u with
    | .ok sc => .ok (if p.neg then -sc else sc)
    | .overflow => .overflow
    | .panic => .panic

/-! ## Integer constants (`parse_integer`, `parse_constant`, `add_lsd`) -/

/-- `parse_optional_signs`: the sign string as a list of `true` for `-`; parity. -/
def negParity : List Bool → Bool
  | [] => false
  | m :: ms => if m then !(negParity ms) else negParity ms

/-- The digit decoding of `parse_constant`: `Value::Other(c)` is a digit `c - '0'` if that is
`< 10` and `< RADIX`, or for `RADIX = 16` the digit `c - 'A' + 10` if `c - 'A' < 6`;
`Value::Letter(c)` only the latter. Anything else ends the constant. -/
def constDigit (radix : Int) (c : Char) (letter : Bool) : Option Nat :=
  if letter then
    (if radix = 16 ∧ 65 ≤ c.toNat ∧ c.toNat - 65 < 6 then some (c.toNat - 65 + 10) else none)
  else if 48 ≤ c.toNat ∧ c.toNat - 48 < 10 ∧ ((c.toNat - 48 : Nat) : Int) < radix then some (c.toNat - 48)
  else if radix = 16 ∧ 65 ≤ c.toNat ∧ c.toNat - 65 < 6 then some (c.toNat - 65 + 10)
  else none

/-- `add_lsd`. -/
def addLsd (radix n lsd : Int) : Option Int :=
  if inI32 (n * radix) then (if inI32 (n * radix + lsd) then some (n * radix + lsd) else none)
  else none

/-- The digit loop of `parse_constant`: `(result, too_big)`. -/
def constLoop (radix : Int) : List Nat → Int → Bool → Int × Bool
  | [], r, tb => (r, tb)
  | d :: ds, r, tb =>
    match addLsd radix r d with
    | some n => constLoop radix ds n tb
    | none => constLoop radix ds 2147483647 true

/-- `parse_constant` on a digit list: `(value, number of recoverable errors)`. For radix 10
the first digit is the initial `result`; an empty octal/hex constant is one error. -/
def scanConst (radix : Int) (ds : List Nat) : Int × Nat :=
  match ds with
  | [] => (0, 1)
  | d :: rest =>
    let (v, tb) :=
      if radix = 10 then constLoop radix rest d false else constLoop radix (d :: rest) 0 false
    (v, if tb then 1 else 0)

/-- `parse_integer` on a constant: sign applied with `wrapping_mul(-1)`. -/
def scanInt (neg : Bool) (radix : Int) (ds : List Nat) : Int × Nat :=
  let (v, e) := scanConst radix ds
  (if neg then wrap32 (-v) else v, e)

/-- `parse_integer` on an internal value (count register, or a dimen/glue coerced). -/
def scanIntInternal (neg : Bool) (i : Int) : Int := if neg then wrap32 (-i) else i

/-! ## Dimensions (`scan_dimen`) -/

inductive Head
  /-- constant: value and error count from `scanConst`, radix, fraction digits if a point follows -/
  | const (radix : Int) (ds : List Nat) (frac : Option (List Nat))
  /-- `.5pt`: no integer part -/
  | point (frac : List Nat)
  | int (i : Int)
  | dimen (d : Int)
  deriving Repr, DecidableEq

inductive UnitSpec
  /-- `fil` followed by `ls` more `l`s (glue context only) -/
  | fil (ls : Nat)
  /-- an internal integer / dimension / glue width, `em` and `ex` -/
  | internal (v : Int)
  | phys (u : TUnit)
  /-- no unit found: error, `pt` -/
  | bad
  deriving Repr, DecidableEq

/-- A scanned value: the number, how many recoverable errors were reported, the glue order. -/
structure Scan where
  val : Int
  nerr : Nat
  order : Nat := 0
  deriving Repr, DecidableEq

inductive SRes where
  | ok (s : Scan)
  | panic
  deriving Repr, DecidableEq

/-- `handle_overflow`. -/
def handleOverflow (neg : Bool) (nerr : Nat) (order : Nat := 0) : SRes :=
  .ok { val := if neg then -maxDimen else maxDimen, nerr := nerr + 1, order := order }

/-- `scan_decimal_fraction`: at most 17 digits are kept. -/
def scanFraction (ds : List Nat) : Int := fromDecimalDigits (ds.take 17)

/-- `scan_and_apply_units`. -/
def applyUnits (ip f : Int) (u : UnitSpec) : SRes :=
  match u with
  | .fil ls =>
    let order := min (1 + ls) 3
    let nerr := ls - 2
    match fromInteger ip with
    | some v =>
      match chk32 (v + f) with
      | .ok r =>
        if r ≤ maxDimen then .ok { val := r, nerr := nerr, order := order }
        else handleOverflow false nerr order                 -- fixes/C06-g.patch
      | _ => .panic
    | none => handleOverflow false nerr order
  | .internal v =>
    match xnOverD v f 65536 with
    | .panic => .panic
    | .overflow => handleOverflow (decide (v < 0)) 0   -- fixes/C06-c.patch (was an `expect`)
    | .ok (a, _) =>
      match nxPlusY v ip a with
      | .ok s => .ok { val := s, nerr := 0 }
      | .overflow => handleOverflow (decide (v < 0)) 0   -- sign of `v`: known finding C06-f
      | .panic => .panic
  | .phys pu =>
    match scaledNew ip f pu with
    | .ok s => .ok { val := s, nerr := 0 }
    | .overflow => handleOverflow false 0
    | .panic => .panic
  | .bad =>
    match scaledNew ip f .pt with
    | .ok s => .ok { val := s, nerr := 1 }
    | .overflow => handleOverflow false 1
    | .panic => .panic

/-- `i32::saturating_abs` (fixes/C06-b.patch; was `abs`, a panic at `-2^31`). -/
def satAbs (i : Int) : Int := if i = -2147483648 then 2147483647 else if i < 0 then -i else i

def sgn (i : Int) : Int := if i > 0 then 1 else if i < 0 then -1 else 0

/-- `x * negative` on `i32` with overflow checks. -/
def mulSign (s : SRes) (sign : Int) : SRes :=
  match s with
  | .panic => .panic
  | .ok sc => if inI32 (sc.val * sign) then .ok { sc with val := sc.val * sign } else .panic

/-- `scan_dimen`. -/
def scanDimen (neg : Bool) (h : Head) (u : UnitSpec) : SRes :=
  let negative : Int := if neg then -1 else 1
  match h with
  | .dimen d =>                                   -- `attach_sign` of fixes/C06-e.patch
    if d < -maxDimen ∨ d > maxDimen then mulSign (handleOverflow false 0) negative
    else mulSign (.ok { val := d, nerr := 0 }) negative
  | .int i => mulSign (applyUnits (satAbs i) 0 u) (negative * sgn i)
  | .point fr => mulSign (applyUnits 0 (scanFraction fr) u) negative
  | .const radix ds fr =>
    let (ip, e) := scanConst radix ds
    let f := match fr with
      | some fd => if radix = 10 then scanFraction fd else 0
      | none => 0
    match mulSign (applyUnits ip f u) negative with
    | .ok sc => .ok { sc with nerr := sc.nerr + e }
    | .panic => .panic

/-! ## Glue -/

structure Glue where
  width : Int
  stretch : Int
  stretchOrder : Nat
  shrink : Int
  shrinkOrder : Nat
  deriving Repr, DecidableEq

/-- The width part of `Glue::parse_impl` for the three shapes of head. -/
def scanGlueWidth (neg : Bool) (h : Head) (u : UnitSpec) : SRes :=
  let negative : Int := if neg then -1 else 1
  match h with
  | .dimen d => .ok { val := wrap32 (d * negative), nerr := 0 }     -- `wrapping_mul` (C06-e)
  | .int i => mulSign (mulSign (applyUnits (satAbs i) 0 u) negative) (sgn i)
  | _ => mulSign (scanDimen false h u) negative

/-- `Glue::parse_impl` on a width and optional `plus` / `minus` parts (each a full
`scan_dimen` with a glue order). -/
def scanGlue (w : SRes) (plus minus : Option SRes) : Option (Glue × Nat) :=
  match w with
  | .panic => none
  | .ok ws =>
    let p : Option Scan := match plus with
      | none => some { val := 0, nerr := 0 }
      | some (.ok s) => some s
      | some .panic => none
    let m : Option Scan := match minus with
      | none => some { val := 0, nerr := 0 }
      | some (.ok s) => some s
      | some .panic => none
    match p, m with
    | some ps, some ms =>
      some ({ width := ws.val, stretch := ps.val, stretchOrder := ps.order,
              shrink := ms.val, shrinkOrder := ms.order }, ws.nerr + ps.nerr + ms.nerr)
    | _, _ => none

def orderStr : Nat → String
  | 0 => "pt" | 1 => "fil" | 2 => "fill" | _ => "filll"

/-- `Display for Glue` (TeX §178 `print_spec` with "pt"). -/
def printGlue (g : Glue) : Option String :=
  match printScaled g.width, printScaled g.stretch, printScaled g.shrink with
  | some w, some st, some sh =>
    some (w.render ++ "pt"
      ++ (if g.stretch ≠ 0 then " plus " ++ st.render ++ orderStr g.stretchOrder else "")
      ++ (if g.shrink ≠ 0 then " minus " ++ sh.render ++ orderStr g.shrinkOrder else ""))
  | _, _, _ => none

/-! ## Arithmetic (`math.rs`) -/

/-- Outcome of an arithmetic primitive: new value, or an error that leaves the register
unchanged. -/
inductive ARes (α : Type) where
  | set (a : α)
  | error
  deriving Repr, DecidableEq

def advanceInt (a b : Int) : ARes Int := .set (wrap32 (a + b))

/-- `i32::checked_mul` plus the rejection of `-2^31` (fixes/C06-a.patch). -/
def multiplyInt (a b : Int) : ARes Int :=
  if inI32 (a * b) ∧ a * b ≠ -2147483648 then .set (a * b) else .error

def divideInt (a b : Int) : ARes Int :=
  match checkedDiv a b with
  | some q => .set q
  | none => .error

def multiplyDimen (a b : Int) : ARes Int :=
  match scaledCheckedMul a b with
  | some r => .set r
  | none => .error

/-! ### Sequences of primitives on one register (`Op::apply_to_variable`: on `Err` the error is
reported and `variable.set` is not reached) -/

inductive ArithOp
  | advance (b : Int)
  | multiply (b : Int)
  | divide (b : Int)
  deriving Repr, DecidableEq

/-- One primitive on a `\count` register: the new value and whether an error was reported. -/
def stepInt (a : Int) : ArithOp → Int × Bool
  | .advance b => match advanceInt a b with | .set v => (v, false) | .error => (a, true)
  | .multiply b => match multiplyInt a b with | .set v => (v, false) | .error => (a, true)
  | .divide b => match divideInt a b with | .set v => (v, false) | .error => (a, true)

/-- One primitive on a `\dimen` register (the operand of `\advance` is a scanned dimension). -/
def stepDimen (a : Int) : ArithOp → Int × Bool
  | .advance b => match advanceInt a b with | .set v => (v, false) | .error => (a, true)
  | .multiply b => match multiplyDimen a b with | .set v => (v, false) | .error => (a, true)
  | .divide b => match divideInt a b with | .set v => (v, false) | .error => (a, true)

/-- A program: the final value and the number of errors. -/
def runReg (step : Int → ArithOp → Int × Bool) : Int → List ArithOp → Int × Nat
  | a, [] => (a, 0)
  | a, op :: ops =>
    let s := step a op
    let r := runReg step s.1 ops
    (r.1, r.2 + (if s.2 then 1 else 0))

/-- One component pair of `Glue::wrapping_add` (with fixes/C06-d.patch: TeX §1239's treatment
of zero stretch). `a` is the register, `b` the scanned summand. -/
def addComp (a : Int) (ao : Nat) (b : Int) (bo : Nat) : Int × Nat :=
  let bo := if b = 0 then 0 else bo
  if bo = ao then (wrap32 (a + b), ao)
  else if bo < ao ∧ a ≠ 0 then (a, ao)
  else (b, bo)

def advanceGlue (a b : Glue) : ARes Glue :=
  let st := addComp a.stretch a.stretchOrder b.stretch b.stretchOrder
  let sh := addComp a.shrink a.shrinkOrder b.shrink b.shrinkOrder
  .set { width := wrap32 (a.width + b.width), stretch := st.1, stretchOrder := st.2,
         shrink := sh.1, shrinkOrder := sh.2 }

def multiplyGlue (a : Glue) (n : Int) : ARes Glue :=
  match scaledCheckedMul a.width n, scaledCheckedMul a.stretch n, scaledCheckedMul a.shrink n with
  | some w, some st, some sh => .set { a with width := w, stretch := st, shrink := sh }
  | _, _, _ => .error

def divideGlue (a : Glue) (n : Int) : ARes Glue :=
  match checkedDiv a.width n, checkedDiv a.stretch n, checkedDiv a.shrink n with
  | some w, some st, some sh => .set { a with width := w, stretch := st, shrink := sh }
  | _, _, _ => .error

end C06
