/-!
C10 — the PL lexer / concrete-syntax-tree builder: model of `crates/tfm/src/pl/cst.rs`
(`parse`, `ParseIter`, `accumulate_key`, `accumulate_string`, `trim_whitespace`) and of the
line-ending canonicaliser `pl::Chars` (`crates/tfm/src/pl/mod.rs:981-1020`), over `List Char`.

* `normalize`      `Chars`: a run of `\r` directly followed by `\n` becomes one `\n`; any other
                   `\r` is kept. Positions (spans) count characters *after* this step, as
                   `ParseIter.next_pos` does.
* `step`           one iteration of the `while let Some((pos, c)) = iter.peek()` loop of `parse`:
                   `(` opens a node (key, then either the `COMMENT` scanner or whitespace + data),
                   `)` closes the innermost open node or warns, blanks are skipped, anything
                   else is junk up to the next parenthesis.
* `scanComment`    the `for (u, c) in iter.by_ref()` loop with its `comment_stack`.
* `finish`         the final `while let Some(finished) = stack.pop()` (unbalanced openers).
* `cstModel`       the whole of `Cst::from_pl_source_code`: tree + warnings.

The loop is run with fuel `length + 1`; `Props/C10.lean` proves the fuel is never exhausted
(`cst_total`): every iteration consumes at least one character.  `char::is_alphanumeric` is
Unicode-aware in Rust; the model takes it as a parameter `alnum : Char → Bool`, every theorem
holds for every `alnum`, and the driver instantiates it with ASCII plus the set of non-ASCII
alphanumerics the harness reports for the text at hand.

There is no arithmetic that can overflow and no indexing in this part of the Rust code, so
the only "panic" outcome of the model is running out of fuel.  Core Lean only.
-/
namespace C10.Cst

/-- `pl::Chars`, with `k` = length of the pending run of `\r`. -/
def norm : Nat → List Char → List Char
  | k, [] => List.replicate k '\r'
  | k, c :: t =>
    if c = '\r' then norm (k + 1) t
    else if c = '\n' then '\n' :: norm 0 t
    else List.replicate k '\r' ++ c :: norm 0 t

def normalize (l : List Char) : List Char := norm 0 l

/-- The longest prefix whose characters satisfy `p`, and the rest (`accumulate_internal`). -/
def spanP (p : Char → Bool) : List Char → List Char × List Char
  | [] => ([], [])
  | c :: t => if p c then let r := spanP p t; (c :: r.1, r.2) else ([], c :: t)

def isBlank (c : Char) : Bool := c = ' ' || c = '\n'
def notParen (c : Char) : Bool := c ≠ '(' && c ≠ ')'
/-- `accumulate_key`: `c.is_alphanumeric() || c == '/' || c == '>'`. -/
def isKeyChar (alnum : Char → Bool) (c : Char) : Bool := alnum c || c = '/' || c = '>'

/-- A half-open range of character positions. -/
structure Span where
  start : Nat
  stop : Nat
  deriving DecidableEq, Repr

/-- `cst::Node` (the parser always produces `data: Some(_)` and `children: Some(_)`). -/
inductive Node
  | comment (text : List Char)
  | regular (openPos : Nat) (key : List Char) (keySpan : Span) (data : List Char) (dataSpan : Span)
      (children : List Node) (close : Span)

/-- The three warnings `cst::parse` can issue (`ParseWarningKind`), with span and
`knuth_pltotf_offset`. -/
inductive Warning
  | unbalancedOpen (at_ : Nat) (openPos : Nat)
  | unexpectedClose (at_ : Nat)
  | junk (span : Span) (text : List Char)
  deriving DecidableEq, Repr

/-- An element of `stack: Vec<RegularNode>`: a node whose closing parenthesis has not been
seen; `children` is kept in reverse. -/
structure Frame where
  openPos : Nat
  key : List Char
  keySpan : Span
  data : List Char
  dataSpan : Span
  children : List Node

structure State where
  /-- finished top-level nodes, reversed -/
  roots : List Node
  stack : List Frame
  /-- reversed -/
  warnings : List Warning
  pos : Nat
  rest : List Char

/-- The closure `push`: attach a finished node to the innermost open node, or to the roots. -/
def pushNode (roots : List Node) (stack : List Frame) (n : Node) : List Node × List Frame :=
  match stack with
  | [] => (n :: roots, [])
  | f :: fs => (roots, { f with children := n :: f.children } :: fs)

def closeFrame (f : Frame) (close : Span) : Node :=
  .regular f.openPos f.key f.keySpan f.data f.dataSpan f.children.reverse close

/-- The comment scanner: `cstack` = `comment_stack` (innermost first), `acc` = the comment so
far, reversed. Returns (comment reversed, remaining stack, position, rest). -/
def scanComment : List Nat → Nat → List Char → List Char → List Char × List Nat × Nat × List Char
  | cstack, pos, [], acc => (acc, cstack, pos, [])
  | cstack, pos, c :: t, acc =>
    if c = '(' then scanComment (pos :: cstack) (pos + 1) t (c :: acc)
    else if c = ')' then
      -- `comment_stack.pop(); if comment_stack.is_empty() { break; }`
      match cstack.tail with
      | [] => (acc, [], pos + 1, t)
      | st => scanComment st (pos + 1) t (c :: acc)
    else scanComment cstack (pos + 1) t (c :: acc)

/-- After the scan: `while comment_stack.len() > 2 { push(')'); pop }`, `if len == 2 { push(')') }`;
the number of `)` appended. -/
def closersToAdd (n : Nat) : Nat := if n ≥ 2 then n - 1 else 0

/-- … and the entries that are left to be reported (the innermost two at most — in pop order). -/
def leftToReport (cstack : List Nat) : List Nat :=
  if cstack.length > 2 then cstack.drop (cstack.length - 2) else cstack

def commentKey : List Char := ['C', 'O', 'M', 'M', 'E', 'N', 'T']

/-- One iteration of the main loop on a non-empty input. -/
def step (alnum : Char → Bool) (st : State) : State :=
  match st.rest with
  | [] => st
  | c :: t =>
    if c = '(' then
      let k := spanP (isKeyChar alnum) t
      let key := k.1
      let pos1 := st.pos + 1
      let pos2 := pos1 + key.length
      if key = commentKey then
        let r := scanComment [st.pos] pos2 k.2 []
        let acc := r.1
        let cstack := r.2.1
        let pos3 := r.2.2.1
        let comment := acc.reverse ++ List.replicate (closersToAdd cstack.length) ')'
        let ws := (leftToReport cstack).map fun u => Warning.unbalancedOpen pos3 u
        let p := pushNode st.roots st.stack (.comment comment)
        { roots := p.1, stack := p.2, warnings := ws.reverse ++ st.warnings, pos := pos3, rest := r.2.2.2 }
      else
        let w := spanP isBlank k.2
        let pos3 := pos2 + w.1.length
        let d := spanP notParen w.2
        let pos4 := pos3 + d.1.length
        let f : Frame := ⟨st.pos, key, ⟨pos1, pos2⟩, d.1, ⟨pos3, pos4⟩, []⟩
        { st with stack := f :: st.stack, pos := pos4, rest := d.2 }
    else if c = ')' then
      match st.stack with
      | [] => { st with warnings := .unexpectedClose st.pos :: st.warnings, pos := st.pos + 1, rest := t }
      | f :: fs =>
        let p := pushNode st.roots fs (closeFrame f ⟨st.pos, st.pos + 1⟩)
        { st with roots := p.1, stack := p.2, pos := st.pos + 1, rest := t }
    else if isBlank c then { st with pos := st.pos + 1, rest := t }
    else
      let j := spanP notParen (c :: t)
      { st with warnings := .junk ⟨st.pos, st.pos + j.1.length⟩ j.1 :: st.warnings,
                pos := st.pos + j.1.length, rest := j.2 }

/-- The main loop with fuel; `none` = fuel exhausted. -/
def loop (alnum : Char → Bool) : Nat → State → Option State
  | 0, _ => none
  | n + 1, st =>
    match st.rest with
    | [] => some st
    | _ :: _ => loop alnum n (step alnum st)

/-- The final loop: every node still open is closed at the end of the input with a warning and
attached to its parent (`pend` = the node just closed, to be attached to the next frame
popped, or to the roots when the stack is empty). -/
def finishAux (pos : Nat) : Option Node → List Node → List Frame → List Warning → List Node × List Warning
  | pend, roots, [], ws => ((match pend with | none => roots | some n => n :: roots), ws)
  | pend, roots, f :: fs, ws =>
    let f' : Frame := match pend with | none => f | some n => { f with children := n :: f.children }
    finishAux pos (some (closeFrame f' ⟨pos, pos⟩)) roots fs (.unbalancedOpen pos f.openPos :: ws)

def finish (pos : Nat) (roots : List Node) (stack : List Frame) (ws : List Warning) : List Node × List Warning :=
  finishAux pos none roots stack ws

inductive Outcome
  | ok (tree : List Node) (warnings : List Warning)
  | outOfFuel

/-- `Cst::from_pl_source_code`. -/
def cstModel (alnum : Char → Bool) (text : List Char) : Outcome :=
  let l := normalize text
  match loop alnum (l.length + 1) ⟨[], [], [], 0, l⟩ with
  | none => .outOfFuel
  | some st =>
    let r := finish st.pos st.roots st.stack st.warnings
    .ok r.1.reverse r.2.reverse

/-! ## Printing (for the round-trip law): the canonical one-line form -/

mutual
  def render : Node → List Char
    | .comment t => '(' :: commentKey ++ t ++ [')']
    | .regular _ key _ data _ children _ => '(' :: key ++ ' ' :: data ++ renderAll children ++ [')']
  def renderAll : List Node → List Char
    | [] => []
    | n :: ns => render n ++ renderAll ns
end

-- Node counts, used to state shapes independently of spans.
mutual
  def size : Node → Nat
    | .comment _ => 1
    | .regular _ _ _ _ _ children _ => 1 + sizeAll children
  def sizeAll : List Node → Nat
    | [] => 0
    | n :: ns => size n + sizeAll ns
end

/-! ## Well-formed trees and span-free shapes (for the round-trip law) -/

-- The tree without its spans.
mutual
  def strip : Node → Node
    | .comment t => .comment t
    | .regular _ key _ data _ children _ => .regular 0 key ⟨0, 0⟩ data ⟨0, 0⟩ (stripAll children) ⟨0, 0⟩
  def stripAll : List Node → List Node
    | [] => []
    | n :: ns => strip n :: stripAll ns
end

/-- Reading `t` from nesting depth `d` never closes more than was opened and ends at depth 0. -/
def balancedFrom : Nat → List Char → Bool
  | d, [] => d == 0
  | d, c :: t =>
    if c = '(' then balancedFrom (d + 1) t
    else if c = ')' then (match d with | 0 => false | d' + 1 => balancedFrom d' t)
    else balancedFrom d t

/-- What the canonical printer can print so that it reads back: keys made of key characters
and different from `COMMENT`; data without parentheses that does not begin with a blank;
comments whose parentheses balance and that do not begin with a key character; no `\r`. -/
def headOK (p : Char → Bool) : List Char → Bool
  | [] => true
  | c :: _ => !p c

mutual
  def WF (alnum : Char → Bool) : Node → Prop
    | .comment t => balancedFrom 0 t = true ∧ headOK (isKeyChar alnum) t = true ∧ (∀ c ∈ t, c ≠ '\r')
    | .regular _ key _ data _ children _ =>
      (∀ c ∈ key, isKeyChar alnum c = true) ∧ key ≠ commentKey ∧ (∀ c ∈ key, c ≠ '\r') ∧
      (∀ c ∈ data, notParen c = true) ∧ headOK isBlank data = true ∧ (∀ c ∈ data, c ≠ '\r') ∧
      WFAll alnum children
  def WFAll (alnum : Char → Bool) : List Node → Prop
    | [] => True
    | n :: ns => WF alnum n ∧ WFAll alnum ns
end

/-- What the round-trip law needs of the notion of "alphanumeric": the letters of `COMMENT`
are alphanumeric; blanks, parentheses and `\r` are not (true of `char::is_alphanumeric`). -/
structure AlnumOK (alnum : Char → Bool) : Prop where
  comment : ∀ c ∈ commentKey, alnum c = true
  space : alnum ' ' = false
  lparen : alnum '(' = false
  rparen : alnum ')' = false

end C10.Cst
