/-
C16 — DVI: model of `crates/dvi/src/{serialize,deserialize,transforms}.rs` and of
`Values::update` in `crates/dvi/src/lib.rs`.

Bytes are `Nat` (< 256 wherever the code has a `u8`), integers are `Int`; the 32-bit width is
explicit in the well-formedness predicates. Strings are carried as their UTF-8 bytes: the
reader's `String::from_utf8_lossy` is applied by the harness before comparing (it is the
identity on valid UTF-8, which is what `WF` asks of strings that are serialised).
Core Lean only.
-/
namespace C16

inductive Var | W | X | Y | Z
  deriving DecidableEq, Repr, Inhabited

inductive Op
  | typesetChar (c : Nat) (moveH : Bool)
  | typesetRule (height width : Int) (moveH : Bool)
  | noOp
  | beginPage (params : List Int) (prev : Int)
  | endPage
  | push
  | pop
  | right (i : Int)
  | move (v : Var)
  | setVar (v : Var) (i : Int)
  | down (i : Int)
  | enableFont (u : Nat)
  | extension (data : List Nat)
  | defineFont (number checksum atSize designSize : Nat) (area name : List Nat)
  | preamble (fmt num den mag : Nat) (comment : List Nat)
  | beginPostamble (finalBeginPage : Int) (num den mag lh lw maxStack numPages : Nat)
  | endPostamble (fmt : Nat) (postamble : Int) (num223 : Nat)
  deriving DecidableEq, Repr, Inhabited

inductive Err
  | invalidOpCode (c : Nat)
  | truncated (c : Nat)
  deriving DecidableEq, Repr

/-! ## Fixed-width encodings -/

/-- `i32 as u32`. -/
def toU32 (i : Int) : Nat := (i % 4294967296).toNat
/-- `u32 as i32`. -/
def ofU32 (n : Nat) : Int := if n < 2147483648 then (n : Int) else (n : Int) - 4294967296

def be2 (n : Nat) : List Nat := [n / 256 % 256, n % 256]
def be4 (n : Nat) : List Nat := [n / 16777216 % 256, n / 65536 % 256, n / 256 % 256, n % 256]

def i32be (i : Int) : List Nat := be4 (toU32 i)

/-- `Writer::u32_var`: the shortest of the 1/2/3/4-byte unsigned forms. -/
def u32var (m u : Nat) : List Nat :=
  let b1 := u / 16777216 % 256
  let b2 := u / 65536 % 256
  let b3 := u / 256 % 256
  let b4 := u % 256
  if b1 ≠ 0 then [m + 3, b1, b2, b3, b4]
  else if b2 ≠ 0 then [m + 2, b2, b3, b4]
  else if b3 ≠ 0 then [m + 1, b3, b4]
  else [m, b4]

/-- `Writer::i32_var`: the shortest of the 1/2/3/4-byte signed forms. -/
def i32var (m : Nat) (i : Int) : List Nat :=
  if -128 ≤ i ∧ i < 128 then [m, (i % 256).toNat]
  else if -32768 ≤ i ∧ i < 32768 then (m + 1) :: be2 (i % 65536).toNat
  else if -8388608 ≤ i ∧ i < 8388608 then
    -- 3-byte form: a negative value is first shifted down by 255·2^24 (`i as u32 - shift`)
    let u : Nat := if i < 0 then toU32 i - 4278190080 else toU32 i
    [m + 2, u / 65536 % 256, u / 256 % 256, u % 256]
  else (m + 3) :: be4 (toU32 i)

def varBase : Var → Nat
  | .W => 147 | .X => 152 | .Y => 161 | .Z => 166

/-- `Writer::str_len` + `str_content`: length byte (saturating at 255) and that many bytes. -/
def strLen (s : List Nat) : Nat := min s.length 255

/-- `serialize(op, b)` appends `ser op` to `b`. -/
def ser : Op → List Nat
  | .typesetChar c moveH =>
      if moveH ∧ c < 128 then [c] else u32var (if moveH then 128 else 133) c
  | .typesetRule h w moveH => (if moveH then 132 else 137) :: (i32be h ++ i32be w)
  | .noOp => [138]
  | .beginPage ps prev => 139 :: ((ps.map i32be).flatten ++ i32be prev)
  | .endPage => [140]
  | .push => [141]
  | .pop => [142]
  | .right i => i32var 143 i
  | .move v => [varBase v]
  | .setVar v i => i32var (varBase v + 1) i
  | .down i => i32var 157 i
  | .enableFont u => if u < 64 then [171 + u] else u32var 235 u
  | .extension d =>
      let l := min d.length 4294967295
      u32var 239 l ++ d.take l
  | .defineFont n c a d area name =>
      u32var 243 n ++ be4 c ++ be4 a ++ be4 d
        ++ [strLen area, strLen name] ++ area.take (strLen area) ++ name.take (strLen name)
  | .preamble f n d m c => [247, f] ++ be4 n ++ be4 d ++ be4 m ++ [strLen c] ++ c.take (strLen c)
  | .beginPostamble fbp n d m lh lw ms np =>
      248 :: (i32be fbp ++ be4 n ++ be4 d ++ be4 m ++ be4 lh ++ be4 lw ++ be2 ms ++ be2 np)
  | .endPostamble f p k => [249, f] ++ i32be p ++ List.replicate k 223

def serAll (ops : List Op) : List Nat := (ops.map ser).flatten

/-! ## Readers -/

/-- Read an `n`-byte big-endian unsigned number (`Deserializer::{u8,u16,u24,u32}`). -/
def rdU : Nat → List Nat → Option (Nat × List Nat)
  | 1, a :: t => some (a, t)
  | 2, a :: b :: t => some (a * 256 + b, t)
  | 3, a :: b :: c :: t => some ((a * 256 + b) * 256 + c, t)
  | 4, a :: b :: c :: d :: t => some (((a * 256 + b) * 256 + c) * 256 + d, t)
  | _, _ => none

def signedOf (n u : Nat) : Int :=
  if u < 2 ^ (8 * n - 1) then (u : Int) else (u : Int) - (2 ^ (8 * n) : Nat)

/-- Read an `n`-byte big-endian two's complement number (`i8`, `i16`, `i24`, `i32`). -/
def rdI (n : Nat) (b : List Nat) : Option (Int × List Nat) :=
  match rdU n b with
  | some (u, t) => some (signedOf n u, t)
  | none => none

/-- `split_at_checked(n)`. -/
def rdBytes (n : Nat) (b : List Nat) : Option (List Nat × List Nat) :=
  if n ≤ b.length then some (b.take n, b.drop n) else none

/-- Read `k` consecutive `i32`s. -/
def rdI32s : Nat → List Nat → Option (List Int × List Nat)
  | 0, b => some ([], b)
  | k + 1, b =>
    match rdI 4 b with
    | some (x, t) =>
      match rdI32s k t with
      | some (xs, t') => some (x :: xs, t')
      | none => none
    | none => none

/-- The run of 223 bytes after an `EndPostamble`. -/
def strip223 : List Nat → Nat × List Nat
  | [] => (0, [])
  | a :: t => if a = 223 then let r := strip223 t; (r.1 + 1, r.2) else (0, a :: t)

abbrev Res := Except Err (Option (Op × List Nat))

def varOfBase (opc : Nat) : Var :=
  if opc < 152 then .W else if opc < 157 then .X else if opc < 166 then .Y else .Z

/-- The payload of an operation after its op code. `none` = data ended (`Truncated`). -/
def dePayload (opc : Nat) (t : List Nat) : Option (Op × List Nat) :=
  if opc < 128 then some (.typesetChar opc true, t)
  else if opc < 132 then (rdU (opc - 127) t).map fun (u, r) => (.typesetChar u true, r)
  else if opc = 132 ∨ opc = 137 then
    match rdI 4 t with
    | some (h, t1) =>
      match rdI 4 t1 with
      | some (w, t2) => some (.typesetRule h w (opc = 132), t2)
      | none => none
    | none => none
  else if opc < 137 then (rdU (opc - 132) t).map fun (u, r) => (.typesetChar u false, r)
  else if opc = 138 then some (.noOp, t)
  else if opc = 139 then
    match rdI32s 10 t with
    | some (ps, t1) =>
      match rdI 4 t1 with
      | some (p, t2) => some (.beginPage ps p, t2)
      | none => none
    | none => none
  else if opc = 140 then some (.endPage, t)
  else if opc = 141 then some (.push, t)
  else if opc = 142 then some (.pop, t)
  else if opc < 147 then (rdI (opc - 142) t).map fun (i, r) => (.right i, r)
  else if opc = 147 ∨ opc = 152 ∨ opc = 161 ∨ opc = 166 then some (.move (varOfBase opc), t)
  else if opc < 157 then
    (rdI (opc - varBase (varOfBase opc)) t).map fun (i, r) => (.setVar (varOfBase opc) i, r)
  else if opc < 161 then (rdI (opc - 156) t).map fun (i, r) => (.down i, r)
  else if opc < 171 then
    (rdI (opc - varBase (varOfBase opc)) t).map fun (i, r) => (.setVar (varOfBase opc) i, r)
  else if opc < 235 then some (.enableFont (opc - 171), t)
  else if opc < 239 then (rdU (opc - 234) t).map fun (u, r) => (.enableFont u, r)
  else if opc < 243 then
    match rdU (opc - 238) t with
    | some (n, t1) => (rdBytes n t1).map fun (d, r) => (.extension d, r)
    | none => none
  else if opc < 247 then
    match rdU (opc - 242) t with
    | some (n, t1) =>
      match rdU 4 t1 with
      | some (c, t2) =>
        match rdU 4 t2 with
        | some (a, t3) =>
          match rdU 4 t3 with
          | some (d, t4) =>
            match rdU 1 t4 with
            | some (al, t5) =>
              match rdU 1 t5 with
              | some (nl, t6) =>
                match rdBytes al t6 with
                | some (area, t7) =>
                  (rdBytes nl t7).map fun (name, r) => (.defineFont n c a d area name, r)
                | none => none
              | none => none
            | none => none
          | none => none
        | none => none
      | none => none
    | none => none
  else if opc = 247 then
    match rdU 1 t with
    | some (f, t1) =>
      match rdU 4 t1 with
      | some (n, t2) =>
        match rdU 4 t2 with
        | some (d, t3) =>
          match rdU 4 t3 with
          | some (m, t4) =>
            match rdU 1 t4 with
            | some (l, t5) => (rdBytes l t5).map fun (c, r) => (.preamble f n d m c, r)
            | none => none
          | none => none
        | none => none
      | none => none
    | none => none
  else if opc = 248 then
    match rdI 4 t with
    | some (fbp, t1) =>
      match rdU 4 t1 with
      | some (n, t2) =>
        match rdU 4 t2 with
        | some (d, t3) =>
          match rdU 4 t3 with
          | some (m, t4) =>
            match rdU 4 t4 with
            | some (lh, t5) =>
              match rdU 4 t5 with
              | some (lw, t6) =>
                match rdU 2 t6 with
                | some (ms, t7) =>
                  (rdU 2 t7).map fun (np, r) => (.beginPostamble fbp n d m lh lw ms np, r)
                | none => none
              | none => none
            | none => none
          | none => none
        | none => none
      | none => none
    | none => none
  else -- 249
    match rdU 1 t with
    | some (f, t1) =>
      match rdI 4 t1 with
      | some (p, t2) => let s := strip223 t2; some (.endPostamble f p s.1, s.2)
      | none => none
    | none => none

/-- `Op::deserialize`. -/
def de (b : List Nat) : Res :=
  match b with
  | [] => .ok none
  | opc :: t =>
    if 250 ≤ opc then .error (.invalidOpCode opc)
    else
      match dePayload opc t with
      | some r => .ok (some r)
      | none => .error (.truncated opc)

/-- The `Deserializer` iterator, collected: operations read, and the side-channel result. -/
def deAll : Nat → List Nat → List Op × Option Err
  | 0, _ => ([], none)
  | fuel + 1, b =>
    match de b with
    | .ok none => ([], none)
    | .ok (some (op, rest)) => let r := deAll fuel rest; (op :: r.1, r.2)
    | .error e => ([], some e)

/-- Every `Op` consumes at least its op code, so `length + 1` steps always suffice. -/
def deserialize (b : List Nat) : List Op × Option Err := deAll (b.length + 1) b

/-! ## `Values` and `VarRemover` -/

structure StackValues where
  h : Int := 0
  hChars : List (Nat × Nat) := []
  v : Int := 0
  w : Int := 0
  x : Int := 0
  y : Int := 0
  z : Int := 0
  deriving DecidableEq, Repr, Inhabited

structure Values where
  f : Nat := 0
  top : StackValues := {}
  tail : List StackValues := []   -- innermost first
  deriving DecidableEq, Repr, Inhabited

def StackValues.var (s : StackValues) : Var → Int
  | .W => s.w | .X => s.x | .Y => s.y | .Z => s.z

def StackValues.setVar (s : StackValues) (v : Var) (i : Int) : StackValues :=
  match v with
  | .W => { s with w := i } | .X => { s with x := i }
  | .Y => { s with y := i } | .Z => { s with z := i }

def StackValues.moveBy (s : StackValues) (v : Var) (d : Int) : StackValues :=
  match v with
  | .W | .X => { s with h := s.h + d }
  | .Y | .Z => { s with v := s.v + d }

/-- `Values::update` (the returned `bool` is not used by the transform and is omitted). -/
def Values.update (s : Values) : Op → Values
  | .typesetChar c moveH =>
      if moveH then { s with top := { s.top with hChars := s.top.hChars ++ [(c, s.f)] } } else s
  | .typesetRule _ w moveH => if moveH then { s with top := { s.top with h := s.top.h + w } } else s
  | .beginPage _ _ => { s with top := {}, tail := [] }
  | .push => { s with tail := s.top :: s.tail }
  | .pop =>
      match s.tail with
      | [] => s
      | t :: rest => { s with top := t, tail := rest }
  | .right d => { s with top := { s.top with h := s.top.h + d } }
  | .move v => { s with top := s.top.moveBy v (s.top.var v) }
  | .setVar v i => { s with top := (s.top.setVar v i).moveBy v i }
  | .down d => { s with top := { s.top with v := s.top.v + d } }
  | .enableFont f => { s with f := f }
  | _ => s

/-- One step of `VarRemover::next`: update first, then rewrite the operation. -/
def removeStep (s : Values) (op : Op) : Values × Op :=
  let s' := s.update op
  match op with
  | .move v | .setVar v _ =>
      let value := s'.top.var v
      (s', match v with
           | .W | .X => .right value
           | .Y | .Z => .down value)
  | _ => (s', op)

def varRemoveFrom : Values → List Op → List Op
  | _, [] => []
  | s, op :: ops => let r := removeStep s op; r.2 :: varRemoveFrom r.1 ops

def varRemove (ops : List Op) : List Op := varRemoveFrom {} ops

/-! ## Specification of "page position and font of every typeset character and rule"

An independent tracker written from the DVI standard (TeX.2021.584–590): `h v w x y z`, a stack
of those six, and `f` outside the stack. `hc` counts the characters set with `move_h` since the
page began on the current stack level's history: the true `h` is `h` plus the widths of those
characters, which only a font can supply; two streams place a glyph identically for every font
iff `(h, hc)` agree (`hc` is the list of (char, font) whose widths are added). -/

structure Pos where
  h : Int := 0
  hc : List (Nat × Nat) := []
  v : Int := 0
  deriving DecidableEq, Repr, Inhabited

structure Track where
  pos : Pos := {}
  w : Int := 0
  x : Int := 0
  y : Int := 0
  z : Int := 0
  f : Nat := 0
  stack : List (Pos × Int × Int × Int × Int) := []
  deriving DecidableEq, Repr, Inhabited

inductive Mark
  | char (c : Nat) (moveH : Bool) (p : Pos) (f : Nat)
  | rule (height width : Int) (moveH : Bool) (p : Pos) (f : Nat)
  deriving DecidableEq, Repr

def Track.step (s : Track) : Op → Track × Option Mark
  | .typesetChar c m =>
      (if m then { s with pos := { s.pos with hc := s.pos.hc ++ [(c, s.f)] } } else s,
       some (.char c m s.pos s.f))
  | .typesetRule ht w m =>
      (if m then { s with pos := { s.pos with h := s.pos.h + w } } else s,
       some (.rule ht w m s.pos s.f))
  | .beginPage _ _ => ({ s with pos := {}, w := 0, x := 0, y := 0, z := 0, stack := [] }, none)
  | .push => ({ s with stack := (s.pos, s.w, s.x, s.y, s.z) :: s.stack }, none)
  | .pop =>
      match s.stack with
      | [] => (s, none)
      | (p, w, x, y, z) :: rest => ({ s with pos := p, w := w, x := x, y := y, z := z, stack := rest }, none)
  | .right d => ({ s with pos := { s.pos with h := s.pos.h + d } }, none)
  | .down d => ({ s with pos := { s.pos with v := s.pos.v + d } }, none)
  | .move .W => ({ s with pos := { s.pos with h := s.pos.h + s.w } }, none)
  | .move .X => ({ s with pos := { s.pos with h := s.pos.h + s.x } }, none)
  | .move .Y => ({ s with pos := { s.pos with v := s.pos.v + s.y } }, none)
  | .move .Z => ({ s with pos := { s.pos with v := s.pos.v + s.z } }, none)
  | .setVar .W i => ({ s with w := i, pos := { s.pos with h := s.pos.h + i } }, none)
  | .setVar .X i => ({ s with x := i, pos := { s.pos with h := s.pos.h + i } }, none)
  | .setVar .Y i => ({ s with y := i, pos := { s.pos with v := s.pos.v + i } }, none)
  | .setVar .Z i => ({ s with z := i, pos := { s.pos with v := s.pos.v + i } }, none)
  | .enableFont f => ({ s with f := f }, none)
  | _ => (s, none)

def marksFrom : Track → List Op → List Mark
  | _, [] => []
  | s, op :: ops =>
    let r := s.step op
    match r.2 with
    | some m => m :: marksFrom r.1 ops
    | none => marksFrom r.1 ops

/-- The position and font of every typeset character and rule, in order. -/
def positions (ops : List Op) : List Mark := marksFrom {} ops

def Op.isVar : Op → Bool
  | .move _ | .setVar _ _ => true
  | _ => false

/-! ## Well-formedness (what the Rust types guarantee, plus the quantifier's restrictions) -/

def fitsI32 (i : Int) : Prop := -2147483648 ≤ i ∧ i < 2147483648
def fitsU32 (n : Nat) : Prop := n < 4294967296
def bytesOK (l : List Nat) : Prop := ∀ b ∈ l, b < 256

instance (i : Int) : Decidable (fitsI32 i) := by unfold fitsI32; infer_instance
instance (n : Nat) : Decidable (fitsU32 n) := by unfold fitsU32; infer_instance
instance (l : List Nat) : Decidable (bytesOK l) := by unfold bytesOK; infer_instance

/-- Values of the Rust field types; strings of at most 255 bytes (the quantifier's bound; the
format has a one-byte length) and extensions shorter than 2^32 bytes. -/
def Op.WF : Op → Prop
  | .typesetChar c _ => fitsU32 c
  | .typesetRule h w _ => fitsI32 h ∧ fitsI32 w
  | .beginPage ps prev => ps.length = 10 ∧ (∀ p ∈ ps, fitsI32 p) ∧ fitsI32 prev
  | .right i | .down i | .setVar _ i => fitsI32 i
  | .enableFont u => fitsU32 u
  | .extension d => d.length < 4294967296 ∧ bytesOK d
  | .defineFont n c a d area name =>
      fitsU32 n ∧ fitsU32 c ∧ fitsU32 a ∧ fitsU32 d ∧ area.length ≤ 255 ∧ name.length ≤ 255
        ∧ bytesOK area ∧ bytesOK name
  | .preamble f n d m c => f < 256 ∧ fitsU32 n ∧ fitsU32 d ∧ fitsU32 m ∧ c.length ≤ 255 ∧ bytesOK c
  | .beginPostamble fbp n d m lh lw ms np =>
      fitsI32 fbp ∧ fitsU32 n ∧ fitsU32 d ∧ fitsU32 m ∧ fitsU32 lh ∧ fitsU32 lw ∧ ms < 65536 ∧ np < 65536
  | .endPostamble f p _ => f < 256 ∧ fitsI32 p
  | _ => True

instance (op : Op) : Decidable op.WF := by
  cases op <;> unfold Op.WF <;> infer_instance

/-- What may follow an operation in a byte stream without being absorbed by it: an
`EndPostamble` absorbs every following 223 byte, and 223 is also the op code `fnt_num_52`. -/
def okBefore (op : Op) (rest : List Nat) : Prop :=
  match op with
  | .endPostamble _ _ _ => rest.head? ≠ some 223
  | _ => True

/-- A sequence in which no `EndPostamble` is directly followed by `EnableFont 52`. -/
def SeqWF : List Op → Prop
  | [] => True
  | op :: ops => op.WF ∧ okBefore op (serAll ops) ∧ SeqWF ops

instance (op : Op) (rest : List Nat) : Decidable (okBefore op rest) := by
  cases op <;> unfold okBefore <;> infer_instance

instance decSeqWF : (ops : List Op) → Decidable (SeqWF ops)
  | [] => isTrue trivial
  | op :: ops =>
    have := decSeqWF ops
    by unfold SeqWF; infer_instance

def Op.isEndPostamble : Op → Bool
  | .endPostamble _ _ _ => true
  | _ => false

/-- No `EndPostamble` is directly followed by `EnableFont 52` (whose one-byte form is the
padding byte 223 — finding C16-a). -/
def Post52Free : List Op → Prop
  | [] => True
  | [_] => True
  | op :: op2 :: ops =>
      ¬ (op.isEndPostamble = true ∧ op2 = .enableFont 52) ∧ Post52Free (op2 :: ops)

instance decPost52Free : (ops : List Op) → Decidable (Post52Free ops)
  | [] => isTrue trivial
  | [_] => isTrue trivial
  | op :: op2 :: ops =>
    have := decPost52Free (op2 :: ops)
    by unfold Post52Free; infer_instance

/-- The absolute horizontal plus vertical movement the step `op` performs in state `s`. -/
def stepMag (s : Values) : Op → Nat
  | .typesetRule _ w m => if m then w.natAbs else 0
  | .right d => d.natAbs
  | .down d => d.natAbs
  | .move v => (s.top.var v).natAbs
  | .setVar _ i => i.natAbs
  | _ => 0

/-- Total movement of a run from state `s`. -/
def runMag : Values → List Op → Nat
  | _, [] => 0
  | s, op :: ops => stepMag s op + runMag (s.update op) ops

end C16
