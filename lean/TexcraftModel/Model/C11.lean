/-
C11 — TFM↔PL conversion is an idempotent, font-preserving normalisation.

Model of the *algorithmic* parts of the conversion (DESIGN 5.12):

* `crates/tfm/src/ligkern/lang.rs`
  - `Program::instructions_for_entrypoint` / `InstructionsForEntrypointIter` (`chain`)
  - `Program::unpack_entrypoint` (`unpackEntry`)
  - `Program::pack_entrypoints` (`pack`, with fix C11-a applied: the redirect counter is wide
    enough for 256 redirected entry points)
  - `Program::unpack_kerns` / `Program::pack_kerns` (`unpackKerns`, `packKerns`)
* `crates/tfm/src/lib.rs`
  - `compress` on its early-exit path (`dedup_values.len() <= max_size`: sort, deduplicate,
    zero first) and the index lookups of `impl From<pl::File> for File` (`table`, `dimIndex`).
    The lossy path of `compress` is C17's subject (`Model/C17.lean`).

Characters, entry points and indices are `Nat`, fix_words are `Int` (raw 32-bit values).
`none` from `pack` means "the Rust code panics". Core Lean only.
-/
namespace C11

/-! ## The lig/kern language (`lang.rs`) -/

/-- `lang::Operation`. `lig c post`: `post` is the `PostLigOperation` as a code 0..7 (order of
the Rust enum as the harness numbers it); packing never looks at it. `redirect u flag` is
`EntrypointRedirect(u, flag)`. -/
inductive Op
  | kern (k : Int)
  | kernAt (i : Nat)
  | lig (c : Nat) (post : Nat)
  | redirect (u : Nat) (flag : Bool)
  deriving DecidableEq, Repr, Inhabited

/-- `lang::Instruction`. -/
structure Instr where
  next : Option Nat
  right : Nat
  op : Op
  deriving DecidableEq, Repr, Inhabited

def Op.isRedirect : Op → Bool
  | .redirect _ _ => true
  | _ => false

def Op.isKernAt : Op → Bool
  | .kernAt _ => true
  | _ => false

/-- `lang::Program` without the `passthrough` set (bookkeeping for tftopl's comments). -/
structure Prog where
  instrs : List Instr
  lb : Option Nat
  rb : Option Nat
  deriving DecidableEq, Repr, Inhabited

/-- `InstructionsForEntrypointIter` (lang.rs:1005–1027): start at the entry point; after an
instruction with `next_instruction = Some(inc)` continue `inc + 1` further; `None` (STOP) or
running off the end of the array ends the iteration. -/
def chain : Nat → List Instr → List Instr
  | _, [] => []
  | 0, i :: rest =>
    i :: (match i.next with
      | none => []
      | some inc => chain inc rest)
  | s + 1, _ :: rest => chain s rest

/-- `Program::unpack_entrypoint` (lang.rs:533–552). `none` = `Err(InvalidEntrypointError)`. -/
def unpackEntry (instrs : List Instr) (e : Nat) : Option Nat :=
  match instrs[e]? with
  | none => none
  | some i =>
    match i.op with
    | .redirect u _ => if u < instrs.length then some u else none
    | _ => some e

/-! ## `pack_entrypoints` (lang.rs:554–626) -/

/-- Insert into a strictly descending list (no duplicates). -/
def insertDesc (x : Nat) : List Nat → List Nat
  | [] => [x]
  | y :: ys => if y < x then x :: y :: ys else if x = y then y :: ys else y :: insertDesc x ys

/-- The keys of `ordered_entrypoints` in the order the loop visits them
(`sort_by_key` ascending, then `.rev()`): the distinct entry points, largest first. -/
def descDistinct (l : List Nat) : List Nat := l.foldr insertDesc []

/-- State of the loop over `ordered_entrypoints.into_iter().rev().enumerate()`. -/
structure LoopSt where
  /-- `offset` -/
  offset : Nat
  /-- `redirects`, in push order -/
  redirects : List Nat
  /-- u16 entry point ↦ u8 entry point (what `new_entrypoints` stores for every char of the group) -/
  assign : List (Nat × Nat)
  /-- the boundary-char carrier pushed before the loop was popped again ("location 0 can do
  double duty", PLtoTF.2014.141) -/
  popped : Bool
  deriving DecidableEq, Repr, Inhabited

/-- One pass of the loop (lang.rs:578–601). `i` is the `enumerate()` index. An entry point
that still fits a byte after adding the offset is used directly; otherwise it gets the next
redirect slot. `none`: the slot number does not fit a `u8` (more than 256 redirects; with fix
C11-a this is the only panic left, and it is unreachable for at most 256 distinct entry
points — `pack_total`). -/
def packLoop (rbSome : Bool) : Nat → List Nat → LoopSt → Option LoopSt
  | _, [], st => some st
  | i, e :: rest, st =>
    if e + st.offset ≤ 255 then
      packLoop rbSome (i + 1) rest { st with assign := (e, e + st.offset) :: st.assign }
    else
      let pop := i == 0 && rbSome
      let off0 := if pop then 0 else st.offset
      if off0 ≤ 255 then
        packLoop rbSome (i + 1) rest
          { offset := off0 + 1, redirects := st.redirects ++ [e],
            assign := (e, off0) :: st.assign, popped := st.popped || pop }
      else none

/-- `slice::rotate_right(k)` for `k ≤ len`. -/
def rotateRight (l : List Instr) (k : Nat) : List Instr :=
  l.drop (l.length - k) ++ l.take (l.length - k)

def lookup (a : List (Nat × Nat)) (k : Nat) : Option Nat :=
  match a with
  | [] => none
  | (k', v) :: t => if k' = k then some v else lookup t k

/-- The carrier of the boundary char (lang.rs:570–574). -/
def carrier (rbc : Nat) : Instr := ⟨none, rbc, .redirect 0 true⟩

/-- A redirect instruction (lang.rs:603–611). -/
def redirectInstr (rbc off e : Nat) : Instr := ⟨none, rbc, .redirect (e + off) true⟩

/-- The trailing word that carries the left-boundary entry point (lang.rs:613–624). -/
def lbInstr (l : Nat) : Instr := ⟨none, 0, .redirect l false⟩

def mapEntries (assign : List (Nat × Nat)) : List (Nat × Nat) → Option (List (Nat × Nat))
  | [] => some []
  | (c, e) :: t =>
    match lookup assign e, mapEntries assign t with
    | some u, some r => some ((c, u) :: r)
    | _, _ => none

/-- `Program::pack_entrypoints(entrypoints)`: the program afterwards and the returned map
(`entries` is the `HashMap<Char, u16>` as an association list with distinct keys; the result
lists the same characters in the same order). `none` = panic. -/
def pack (p : Prog) (entries : List (Nat × Nat)) : Option (Prog × List (Nat × Nat)) :=
  let ds := descDistinct (entries.map (·.2))
  let rbc := p.rb.getD 0
  let off0 := if p.rb.isSome then 1 else 0
  match packLoop p.rb.isSome 0 ds { offset := off0, redirects := [], assign := [], popped := false } with
  | none => none
  | some st =>
    let carriers : List Instr := if p.rb.isSome && !st.popped then [carrier rbc] else []
    let reds := st.redirects.map (redirectInstr rbc st.offset)
    let rotated := rotateRight (p.instrs ++ carriers ++ reds) st.offset
    let final := match p.lb with
      | none => rotated
      | some l => rotated ++ [lbInstr (l + st.offset)]
    match mapEntries st.assign entries with
    | none => none
    | some pe => some ({ instrs := final, lb := p.lb.map (· + st.offset), rb := p.rb }, pe)

/-! ## Executable specification of packing (evaluated by the driver on the *real* output) -/

def noRedirect (l : List Instr) : Bool := l.all (fun i => !i.op.isRedirect)

/-- No SKIP leaves the array: instruction `k` (counted from `base`) with `next = some s`
has `k + s + 1 < length`. -/
def closed : List Instr → Bool
  | [] => true
  | i :: rest =>
    (match i.next with
      | none => true
      | some s => decide (s < rest.length)) && closed rest

/-- Hypotheses of `pack_preserves`: a PL-level program (no redirect words), every SKIP stays
inside the table, every entry point (and the boundary entry point) addresses an instruction. -/
def wf (p : Prog) (entries : List (Nat × Nat)) : Bool :=
  noRedirect p.instrs && closed p.instrs
    && entries.all (fun ce => decide (ce.2 < p.instrs.length))
    && (match p.lb with | none => true | some l => decide (l < p.instrs.length))

/-- Character `ce.1` (entry point `ce.2` before packing) starts the same chain afterwards. -/
def entryOk (orig packed : List Instr) (pe : List (Nat × Nat)) (ce : Nat × Nat) : Bool :=
  match lookup pe ce.1 with
  | none => false
  | some e8 =>
    decide (e8 ≤ 255) &&
      (match unpackEntry packed e8 with
        | none => false
        | some e' => chain e' packed == chain ce.2 orig)

/-- What the `.tfm` reader recovers from the serialised words (deserialize.rs:531–569,
serialize.rs `impl Serializable for Instruction`): the boundary char is read from word 0 when
its skip byte is 255 — an `EntrypointRedirect(_, false)`, or an `EntrypointRedirect(_, true)`
in a program that has a boundary char; the left-boundary entry point from the last word when
its skip byte is 255. -/
def skip255 (rb : Option Nat) (i : Instr) : Bool :=
  match i.op with
  | .redirect _ false => true
  | .redirect _ true => rb.isSome
  | _ => false

def readRb (rb : Option Nat) (instrs : List Instr) : Option Nat :=
  match instrs with
  | [] => none
  | i :: _ => if skip255 rb i then some i.right else none

def readLb (rb : Option Nat) (instrs : List Instr) : Option Nat :=
  match instrs.getLast? with
  | none => none
  | some i =>
    if skip255 rb i then (match i.op with | .redirect u _ => some u | _ => none) else none

/-- The boundary data survive serialisation: the reader finds the same boundary char, and a
left-boundary entry point whose chain is the original one. (When the original has no
left-boundary program the reader may still report one if the table consists of the carrier
alone; its chain then holds only that carrier, which `C05.resolveOp` never executes.) -/
def boundaryOk (orig packed : Prog) : Bool :=
  packed.rb == orig.rb && readRb packed.rb packed.instrs == orig.rb &&
    (match orig.lb with
      | some l =>
        (match readLb packed.rb packed.instrs with
          | some l' => packed.lb == some l' && chain l' packed.instrs == chain l orig.instrs
          | none => false)
      | none =>
        packed.lb == none &&
        (match readLb packed.rb packed.instrs with
          | none => true
          | some l' => (chain l' packed.instrs).all (fun i => i.op.isRedirect)))

/-- S for `pack_entrypoints`. -/
def checkPack (orig : Prog) (entries : List (Nat × Nat)) (packed : Prog) (pe : List (Nat × Nat)) : Bool :=
  entries.all (entryOk orig.instrs packed.instrs pe) && pe.map (·.1) == entries.map (·.1) &&
    boundaryOk orig packed

/-! ## Kerns (`unpack_kerns`, `pack_kerns`; lang.rs:628–662) -/

def indexOf (k : Int) : List Int → Option Nat
  | [] => none
  | x :: xs => if x = k then some 0 else (indexOf k xs).map (· + 1)

/-- `unpack_kerns`: every `Kern(k)` becomes `KernAtIndex(i)`, `i` the position of `k` in the
deduplicated array built in order of first occurrence (`kerns_dedup`). `ks` = kerns so far. -/
def unpackKernsAux (ks : List Int) : List Instr → List Instr × List Int
  | [] => ([], ks)
  | i :: rest =>
    match i.op with
    | .kern k =>
      match indexOf k ks with
      | some idx =>
        let r := unpackKernsAux ks rest
        ({ i with op := .kernAt idx } :: r.1, r.2)
      | none =>
        let r := unpackKernsAux (ks ++ [k]) rest
        ({ i with op := .kernAt ks.length } :: r.1, r.2)
    | _ =>
      let r := unpackKernsAux ks rest
      (i :: r.1, r.2)

def unpackKerns (l : List Instr) : List Instr × List Int := unpackKernsAux [] l

/-- What an operation does once the kerns array is known: `KernAtIndex(i)` is `Kern(kerns[i])`,
a missing index reads 0 (`unwrap_or_default`, lang.rs:658). -/
def resolve (kerns : List Int) : Op → Op
  | .kernAt idx => .kern ((kerns[idx]?).getD 0)
  | op => op

/-- `pack_kerns(kerns)`: every `KernAtIndex(i)` becomes `Kern(kerns[i])`. -/
def packKerns (kerns : List Int) (l : List Instr) : List Instr :=
  l.map fun i => { i with op := resolve kerns i.op }

def noKernAt (l : List Instr) : Bool := l.all (fun i => !i.op.isKernAt)

/-! ## Dimension tables (`compress` early exit, lib.rs:685–709; index lookups lib.rs:525–575) -/

/-- Insert into a strictly ascending list (no duplicates). -/
def insertAsc (x : Int) : List Int → List Int
  | [] => [x]
  | y :: ys => if x < y then x :: y :: ys else if x = y then y :: ys else y :: insertAsc x ys

/-- `dedup_values`: the distinct values, ascending. -/
def sortDedup (l : List Int) : List Int := l.foldr insertAsc []

/-- `compress(values, max).0` when `dedup_values.len() <= max`: zero first, then the sorted
distinct values (`push(ZERO); rotate_right(1)`). -/
def table (vals : List Int) : List Int := 0 :: sortDedup vals

/-- `compress(values, max).1[v]` as a number, 0 when `v` is not a key (`unwrap_or(0)`: that is
how a zero height/depth/italic correction, which is never pushed to `values`, gets index 0). -/
def dimIndex (v : Int) (vals : List Int) : Nat :=
  match indexOf v (sortDedup vals) with
  | some i => i + 1
  | none => 0

/-- Heights, depths and italic corrections: zero is not pushed (lib.rs:503–514). -/
def nonZero (vals : List Int) : List Int := vals.filter (· ≠ 0)

end C11
