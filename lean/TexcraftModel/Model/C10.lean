/-
C10 — TFM reader front end: model of `RawFile::deserialize`, `SubFileSizes::{from,into}`,
`valid_lf` and `RawFile::finish_deserialization` in `crates/tfm/src/deserialize.rs`, and of the
index clamps of `validate_and_fix` (`crates/tfm/src/validate.rs`) that guard later indexing.

Bytes are `Nat` (< 256 wherever the code has a `u8`); the sixteen-bit sub-file sizes are `Int`
with the machine width explicit: every `i16`/`i32` addition goes through `addW`, which returns
`none` where the Rust build (overflow checks on) panics; every slice operation goes through
`getSlices`, which returns `none` where `&b[..u]` panics; `b.get(0..24).expect(..)` is the
`none` branch of `sizesOf`.  Panics are the explicit outcome `Outcome.panic site`.

`rawCore pre` is the model: `pre = true` is the code *before* the two repairs
`fixes/C10-a.patch` (files shorter than 24 bytes are rejected with
`InternalFileLengthIsTooSmall`) and `fixes/C10-b.patch` (`valid_lf` is summed in `i32`);
`pre = false` is the repaired code, which is what the theorems are about. The limit on the
number of extensible recipes is the repaired one of `fixes/C10-k.patch` (`ne > 256`, as in
TFtoPL.2014.21) for both values of `pre`.
Only the first 24 bytes and the length of the file are looked at by this code, so the model
takes exactly those (`rawDeserialize b = rawCore false (b.take 24) b.length`).

Not modelled: the bodies of the sub-files (`from_raw_file`), the lig/kern and next-larger
validators, everything in `pl/`.  Core Lean only.
-/
namespace C10

/-- `i16::from_be_bytes([hi, lo])`. -/
def i16OfBytes (hi lo : Nat) : Int :=
  let u := hi % 256 * 256 + lo % 256
  if u < 32768 then (u : Int) else (u : Int) - 65536

/-- `i16::to_be_bytes` (two's complement, big endian). -/
def i16ToBytes (x : Int) : List Nat :=
  let u := (x % 65536).toNat
  [u / 256, u % 256]

/-- `deserialize::SubFileSizes`. -/
structure Sizes where
  lf : Int
  lh : Int
  bc : Int
  ec : Int
  nw : Int
  nh : Int
  nd : Int
  ni : Int
  nl : Int
  nk : Int
  ne : Int
  np : Int
  deriving DecidableEq, Repr

def Sizes.toList (s : Sizes) : List Int :=
  [s.lf, s.lh, s.bc, s.ec, s.nw, s.nh, s.nd, s.ni, s.nl, s.nk, s.ne, s.np]

/-- `deserialize::DeserializationError` (payloads as in the Rust enum). -/
inductive DeErr
  | fileIsEmpty
  | fileHasOneByte (b : Nat)
  | lfZero
  | lfNegative (lf : Int)
  | lfTooBig (lf : Int) (len : Nat)
  | lfTooSmall (lf : Int) (len : Nat)
  | subFileSizeIsNegative (s : Sizes)
  | headerLengthIsTooSmall (lh : Int)
  | invalidCharacterRange (bc ec : Int)
  | incompleteSubFiles (s : Sizes)
  | tooManyExtensibleCharacters (ne : Int)
  | inconsistentSubFileSizes (s : Sizes)
  deriving DecidableEq, Repr

/-- Where the Rust code would panic. -/
inductive Site
  /-- `b.get(0..24).expect("3 < lf <= b.len()")` -/
  | get24
  /-- `attempt to add/subtract with overflow` in `valid_lf` / `s.ec - s.bc + 1` -/
  | arith
  /-- `&b[..u]` out of range in `finish_deserialization` -/
  | slice
  /-- `s.bc.try_into().expect("bc<ec<=u8::MAX, so bc<=u8::MAX")` -/
  | bcCast
  deriving DecidableEq, Repr

/-- A half-open byte range `[start, stop)` of the file. -/
structure Slice where
  start : Nat
  stop : Nat
  deriving DecidableEq, Repr

/-- What `RawFile` holds, with every `&[u8]` replaced by its bounds in the file.
`slices` = raw_sub_file_sizes, header, char_infos, widths, heights, depths,
italic_corrections, lig_kern_instructions, kerns, extensible_recipes, params. -/
structure RawLayout where
  sizes : Sizes
  beginChar : Nat
  endChar : Nat
  slices : List Slice
  deriving DecidableEq, Repr

/-- Result of `RawFile::deserialize`; `junk` = the warning `InternalFileLengthIsSmall` was issued. -/
inductive Outcome
  | ok (L : RawLayout) (junk : Bool)
  | err (e : DeErr) (junk : Bool)
  | panic (site : Site)
  deriving DecidableEq, Repr

/-! ## Header words -/

/-- Read `n` big-endian 16-bit words; `none` if the bytes run out. -/
def words : Nat → List Nat → Option (List Int)
  | 0, _ => some []
  | n + 1, hi :: lo :: t =>
    match words n t with
    | some r => some (i16OfBytes hi lo :: r)
    | none => none
  | _ + 1, _ => none

/-- `b.get(0..24)` followed by `SubFileSizes::from([u8; 24])`; `none` = fewer than 24 bytes. -/
def sizesOf (hdr : List Nat) : Option Sizes :=
  match words 12 hdr with
  | some [lf, lh, bc, ec, nw, nh, nd, ni, nl, nk, ne, np] =>
    some ⟨lf, lh, bc, ec, nw, nh, nd, ni, nl, nk, ne, np⟩
  | _ => none

/-- `From<SubFileSizes> for [u8; 24]`. -/
def headerBytes (s : Sizes) : List Nat :=
  i16ToBytes s.lf ++ i16ToBytes s.lh ++ i16ToBytes s.bc ++ i16ToBytes s.ec ++
  i16ToBytes s.nw ++ i16ToBytes s.nh ++ i16ToBytes s.nd ++ i16ToBytes s.ni ++
  i16ToBytes s.nl ++ i16ToBytes s.nk ++ i16ToBytes s.ne ++ i16ToBytes s.np

/-! ## Checked arithmetic -/

/-- Addition in a signed type with range `[-lim, lim)`; `none` = overflow panic. -/
def addW (lim : Int) (a b : Int) : Option Int :=
  let r := a + b
  if -lim ≤ r ∧ r < lim then some r else none

def sumW (lim : Int) : Int → List Int → Option Int
  | acc, [] => some acc
  | acc, x :: xs =>
    match addW lim acc x with
    | none => none
    | some r => sumW lim r xs

def lim16 : Int := 32768
def lim32 : Int := 2147483648

/-- `s.ec - s.bc + 1` in a type of range `[-lim, lim)`. -/
def numChars (lim : Int) (s : Sizes) : Option Int :=
  match addW lim s.ec (-s.bc) with
  | none => none
  | some t => addW lim t 1

/-- `6 + s.lh + (s.ec - s.bc + 1) + s.nw + s.nh + s.nd + s.ni + s.nl + s.nk + s.ne + s.np`,
left to right, in a type of range `[-lim, lim)`. -/
def validLf (lim : Int) (s : Sizes) : Option Int :=
  match addW lim 6 s.lh with
  | none => none
  | some a =>
    match numChars lim s with
    | none => none
    | some c => sumW lim a [c, s.nw, s.nh, s.nd, s.ni, s.nl, s.nk, s.ne, s.np]

/-! ## Slicing -/

/-- The closure `get` of `finish_deserialization`, applied to each size in turn: `u as usize * 4`
bytes from the running position; `none` where `&b[..u]` panics (a negative `u` casts to a
huge `usize`). -/
def getSlices (len : Nat) : Nat → List Int → Option (List Slice)
  | _, [] => some []
  | pos, u :: us =>
    if u < 0 then none
    else
      let stop := pos + u.toNat * 4
      if len < stop then none
      else
        match getSlices len stop us with
        | none => none
        | some r => some (⟨pos, stop⟩ :: r)

/-- `RawFile::finish_deserialization`. -/
def finish (len : Nat) (s : Sizes) (bc ec : Nat) (junk : Bool) : Outcome :=
  match numChars lim16 s with
  | none => .panic .arith
  | some nc =>
    match getSlices len 0 [6, s.lh, nc, s.nw, s.nh, s.nd, s.ni, s.nl, s.nk, s.ne, s.np] with
    | none => .panic .slice
    | some sl => .ok ⟨s, bc, ec, sl⟩ junk

/-- The checks of `RawFile::deserialize` after the twelve sizes have been read. -/
def checks (pre : Bool) (s : Sizes) (len : Nat) (junk : Bool) : Outcome :=
  if s.lh < 0 ∨ s.bc < 0 ∨ s.ec < 0 ∨ s.nw < 0 ∨ s.nh < 0 ∨ s.nd < 0 ∨ s.ni < 0 ∨ s.nl < 0 ∨
      s.nk < 0 ∨ s.ne < 0 ∨ s.np < 0 then
    .err (.subFileSizeIsNegative s) junk
  else if s.lh < 2 then .err (.headerLengthIsTooSmall s.lh) junk
  else
    -- `s.bc.cmp(&s.ec.saturating_add(1))`
    let ec1 : Int := if s.ec = 32767 then 32767 else s.ec + 1
    if ec1 < s.bc then .err (.invalidCharacterRange s.bc s.ec) junk
    else if s.bc < ec1 ∧ 255 < s.ec then .err (.invalidCharacterRange s.bc s.ec) junk
    else if s.bc < ec1 ∧ 255 < s.bc then .panic .bcCast
    else
      let bcec : Nat × Nat := if s.bc < ec1 then (s.bc.toNat, s.ec.toNat) else (1, 0)
      if s.nw = 0 ∨ s.nh = 0 ∨ s.nd = 0 ∨ s.ni = 0 then .err (.incompleteSubFiles s) junk
      else if 256 < s.ne then .err (.tooManyExtensibleCharacters s.ne) junk
      else
        if pre then
          -- `s.lf != s.valid_lf()` with `valid_lf` in `i16`
          match validLf lim16 s with
          | none => .panic .arith
          | some v =>
            if s.lf ≠ v then .err (.inconsistentSubFileSizes s) junk
            else finish len s bcec.1 bcec.2 junk
        else
          -- `Some(s.lf) != s.checked_valid_lf()`: summed in `i32`, then `try_into::<i16>().ok()`
          match validLf lim32 s with
          | none => .panic .arith
          | some v =>
            if ¬ (-lim16 ≤ v ∧ v < lim16) ∨ s.lf ≠ v then .err (.inconsistentSubFileSizes s) junk
            else finish len s bcec.1 bcec.2 junk

/-- `RawFile::deserialize` as a function of the first `min 24 len` bytes and the length. -/
def rawCore (pre : Bool) (hdr : List Nat) (len : Nat) : Outcome :=
  match hdr with
  | [] => .err .fileIsEmpty false
  | [b0] => .err (.fileHasOneByte b0) false
  | b0 :: b1 :: _ =>
    let lf := i16OfBytes b0 b1
    if lf < 0 then .err (.lfNegative lf) false
    else if lf = 0 then .err .lfZero false
    else
      let claimed := lf.toNat * 4
      if len < claimed then .err (.lfTooBig lf len) false
      else
        let junk := decide (claimed < len)
        if lf ≤ 3 ∨ (pre = false ∧ len < 24) then .err (.lfTooSmall lf len) false
        else
          match sizesOf hdr with
          | none => .panic .get24
          | some s => checks pre s len junk

/-- The repaired `RawFile::deserialize` on a whole file. -/
def rawDeserialize (b : List Nat) : Outcome := rawCore false (b.take 24) b.length

/-- The code as it stands before `fixes/C10-a.patch` and `fixes/C10-b.patch`. -/
def rawDeserializePre (b : List Nat) : Outcome := rawCore true (b.take 24) b.length

/-! ## Specification (independent of the model) -/

/-- Consecutive slices starting at `pos` whose lengths are four times the given word counts. -/
def Tiles : Nat → List Slice → List Int → Prop
  | _, [], [] => True
  | pos, sl :: sls, n :: ns => sl.start = pos ∧ (sl.stop : Int) = pos + 4 * n ∧ 0 ≤ n ∧ Tiles sl.stop sls ns
  | _, _, _ => False

def tilesB : Nat → List Slice → List Int → Bool
  | _, [], [] => true
  | pos, sl :: sls, n :: ns =>
    sl.start == pos && ((sl.stop : Int) == pos + 4 * n) && decide (0 ≤ n) && tilesB sl.stop sls ns
  | _, _, _ => false

def lastStop : Nat → List Slice → Nat
  | pos, [] => pos
  | _, sl :: sls => lastStop sl.stop sls

/-- The word counts of the eleven sub-files in file order. -/
def Sizes.parts (s : Sizes) : List Int :=
  [6, s.lh, s.ec - s.bc + 1, s.nw, s.nh, s.nd, s.ni, s.nl, s.nk, s.ne, s.np]

/-- What the property asks of an accepted file of `len` bytes: the eleven sub-files are
consecutive, the first is the 24-byte size table at offset 0, each is four times its declared
word count, together they cover exactly `[0, 4·lf)` and that lies inside the file. -/
def LayoutOK (len : Nat) (L : RawLayout) : Prop :=
  Tiles 0 L.slices L.sizes.parts ∧ (lastStop 0 L.slices : Int) = 4 * L.sizes.lf ∧
    lastStop 0 L.slices ≤ len

def layoutOKB (len : Nat) (L : RawLayout) : Bool :=
  tilesB 0 L.slices L.sizes.parts && ((lastStop 0 L.slices : Int) == 4 * L.sizes.lf) &&
    decide (lastStop 0 L.slices ≤ len)

/-- Sizes a writer may emit and expect to be read back (what `serialize` produces when every
section fits): all the acceptance conditions of the reader, stated directly. -/
structure Consistent (s : Sizes) : Prop where
  lh : 2 ≤ s.lh
  bc : 0 ≤ s.bc
  range : s.bc ≤ s.ec + 1
  ec0 : 0 ≤ s.ec
  ec : s.ec ≤ 255
  nw : 1 ≤ s.nw
  nh : 1 ≤ s.nh
  nd : 1 ≤ s.nd
  ni : 1 ≤ s.ni
  nl : 0 ≤ s.nl
  nk : 0 ≤ s.nk
  ne : 0 ≤ s.ne
  ne' : s.ne ≤ 256
  np : 0 ≤ s.np
  lf : s.lf = 6 + s.lh + (s.ec - s.bc + 1) + s.nw + s.nh + s.nd + s.ni + s.nl + s.nk + s.ne + s.np
  fits : s.lf ≤ 32767

/-- The layout a consistent size table describes. -/
def slicesFrom : Nat → List Int → List Slice
  | _, [] => []
  | pos, n :: ns => ⟨pos, pos + n.toNat * 4⟩ :: slicesFrom (pos + n.toNat * 4) ns

def layoutOf (s : Sizes) : RawLayout :=
  { sizes := s
    beginChar := if s.bc ≤ s.ec then s.bc.toNat else 1
    endChar := if s.bc ≤ s.ec then s.ec.toNat else 0
    slices := slicesFrom 0 s.parts }

/-! ## The index clamps of `validate_and_fix` (validate.rs:407-431, 456-462, 384-399) -/

/-- `CharDimensions` as four raw indices (`WidthIndex::Invalid` reads as 0 via `get`). -/
structure Dims where
  w : Nat
  h : Nat
  d : Nat
  i : Nat
  deriving DecidableEq, Repr

/-- An index that is `>= len` is reset to zero (with a warning). -/
def clampIdx (idx len : Nat) : Nat := if len ≤ idx then 0 else idx

def clampDims (nw nh nd ni : Nat) (c : Dims) : Dims :=
  ⟨clampIdx c.w nw, clampIdx c.h nh, clampIdx c.d nd, clampIdx c.i ni⟩

/-- `CharTag`. -/
inductive Tag
  | lig (entry : Nat)
  | list (next : Nat)
  | ext (recipe : Nat)
  deriving DecidableEq, Repr

/-- The tag clamps: an extensible-recipe index `>= ne` drops the tag (validate.rs:441-446);
a `NEXTLARGER` target that is not a character of the font drops the tag (the
`NextLargerProgramWarning::NonExistentCharacter` branch, lib.rs); a lig entry point `>= nl`
drops the tag (`lang::ValidationWarning::InvalidEntrypoint`, validate.rs:289-297). -/
def clampTag (nl ne : Nat) (exists_ : Nat → Bool) : Tag → Option Tag
  | .lig e => if nl ≤ e then none else some (.lig e)
  | .list n => if exists_ n then some (.list n) else none
  | .ext r => if ne ≤ r then none else some (.ext r)

/-- An extensible piece (top/middle/bottom) that is not a character of the font is removed
(validate.rs:384-399). -/
def clampPiece (exists_ : Nat → Bool) : Option Nat → Option Nat
  | none => none
  | some c => if exists_ c then some c else none

/-- The lig-tag clamp, exactly (`Program::unpack_entrypoint`, ligkern/lang.rs:533-551, used by
`validate_and_fix` for `InvalidEntrypoint`): the word at the entry point decides. `redirect` =
the target of the instruction at index `e` if that instruction is an entry-point redirect
(skip byte > 128), `none` otherwise or if there is no such instruction. Returns the unpacked
entry point, or `none` (tag dropped): direct entry `≥ nl`, or redirect target `≥ nl`. -/
def unpackEntry (nl e : Nat) (redirect : Option Nat) : Option Nat :=
  if nl ≤ e then none
  else match redirect with
    | none => some e
    | some t => if t < nl then some t else none

def TagOK (nl ne : Nat) (exists_ : Nat → Bool) : Tag → Prop
  | .lig e => e < nl
  | .list n => exists_ n = true
  | .ext r => r < ne

end C10
