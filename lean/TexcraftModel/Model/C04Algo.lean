import TexcraftModel.Model.C04

/-!
C04 — the active-list algorithm itself: a clause-by-clause transcription of
`LineBreaker::break_line_single_attempt` (crates/boxworks-knuthplass/src/lib.rs:492-988, with
`demerits` :991-1019, `num_nodes_for_next_class` :1034-1046, the constants :1050-1053) over the
abstract items of `Model/C04.lean`. Line numbers below refer to that file.

Representation changes (everything else follows the Rust statement by statement):
* `passive_nodes` + `node_index` / `previous_node_index`: every active node (and candidate)
  carries its break path instead (break indices, most recent first). Walking the
  `previous_node_index` chain from a node (:978-987) yields exactly the reverse of that list.
* integers are `Int`: no `i32` wrap-around. `AWFUL_BAD = 2^30 − 1` stays a number, so the
  comparisons against it behave as in the code as long as the code does not overflow.
* `Candidate.artificial_demerits` only feeds the logger and is dropped.
* the `VecDeque` is a `List` (head = front, `push_back` = append at the end).
* Where the Rust would panic on input that the harness never builds (a discretionary whose
  replaced nodes reach beyond the list, `list[j]` at :808; empty `line_widths`, :682) the
  model uses width 0; `discInRange` / `widths ≠ []` delimit the modelled domain and the
  driver does not compare outside it. `todo!()` (whatsits) has no counterpart in `Item`.
Core Lean only.
-/
namespace C04

/-- `AWFUL_BAD` (:1050) = `0o7_777_777_777`. -/
def awfulBad : Int := 1073741823

/-- An active node (:218-228); `ref` is its `diffs` field, `path` replaces `node_index`. -/
structure ANode where
  ref : Totals := {}
  fit : Fit := .decent
  hyph : Bool := false
  line : Nat := 0
  total : Int := 0
  path : List Nat := []
  deriving Repr, Inhabited, DecidableEq

/-- `Candidate` (:656-661) without the logging flag; `path` is the previous node's path. -/
structure Cand where
  total : Int := awfulBad
  line : Nat := 0
  path : List Nat := []
  deriving Repr, Inhabited

abbrev Cands := Fit → Cand

def Cands.init : Cands := fun _ => {}

def Cands.set (cs : Cands) (f : Fit) (c : Cand) : Cands := fun g => if g = f then c else cs g

/-- What `try_break` sees at list index `i`. -/
structure BCtx where
  i : Nat
  diffs : Totals
  discWidth : Int
  penalty : Int
  hyph : Bool
  /-- `elem.is_none()`: the final break. -/
  isEnd : Bool
  deriving Repr

def iabs (a : Int) : Int := if a < 0 then -a else a

/-- `fn demerits` (:991-1019). -/
def demeritsFn (p : Params) (bad pen : Int) (prevFit fit : Fit) (consecutive endAfter : Bool) : Int :=
  let d := p.linePenalty + bad
  let d := if 10000 ≤ iabs d then 10000 else d
  let d := d * d
  let d := if 0 < pen then d + pen * pen else if -10000 < pen then d - pen * pen else d
  let d := if endAfter then d + p.finalHyphenDemerits else if consecutive then d + p.doubleHyphenDemerits else d
  if 1 < iabs ((prevFit.toNat : Int) - (fit.toNat : Int)) then d + p.adjDemerits else d

/-- Badness and fitness class of the candidate line (:685-722), TeX.2021.851-853. -/
def rateFn (lineDiffs : Totals) (lineWidth discWidth : Int) : Int × Fit :=
  let shortfall := lineWidth - lineDiffs.w - discWidth
  if 0 < shortfall then
    if lineDiffs.s1 ≠ 0 ∨ lineDiffs.s2 ≠ 0 ∨ lineDiffs.s3 ≠ 0 then (0, .decent)
    else
      let b := badness shortfall lineDiffs.s0
      (b, if b ≤ 12 then .decent else if b ≤ 99 then .loose else .veryLoose)
  else
    let b := if lineDiffs.sh < -shortfall then 10000 + 1 else badness (-shortfall) lineDiffs.sh
    (b, if b ≤ 12 then .decent else .tight)

/-- Result of the loop body for one active node (:673-787): deactivate?, candidates, minimum. -/
structure Tried where
  deact : Bool
  cs : Cands
  md : Int

/-- One iteration of the `while m > 0` loop (:671-788) after the `pop_front`; `dequeEmpty`
is `active_nodes.is_empty()` at :730. -/
def tryNode (x : Inst) (force : Bool) (c : BCtx) (ν : ANode) (dequeEmpty : Bool)
    (cs : Cands) (md : Int) : Tried :=
  let lineDiffs := (c.diffs.sub ν.ref).add (background x.p)                -- :675
  let lw := lineWidth x.p.widths ν.line                                    -- :676-682
  let r := rateFn lineDiffs lw c.discWidth                                 -- :685-722
  let bad := r.1
  let fit := r.2
  let tol := threshold x.p                                                 -- :501
  -- :725-738  (deactivate, allowable_break, artificial_demerits)
  let daa : Bool × Bool × Bool :=
    if 10000 < bad ∨ c.penalty = -10000 then
      if force ∧ md = awfulBad ∧ dequeEmpty then (true, true, true)
      else (true, decide (bad ≤ tol), false)
    else (false, decide (bad ≤ tol), false)
  if daa.2.1 then
    -- :744-756
    let dem := if daa.2.2 then 0
               else demeritsFn x.p bad c.penalty ν.fit fit (ν.hyph && c.hyph) (ν.hyph && c.isEnd)
    let tot := dem + ν.total
    -- :771-782
    let cs' := if tot ≤ (cs fit).total then cs.set fit ⟨tot, ν.line + 1, ν.path⟩ else cs
    let md' := if tot ≤ md then tot else md
    ⟨daa.1, cs', md'⟩
  else ⟨daa.1, cs, md⟩

/-- The `while m > 0` loop (:671-788) on the deque. -/
def inner (x : Inst) (force : Bool) (c : BCtx) : Nat → List ANode → Cands → Int → List ANode × Cands × Int
  | 0, act, cs, md => (act, cs, md)
  | _ + 1, [], cs, md => ([], cs, md)          -- `expect` at :673; unreachable, `m ≤ n ≤ len`
  | m + 1, ν :: rest, cs, md =>
    let t := tryNode x force c ν rest.isEmpty cs md
    inner x force c m (if t.deact then rest else rest ++ [ν]) t.cs t.md     -- :784-787

/-- `num_nodes_for_next_class` (:1034-1046). -/
def numNext (x : Inst) (looseness : Int) (act : List ANode) (k : Nat) : Nat :=
  match act with
  | [] => 0                                    -- `expect` at :1035; unreachable for `k > 0`
  | first :: _ =>
    if looseness = 0 ∧ x.p.widths.length ≤ first.line + 2 then k
    else ((act.take k).takeWhile fun ν => ν.line == first.line).length

/-- :793-797, the saturating `minimum_demerits + |adj_demerits|`. -/
def pruneThreshold (adj md : Int) : Int :=
  if awfulBad - md ≤ iabs adj then awfulBad - 1 else md + iabs adj

/-- :808-824 summed over `j = i+1 .. i+r`: widths of the nodes a discretionary replaces. -/
def replacedWidth (items : List Item) (j : Nat) : Nat → Int
  | 0 => 0
  | r + 1 =>
    (match items[j]? with
     | some (.box w) => w
     | some (.kern _ w) => w
     | _ => 0) + replacedWidth items (j + 1) r

/-- The `while let Some(j) = s` loop (:854-867) from index `j` on (`t = items.drop j`). -/
def discardList : List Item → Totals → Totals
  | .glue g :: t, d => discardList t (d.add (.ofGlue g))
  | .penalty _ :: t, d => discardList t d
  | .math _ :: t, d => discardList t d
  | .kern true w :: t, d => discardList t (d.add (.ofWidth w))
  | _, d => d

/-- The break width (:798-868), TeX.2021.837-842: the new nodes' `diffs`. -/
def breakWidth (x : Inst) (i : Nat) (diffs : Totals) : Totals :=
  match x.items[i]? with
  | none => diffs                                                           -- :799
  | some (.disc _ post r) =>
    let d := (diffs.add (.ofWidth (replacedWidth x.items (i + 1) r))).sub (.ofWidth (sumW post))
    if post.isEmpty then discardList (x.items.drop (i + 1 + r)) d else d    -- :843-847
  | some _ => discardList (x.items.drop i) diffs                            -- :849

/-- :869-906: new active nodes for the classes, in the order VeryLoose, Loose, Decent, Tight. -/
def newNodes (c : BCtx) (bw : Totals) (cs : Cands) (thr : Int) : List ANode :=
  Fit.all.filterMap fun f =>
    let cd := cs f
    if thr < cd.total then none                                             -- :876
    else some { ref := bw, fit := f, hyph := c.hyph, line := cd.line, total := cd.total,
                path := c.i :: cd.path }

/-- The `while n > 0` loop (:649-908). `fuel` bounds the number of rounds; every round
removes `m ≥ 1` of the `n` nodes still to be looked at, so `fuel = n` suffices. -/
def outer (x : Inst) (looseness : Int) (force : Bool) (c : BCtx) : Nat → Nat → List ANode → List ANode
  | 0, _, act => act
  | fuel + 1, n, act =>
    if n = 0 then act
    else
      let m := numNext x looseness act n
      let r := inner x force c m act Cands.init awfulBad
      let act1 := r.1
      let md := r.2.2
      let act2 :=
        if md < awfulBad then
          act1 ++ newNodes c (breakWidth x c.i c.diffs) r.2.1 (pruneThreshold x.p.adjDemerits md)
        else act1
      outer x looseness force c fuel (n - m) act2

/-- The loop variables of the main loop (:502-531). -/
structure LState where
  diffs : Totals := {}
  auto : Bool := true
  /-- `end_of_replaced_nodes` -/
  eor : Nat := 0
  active : List ANode := [{}]
  deriving Repr

def isGlueAt (items : List Item) (j : Nat) : Bool := ((items[j]?).map Item.isGlue).getD false

/-- The `match elem` (:542-638): the updated loop variables and `none` for `continue`, or
`(penalty, hyphenated, disc_width)`. -/
def classify (x : Inst) (i : Nat) (st : LState) : LState × Option (Int × Bool × Int) :=
  match x.items[i]? with
  | none => (st, some (-10000, true, 0))                                    -- :543-549
  | some (.box w) => ({ st with diffs := st.diffs.add (.ofWidth w) }, none) -- :551-562
  | some .inert => (st, none)                                               -- :563-566
  | some (.disc pre _ r) =>                                                 -- :567-591
    ({ st with eor := i + 1 + r },
     some (if pre.isEmpty then x.p.exHyphenPenalty else x.p.hyphenPenalty, true, sumW pre))
  | some (.math after) =>                                                   -- :593-602
    let st' := { st with auto := after }
    if after ∧ isGlueAt x.items (i + 1) then (st', some (0, false, 0)) else (st', none)
  | some (.glue g) =>                                                       -- :603-616
    if st.auto ∧ 0 < i ∧ ((x.items[i - 1]?).map Item.precedesBreak).getD false
    then (st, some (0, false, 0))
    else ({ st with diffs := st.diffs.add (.ofGlue g) }, none)
  | some (.kern e w) =>                                                     -- :617-631
    if e ∧ st.auto ∧ st.eor ≤ i ∧ isGlueAt x.items (i + 1)
    then (st, some (0, false, 0))
    else ({ st with diffs := st.diffs.add (.ofWidth w) }, none)
  | some (.penalty p) => (st, some (p, false, 0))                           -- :632-636

/-- The update of the running totals at the end of the loop body (:910-934). -/
def endUpdate (x : Inst) (i : Nat) (d : Totals) : Totals :=
  match x.items[i]? with
  | some (.glue g) => d.add (.ofGlue g)
  | some (.kern _ w) => d.add (.ofWidth w)
  | _ => d

/-- One iteration of `for i in 0..=list.len()` (:533-935). -/
def step (x : Inst) (looseness : Int) (force : Bool) (st : LState) (i : Nat) : LState :=
  let r := classify x i st
  let st1 := r.1
  match r.2 with
  | none => st1                                                             -- `continue`
  | some (pen, hy, dw) =>
    if 10000 ≤ pen then st1                                                 -- :641-644
    else
      let pen := if pen ≤ -10000 then -10000 else pen                       -- :645-647
      let c : BCtx := ⟨i, st1.diffs, dw, pen, hy, (x.items[i]?).isNone⟩
      let act := outer x looseness force c st1.active.length st1.active.length st1.active
      { st1 with active := act, diffs := endUpdate x i st1.diffs }

def mainLoop (x : Inst) (looseness : Int) (force : Bool) : LState :=
  (List.range (x.n + 1)).foldl (step x looseness force) {}

/-- :939-944: the first node of least total demerits. -/
def firstBest (first : ANode) (act : List ANode) : ANode :=
  act.foldl (fun b ν => if ν.total < b.total then ν else b) first

/-- :946-965, TeX.2021.875. Returns the chosen node and `actual_looseness`. -/
def loosen (looseness : Int) (best0 : ANode) (act : List ANode) : ANode × Int :=
  act.foldl (fun (s : ANode × Int) ν =>
    let lineDiff : Int := (ν.line : Int) - (best0.line : Int)
    if (lineDiff < s.2 ∧ looseness ≤ lineDiff) ∨ (s.2 < lineDiff ∧ lineDiff ≤ looseness) then (ν, lineDiff)
    else if lineDiff = s.2 ∧ ν.total < s.1.total then (ν, s.2)
    else s) (best0, 0)

/-- :937-988. -/
def finish (looseness : Int) (force : Bool) (act : List ANode) : Option (List Nat) :=
  match act with
  | [] => none                                                              -- :939 `?`
  | first :: _ =>
    let best := firstBest first act
    if looseness ≠ 0 then
      let r := loosen looseness best act
      if r.2 ≠ looseness ∧ !force then none                                 -- :969-971
      else some r.1.path.reverse
    else some best.path.reverse                                             -- :978-987

/-- `break_line_single_attempt` with `tolerance`, `emergency_stretch`, the widths and the other
parameters taken from `x.p`: the returned break indices, or `none`. -/
def algo (x : Inst) (looseness : Int) (force : Bool) : Option (List Nat) :=
  finish looseness force (mainLoop x looseness force).active

/-- Observation for the correspondence check (no theorem mentions it): the active nodes in the
order in which they are created (`log_new_active_node`, :889-900) — after iteration `i` these
are the nodes of the deque whose most recent break is `i`, in deque order. -/
def traceOf (x : Inst) (looseness : Int) (force : Bool) : List ANode :=
  ((List.range (x.n + 1)).foldl (fun (s : LState × List ANode) i =>
      let st' := step x looseness force s.1 i
      (st', s.2 ++ st'.active.filter fun ν => ν.path.head? == some i)) ({}, [])).2

/-! ## The pass driver (`break_line` lib.rs:247-269, `break_line_all_attempts` lib.rs:440-490) -/

/-- TeX.2021.816 (`break_line`, lib.rs:256-264): a final glue is removed, `\penalty10000` and
`\parfillskip` are appended. -/
def prepList (items : List Item) (pf : Glue) : List Item :=
  let l := match items.getLast? with
    | some (.glue _) => items.dropLast
    | _ => items
  l ++ [.penalty 10000, .glue pf]

/-- The test hyphenator of the harness: `disc [pre] [] 0` before the item at `pos`, for every
`(pos, pre)` (positions refer to the list before any insertion). -/
def insertDiscs (items : List Item) (hs : List (Nat × Int)) : List Item :=
  let rec go (i : Nat) : List Item → List Item
    | [] => []
    | it :: t =>
      let here := (hs.filter fun h => h.1 = i).map fun h => Item.disc [h.2] [] 0
      here ++ it :: go (i + 1) t
  go 0 items

/-- One call of `break_line_single_attempt`: the instance it sees and `force_solution`. -/
structure Pass where
  x : Inst
  force : Bool

/-- The passes of `break_line_all_attempts` (lib.rs:440-490, TeX.2021.863): `\pretolerance` on
the list as prepared (:451-456), then — after `hyphenator.hyphenate` (:463) — `\tolerance`, final
iff there is no `\emergencystretch` (:469-475), then `\tolerance` with the emergency stretch,
final (:482-488). `x.items` is the caller's list, `x.p.tolerance` is `\tolerance`,
`x.p.emergencyStretch` is `\emergencystretch`, `hyph` is what the hyphenator does to the list. -/
def passesOf (x : Inst) (pretol : Int) (pf : Glue) (hyph : List Item → List Item) : List Pass :=
  let l0 := prepList x.items pf
  let l1 := hyph l0
  let p1 : Pass := ⟨{ items := l0, p := { x.p with tolerance := pretol, emergencyStretch := 0 } }, false⟩
  let p2 : Pass := ⟨{ items := l1, p := { x.p with emergencyStretch := 0 } }, x.p.emergencyStretch == 0⟩
  if x.p.emergencyStretch == 0 then [p1, p2] else [p1, p2, ⟨{ items := l1, p := x.p }, true⟩]

/-- The first pass (numbered from `k`) whose `algo` answers, and its answer (`if let Some(v) = … {
return v }`, :451-478; the last `.expect` :489). -/
def algoPasses (q : Int) : Nat → List Pass → Option (Nat × List Nat)
  | _, [] => none
  | k, p :: t => match algo p.x q p.force with
    | some bs => some (k, bs)
    | none => algoPasses q (k + 1) t

/-- Every discretionary's replaced nodes lie inside the list (else `list[j]` at :808 panics
once a break at it is made) and are boxes or kerns (TeX.2021.869 allows nothing else; the
code prints a warning and counts width 0). -/
def discOK (x : Inst) : Bool :=
  (List.range x.n).all fun a =>
    match x.items[a]? with
    | some (.disc _ _ r) =>
      (List.range r).all fun k =>
        match x.items[a + 1 + k]? with
        | some (.box _) => true
        | some (.kern _ _) => true
        | _ => false
    | _ => true

/-- A conservative bound on any total the implementation can form (it works in `i32` with
`AWFUL_BAD = 2^30 − 1` as infinity): `lines * perLine + |adj|`, where `lines` is the number of
legal breakpoints and `perLine` bounds the demerits of one feasible line. Instances with
`awfulBad ≤ demBound x` are outside the domain of the comparison and of `algo_optimal`. -/
def demBound (x : Inst) : Int :=
  let lines : Int := (legalBreaks x).length
  let capTol := if x.p.tolerance < 10001 then x.p.tolerance else 10001
  let d0 := iabs x.p.linePenalty + (if capTol < 0 then 0 else capTol)
  let d1 := if 10000 ≤ d0 then 10000 else d0
  let maxPen : Int := (legalBreaks x).foldl (fun m b =>
    match breakInfo x b with
    | some (p, _) => if -10000 < p ∧ m < iabs p then iabs p else m
    | none => m) 0
  let perLine := d1 * d1 + maxPen * maxPen + iabs x.p.finalHyphenDemerits
    + iabs x.p.doubleHyphenDemerits + iabs x.p.adjDemerits
  lines * perLine + iabs x.p.adjDemerits

end C04
