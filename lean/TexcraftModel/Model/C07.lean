/-!
# C07 — model (M) and specification (S): conditionals, `\expandafter`, `\noexpand`

Core Lean only. Anchors (all in /repo):

* `crates/texlang-stdlib/src/conditional.rs` — `true_case`, `false_case`, `IfNum::evaluate`,
  `IfOdd::evaluate`, `if_case_primitive_fn`, `or_primitive_fn`, `else_primitive_fn`,
  `fi_primitive_fn`, `Component.branches`
* `crates/texlang-stdlib/src/expansion.rs` — `expandafter_simple_fn`,
  `expandafter_optimized_fn`, `noexpand_hook`
* `crates/texlang/src/vm/streams.rs` — `stream::next_expanded`, `stream::expand_once`
* `crates/texlang/src/vm/mod.rs` — `run_impl` (begin/end group, delivery of tokens)

## Part 1: conditionals

Tokens are abstracted to what the code looks at. The skipping loops only ask
`commands_map().get_tag(command_ref)` and compare with the four tags; `\let` copies the
command *with its tag* (`command/mod.rs`), so an alias of a conditional primitive is the same
model token, and a control sequence called `\else` that was redefined as a macro is `other`.
An `iff` token stands for the if-tagged command *together with* the operands its condition
will parse when it is expanded; the scanning of the operands from tokens is modelled in
`Model/C07Scan.lean` and connected to this machine by the theorems `operands_*`.

The model describes /repo as it is: the fixes C07-a (9bf500c), C09-f (14f0dd0) and C07-g
(137cece) are applied there; the two pre-fix formulas are kept below as `ifoddPreFix` and
`caseCounterPreFix`, as refutation witnesses only.
-/
namespace C07

/-- The three relations `\ifnum` accepts (`texlang::parse::Ordering`). -/
inductive Rel | lt | eq | gt
  deriving DecidableEq, Repr

/-- What a two-way conditional (built by `Condition::build_if_command`) evaluates. -/
inductive Test
  | tt                                  -- `\iftrue`
  | ff                                  -- `\iffalse`
  | odd (n : Int)                       -- `\ifodd n`
  | num (a : Int) (r : Rel) (b : Int)   -- `\ifnum a r b`
  deriving DecidableEq, Repr

/-- A token, as far as conditional processing can tell tokens apart. -/
inductive Tok
  | iff (t : Test)   -- a two-way conditional (carries `IF_TAG`)
  | ifcase (n : Int) -- `\ifcase n` (carries `IF_TAG` as well)
  | els              -- any command carrying `ELSE_TAG`
  | orr              -- any command carrying `OR_TAG`
  | fi               -- any command carrying `FI_TAG`
  | other (n : Nat)  -- anything else that is not a brace (characters, macros, primitives, …)
  | bg               -- `{`
  | eg               -- `}`
  deriving DecidableEq, Repr

/-- `conditional.rs` `enum BranchKind`. -/
inductive BranchKind | tru | els | switch
  deriving DecidableEq, Repr

/-! ### Conditions -/

/-- `IfOdd::evaluate` after `fixes/C07-a.patch`: `(n % 2) != 0`; Rust's `%` on `i32` is the
truncating remainder `Int.tmod`. -/
def ifodd (n : Int) : Bool := n.tmod 2 != 0

/-- `IfOdd::evaluate` as it stood before fix C07-a: `(n % 2) == 1` — false for negative odd `n`
because `n % 2 = -1` there. -/
def ifoddPreFix (n : Int) : Bool := n.tmod 2 == 1

/-- `IfNum::evaluate`: `a.cmp(&b) == o.0`. -/
def ifnum (a : Int) (r : Rel) (b : Int) : Bool :=
  match compare a b, r with
  | .lt, .lt => true
  | .eq, .eq => true
  | .gt, .gt => true
  | _, _ => false

/-- `Condition::evaluate` of the four conditions. -/
def evalTest : Test → Bool
  | .tt => true
  | .ff => false
  | .odd n => ifodd n
  | .num a r b => ifnum a r b

/-! ### The expansion state machine

The Rust code is a main loop (`next_expanded` called from `run_impl`) that hands delivered
tokens to the handlers and, on a conditional command, runs one of five skipping loops to
completion. Each loop reads unexpanded tokens one by one and keeps `depth` (and, for
`\ifcase`, `cases_left_to_skip`) in local variables. The model is the same computation
written as one state machine over the token list: `Mode` says which loop (if any) is
running and holds its local variables. Nothing is ever pushed back by these functions, so
one pass over the list is exact. -/

inductive Mode
  | deliver                                   -- not inside a skipping loop
  | skipFalse (depth : Int)                   -- loop of `false_case`
  | skipCase (left : Int) (depth : Int)       -- loop of `if_case_primitive_fn`
  | skipOr (depth : Int)                      -- loop of `or_primitive_fn`
  | skipElse (depth : Int)                    -- loop of `else_primitive_fn`
  deriving DecidableEq, Repr

inductive Err
  | unexpectedElse | unexpectedOr | unexpectedFi   -- `input.error(SimpleTokenError…)?`
  | eofFalse | eofCase | eofOr | eofElse           -- `next_or_err(…EndOfInputError)`
  | noGroupToEnd                                   -- `end_group` with no open group
  deriving DecidableEq, Repr

structure St where
  stack : List BranchKind := []   -- `Component.branches` (head = top)
  mode : Mode := .deliver
  groups : Nat := 0               -- open `{` groups (vm `begin_group`/`end_group`)
  out : List Tok := []            -- tokens handed to the handlers, in order
  deriving DecidableEq, Repr

/-- The `\fi` clause shared (textually repeated) by all five loops:
`depth -= 1; if depth < 0 { return Ok(()) }`. `again` rebuilds the loop's mode. -/
@[inline] def fiClause (s : St) (depth : Int) (again : Int → Mode) : St :=
  let d := depth - 1
  if d < 0 then { s with mode := .deliver } else { s with mode := again d }

/-- `cases_left_to_skip -= 1` before `fixes/C07-f.patch`: an `i32` subtraction, which panics
(overflow checks) exactly when the counter is `-2^31`. `none` = panic. -/
def caseCounterPreFix (left : Int) : Option Int :=
  if left - 1 < -2147483648 then none else some (left - 1)

/-- One token. -/
def step (s : St) (t : Tok) : Except Err St :=
  match s.mode with
  | .deliver =>
    match t with
    | .other _ => .ok { s with out := s.out ++ [t] }
    | .bg => .ok { s with groups := s.groups + 1, out := s.out ++ [t] }
    | .eg =>
      match s.groups with
      | 0 => .error .noGroupToEnd
      | g + 1 => .ok { s with groups := g, out := s.out ++ [t] }
    | .ifcase n =>
      -- if_case_primitive_fn
      if n == 0 then .ok { s with stack := .switch :: s.stack }
      else .ok { s with mode := .skipCase n 0 }
    | .iff c =>
      -- build_if_command: true_case / false_case
      if evalTest c then .ok { s with stack := .tru :: s.stack }
      else .ok { s with mode := .skipFalse 0 }
    | .els =>
      -- else_primitive_fn: pop, valid for True | Switch
      match s.stack with
      | .tru :: st => .ok { s with stack := st, mode := .skipElse 0 }
      | .switch :: st => .ok { s with stack := st, mode := .skipElse 0 }
      | _ => .error .unexpectedElse
    | .orr =>
      -- or_primitive_fn: pop, valid for Switch only
      match s.stack with
      | .switch :: st => .ok { s with stack := st, mode := .skipOr 0 }
      | _ => .error .unexpectedOr
    | .fi =>
      -- fi_primitive_fn: pop, valid for anything
      match s.stack with
      | _ :: st => .ok { s with stack := st }
      | [] => .error .unexpectedFi
  | .skipFalse depth =>
    match t with
    | .els =>
      if depth == 0 then .ok { s with stack := .els :: s.stack, mode := .deliver } else .ok s
    | .iff _ => .ok { s with mode := .skipFalse (depth + 1) }
    | .ifcase _ => .ok { s with mode := .skipFalse (depth + 1) }
    | .fi => .ok (fiClause s depth .skipFalse)
    | _ => .ok s
  | .skipCase left depth =>
    match t with
    | .orr =>
      -- after C07-f: `… && depth == 0 && cases_left_to_skip > 0`
      if depth == 0 && left > 0 then
        let left' := left - 1
        if left' == 0 then .ok { s with stack := .switch :: s.stack, mode := .deliver }
        else .ok { s with mode := .skipCase left' depth }
      else .ok s
    | .els =>
      if depth == 0 then .ok { s with stack := .els :: s.stack, mode := .deliver } else .ok s
    | .iff _ => .ok { s with mode := .skipCase left (depth + 1) }
    | .ifcase _ => .ok { s with mode := .skipCase left (depth + 1) }
    | .fi => .ok (fiClause s depth (.skipCase left))
    | _ => .ok s
  | .skipOr depth =>
    match t with
    | .iff _ => .ok { s with mode := .skipOr (depth + 1) }
    | .ifcase _ => .ok { s with mode := .skipOr (depth + 1) }
    | .fi => .ok (fiClause s depth .skipOr)
    | _ => .ok s
  | .skipElse depth =>
    match t with
    | .iff _ => .ok { s with mode := .skipElse (depth + 1) }
    | .ifcase _ => .ok { s with mode := .skipElse (depth + 1) }
    | .fi => .ok (fiClause s depth .skipElse)
    | _ => .ok s

/-- End of input: harmless in the main loop (unclosed groups and open conditionals are not
reported by the script handlers), an error inside a skipping loop. -/
def finish (s : St) : Except Err St :=
  match s.mode with
  | .deliver => .ok s
  | .skipFalse _ => .error .eofFalse
  | .skipCase _ _ => .error .eofCase
  | .skipOr _ => .error .eofOr
  | .skipElse _ => .error .eofElse

/-- Run the machine over a token list. -/
def run : St → List Tok → Except Err St
  | s, [] => finish s
  | s, t :: ts =>
    match step s t with
    | .ok s' => run s' ts
    | .error e => .error e

/-- Expand a whole input from the initial state. -/
def expandAll (l : List Tok) : Except Err St := run {} l

/-! ### Specification S: well-nested conditional trees

`Text` is a piece of input in which every conditional is complete. Plain tokens
(`other`, `{`, `}`) may appear anywhere — braces need not balance. `Cases` is the part of
an `\ifcase` between the number and the `\fi`. -/

inductive Plain | other (n : Nat) | bg | eg
  deriving DecidableEq, Repr

def Plain.tok : Plain → Tok
  | .other n => .other n
  | .bg => .bg
  | .eg => .eg

mutual
inductive Text
  | nil
  | plain (p : Plain) (rest : Text)
  /-- `\if… a \fi rest` -/
  | ifThen (c : Test) (a : Text) (rest : Text)
  /-- `\if… a \else b \fi rest` -/
  | ifElse (c : Test) (a : Text) (b : Text) (rest : Text)
  /-- `\ifcase n cases rest` -/
  | caseOf (n : Int) (cs : Cases) (rest : Text)
inductive Cases
  /-- `b \fi` -/
  | last (b : Text)
  /-- `b \else e \fi` -/
  | lastElse (b : Text) (e : Text)
  /-- `b \or cs` -/
  | more (b : Text) (cs : Cases)
end

mutual
/-- The token list the tree stands for. -/
def Text.flatten : Text → List Tok
  | .nil => []
  | .plain p rest => p.tok :: rest.flatten
  | .ifThen c a rest => .iff c :: (a.flatten ++ .fi :: rest.flatten)
  | .ifElse c a b rest => .iff c :: (a.flatten ++ .els :: (b.flatten ++ .fi :: rest.flatten))
  | .caseOf n cs rest => .ifcase n :: (cs.flatten ++ rest.flatten)
def Cases.flatten : Cases → List Tok
  | .last b => b.flatten ++ [.fi]
  | .lastElse b e => b.flatten ++ .els :: (e.flatten ++ [.fi])
  | .more b cs => b.flatten ++ .orr :: cs.flatten
end

/-- TeX's meaning of the conditions (independent of the Rust formulas):
odd = not divisible by two; the three relations; `\iftrue`, `\iffalse`. -/
def Test.holds : Test → Prop
  | .tt => True
  | .ff => False
  | .odd n => ¬ (2 ∣ n)
  | .num a .lt b => a < b
  | .num a .eq b => a = b
  | .num a .gt b => a > b

instance : DecidablePred Test.holds := fun t => by
  cases t with
  | tt => exact inferInstanceAs (Decidable True)
  | ff => exact inferInstanceAs (Decidable False)
  | odd n => exact inferInstanceAs (Decidable (¬ (2 ∣ n)))
  | num a r b =>
    cases r
    · exact inferInstanceAs (Decidable (a < b))
    · exact inferInstanceAs (Decidable (a = b))
    · exact inferInstanceAs (Decidable (a > b))

mutual
/-- The tokens TeX delivers for the tree: for every conditional, the selected branch only,
recursively. Only plain tokens can be delivered. -/
def Text.select : Text → List Plain
  | .nil => []
  | .plain p rest => p :: rest.select
  | .ifThen c a rest => (if c.holds then a.select else []) ++ rest.select
  | .ifElse c a b rest => (if c.holds then a.select else b.select) ++ rest.select
  | .caseOf n cs rest => cs.select n ++ rest.select
/-- Case `n` of an `\ifcase` body: branch number `n` counting from 0; a negative number or a
number past the last `\or` selects the `\else` branch (nothing if there is none). -/
def Cases.select : Cases → Int → List Plain
  | .last b, n => if n = 0 then b.select else []
  | .lastElse b e, n => if n = 0 then b.select else e.select
  | .more b cs, n => if n = 0 then b.select else if n < 0 then cs.selectElse else cs.select (n - 1)
/-- The `\else` branch of an `\ifcase` body. -/
def Cases.selectElse : Cases → List Plain
  | .last _ => []
  | .lastElse _ e => e.select
  | .more _ cs => cs.selectElse
end

/-- The branches of an `\ifcase` body in order (case 0 first) and its `\else` branch. -/
def Cases.branches : Cases → List Text
  | .last b => [b]
  | .lastElse b _ => [b]
  | .more b cs => b :: cs.branches
def Cases.elseBranch : Cases → Option Text
  | .last _ => none
  | .lastElse _ e => some e
  | .more _ cs => cs.elseBranch

/-- Group bookkeeping of the main loop over delivered plain tokens: `some g'` = open groups
afterwards, `none` = a `}` arrives with no group open (`end_group` error). -/
def bracesOk : Nat → List Plain → Option Nat
  | g, [] => some g
  | g, .other _ :: ps => bracesOk g ps
  | g, .bg :: ps => bracesOk (g + 1) ps
  | 0, .eg :: _ => none
  | g + 1, .eg :: ps => bracesOk g ps

/-- Raw (unstructured) skipped text: nesting bookkeeping relative to where the text starts.
`rawDepth k l = some k'`: reading `l` at relative nesting level `k` never closes a
conditional that was opened before the text began, has no `\else`/`\or` at level 0, and ends
at level `k'`. `rawDepth 0 l = some 0` = "`l` is if/fi-balanced with every `\else`/`\or` inside
some nested conditional" — no other constraint: stray, repeated or misplaced `\else`s and
`\or`s at level ≥ 1 and any braces are allowed. -/
def rawDepth : Nat → List Tok → Option Nat
  | k, [] => some k
  | k, .iff _ :: ts => rawDepth (k + 1) ts
  | k, .ifcase _ :: ts => rawDepth (k + 1) ts
  | 0, .fi :: _ => none
  | k + 1, .fi :: ts => rawDepth k ts
  | 0, .els :: _ => none
  | k + 1, .els :: ts => rawDepth (k + 1) ts
  | 0, .orr :: _ => none
  | k + 1, .orr :: ts => rawDepth (k + 1) ts
  | k, _ :: ts => rawDepth k ts

/-- The same for text skipped by the `\or`/`\else` loops, which do not look at `\else`/`\or`
at all: only if/fi nesting matters. -/
def rawDepthAny : Nat → List Tok → Option Nat
  | k, [] => some k
  | k, .iff _ :: ts => rawDepthAny (k + 1) ts
  | k, .ifcase _ :: ts => rawDepthAny (k + 1) ts
  | 0, .fi :: _ => none
  | k + 1, .fi :: ts => rawDepthAny k ts
  | k, _ :: ts => rawDepthAny k ts

/-! ### Specification S, relational form: skipped branches are *raw* token lists

`Delivers l p`: the well-nested input `l` delivers exactly the plain tokens `p`. The selected
branch of every conditional is again well nested; a skipped branch is any token list that is
if/fi-balanced without `\else`/`\or` at its own level (`rawDepth 0 a = some 0`) — stray
`\else`s/`\or`s inside nested conditionals, unbalanced braces, anything else is allowed. What
follows the selected branch of an `\ifcase` up to its `\fi` only has to be if/fi-balanced.
`CaseDelivers n body p`: the part of an `\ifcase n` after the number, including its `\fi`. -/
mutual
inductive Delivers : List Tok → List Plain → Prop
  | nil : Delivers [] []
  | plain (q : Plain) {l p} : Delivers l p → Delivers (q.tok :: l) (q :: p)
  | ifTrueFi {c a pa r pr} : c.holds → Delivers a pa → Delivers r pr →
      Delivers (.iff c :: (a ++ .fi :: r)) (pa ++ pr)
  | ifTrueElse {c a pa b r pr} : c.holds → Delivers a pa → rawDepthAny 0 b = some 0 → Delivers r pr →
      Delivers (.iff c :: (a ++ .els :: (b ++ .fi :: r))) (pa ++ pr)
  | ifFalseFi {c a r pr} : ¬ c.holds → rawDepth 0 a = some 0 → Delivers r pr →
      Delivers (.iff c :: (a ++ .fi :: r)) pr
  | ifFalseElse {c a b pb r pr} : ¬ c.holds → rawDepth 0 a = some 0 → Delivers b pb → Delivers r pr →
      Delivers (.iff c :: (a ++ .els :: (b ++ .fi :: r))) (pb ++ pr)
  | ifcase {n body pb r pr} : CaseDelivers n body pb → Delivers r pr →
      Delivers (.ifcase n :: (body ++ r)) (pb ++ pr)
inductive CaseDelivers : Int → List Tok → List Plain → Prop
  /-- the selected branch (counter at 0) is the last one -/
  | selFi {n b pb} : n = 0 → Delivers b pb → CaseDelivers n (b ++ [.fi]) pb
  /-- … is followed by `\or` and further cases -/
  | selOr {n b pb x} : n = 0 → Delivers b pb → rawDepthAny 0 x = some 0 →
      CaseDelivers n (b ++ .orr :: (x ++ [.fi])) pb
  /-- … is followed by the `\else` branch -/
  | selElse {n b pb x} : n = 0 → Delivers b pb → rawDepthAny 0 x = some 0 →
      CaseDelivers n (b ++ .els :: (x ++ [.fi])) pb
  /-- a skipped case is the last one and there is no `\else`: nothing is delivered -/
  | skipFi {n a} : n ≠ 0 → rawDepth 0 a = some 0 → CaseDelivers n (a ++ [.fi]) []
  /-- a skipped case is followed by `\else`: the `\else` branch is delivered -/
  | skipElse {n a e pe} : n ≠ 0 → rawDepth 0 a = some 0 → Delivers e pe →
      CaseDelivers n (a ++ .els :: (e ++ [.fi])) pe
  /-- a skipped case is followed by `\or`: count down (negative numbers never reach 0) -/
  | skipOr {n a body p} : n ≠ 0 → rawDepth 0 a = some 0 →
      CaseDelivers (if n > 0 then n - 1 else n) body p → CaseDelivers n (a ++ .orr :: body) p
end

/-- `select` as tokens. -/
def Text.selectToks (t : Text) : List Tok := t.select.map Plain.tok

/- Nesting depth of conditionals (0 = no conditional). -/
mutual
def Text.depth : Text → Nat
  | .nil => 0
  | .plain _ rest => rest.depth
  | .ifThen _ a rest => max (a.depth + 1) rest.depth
  | .ifElse _ a b rest => max (max (a.depth + 1) (b.depth + 1)) rest.depth
  | .caseOf _ cs rest => max (cs.depth + 1) rest.depth
def Cases.depth : Cases → Nat
  | .last b => b.depth
  | .lastElse b e => max b.depth e.depth
  | .more b cs => max b.depth cs.depth
end

/-! ## Part 2: `\expandafter` and `\noexpand`

The stream is the list of pending tokens (`expansions` stack on top of the lexer). `E` is
the abstract "expand this command once" step for every expandable command other than
`\expandafter` and `\noexpand` (macros with their argument scanning, conditionals, `\the`,
…): `E σ t rest = none` means `t` is not expandable (`expand_once` pushes it back and
returns `Ok(false)`); `some (.ok (σ', l))` is the stream after running the command;
`some (.error e)` an error. `σ` is whatever state such commands can change through
interior mutability (the branch stack). -/

inductive XTok
  | xa (name : Nat)   -- a control sequence whose command is `\expandafter`; `name` is the
                      -- control-sequence name (`token.value()`): aliases differ in it
  | noexp             -- any command carrying `NO_EXPAND_TAG`
  | cs (n : Nat)      -- any other control sequence
  | ch (n : Nat)      -- a character token
  deriving DecidableEq, Repr

inductive XErr
  | xaEofFirst | xaEofSecond | noexpandEof
  | other (code : Nat)    -- raised by `E`
  deriving DecidableEq, Repr

abbrev XRes (σ : Type) := Except XErr (σ × List XTok)

abbrev Expander (σ : Type) := σ → XTok → List XTok → Option (XRes σ)

/-- `noexpand_hook` as used by `expand_once`: read the next unexpanded token and push it back
(`expansions_mut().push(override_expansion)`). -/
def noexpandOnce {σ} (s : σ) : List XTok → XRes σ
  | [] => .error .noexpandEof
  | t :: rest => .ok (s, t :: rest)

/-- `expandafter_simple_fn` (the `\expandafter` token itself has already been taken off the
stream). `expand_once` is inlined: its callee for an `\expandafter` token is this function
again. -/
def xaSimple {σ} (E : Expander σ) : σ → List XTok → XRes σ
  | _, [] => .error .xaEofFirst
  | _, [_] => .error .xaEofSecond
  | s, first :: second :: rest =>
    -- input.back(second); input.expanded().expand_once()?
    let r : XRes σ :=
      match second with
      | .xa _ => xaSimple E s rest
      | .noexp => noexpandOnce s rest
      | t =>
        match E s t rest with
        | none => .ok (s, t :: rest)
        | some r => r
    -- input.back(first)
    match r with
    | .ok (s', l) => .ok (s', first :: l)
    | .error e => .error e

/-- `expandafter_optimized_fn`, invoked through a control sequence named `name`; `buf` is the
token buffer collected so far by the loop. -/
def xaOptLoop {σ} (E : Expander σ) (name : Nat) (buf : List XTok) : σ → List XTok → XRes σ
  | _, [] => .error .xaEofFirst
  | _, [_] => .error .xaEofSecond
  | s, first :: second :: rest =>
    -- buffer.push(first)
    let buf := buf ++ [first]
    if second = .xa name then
      -- `second.value() == expandafter_token.value()`: keep scanning
      xaOptLoop E name buf s rest
    else
      -- input.back(second); break; input.expanded().expand_once()?
      let r : XRes σ :=
        match second with
        | .xa other => xaOptLoop E other [] s rest
        | .noexp => noexpandOnce s rest
        | t =>
          match E s t rest with
          | none => .ok (s, t :: rest)
          | some r => r
      -- input.expansions_mut().extend(buffer.iter().rev())
      match r with
      | .ok (s', l) => .ok (s', buf ++ l)
      | .error e => .error e

def xaOptimized {σ} (E : Expander σ) (name : Nat) (s : σ) (l : List XTok) : XRes σ :=
  xaOptLoop E name [] s l

/-- `stream::expand_once`, parameterised by the installed `\expandafter`. -/
def expandOnce {σ} (E : Expander σ) (xaFn : Nat → σ → List XTok → XRes σ) (s : σ) :
    List XTok → XRes σ
  | [] => .ok (s, [])
  | .xa n :: rest => xaFn n s rest
  | .noexp :: rest => noexpandOnce s rest
  | t :: rest =>
    match E s t rest with
    | none => .ok (s, t :: rest)
    | some r => r

/-- `stream::next_expanded`, parameterised by the installed `\expandafter`: the next token
delivered to the caller (`none` at end of input), the state and the remaining stream. The
recursion `next_expanded(vm)` after an expansion is bounded by `fuel` (macros can loop). -/
def nextExpanded {σ} (E : Expander σ) (xaFn : Nat → σ → List XTok → XRes σ) :
    Nat → σ → List XTok → Option (Except XErr (Option XTok × σ × List XTok))
  | 0, _, _ => none
  | _ + 1, s, [] => some (.ok (none, s, []))
  | fuel + 1, s, .xa n :: rest =>
    match xaFn n s rest with
    | .ok (s', l) => nextExpanded E xaFn fuel s' l
    | .error e => some (.error e)
  | _ + 1, s, .noexp :: rest =>
    -- expansion_override_hook = noexpand_hook: the next unexpanded token is returned as is
    match rest with
    | [] => some (.error .noexpandEof)
    | t :: rest' => some (.ok (some t, s, rest'))
  | fuel + 1, s, t :: rest =>
    match E s t rest with
    | none => some (.ok (some t, s, rest))
    | some (.ok (s', l)) => nextExpanded E xaFn fuel s' l
    | some (.error e) => some (.error e)

/-- Everything the main loop is handed, in order (`none` = out of fuel). -/
def deliverAll {σ} (E : Expander σ) (xaFn : Nat → σ → List XTok → XRes σ) :
    Nat → σ → List XTok → Option (Except XErr (List XTok))
  | 0, _, _ => none
  | fuel + 1, s, l =>
    match nextExpanded E xaFn fuel s l with
    | none => none
    | some (.error e) => some (.error e)
    | some (.ok (none, _, _)) => some (.ok [])
    | some (.ok (some t, s', l')) =>
      match deliverAll E xaFn fuel s' l' with
      | none => none
      | some (.error e) => some (.error e)
      | some (.ok ts) => some (.ok (t :: ts))

/-! ### A concrete expander for the correspondence: macros with undelimited parameters

`cs k` for `k < macros.length` is a macro; every other `cs` and every character is
unexpandable. A body item is a literal token or a parameter reference. Arguments are single
tokens (the generated programs contain no braces in `\expandafter` chains). -/

inductive BodyItem | tok (t : XTok) | param (i : Nat)
  deriving DecidableEq, Repr

structure Macro where
  nparams : Nat
  body : List BodyItem
  deriving Repr

def substBody (args : List XTok) : List BodyItem → List XTok
  | [] => []
  | .tok t :: r => t :: substBody args r
  | .param i :: r =>
    match args[i]? with
    | some a => a :: substBody args r
    | none => substBody args r

/-- Error code for "input ended while a macro was reading its arguments". -/
def macroEofCode : Nat := 1

def macroExpander (macros : List Macro) : Expander Unit := fun s t rest =>
  match t with
  | .cs k =>
    match macros[k]? with
    | none => none
    | some m =>
      if rest.length < m.nparams then some (.error (.other macroEofCode))
      else some (.ok (s, substBody (rest.take m.nparams) m.body ++ rest.drop m.nparams))
  | _ => none

/-- The expander used for the correspondence: macros (`cs k`, `k < macros.length`), then two
expandable primitives with a side effect: `cs n` = `\iftrue` (pushes a branch), `cs (n+1)` =
`\fi` (pops one; error 2 on an empty stack); every other token is unexpandable. The state is
the height of the branch stack. -/
def corrExpander (macros : List Macro) : Expander Nat := fun s t rest =>
  match t with
  | .cs k =>
    if k < macros.length then
      match macroExpander macros () t rest with
      | some (.ok (_, l)) => some (.ok (s, l))
      | some (.error e) => some (.error e)
      | none => none
    else if k = macros.length then some (.ok (s + 1, rest))
    else if k = macros.length + 1 then
      match s with
      | 0 => some (.error (.other 2))
      | h + 1 => some (.ok (h, rest))
    else none
  | _ => none

/-! ### Reference semantics of TeX for `\noexpand` under `\expandafter` (S for finding C07-h)

tex.web §358/§369: expanding `\noexpand` puts the next token back *marked* "don't expand"
(`frozen_dont_expand`); when a marked expandable token is next looked at by `get_next` it
counts as `\relax` — once, wherever that happens (main loop, `\expandafter`, …) — and a token
that goes through `get_token`/`back_input` (macro arguments, the two tokens `\expandafter`
reads) loses its mark. texlang has no mark: `expand_once` on `\noexpand` pushes the token
back plainly, so under `\expandafter` no expansion is suppressed at all. The functions below
are the three model functions again with the mark added, for the correspondence expander. -/

abbrev MTok := XTok × Bool

/-- Is the token something `expand` would act on? -/
def texExpandable (macros : List Macro) : XTok → Bool
  | .xa _ => true
  | .noexp => true
  | .cs k => k < macros.length + 2
  | .ch _ => false

abbrev MRes := Except XErr (Nat × List MTok)

/-- Expansion of a macro or `\iftrue`/`\fi` on a marked stream: arguments lose their marks,
the untouched remainder keeps them. -/
def texExpandCmd (macros : List Macro) (s : Nat) (t : XTok) (rest : List MTok) : Option MRes :=
  match t with
  | .cs k =>
    match macros[k]? with
    | some m =>
      if rest.length < m.nparams then some (.error (.other macroEofCode))
      else some (.ok (s, (substBody ((rest.take m.nparams).map (·.1)) m.body).map (·, false) ++ rest.drop m.nparams))
    | none =>
      if k = macros.length then some (.ok (s + 1, rest))
      else if k = macros.length + 1 then
        match s with
        | 0 => some (.error (.other 2))
        | h + 1 => some (.ok (h, rest))
      else none
  | _ => none

/-- §368 `\expandafter`: `get_token; t := cur_tok; get_token; if cur_cmd > max_command then
expand else back_input; cur_tok := t; back_input`. -/
def texXa (macros : List Macro) : Nat → List MTok → MRes
  | _, [] => .error .xaEofFirst
  | _, [_] => .error .xaEofSecond
  | s, (t1, _) :: (t2, m2) :: rest =>
    let r : MRes :=
      if m2 && texExpandable macros t2 then .ok (s, (t2, false) :: rest)   -- counts as \relax: put back
      else
        match t2 with
        | .xa _ => texXa macros s rest
        | .noexp =>
          match rest with
          | [] => .error .noexpandEof
          | (t3, _) :: rest' => .ok (s, (t3, true) :: rest')
        | t =>
          match texExpandCmd macros s t rest with
          | none => .ok (s, (t, false) :: rest)
          | some r => r
    match r with
    | .ok (s', l) => .ok (s', (t1, false) :: l)
    | .error e => .error e

/-- `get_x_token` / the main loop's view: next delivered token. -/
def texNext (macros : List Macro) :
    Nat → Nat → List MTok → Option (Except XErr (Option XTok × Nat × List MTok))
  | 0, _, _ => none
  | _ + 1, s, [] => some (.ok (none, s, []))
  | fuel + 1, s, (t, m) :: rest =>
    if m && texExpandable macros t then some (.ok (some t, s, rest))   -- \relax-like, handed over once
    else
      match t with
      | .xa _ =>
        match texXa macros s rest with
        | .ok (s', l) => texNext macros fuel s' l
        | .error e => some (.error e)
      | .noexp =>
        match rest with
        | [] => some (.error .noexpandEof)
        | (t', _) :: rest' => some (.ok (some t', s, rest'))
      | t =>
        match texExpandCmd macros s t rest with
        | none => some (.ok (some t, s, rest))
        | some (.ok (s', l)) => texNext macros fuel s' l
        | some (.error e) => some (.error e)

def texDeliverAll (macros : List Macro) : Nat → Nat → List MTok → Option (Except XErr (List XTok))
  | 0, _, _ => none
  | fuel + 1, s, l =>
    match texNext macros fuel s l with
    | none => none
    | some (.error e) => some (.error e)
    | some (.ok (none, _, _)) => some (.ok [])
    | some (.ok (some t, s', l')) =>
      match texDeliverAll macros fuel s' l' with
      | none => none
      | some (.error e) => some (.error e)
      | some (.ok ts) => some (.ok (t :: ts))

end C07
