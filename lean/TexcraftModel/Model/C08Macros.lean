import TexcraftModel.Model.C08

/-!
# C08 — the serialiser's macro table, as it is coded

`SerializableMap::new` (`/repo/crates/texlang/src/command/map.rs:278-362`) converts commands with
one closure `to_serializable` that carries two pieces of mutable state through the walk over the
control sequences (`map.commands.iter_all()`) and then over the active characters
(`map.active_char.iter_all()`):

* `macros: Vec<Cow<Macro>>` — the table that is written out;
* `macros_de_dup: HashMap<usize, usize>` — from `Rc::as_ptr(tex_macro) as usize` to the index in
  `macros`; `entry(rc_addr).or_insert_with(|| { let u = macros.len(); macros.push(..); u })`.

`Model/C08.lean` describes the result by its final content (`macrosOf`, `List.idxOf`); this file
transcribes the walk itself. A macro command `Cmd.mac n` stands for one `Rc<Macro>` allocation
(`\let` copies the `Rc`, so aliases carry the same `n`); `key n` is the address the code uses as
the de-duplication key. That distinct live allocations have distinct addresses is the
hypothesis `KeyInj key` of the theorems (a fact about Rust's allocator, like `NameTableSound` is a
fact about function pointers); `Lemmas/C08Macros.lean` proves that under it the walk produces
exactly `Model/C08.lean`'s `serialize`, and `Props/C08.lean` shows what goes wrong for a key that
is not injective (mutant 02 of the sweep: `addr & !0xff`). Core Lean only.
-/
namespace C08
open C20 C01

/-- The mutable state of `to_serializable`. -/
structure EncSt where
  /-- `macros` (push order) -/
  macros : List Nat
  /-- `macros_de_dup` -/
  dedup : AList Nat Nat
  deriving Repr, DecidableEq

def EncSt.empty : EncSt := { macros := [], dedup := [] }

/-- One call of `to_serializable` (map.rs:285-330). -/
def encCmdInc (key : Nat → Nat) (T : Table) (st : EncSt) : Cmd → Option (SCmd × EncSt)
  | .prim p =>
    match T.nameOfPrim p with
    | some n => some (.builtIn n, st)
    | none => none                                   -- `todo!("return an error")`
  | .alias v =>
    match T.nameOfVar v with
    | some (n, i) => some (.arrayStatic n i, st)
    | none => none                                   -- `getters_key_to_built_in.get(..).unwrap()`
  | .mac n =>
    match alookup st.dedup (key n) with
    | some u => some (.macro u, st)                  -- `Entry::Occupied`
    | none =>                                        -- `or_insert_with`: `u = macros.len(); push`
      let u := st.macros.length
      some (.macro u, { macros := st.macros ++ [n], dedup := ainsert (key n) u st.dedup })
  | .tok c => some (.tok c, st)
  | .chr c => some (.chr c, st)
  | .mchr n => some (.mchr n, st)
  | .font f => some (.font f, st)

/-- The closure mapped over one `iter_all()` (`Item::adapt_map`), left to right. -/
def encItemsInc (key : Nat → Nat) (T : Table) :
    EncSt → List (Item Nat Cmd) → Option (List (Item Nat SCmd) × EncSt)
  | st, [] => some ([], st)
  | st, .beginGroup :: t =>
    match encItemsInc key T st t with
    | some (r, st') => some (.beginGroup :: r, st')
    | none => none
  | st, .value k c :: t =>
    match encCmdInc key T st c with
    | none => none
    | some (s, st1) =>
      match encItemsInc key T st1 t with
      | some (r, st2) => some (.value k s :: r, st2)
      | none => none

/-- `impl Serialize for VM` with `SerializableMap::new` as it is coded (the repaired code: control
sequences first, then active characters, one shared macro table). -/
def serializeInc (key : Nat → Nat) (T : Table) (vm : VMState) : Res Ser :=
  match vm.cmds.iterAll with
  | .ok ci =>
    match vm.active.iterAll with
    | .ok ai =>
      match encItemsInc key T EncSt.empty ci with
      | none => .panic
      | some (sc, st1) =>
        match encItemsInc key T st1 ai with
        | none => .panic
        | some (sa, st2) =>
          match mapOpt (mapOpt (encSave T)) vm.save with
          | none => .panic
          | some sv =>
            .ok { cmds := GMap.fromIter sc, active := GMap.fromIter sa, macros := st2.macros,
                  save := sv, vars := vm.vars, font := vm.font, fontSave := vm.fontSave,
                  scopeBit := vm.scopeBit }
    | .panic => .panic
    | .fuel => .fuel
  | .panic => .panic
  | .fuel => .fuel

/-- Distinct macros have distinct de-duplication keys (distinct live `Rc`s: distinct addresses). -/
def KeyInj (key : Nat → Nat) : Prop := ∀ a b, key a = key b → a = b

/-- What a serialised VM says a name is. -/
def Ser.get (s : Ser) : CTarget → Option SCmd
  | .cs n => s.cmds.get n
  | .act c => s.active.get c

/-- Serialise as coded, deserialise, continue: what the driver evaluates (cf. `runCheckpointed`). -/
def runCheckpointedInc (key : Nat → Nat) (cfg : Variant) (T : Table) (pre post : List Op) :
    Option (List Out) :=
  let r := run cfg VMState.init pre
  if r.2.any Out.fatal then some r.2 else
  match serializeInc key T r.1 with
  | .ok s =>
    match deserialize T s with
    | .ok vm' => some (r.2 ++ (run cfg vm' post).2)
    | _ => none
  | _ => none

end C08
