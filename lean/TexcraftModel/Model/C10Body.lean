import TexcraftModel.Model.C10

/-!
C10 — the bodies of the sub-files: model of `from_raw_file`, `Header::deserialize`,
`deserialize_string`, `deserialize_lig_kern_program`, `deserialize_array` and the five
`Deserializable` word decoders of `crates/tfm/src/deserialize.rs:173-200, 515-700`, over the
byte ranges of a `RawLayout`.

Where the Rust code indexes (`b[0]`, `&b[4..]`, `&b[r..]`), subtracts on `usize`
(`(*tfm_len as usize) - 2`, `instructions.len() - 1`) or `expect`s, the model returns `none`
(= panic); `get(..)` with `unwrap_or` is the total branch it is in Rust. `Props/C10.lean`
proves that for every layout the front end accepts, none of these is reachable
(`body_total`), and together with `raw_total`: the whole of `File::deserialize` is total
(`reader_total`).  Core Lean only.
-/
namespace C10.Body

/-- `&b[s.start .. s.stop]`. -/
def slice (b : List Nat) (s : Slice) : List Nat := (b.drop s.start).take (s.stop - s.start)

/-- `deserialize_array` with the four bytes of each word: `T::deserialize(b)` reads `b[0..3]`
and `b = &b[4..]`; a tail of one to three bytes panics. -/
def words4 : List Nat → Option (List (Nat × Nat × Nat × Nat))
  | [] => some []
  | a :: b :: c :: d :: t =>
    match words4 t with
    | some r => some ((a, b, c, d) :: r)
    | none => none
  | _ => none

def u32 (w : Nat × Nat × Nat × Nat) : Nat := ((w.1 * 256 + w.2.1) * 256 + w.2.2.1) * 256 + w.2.2.2
/-- `u32 as i32`. -/
def i32 (w : Nat × Nat × Nat × Nat) : Int :=
  let u := u32 w
  if u < 2147483648 then (u : Int) else (u : Int) - 4294967296

/-- One `char_info` word: dimensions (absent when the width index is 0) and tag. -/
structure CharInfo where
  dims : Option (Nat × Nat × Nat × Nat)
  /-- (kind 1 = lig, 2 = list, 3 = ext; payload) -/
  tag : Option (Nat × Nat)
  deriving DecidableEq, Repr

def charInfo (w : Nat × Nat × Nat × Nat) : CharInfo :=
  { dims := if w.1 = 0 then none else some (w.1, w.2.1 / 16, w.2.1 % 16, w.2.2.1 / 4)
    tag := if w.2.2.1 % 4 = 0 then none else some (w.2.2.1 % 4, w.2.2.2) }

/-- A lig/kern word (`Instruction`): `next` (`none` = stop), right char, operation:
`(0, index, 0, 0)` kern at index, `(1, char, op, invalid)` ligature with the eight operations
numbered as in `lig_kern_operation_from_bytes`, `(2, target, 0, 0)` entry-point redirect. -/
structure Instr where
  next : Option Nat
  right : Nat
  op : Nat × Nat × Nat × Nat
  deriving DecidableEq, Repr

/-- TFtoPL.2014.77: `(delete_current, delete_next, skip)` → operation number, invalid flag. -/
def ligOp (opByte : Nat) : Nat × Nat :=
  let deleteNext : Bool := opByte % 2 == 0
  let o := opByte / 2
  let deleteCurrent : Bool := o % 2 == 0
  let skip := o / 2
  match deleteCurrent, deleteNext, skip with
  | false, false, 0 => (0, 0)
  | false, false, 1 => (1, 0)
  | false, false, 2 => (2, 0)
  | false, true, 0 => (3, 0)
  | false, true, 1 => (4, 0)
  | true, false, 0 => (5, 0)
  | true, false, 1 => (6, 0)
  | true, true, 0 => (7, 0)
  | _, _, _ => (7, 1)

def instr (w : Nat × Nat × Nat × Nat) : Instr :=
  if w.1 > 128 then ⟨none, w.2.1, (2, w.2.2.1 * 256 + w.2.2.2, 0, 0)⟩
  else
    let next := if w.1 < 128 then some w.1 else none
    if w.2.2.1 ≥ 128 then ⟨next, w.2.1, (0, (w.2.2.1 - 128) * 256 + w.2.2.2, 0, 0)⟩
    else ⟨next, w.2.1, (1, w.2.2.2, (ligOp w.2.2.1).1, (ligOp w.2.2.1).2)⟩

/-- `deserialize_string(b)`: `none` of the outer option = panic. -/
def bcplString (b : List Nat) : Option (Option (List Nat)) :=
  match b with
  | [] => some none
  | len :: rest =>
    if len ≤ rest.length then some (some (rest.take len))
    else
      -- `b.get(1).expect(..)` and `" ".repeat(len - 2)`
      match rest with
      | [] => none
      | c :: _ => if len < 2 then none else some (some (c :: List.replicate (len - 2) 32))

/-- `b.get(n..).unwrap_or(&[])`. -/
def after (n : Nat) (b : List Nat) : List Nat := if n ≤ b.length then b.drop n else []
/-- `b.get(0..n).unwrap_or(&[])`. -/
def first (n : Nat) (b : List Nat) : List Nat := if n ≤ b.length then b.take n else []

structure Header where
  checksum : Nat
  designSize : Int
  scheme : Option (List Nat)
  family : Option (List Nat)
  sevenBitSafe : Option Bool
  face : Option Nat
  extra : List Nat
  deriving DecidableEq, Repr

/-- `Header::deserialize`. -/
def header (b : List Nat) : Option Header :=
  match b with
  | c0 :: c1 :: c2 :: c3 :: b1 =>      -- `u32::deserialize(b)`, `b = &b[4..]`
    match b1 with
    | d0 :: d1 :: d2 :: d3 :: _ =>     -- `FixWord::deserialize(b)` indexes b[0..3]
      let b2 := after 4 b1
      match bcplString (first 40 b2) with
      | none => none
      | some scheme =>
        let b3 := after 40 b2
        match bcplString (first 20 b3) with
        | none => none
        | some family =>
          let b4 := after 20 b3
          let b5 := after 4 b4
          match words4 b5 with
          | none => none
          | some extra =>
            some { checksum := u32 (c0, c1, c2, c3), designSize := i32 (d0, d1, d2, d3),
                   scheme := scheme, family := family,
                   sevenBitSafe := b4.head?.map (fun x => decide (x > 127)),
                   face := b4[3]?, extra := extra.map u32 }
    | _ => none
  | _ => none

structure LigKern where
  instructions : List Instr
  rightBoundary : Option Nat
  leftEntry : Option Nat
  passthrough : List Nat
  deriving DecidableEq, Repr

/-- `deserialize_lig_kern_program`. -/
def ligKern (b : List Nat) : Option LigKern :=
  match words4 b with
  | none => none
  | some ws =>
    let instructions := ws.map instr
    -- `b.get(..2)`
    let rb : Option Nat := match b with | x :: y :: _ => if x = 255 then some y else none | _ => none
    let p0 : List Nat := if rb.isSome then [0] else []
    -- `b.len().checked_sub(4)`, then `&b[r..]` and `b[0]`, `b[2]`, `b[3]`
    if b.length < 4 then some ⟨instructions, rb, none, p0⟩
    else
      match b.drop (b.length - 4) with
      | x :: _ :: y :: z :: _ =>
        if x = 255 then
          -- `(instructions.len() - 1).try_into::<u16>().expect(..)`
          if instructions.length = 0 ∨ instructions.length - 1 > 65535 then none
          else some ⟨instructions, rb, some (y * 256 + z), p0 ++ [instructions.length - 1]⟩
        else some ⟨instructions, rb, none, p0⟩
      | _ => none

structure File where
  header : Header
  smallestChar : Nat
  /-- (char, info) for `begin_char ..= end_char` zipped with the char-info words -/
  chars : List (Nat × CharInfo)
  widths : List Int
  heights : List Int
  depths : List Int
  italics : List Int
  ligKern : LigKern
  kerns : List Int
  exten : List (Nat × Nat × Nat × Nat)
  params : List Int
  deriving DecidableEq, Repr

/-- `begin ..= end` over `u8`. -/
def charRange (bc ec : Nat) : List Nat := (List.range (ec + 1 - bc)).map (· + bc)

/-- `from_raw_file` on the eleven sub-files (as byte lists). `none` = panic. -/
def fromSlices (bc ec : Nat) : List (List Nat) → Option File
  | [_sizes, hd, ci, w, h, d, i, lk, k, e, p] =>
    match words4 ci, header hd, words4 w, words4 h, words4 d, words4 i, ligKern lk, words4 k, words4 e, words4 p with
    | some ci, some hd, some w, some h, some d, some i, some lk, some k, some e, some p =>
      some { header := hd, smallestChar := bc,
             chars := (charRange bc ec).zip (ci.map charInfo),
             widths := w.map i32, heights := h.map i32, depths := d.map i32, italics := i.map i32,
             ligKern := lk, kerns := k.map i32, exten := e, params := p.map i32 }
    | _, _, _, _, _, _, _, _, _, _ => none
  | _ => none

inductive Outcome
  | ok (f : File) (junk : Bool)
  | err (e : DeErr) (junk : Bool)
  | panic

/-- `File::deserialize` (deserialize.rs:157-171): the front end, then `from_raw_file`. -/
def readFile (b : List Nat) : Outcome :=
  match rawDeserialize b with
  | .panic _ => .panic
  | .err e j => .err e j
  | .ok L j =>
    match fromSlices L.beginChar L.endChar (L.slices.map (slice b)) with
    | none => .panic
    | some f => .ok f j

end C10.Body
