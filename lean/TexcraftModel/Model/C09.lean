/-
C09 — interpreter totality: the parts that are protocol and arithmetic.

Model (core Lean only) of

* the shutdown protocol of `texlang::vm` (`crates/texlang/src/vm/mod.rs`: `run`, `run_impl`,
  `shutdown`, `fatal_error`, `error`, `ShutdownStatus::{transition_to_normal,
  transition_to_error, take}`) together with the recoverable-error hook of
  `crates/texlang-stdlib/src/errormode.rs`;
* the source excerpt of a rendered error (`crates/texlang/src/error/display.rs`:
  `highlight_substring`, with the character index computed by `token/trace.rs`), over
  strings as lists of characters with explicit UTF-8 byte offsets — both the code as it was
  (`highlightOld`, byte slicing at a character index: panics) and as it is with
  fixes/C09-e.patch (`highlight`);
* `Tracer::trace` (`crates/texlang/src/token/trace.rs`): line number, line start and
  character position of a token from its character offset;
* three small numeric kernels: integer → `char` (`parse/integer.rs`, `impl Parsable for char`,
  before and after fixes/C09-a.patch), the bounded unsigned scan `Uint<N>`, and the case
  counter of `\ifcase` (`texlang-stdlib/src/conditional.rs`).

Where Rust panics the model answers `panic` explicitly.
-/
namespace C09

/-! ## The shutdown protocol -/

/-- `errormode::Mode`. -/
inductive Mode where
  | errorstop | scroll | nonstop | batch
  deriving DecidableEq, Repr

/-- `vm::ShutdownStatus` (the payload of `Error` is irrelevant to the protocol). -/
inductive Status where
  | none | normal | error
  deriving DecidableEq, Repr

/-- One protocol-relevant action of the code that the main loop calls (a primitive, a
handler, the expansion of a token). Because every `txl::Result` is propagated with `?`, the
actions of nested calls happen in sequence and nothing happens after a signal, so a run of
the VM is a *flat* sequence of these actions.

The first five respect the contract of `ShutdownSignal` ("return `Err(signal)` exactly when
you performed one transition, and stop"). The last four are the ways of breaking it that the
type system permits (`ShutdownSignal {}` has a public constructor; a signal can be dropped
with `let _ =`). -/
inductive Ev where
  /-- returns `Ok(())` without touching the protocol -/
  | ok
  /-- `\errorstopmode`, `\scrollmode`, `\nonstopmode`, `\batchmode` -/
  | setMode (m : Mode)
  /-- `input.error(e)?` — a recoverable error, its result propagated -/
  | recoverable
  /-- `return Err(input.fatal_error(e))` -/
  | fatal
  /-- `return Err(input.shutdown())` (e.g. the default `end_of_input_handler`) -/
  | shutdown
  /-- `let _ = input.fatal_error(e); Ok(())` — transition made, signal dropped -/
  | ignFatal
  /-- `let _ = input.shutdown(); Ok(())` -/
  | ignShutdown
  /-- `let _ = input.error(e); Ok(())` -/
  | ignRecoverable
  /-- `return Err(ShutdownSignal {})` without a transition -/
  | spurious
  deriving DecidableEq, Repr

/-- The assume-guarantee contract of `ShutdownSignal`. -/
def Ev.respects : Ev → Bool
  | .ok | .setMode _ | .recoverable | .fatal | .shutdown => true
  | _ => false

inductive Outcome where
  /-- `run` returns `Ok(())` -/
  | ok
  /-- `run` returns `Err(traced_error)` -/
  | err
  /-- `panic!("shutdown signal ignored")` (vm/mod.rs `transition_to_*`) -/
  | panicIgnored
  /-- `unreachable!()` in `run`: a signal arrived but the status is `None` -/
  | panicUnreachable
  deriving DecidableEq, Repr

/-- `transition_to_normal`: `none` = the panic. -/
def toNormal : Status → Option Status
  | .none => some .normal
  | _ => none

/-- `transition_to_error`. -/
def toError : Status → Option Status
  | .none => some .error
  | _ => none

structure St where
  status : Status
  mode : Mode
  deriving DecidableEq, Repr

/-- `errormode::recoverable_error_hook`: `true` = `Ok(())` (print/log and continue),
`false` = `Err(error)` (errorstop mode turns the error fatal). -/
def hookContinues : Mode → Bool
  | .errorstop => false
  | .scroll | .nonstop | .batch => true

inductive StepR where
  /-- the action returned `Ok`: the loop goes on -/
  | cont (s : St)
  /-- the action returned `Err(signal)`: `run_impl` returns -/
  | signal (s : St)
  | panicIgnored
  deriving DecidableEq, Repr

/-- `VM::error`: hook, and `transition_to_error` when the hook refuses. `some true` = `Ok`,
`some false` = `Err(signal)` after the transition, `none` = panic in the transition. -/
def vmError (s : St) : Option (Bool × St) :=
  if hookContinues s.mode then some (true, s)
  else match toError s.status with
    | some st => some (false, { s with status := st })
    | none => none

def step (s : St) : Ev → StepR
  | .ok => .cont s
  | .setMode m => .cont { s with mode := m }
  | .recoverable =>
    match vmError s with
    | some (true, s') => .cont s'
    | some (false, s') => .signal s'
    | none => .panicIgnored
  | .fatal =>
    match toError s.status with
    | some st => .signal { s with status := st }
    | none => .panicIgnored
  | .shutdown =>
    match toNormal s.status with
    | some st => .signal { s with status := st }
    | none => .panicIgnored
  | .ignFatal =>
    match toError s.status with
    | some st => .cont { s with status := st }
    | none => .panicIgnored
  | .ignShutdown =>
    match toNormal s.status with
    | some st => .cont { s with status := st }
    | none => .panicIgnored
  | .ignRecoverable =>
    match vmError s with
    | some (_, s') => .cont s'
    | none => .panicIgnored
  | .spurious => .signal s

/-- `run` after `run_impl`: `shutdown_status.take()`. -/
def finish (s : St) : Outcome :=
  match s.status with
  | .none => .panicUnreachable
  | .normal => .ok
  | .error => .err

/-- `run_impl`: the loop over the actions; when the input is exhausted the default
`end_of_input_handler` performs `Err(input.shutdown())`. -/
def runLoop (s : St) : List Ev → Outcome
  | [] =>
    match toNormal s.status with
    | some st => finish { s with status := st }
    | none => .panicIgnored
  | e :: es =>
    match step s e with
    | .cont s' => runLoop s' es
    | .signal s' => finish s'
    | .panicIgnored => .panicIgnored

/-- `VM::run` from a fresh VM in interaction mode `m`. -/
def run (m : Mode) (evs : List Ev) : Outcome := runLoop ⟨.none, m⟩ evs

/-- Independent description of the result: walk the actions keeping only the mode; the first
fatal error, or recoverable error met in errorstop mode, makes the run an error; a shutdown
request or the end of the input makes it a success. -/
def specRun : Mode → List Ev → Outcome
  | _, [] => .ok
  | m, e :: es =>
    match e with
    | .setMode m' => specRun m' es
    | .fatal => .err
    | .shutdown => .ok
    | .recoverable => if m = .errorstop then .err else specRun m es
    | _ => specRun m es

/-! ## Source excerpts: characters versus bytes -/

/-- `char::len_utf8`. -/
def u8len (c : Char) : Nat :=
  if c.val < 0x80 then 1 else if c.val < 0x800 then 2 else if c.val < 0x10000 then 3 else 4

/-- `str::len` of a string given as its characters. -/
def byteLen : List Char → Nat
  | [] => 0
  | c :: cs => u8len c + byteLen cs

/-- Rust `(&s[..b], &s[b..])`: `none` is the panic "byte index b is not a char boundary" /
"out of range". -/
def splitAtByte : List Char → Nat → Option (List Char × List Char)
  | [], b => if b = 0 then some ([], []) else none
  | c :: cs, b =>
    if b = 0 then some ([], c :: cs)
    else if u8len c ≤ b then
      match splitAtByte cs (b - u8len c) with
      | some (l, r) => some (c :: l, r)
      | none => none
    else none

/-- Unicode `White_Space` (what `str::trim_end` removes). -/
def isWhite (c : Char) : Bool :=
  let n := c.toNat
  (9 ≤ n && n ≤ 13) || n = 32 || n = 0x85 || n = 0xA0 || n = 0x1680 || (0x2000 ≤ n && n ≤ 0x200A)
    || n = 0x2028 || n = 0x2029 || n = 0x202F || n = 0x205F || n = 0x3000

def trimEnd (l : List Char) : List Char := (l.reverse.dropWhile isWhite).reverse

inductive Excerpt where
  /-- `before`, highlighted `mid`, `after` (already trimmed) -/
  | parts (before mid after : List Char)
  /-- the early return: the line as it is, nothing highlighted -/
  | whole (line : List Char)
  | panic
  deriving DecidableEq, Repr

/-- `highlight_substring` as it was: `start` is a *character* index (from `Tracer::trace`),
`len` the *byte* length of the token text, and both are used as byte offsets. -/
def highlightOld (line : List Char) (start len : Nat) : Excerpt :=
  if byteLen line < start + len then .whole line
  else
    match splitAtByte line start with
    | none => .panic
    | some (a, rest) =>
      match splitAtByte rest len with
      | none => .panic
      | some (m, r) => .parts a m (trimEnd r)

/-- `line.char_indices().map(|(b, _)| b).chain(once(line.len())).nth(i)`. -/
def byteIndex (line : List Char) (i : Nat) : Option Nat :=
  if i ≤ line.length then some (byteLen (line.take i)) else none

/-- `highlight_substring` with fixes/C09-e.patch: `start` and `len` count characters and are
converted to byte offsets before slicing. The slicing itself is still Rust byte slicing
(`splitAtByte`), so a wrong offset would still show up as `panic`. -/
def highlight (line : List Char) (start len : Nat) : Excerpt :=
  match byteIndex line start, byteIndex line (start + len) with
  | some bs, some be =>
    if be < bs then .panic
    else
      match splitAtByte line bs with
      | none => .panic
      | some (a, rest) =>
        match splitAtByte rest (be - bs) with
        | none => .panic
        | some (m, r) => .parts a m (trimEnd r)
  | _, _ => .whole line

/-- The text of an excerpt as it is printed (colour aside). -/
def Excerpt.text : Excerpt → Option (List Char)
  | .parts a m r => some (a ++ m ++ r)
  | .whole l => some l
  | .panic => none

/-! ## `Tracer::trace`: from a character offset to line and column -/

structure Loc where
  /-- 1-based line number -/
  line : Nat
  /-- character index of the first character of the line in the content -/
  lineStartChar : Nat
  /-- byte index of the first character of the line -/
  lineStartByte : Nat
  deriving DecidableEq, Repr

/-- The loop of `Tracer::trace` over `content.char_indices().enumerate()`, started at
character `ci`, byte `bi`, with the current `loc`; it stops at character offset `off`. -/
def traceLoop (off : Nat) : List Char → Nat → Nat → Loc → Loc
  | [], _, _, loc => loc
  | c :: cs, ci, bi, loc =>
    if ci = off then loc
    else if c = '\n' then traceLoop off cs (ci + 1) (bi + u8len c) ⟨loc.line + 1, ci + 1, bi + u8len c⟩
    else traceLoop off cs (ci + 1) (bi + u8len c) loc

inductive TraceR where
  /-- line number, character position in the line, line content -/
  | ok (line pos : Nat) (content : List Char)
  /-- `char_offset - char_line_start` underflows, or `&content[byte_line_start..]` is not a boundary -/
  | panic
  deriving DecidableEq, Repr

def lineOf (tail : List Char) : List Char := tail.takeWhile (· ≠ '\n')

def trace (content : List Char) (off : Nat) : TraceR :=
  let loc := traceLoop off content 0 0 ⟨1, 0, 0⟩
  if off < loc.lineStartChar then .panic
  else
    match splitAtByte content loc.lineStartByte with
    | none => .panic
    | some (_, tail) => .ok loc.line (off - loc.lineStartChar) (lineOf tail)

/-! ## `Tracer::trace_end_of_input` -/

/-- The loop of `trace_end_of_input` over `content.char_indices()`: `ll` = (index, byte start)
of the current line, `lne` = the same for the last line that has a non-white character. -/
def eoiLoop : List Char → Nat → Nat × Nat → Nat × Nat → Nat × Nat
  | [], _, _, lne => lne
  | c :: cs, bi, ll, lne =>
    if !isWhite c then eoiLoop cs (bi + u8len c) ll ll
    else if c = '\n' then eoiLoop cs (bi + u8len c) (ll.1 + 1, bi + 1) lne
    else eoiLoop cs (bi + u8len c) ll lne

/-- `trace_end_of_input` (with fixes/C09-e.patch the index counts characters): the last
non-empty line, trimmed, and the position just after it. -/
def traceEoi (content : List Char) : TraceR :=
  let lne := eoiLoop content 0 (0, 0) (0, 0)
  match splitAtByte content lne.2 with
  | none => .panic
  | some (_, tail) =>
    let l := trimEnd tail
    .ok (lne.1 + 1) l.length l

/-! ## Small numeric kernels -/

inductive R (α : Type) where
  | ok (a : α)
  /-- a recoverable error was reported and this value is used instead -/
  | err (recovered : α)
  | panic
  deriving DecidableEq, Repr

/-- `char::from_u32`. -/
def fromU32 (u : Nat) : Option Nat :=
  if (0xD800 ≤ u ∧ u ≤ 0xDFFF) ∨ 0x10FFFF < u then none else some u

/-- `parse::Uint<N>`: a scanned 32-bit integer is accepted when `0 ≤ i < N`; otherwise an
out-of-bounds error is reported and `0` is used. -/
def uintBound (N : Nat) (i : Int) : R Nat :=
  if i < 0 ∨ (N : Int) ≤ i then .err 0 else .ok i.toNat

/-- `impl Parsable for char` as it was: `Uint<char::MAX>` then `char::from_u32(..).unwrap()`. -/
def charFromCodeOld (i : Int) : R Nat :=
  match uintBound 0x10FFFF i with
  | .ok u => match fromU32 u with | some c => .ok c | none => .panic
  | .err u => match fromU32 u with | some c => .err c | none => .panic
  | .panic => .panic

/-- … with fixes/C09-a.patch: a surrogate code is a recoverable error, character 0 is used. -/
def charFromCode (i : Int) : R Nat :=
  if i < 0 ∨ (0x10FFFF : Int) ≤ i then .err 0
  else match fromU32 i.toNat with
    | some c => .ok c
    | none => .err 0

/-- One `\or` met at depth 0 while `\ifcase` skips cases: the counter `cases_left_to_skip`
(an `i32`) is decremented only while positive. -/
def orStep (c : Int) : Int := if 0 < c then c - 1 else c

/-- `\ifcase n` followed by `k` `\or`s at depth 0: the index of the branch that is expanded
(`some j`), or `none` when all cases are skipped (`\else` branch or nothing). Follows the loop
of `if_case_primitive_fn`: case 0 is taken at once; otherwise the counter starts at `n` and a
branch is entered when it reaches 0. -/
def ifcaseLoop : Int → Nat → Nat → Option Nat
  | _, _, 0 => none
  | c, j, k + 1 =>
    if 0 < c then
      if c - 1 = 0 then some (j + 1) else ifcaseLoop (c - 1) (j + 1) k
    else ifcaseLoop c (j + 1) k

def ifcaseSelect (n : Int) (k : Nat) : Option Nat :=
  if n = 0 then some 0 else ifcaseLoop n 0 k

def i32 (x : Int) : Prop := -2147483648 ≤ x ∧ x ≤ 2147483647

end C09
