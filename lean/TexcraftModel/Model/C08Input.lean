/-!
# C08 — the input stack when a run returns

`vm::VM::run` (`/repo/crates/texlang/src/vm/mod.rs:143-162`) returns `Ok` only through the
end-of-input handler, i.e. after `next_unexpanded`
(`/repo/crates/texlang/src/vm/streams.rs:540-562`) returned `Ok(None)`. This file transcribes
`next_unexpanded` over an abstract input stack: a source is its pending expansions (`Vec<Token>`,
the next token first here) and the tokens its lexer will still deliver (the lexer itself — lines,
category codes — is abstracted to that list; an invalid character is a token `none`).
`Props/C08.lean` proves that `Ok(None)` leaves no pending expansion, no undelivered token and no
source on the stack: the state every checkpoint of the property is taken in, and the reason why
forgetting `Source.expansions` in a checkpoint (mutant 24 of the sweep) changes nothing.
Core Lean only.
-/
namespace C08.Input

/-- `vm::Source`: `expansions` (next token first) and what `root.next(..)` will still deliver
(`none` = `lexer::Result::InvalidCharacter`). -/
structure Src where
  expansions : List Nat
  lexer : List (Option Nat)
  deriving Repr, DecidableEq

/-- `Internal.current_source` and `Internal.sources` (top of the stack first). -/
structure Stack where
  cur : Src
  sources : List Src
  deriving Repr, DecidableEq

inductive Next where
  | token (t : Nat)        -- `Ok(Some(token))`
  | invalid                -- `Err(build_invalid_character_error(..))`
  | endOfInput             -- `Ok(None)`
  deriving Repr, DecidableEq

/-- `next_unexpanded`; the recursion is on the number of sources below the current one. -/
def next : (sources : List Src) → (cur : Src) → Next × Stack
  | sources, { expansions := t :: es, lexer := l } =>
    (.token t, { cur := { expansions := es, lexer := l }, sources := sources })   -- `expansions.pop()`
  | sources, { expansions := [], lexer := some t :: l } =>
    (.token t, { cur := { expansions := [], lexer := l }, sources := sources })   -- `Result::Token`
  | sources, { expansions := [], lexer := none :: l } =>
    (.invalid, { cur := { expansions := [], lexer := l }, sources := sources })   -- `InvalidCharacter`
  | [], { expansions := [], lexer := [] } =>
    (.endOfInput, { cur := { expansions := [], lexer := [] }, sources := [] })    -- `!pop_source()`
  | s :: rest, { expansions := [], lexer := [] } => next rest s                   -- `pop_source()`; recurse

def Stack.next (s : Stack) : Next × Stack := C08.Input.next s.sources s.cur

/-- The tokens still to come, in order (what "the remaining input" is). -/
def Stack.remaining (s : Stack) : List (Option Nat) :=
  (s.cur :: s.sources).flatMap fun x => x.expansions.map some ++ x.lexer

end C08.Input
