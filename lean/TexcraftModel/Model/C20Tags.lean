import TexcraftModel.Model.C20

/-!
# C20 — command tags, interleaving model

Source: `crates/texlang/src/command/mod.rs:290-346` (`NEXT_TAG_VALUE`, `Tag::new`,
`StaticTag::get`).

`Tag::new` holds the `Mutex` for its whole body, so in any execution the bodies of
concurrent calls are totally ordered: the atomic step of the model is one whole call
"read n, return n, write n + 1". A *schedule* is the list of events in that total order; each
event says which thread made the call (and, for `StaticTag::get`, on which static cell).
`OnceLock::get_or_init` is likewise one atomic step per call: the first call on a cell runs
`Tag::new` and stores the result, later ones read it.

That `Mutex`/`OnceLock` really provide this atomicity is *not* modelled (it is the runtime's
contract): the harness exercises it with real threads.

`u32` is explicit: `NonZeroU32::new(0).unwrap()` and `checked_add(1).unwrap()` are `none`
results (panic; the mutex is then poisoned and every later `lock().unwrap()` panics too).
-/
namespace C20.Tags

def u32Max : Nat := 4294967295

structure State where
  /-- `NEXT_TAG_VALUE`; `none` = the mutex is poisoned. -/
  next : Option Nat
  /-- The `OnceLock` of each static tag (cell id ↦ stored tag). -/
  cells : AList Nat Nat
  deriving Repr

/-- Program start: `Mutex::new(1)`, every `OnceLock` empty. -/
def init : State := { next := some 1, cells := [] }

inductive Ev where
  | new (thread : Nat)                 -- `Tag::new()`
  | get (thread : Nat) (cell : Nat)    -- `STATIC.get()`
  deriving Repr, DecidableEq

/-- The critical section of `Tag::new`: result (`none` = panic) and the new counter. -/
def tagNew (next : Option Nat) : Option Nat × Option Nat :=
  match next with
  | none => (none, none)                                   -- poisoned: `lock().unwrap()` panics
  | some n =>
    if n = 0 then (none, none)                             -- `NonZeroU32::new(0).unwrap()`
    else if n + 1 > u32Max then (none, none)               -- `checked_add(1).unwrap()`
    else (some n, some (n + 1))

/-- One atomic step; returns the tag the call returns (`none` = the call panicked). -/
def step (st : State) : Ev → State × Option Nat
  | .new _ =>
    let r := tagNew st.next
    ({ st with next := r.2 }, r.1)
  | .get _ c =>
    match alookup st.cells c with
    | some t => (st, some t)                               -- already initialised
    | none =>
      let r := tagNew st.next
      match r.1 with
      | some t => ({ next := r.2, cells := ainsert c t st.cells }, some t)
      | none => ({ st with next := r.2 }, none)            -- init panicked: cell stays empty

/-- Run a schedule; every event paired with what it returned. -/
def run (st : State) : List Ev → State × List (Ev × Option Nat)
  | [] => (st, [])
  | e :: es =>
    let r := step st e
    let rs := run r.1 es
    (rs.1, (e, r.2) :: rs.2)

/-- The tags returned by `Tag::new` events. -/
def newTags : List (Ev × Option Nat) → List Nat
  | [] => []
  | (.new _, some t) :: r => t :: newTags r
  | _ :: r => newTags r

/-- The tags returned by `get` on cell `c`. -/
def cellTags (c : Nat) : List (Ev × Option Nat) → List Nat
  | [] => []
  | (.get _ c', some t) :: r => if c' = c then t :: cellTags c r else cellTags c r
  | _ :: r => cellTags c r

end C20.Tags
