import TexcraftModel.Model.C06
import TexcraftModel.Model.C06Spec
import TexcraftModel.Model.C06Dec
/-
C06 — where a constant ends. A character-level reading of `<signs><constant><what follows>`
in integer, dimension and glue context, parameterised by the digit predicate (`constDigit` of
the model = `parse_constant`'s decoding; `Spec.constDigit` = TeX §445), so that the *same*
text is cut into digits / unit / remainder by M and by S. Keywords are matched as
`parse_keyword` and `scan_keyword` do (letters, either case, all or nothing); one optional
space is taken where both take one. Core Lean only.
-/
namespace C06.Text

inductive Tok
  | ch (c : Char) (letter : Bool)
  | space
  /-- an unexpandable control sequence that is not a number (the harness renders `\count2=5 `) -/
  | cs
  deriving Repr, DecidableEq

abbrev DigitFn := Int → Char → Bool → Option Nat

def takeDigits (dg : DigitFn) (radix : Int) : List Tok → List Nat × List Tok
  | .ch c l :: t =>
    match dg radix c l with
    | some d => let r := takeDigits dg radix t; (d :: r.1, r.2)
    | none => ([], .ch c l :: t)
  | t => ([], t)

/-- Fraction digits (§452, `scan_decimal_fraction`): `0`–`9` of category other. -/
def decDigit : DigitFn := fun _ c l => if !l ∧ 48 ≤ c.toNat ∧ c.toNat ≤ 57 then some (c.toNat - 48) else none

def optSpace : List Tok → List Tok
  | .space :: t => t
  | t => t

/-- §441 / `parse_optional_signs`. -/
def signs : List Tok → Bool × List Tok
  | .ch c false :: t =>
    if c = '+' then signs t
    else if c = '-' then let r := signs t; (!r.1, r.2)
    else (false, .ch c false :: t)
  | .space :: t => signs t
  | t => (false, t)

def dropSpaces : List Tok → List Tok
  | .space :: t => dropSpaces t
  | t => t

/-- Where a keyword is looked for. TeX's `scan_keyword` (§407) first skips blanks — and does not
put them back if the keyword does not follow; `parse_keyword` does the same since
fixes/C06-j.patch (`skip = true`; `false` describes the code before it: `1true pt`, `1fil l`). -/
def kwStart (skip : Bool) (t : List Tok) : List Tok := if skip then dropSpaces t else t

def keyword : List Char → List Tok → Option (List Tok)
  | [], t => some t
  | k :: ks, .ch c true :: t => if c = k ∨ c = k.toUpper then keyword ks t else none
  | _ :: _, _ => none

/-- A constant: radix, digits, what follows (after the optional space). -/
def parseConst (dg : DigitFn) : List Tok → Option (Int × List Nat × List Tok)
  | .ch c false :: t =>
    if c = '"' then let r := takeDigits dg 16 t; some (16, r.1, optSpace r.2)
    else if c = '\'' then let r := takeDigits dg 8 t; some (8, r.1, optSpace r.2)
    else if c.isDigit then let r := takeDigits dg 10 (.ch c false :: t); some (10, r.1, optSpace r.2)
    else none
  | _ => none

structure PInt where
  neg : Bool
  /-- `none`: no number here ("Missing number, treated as zero") -/
  const : Option (Int × List Nat)
  rest : List Tok
  deriving Repr

def parseInt (dg : DigitFn) (t : List Tok) : PInt :=
  let s := signs t
  match parseConst dg s.2 with
  | some (r, ds, rest) => { neg := s.1, const := some (r, ds), rest := rest }
  | none => { neg := s.1, const := none, rest := s.2 }

/-- §454 `while scan_keyword("l")`: at most `fuel` further `l`s (the text is that long). TeX skips
blanks before each `l` (`1fil l` is `1fill`); the code reads the `l`s token by token and stops at
a blank (`skip = false`) — recorded deviation C06-k, pinned by `math::tests::advance_glue_3`. -/
def countL (skip : Bool) : Nat → List Tok → Nat × List Tok
  | 0, t => (0, t)
  | fuel + 1, t =>
    match kwStart skip t with
    | .ch c true :: r =>
      if c = 'l' ∨ c = 'L' then let n := countL skip fuel r; (n.1 + 1, n.2) else (0, .ch c true :: r)
    | t' => (0, t')

/-- `em_width()` and `ex_height()` of the state the harness runs (10pt and 4.30554pt, as cmr10;
deliberately different from each other and from texlang's default of 12pt for both). -/
def emWidth : Int := 655360
def exHeight : Int := 282168

def physUnits : List (String × TUnit) :=
  [("pt", .pt), ("in", .inch), ("pc", .pc), ("cm", .cm), ("mm", .mm), ("bp", .bp), ("dd", .dd), ("cc", .cc), ("sp", .sp)]

def firstUnit : List (String × TUnit) → List Tok → Option (TUnit × List Tok)
  | [], _ => none
  | (k, u) :: ks, t =>
    match keyword k.toList t with
    | some r => some (u, r)
    | none => firstUnit ks t

/-- §453–§459 / `scan_and_apply_units` on characters (internal units are not text). -/
def parseUnit (skip skipL : Bool) (glue : Bool) (t0 : List Tok) : UnitSpec × List Tok :=
  let t := kwStart skip t0
  match (if glue then keyword "fil".toList t else none) with
  | some r => let l := countL skipL r.length r; (.fil l.1, optSpace l.2)
  | none =>
    match keyword "em".toList t with
    | some r => (.internal emWidth, optSpace r)
    | none =>
      match keyword "ex".toList t with
      | some r => (.internal exHeight, optSpace r)
      | none =>
        let t := match keyword "true".toList t with
          | some r => kwStart skip r
          | none => t
        match firstUnit physUnits t with
        | some (u, r) => (.phys u, optSpace r)
        | none => (.bad, optSpace t)

structure PDimen where
  neg : Bool
  head : Head
  unit : UnitSpec
  rest : List Tok
  deriving Repr

def isPoint : Tok → Bool
  | .ch c false => c = '.' || c = ','
  | _ => false

def fraction (t : List Tok) : List Nat × List Tok :=
  let r := takeDigits decDigit 10 t
  (r.1, optSpace r.2)

/-- The number part of a dimension (after the signs): the head and what follows it.
`fracAfterSpace`: whether a decimal point is still looked for after the optional space that
ended the integer part. TeX does not (after `scan_int` the current token is the consumed space,
so `1 .5pt` has no fraction and `.5pt` is an illegal unit); the code did until
fixes/C06-i.patch. Both M and S use `false`; `true` describes the unfixed code. -/
def parseHead (dg : DigitFn) (fracAfterSpace : Bool) : List Tok → Head × List Tok
  | .ch c false :: t =>
    if c = '.' ∨ c = ',' then
      let f := fraction t
      (.point f.1, f.2)
    else if c = '"' then let r := takeDigits dg 16 t; (.const 16 r.1 none, optSpace r.2)
    else if c = '\'' then let r := takeDigits dg 8 t; (.const 8 r.1 none, optSpace r.2)
    else if c.isDigit then
      let r := takeDigits dg 10 (.ch c false :: t)
      let spaced := match r.2 with | .space :: _ => true | _ => false
      match optSpace r.2 with
      | q :: r2 =>
        if isPoint q && (!spaced || fracAfterSpace) then
          let f := fraction r2
          (.const 10 r.1 (some f.1), f.2)
        else (.const 10 r.1 none, q :: r2)
      | [] => (.const 10 r.1 none, [])
    else (.const 10 [] none, .ch c false :: t)      -- no number: error, zero
  | t => (.const 10 [] none, t)

/-- §448 / `scan_dimen` on characters: signs, number, units. -/
def parseDimen (dg : DigitFn) (skip skipL : Bool) (glue : Bool) (fracAfterSpace : Bool) (t : List Tok) : PDimen :=
  let s := signs t
  let h := parseHead dg fracAfterSpace s.2
  let u := parseUnit skip skipL glue h.2
  { neg := s.1, head := h.1, unit := u.1, rest := u.2 }

structure PGlue where
  width : PDimen
  plus : Option PDimen
  minus : Option PDimen
  rest : List Tok
  deriving Repr

/-- §461 / `Glue::parse_impl` on characters. -/
def parseGlue (dg : DigitFn) (skip skipL : Bool) (fas : Bool) (t : List Tok) : PGlue :=
  let w := parseDimen dg skip skipL false fas t
  let (p, r) : Option PDimen × List Tok :=
    match keyword "plus".toList (kwStart skip w.rest) with
    | some r => let d := parseDimen dg skip skipL true fas r; (some d, d.rest)
    | none => (none, kwStart skip w.rest)
  let (m, r) : Option PDimen × List Tok :=
    match keyword "minus".toList (kwStart skip r) with
    | some r => let d := parseDimen dg skip skipL true fas r; (some d, d.rest)
    | none => (none, kwStart skip r)
  { width := w, plus := p, minus := m, rest := r }

/-! ## What `\the` writes, as tokens (`TokenWrite` in the.rs: letters get category letter,
a space is a space token, everything else category other) -/

def digitTok (d : Nat) : Tok := .ch (digitChar d) false

/-- `print_scaled` / `display_no_units`: sign, decimal digits of the integer part, point, fraction. -/
def renderToks (p : Printed) : List Tok :=
  (if p.neg then [.ch '-' false] else []) ++ (dec5 p.ip).map digitTok ++ [.ch '.' false] ++ p.frac.map digitTok

/-- The unit that follows: `pt`, `fil`, `fill`, `filll` (§177 `print_glue`). -/
def unitToks : Nat → List Tok
  | 0 => [.ch 'p' true, .ch 't' true]
  | k + 1 => [.ch 'f' true, .ch 'i' true, .ch 'l' true] ++ List.replicate k (.ch 'l' true)

/-- `Display for Glue` (§178 `print_spec`): width `pt`, then ` plus …` / ` minus …` if non-zero. -/
def renderGlueToks (g : Glue) : List Tok :=
  renderToks (Spec.printScaled g.width) ++ unitToks 0
    ++ (if g.stretch ≠ 0 then
          [.space, .ch 'p' true, .ch 'l' true, .ch 'u' true, .ch 's' true, .space]
            ++ renderToks (Spec.printScaled g.stretch) ++ unitToks g.stretchOrder
        else [])
    ++ (if g.shrink ≠ 0 then
          [.space, .ch 'm' true, .ch 'i' true, .ch 'n' true, .ch 'u' true, .ch 's' true, .space]
            ++ renderToks (Spec.printScaled g.shrink) ++ unitToks g.shrinkOrder
        else [])

def toksString (t : List Tok) : String :=
  String.ofList (t.map fun | .ch c _ => c | .space => ' ' | .cs => '?')

end C06.Text
