import TexcraftModel.Model.C06
import TexcraftModel.Model.C06Spec
/-
C06 — where a constant ends. A character-level reading of `<signs><constant><what follows>`
in integer, dimension and glue context, parameterised by the digit predicate (`constDigit` of
the model = `parse_constant`'s decoding; `Spec.constDigit` = TeX §445), so that the *same*
text is cut into digits / unit / remainder by M and by S. Keywords are matched as
`parse_keyword` and `scan_keyword` do (letters, either case, all or nothing); one optional
space is taken where both take one. Core Lean only.
-/
namespace C06.Text

inductive Tok
  | ch (c : Char) (letter : Bool)
  | space
  /-- an unexpandable control sequence that is not a number (the harness renders `\count2=5 `) -/
  | cs
  deriving Repr, DecidableEq

abbrev DigitFn := Int → Char → Bool → Option Nat

def takeDigits (dg : DigitFn) (radix : Int) : List Tok → List Nat × List Tok
  | .ch c l :: t =>
    match dg radix c l with
    | some d => let r := takeDigits dg radix t; (d :: r.1, r.2)
    | none => ([], .ch c l :: t)
  | t => ([], t)

/-- Fraction digits (§452, `scan_decimal_fraction`): `0`–`9` of category other. -/
def decDigit : DigitFn := fun _ c l => if !l ∧ 48 ≤ c.toNat ∧ c.toNat ≤ 57 then some (c.toNat - 48) else none

def optSpace : List Tok → List Tok
  | .space :: t => t
  | t => t

/-- §441 / `parse_optional_signs`. -/
def signs : List Tok → Bool × List Tok
  | .ch c false :: t =>
    if c = '+' then signs t
    else if c = '-' then let r := signs t; (!r.1, r.2)
    else (false, .ch c false :: t)
  | .space :: t => signs t
  | t => (false, t)

def keyword : List Char → List Tok → Option (List Tok)
  | [], t => some t
  | k :: ks, .ch c true :: t => if c = k ∨ c = k.toUpper then keyword ks t else none
  | _ :: _, _ => none

/-- A constant: radix, digits, what follows (after the optional space). -/
def parseConst (dg : DigitFn) : List Tok → Option (Int × List Nat × List Tok)
  | .ch c false :: t =>
    if c = '"' then let r := takeDigits dg 16 t; some (16, r.1, optSpace r.2)
    else if c = '\'' then let r := takeDigits dg 8 t; some (8, r.1, optSpace r.2)
    else if c.isDigit then let r := takeDigits dg 10 (.ch c false :: t); some (10, r.1, optSpace r.2)
    else none
  | _ => none

structure PInt where
  neg : Bool
  /-- `none`: no number here ("Missing number, treated as zero") -/
  const : Option (Int × List Nat)
  rest : List Tok
  deriving Repr

def parseInt (dg : DigitFn) (t : List Tok) : PInt :=
  let s := signs t
  match parseConst dg s.2 with
  | some (r, ds, rest) => { neg := s.1, const := some (r, ds), rest := rest }
  | none => { neg := s.1, const := none, rest := s.2 }

def countL : List Tok → Nat × List Tok
  | .ch c true :: t => if c = 'l' ∨ c = 'L' then let r := countL t; (r.1 + 1, r.2) else (0, .ch c true :: t)
  | t => (0, t)

/-- `em_width()` and `ex_height()` of the state the harness runs (10pt and 4.30554pt, as cmr10;
deliberately different from each other and from texlang's default of 12pt for both). -/
def emWidth : Int := 655360
def exHeight : Int := 282168

def physUnits : List (String × TUnit) :=
  [("pt", .pt), ("in", .inch), ("pc", .pc), ("cm", .cm), ("mm", .mm), ("bp", .bp), ("dd", .dd), ("cc", .cc), ("sp", .sp)]

def firstUnit : List (String × TUnit) → List Tok → Option (TUnit × List Tok)
  | [], _ => none
  | (k, u) :: ks, t =>
    match keyword k.toList t with
    | some r => some (u, r)
    | none => firstUnit ks t

/-- §453–§459 / `scan_and_apply_units` on characters (internal units are not text). -/
def parseUnit (glue : Bool) (t : List Tok) : UnitSpec × List Tok :=
  match (if glue then keyword "fil".toList t else none) with
  | some r => let l := countL r; (.fil l.1, optSpace l.2)
  | none =>
    match keyword "em".toList t with
    | some r => (.internal emWidth, optSpace r)
    | none =>
      match keyword "ex".toList t with
      | some r => (.internal exHeight, optSpace r)
      | none =>
        let t := (keyword "true".toList t).getD t
        match firstUnit physUnits t with
        | some (u, r) => (.phys u, optSpace r)
        | none => (.bad, optSpace t)

structure PDimen where
  neg : Bool
  head : Head
  unit : UnitSpec
  rest : List Tok
  deriving Repr

def isPoint : Tok → Bool
  | .ch c false => c = '.' || c = ','
  | _ => false

def fraction (t : List Tok) : List Nat × List Tok :=
  let r := takeDigits decDigit 10 t
  (r.1, optSpace r.2)

/-- §448 / `scan_dimen` on characters. `fracAfterSpace`: whether a decimal point is still looked
for after the optional space that ended the integer part. TeX does not (after `scan_int` the
current token is the consumed space, so `1 .5pt` has no fraction and `.5pt` is an illegal unit);
the code did until fixes/C06-i.patch. Both M and S use `false`; `true` describes the unfixed code. -/
def parseDimen (dg : DigitFn) (glue : Bool) (fracAfterSpace : Bool) (t : List Tok) : PDimen :=
  let s := signs t
  match s.2 with
  | p :: t1 =>
    if isPoint p then
      let f := fraction t1
      let u := parseUnit glue f.2
      { neg := s.1, head := .point f.1, unit := u.1, rest := u.2 }
    else
      match p :: t1 with
      | .ch c false :: t2 =>
        let cst : Option (Int × List Nat × List Tok × Bool) :=
          if c = '"' then let r := takeDigits dg 16 t2; some (16, r.1, r.2, false)
          else if c = '\'' then let r := takeDigits dg 8 t2; some (8, r.1, r.2, false)
          else if c.isDigit then let r := takeDigits dg 10 (.ch c false :: t2); some (10, r.1, r.2, true)
          else none
        match cst with
        | none =>
          -- no number: error, zero; units follow
          let u := parseUnit glue (p :: t1)
          { neg := s.1, head := .const 10 [] none, unit := u.1, rest := u.2 }
        | some (radix, ds, r, dec) =>
          let spaced := match r with | .space :: _ => true | _ => false
          let r1 := optSpace r
          match r1 with
          | q :: r2 =>
            if dec && isPoint q && (!spaced || fracAfterSpace) then
              let f := fraction r2
              let u := parseUnit glue f.2
              { neg := s.1, head := .const radix ds (some f.1), unit := u.1, rest := u.2 }
            else
              let u := parseUnit glue r1
              { neg := s.1, head := .const radix ds none, unit := u.1, rest := u.2 }
          | [] => { neg := s.1, head := .const radix ds none, unit := .bad, rest := [] }
      | _ =>
        let u := parseUnit glue (p :: t1)
        { neg := s.1, head := .const 10 [] none, unit := u.1, rest := u.2 }
  | [] => { neg := s.1, head := .const 10 [] none, unit := .bad, rest := [] }

structure PGlue where
  width : PDimen
  plus : Option PDimen
  minus : Option PDimen
  rest : List Tok
  deriving Repr

/-- §461 / `Glue::parse_impl` on characters. -/
def parseGlue (dg : DigitFn) (fas : Bool) (t : List Tok) : PGlue :=
  let w := parseDimen dg false fas t
  let (p, r) : Option PDimen × List Tok :=
    match keyword "plus".toList w.rest with
    | some r => let d := parseDimen dg true fas r; (some d, d.rest)
    | none => (none, w.rest)
  let (m, r) : Option PDimen × List Tok :=
    match keyword "minus".toList r with
    | some r => let d := parseDimen dg true fas r; (some d, d.rest)
    | none => (none, r)
  { width := w, plus := p, minus := m, rest := r }

end C06.Text
