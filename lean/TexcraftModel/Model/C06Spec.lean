import TexcraftModel.Model.C06
/-
C06 — specification (S): Knuth's routines from tex.web, transcribed from the Pascal text
independently of the Rust code, over the mathematical integers (`Int`):

§102 `round_decimals`, §103 `print_scaled`, §105 `mult_and_add` (`nx_plus_y`,
`mult_integers`), §106 `x_over_n`, §107 `xn_over_d` (15-bit halves), §440–§445 `scan_int`,
§448–§460 `scan_dimen`, §461 `scan_glue`, §178 `print_spec`, §1236–§1240 arithmetic.

Pascal `div`/`mod` truncate toward zero; Knuth only applies them to non-negative operands
(after `negate`), where they coincide with `Int`'s `/` and `%`; that is how they are
written here.  `arith_error` is an explicit flag.  Where TeX's 32-bit Pascal arithmetic
would itself overflow (negating −2^31) the integers simply carry on; a *final* result that
does not fit 32 bits is reported as `undef` (TeX has no defined behaviour there: the
property then only asks for "no crash").
Core Lean only.
-/
namespace C06.Spec

/-! ## §102, §103 -/

/-- §102: `a:=0; while k>0 do begin decr(k); a:=(a+dig[k]*two) div 10; end;
round_decimals:=(a+1) div 2`. -/
def roundDecimals (dig : List Nat) : Int :=
  (dig.foldr (fun (d : Nat) (a : Int) => (a + (d : Int) * 131072) / 10) 0 + 1) / 2

/-- §103 `print_scaled`: sign, `print_int(s div unity)`, `"."`, fraction digits. -/
def printScaled (s : Int) : Printed :=
  let a := s.natAbs
  { neg := decide (s < 0), ip := a / 65536, frac := printLoop 17 (10 * (a % 65536) + 5) 10 }

/-! ## §105–§107 -/

/-- A value together with `arith_error`. -/
structure AE where
  val : Int
  err : Bool
  deriving Repr, DecidableEq

/-- §105 `mult_and_add(n,x,y,max_answer)`. -/
def multAndAdd (n x y maxAnswer : Int) : AE :=
  let x := if n < 0 then -x else x
  let n := if n < 0 then -n else n
  if n = 0 then ⟨y, false⟩
  else if x ≤ Int.tdiv (maxAnswer - y) n ∧ -x ≤ Int.tdiv (maxAnswer + y) n then ⟨n * x + y, false⟩
  else ⟨0, true⟩

def nxPlusY (n x y : Int) : AE := multAndAdd n x y 1073741823
def multIntegers (n x : Int) : AE := multAndAdd n x 0 2147483647

/-- §106 `x_over_n`: quotient, `arith_error` when `n=0`. -/
def xOverN (x n : Int) : AE :=
  if n = 0 then ⟨0, true⟩
  else
    let x' := if n < 0 then -x else x
    let n' := if n < 0 then -n else n
    if x' ≥ 0 then ⟨x' / n', false⟩ else ⟨-((-x') / n'), false⟩

/-- §107 `xn_over_d` with 15-bit halves: `(value, remainder, arith_error)`.
When `arith_error` is set the returned value is Knuth's leftover `u` (callers discard it). -/
def xnOverD (x n d : Int) : Int × Int × Bool :=
  let positive := decide (x ≥ 0)
  let x := if x ≥ 0 then x else -x
  let t := (x % 32768) * n
  let u := (x / 32768) * n + (t / 32768)
  let v := (u % d) * 32768 + (t % 32768)
  let ae := decide (u / d ≥ 32768)
  let u := if u / d ≥ 32768 then u else 32768 * (u / d) + (v / d)
  if positive then (u, v % d, ae) else (-u, -(v % d), ae)

/-! ## §440–§445 `scan_int` -/

/-- §445: which token is a digit of the radix. `if (cur_tok<zero_token+radix) and
(cur_tok>=zero_token) and (cur_tok<=zero_token+9) then d:=cur_tok-zero_token else if radix=16
then if (cur_tok<=A_token+5) and (cur_tok>=A_token) then d:=cur_tok-A_token+10 else if
(cur_tok<=other_A_token+5) and (cur_tok>=other_A_token) then d:=cur_tok-other_A_token+10 else
goto done else goto done`. `zero_token`, `other_A_token` have category other, `A_token`
category letter: only the upper-case `A`–`F` are hexadecimal digits. -/
def constDigit (radix : Int) (c : Char) (letter : Bool) : Option Nat :=
  let tok : Int := c.toNat
  if !letter ∧ tok < 48 + radix ∧ tok ≥ 48 ∧ tok ≤ 48 + 9 then some (c.toNat - 48)
  else if radix = 16 then
    if letter ∧ tok ≤ 65 + 5 ∧ tok ≥ 65 then some (c.toNat - 65 + 10)
    else if !letter ∧ tok ≤ 65 + 5 ∧ tok ≥ 65 then some (c.toNat - 65 + 10)
    else none
  else none

/-- §445 on a digit list: `(cur_val, OK_so_far)`. -/
def accumulate (radix : Int) (m : Int) : List Nat → Int → Bool → Int × Bool
  | [], cv, ok => (cv, ok)
  | d :: ds, cv, ok =>
    if cv ≥ m ∧ (cv > m ∨ (d : Int) > 7 ∨ radix ≠ 10) then accumulate radix m ds 2147483647 false
    else accumulate radix m ds (cv * radix + d) ok

/-- A scanned value with the number of errors TeX reports; `undef` as explained above. -/
inductive SR where
  | ok (val : Int) (nerr : Nat) (order : Nat)
  | undef
  deriving Repr, DecidableEq

/-- §444: `m` is `2^31 div radix`; an empty constant is "Missing number, treated as zero". -/
def scanConst (radix : Int) (ds : List Nat) : Int × Nat :=
  let m : Int := if radix = 10 then 214748364 else if radix = 8 then 268435456 else 134217728
  if ds.isEmpty then (0, 1)
  else
    let (cv, ok) := accumulate radix m ds 0 true
    (cv, if ok then 0 else 1)

def fits (x : Int) : Bool := decide (-2147483648 ≤ x) && decide (x ≤ 2147483647)

/-- §440 `scan_int` on a constant: `if negative then negate(cur_val)`. -/
def scanInt (neg : Bool) (radix : Int) (ds : List Nat) : SR :=
  let (cv, e) := scanConst radix ds
  let r := if neg then -cv else cv
  if fits r then .ok r e 0 else .undef

def scanIntInternal (neg : Bool) (i : Int) : SR :=
  let r := if neg then -i else i
  if fits r then .ok r 0 0 else .undef

/-! ## §448–§460 `scan_dimen` -/

/-- §452: at most 17 digits are stored (`if k<17`). -/
def scanFraction (ds : List Nat) : Int := roundDecimals (ds.take 17)

/-- `attach_sign`: range check (§448), `negate` if negative. -/
def attachSign (cv : Int) (ae : Bool) (negative : Bool) (nerr : Nat) (order : Nat) : SR :=
  let (cv, nerr) := if ae ∨ cv.natAbs ≥ 1073741824 then (1073741823, nerr + 1) else (cv, nerr)
  .ok (if negative then -cv else cv) nerr order

/-- `attach_fraction` (§448) then `attach_sign`. -/
def attachFraction (cv f : Int) (ae : Bool) (negative : Bool) (nerr : Nat) (order : Nat) : SR :=
  if cv ≥ 16384 then attachSign cv true negative nerr order
  else attachSign (cv * 65536 + f) ae negative nerr order

/-- §453–§459: the units, for `cur_val ≥ 0` and fraction `f`. -/
def units (cv f : Int) (negative : Bool) (nerr : Nat) (u : UnitSpec) : SR :=
  match u with
  | .fil ls =>
    -- §454: `cur_order:=fil; while scan_keyword("l") do if cur_order=filll then error else incr`
    attachFraction cv f false negative (nerr + (ls - 2)) (min (1 + ls) 3)
  | .internal v =>
    -- §455 `found: cur_val:=nx_plus_y(save_cur_val,v,xn_over_d(v,f,@'200000)); goto attach_sign`
    let (y, _, ae1) := xnOverD v f 65536
    let r := nxPlusY cv v y
    attachSign r.val (ae1 || r.err) negative nerr 0
  | .phys .pt => attachFraction cv f false negative nerr 0
  | .phys .sp => attachSign cv false negative nerr 0          -- `goto done`
  | .phys pu =>
    -- §458 with `set_conversion`
    let num := pu.frac.1
    let denom := pu.frac.2
    let (q, rem, ae) := xnOverD cv num denom
    let f2 := (num * f + 65536 * rem) / denom
    attachFraction (q + f2 / 65536) (f2 % 65536) ae negative nerr 0
  | .bad =>
    -- §459 "Illegal unit of measure (pt inserted)"; `goto done2`
    attachFraction cv f false negative (nerr + 1) 0

/-- §448 `scan_dimen` (with `shortcut=false`, `mu=false`). -/
def scanDimen (neg : Bool) (h : Head) (u : UnitSpec) : SR :=
  match h with
  | .dimen d => attachSign d false neg 0 0                    -- §449 `goto attach_sign`
  | .int i =>
    if i < 0 then units (-i) 0 (!neg) 0 u else units i 0 neg 0 u
  | .point fr => units 0 (scanFraction fr) neg 0 u
  | .const radix ds fr =>
    let (cv, e) := scanConst radix ds
    let f := match fr with
      | some fd => if radix = 10 then scanFraction fd else 0
      | none => 0
    units cv f neg e u

/-! ## §461 `scan_glue` (width part) -/

/-- Width: an internal dimension is taken (negated) without a range check; an internal
integer goes through `scan_dimen(mu,false,true)`; otherwise `scan_dimen` then `negate`. -/
def scanGlueWidth (neg : Bool) (h : Head) (u : UnitSpec) : SR :=
  match h with
  | .dimen d => let r := if neg then -d else d; if fits r then .ok r 0 0 else .undef
  | .int i =>
    let i := if neg then -i else i
    if i < 0 then units (-i) 0 true 0 u else units i 0 false 0 u
  | _ =>
    match scanDimen false h u with
    | .ok v e o => .ok (if neg then -v else v) e o
    | .undef => .undef

/-- §461: the glue specification from its width and the optional `plus` / `minus` parts
(each a full `scan_dimen` with `inf=true`); the errors add up. -/
def scanGlue (w : SR) (plus minus : Option SR) : Option (Glue × Nat) :=
  match w, plus.getD (.ok 0 0 0), minus.getD (.ok 0 0 0) with
  | .ok wv we _, .ok pv pe po, .ok mv me mo =>
    some ({ width := wv, stretch := pv, stretchOrder := po, shrink := mv, shrinkOrder := mo }, we + pe + me)
  | _, _, _ => none

/-! ## §1236–§1240 -/

inductive AR (α : Type) where
  | set (a : α)
  /-- "Arithmetic overflow": the register keeps its value -/
  | error
  | undef
  deriving Repr, DecidableEq

/-- §1238 `\advance`: `cur_val:=cur_val+eqtb[l].int` — 32-bit addition that wraps silently
(the property's wording). -/
def advanceInt (a b : Int) : AR Int := .set (wrap32 (a + b))

def multiplyInt (a b : Int) : AR Int :=
  let r := multIntegers a b
  if r.err then .error else .set r.val

def multiplyDimen (a b : Int) : AR Int :=
  let r := nxPlusY a b 0
  if r.err then .error else .set r.val

def divide (a b : Int) : AR Int :=
  let r := xOverN a b
  if r.err then .error else if fits r.val then .set r.val else .undef

/-- §1236–§1238 on one register: new value, error flag; `none` where TeX is undefined. -/
def stepInt (a : Int) : ArithOp → Option (Int × Bool)
  | .advance b => match advanceInt a b with | .set v => some (v, false) | .error => some (a, true) | .undef => none
  | .multiply b => match multiplyInt a b with | .set v => some (v, false) | .error => some (a, true) | .undef => none
  | .divide b => match divide a b with | .set v => some (v, false) | .error => some (a, true) | .undef => none

def stepDimen (a : Int) : ArithOp → Option (Int × Bool)
  | .advance b => match advanceInt a b with | .set v => some (v, false) | .error => some (a, true) | .undef => none
  | .multiply b => match multiplyDimen a b with | .set v => some (v, false) | .error => some (a, true) | .undef => none
  | .divide b => match divide a b with | .set v => some (v, false) | .error => some (a, true) | .undef => none

def runReg (step : Int → ArithOp → Option (Int × Bool)) : Int → List ArithOp → Option (Int × Nat)
  | a, [] => some (a, 0)
  | a, op :: ops =>
    match step a op with
    | none => none
    | some s =>
      match runReg step s.1 ops with
      | none => none
      | some r => some (r.1, r.2 + (if s.2 then 1 else 0))

/-- §1239: `q` is the scanned summand, `r` the register: one of stretch/shrink. -/
def addComp (r : Int) (ro : Nat) (q : Int) (qo : Nat) : Int × Nat :=
  let qo := if q = 0 then 0 else qo
  if qo = ro then (wrap32 (q + r), qo)
  else if qo < ro ∧ r ≠ 0 then (r, ro)
  else (q, qo)

def advanceGlue (r q : Glue) : AR Glue :=
  let st := addComp r.stretch r.stretchOrder q.stretch q.stretchOrder
  let sh := addComp r.shrink r.shrinkOrder q.shrink q.shrinkOrder
  .set { width := wrap32 (q.width + r.width), stretch := st.1, stretchOrder := st.2,
         shrink := sh.1, shrinkOrder := sh.2 }

def multiplyGlue (s : Glue) (n : Int) : AR Glue :=
  let w := nxPlusY s.width n 0
  let st := nxPlusY s.stretch n 0
  let sh := nxPlusY s.shrink n 0
  if w.err || st.err || sh.err then .error
  else .set { s with width := w.val, stretch := st.val, shrink := sh.val }

def divideGlue (s : Glue) (n : Int) : AR Glue :=
  let w := xOverN s.width n
  let st := xOverN s.stretch n
  let sh := xOverN s.shrink n
  if w.err || st.err || sh.err then .error
  else if fits w.val && fits st.val && fits sh.val then
    .set { s with width := w.val, stretch := st.val, shrink := sh.val }
  else .undef

end C06.Spec
