/-
C11 — the whole lig/kern layer of one TFM→PL→TFM trip at byte level: from the raw lig/kern
sub-file of a `.tfm` (4-byte words, lig remainders of the characters that carry a lig tag,
kern words) to the raw sub-file of `pl_to_tfm(tfm_to_pl(·))`.

`predict` composes the transcribed passes in the order the code runs them:

  bytes ──decodeRaw──▶ words as instructions         (deserialize.rs, `Model/C11Words`)
        ──packKerns──▶ kern values inline            (`impl From<tfm::File> for pl::File`)
        ──unpackAll──▶ 16-bit entry points           (same; `unpack_entrypoint`)
        ──printParse─▶ tftopl prints, pltotf reads   (`lower` / `from_ast`, `Model/C11Norm`)
        ──sortByChar─▶ labels as a map by character  (`lig_kern_entrypoints`, `char_tags: BTreeMap`)
        ──unpackKerns▶ kerns array                   (`impl From<pl::File> for tfm::File`)
        ──pack───────▶ byte entry points, redirects  (`pack_entrypoints`)
        ──encodeWord─▶ bytes                         (serialize.rs)

The driver's `predict` command runs exactly this function and the harness compares its
output with the bytes of the real t1 (stream `predict`). Core Lean only.
-/
import TexcraftModel.Model.C11
import TexcraftModel.Model.C11Bridge
import TexcraftModel.Model.C11Norm
import TexcraftModel.Model.C11Words

namespace C11

/-- The lig/kern layer of a `.tfm`: the words, `(character, remainder)` of every character
with a lig tag (ascending characters), the kern words. -/
structure RawLK where
  words : List Word
  ligs : List (Nat × Nat)
  kerns : List Int
  deriving DecidableEq, Repr, Inhabited

def insertByChar (x : Nat × Nat) : List (Nat × Nat) → List (Nat × Nat)
  | [] => [x]
  | y :: ys => if x.1 ≤ y.1 then x :: y :: ys else y :: insertByChar x ys

/-- Labels in ascending character order (how a `BTreeMap<Char, _>` / the char_info table lists them). -/
def sortByChar (l : List (Nat × Nat)) : List (Nat × Nat) := l.foldr insertByChar []

/-- What tftopl starts from: the program with kern values inline and the unpacked entry points. -/
def preOf (b : RawLK) : Prog × List (Nat × Nat) :=
  let p0 := decodeRaw b.words
  (⟨packKerns b.kerns p0.instrs, p0.lb, p0.rb⟩, unpackAll p0.instrs b.ligs)

/-- The PL-level program pltotf builds from tftopl's text, labels as a map by character. -/
def plOf (b : RawLK) : Prog × List (Nat × Nat) :=
  let q := printParse (preOf b).1 (preOf b).2
  (q.1, sortByChar q.2)

/-- One trip on the lig/kern layer. `none`: the model has no result (a step the serialiser
cannot write, more than 256 redirects). -/
def predict (b : RawLK) : Option RawLK :=
  let q := plOf b
  let u := unpackKerns q.1.instrs
  match pack ⟨u.1, q.1.lb, q.1.rb⟩ q.2 with
  | none => none
  | some (P, pe) =>
    match P.instrs.mapM (encodeWord P.rb) with
    | none => none
    | some ws => some ⟨ws, pe, u.2⟩

/-- The `(left, right) ↦ operation` function TeX gets from a raw lig/kern layer. -/
def rawRule (b : RawLK) (l : Option Nat) (r : Nat) : Option C05.Op :=
  C05.rule (toC05 (decodeRaw b.words) (unpackAll (decodeRaw b.words).instrs b.ligs) b.kerns) l r

/-- The quantifier at byte level: the characters with a lig tag are distinct, and the decoded
program satisfies `nwf` (SKIPs inside the table, entry points address words, the left-boundary
entry point a word other than the last, no reachable word is a redirect word — tftopl warns
or C11-f otherwise). -/
def rawOk (b : RawLK) : Bool :=
  decide ((b.ligs.map (·.1)).Nodup) && nwf (preOf b).1 (preOf b).2

end C11
