import TexcraftModel.Model.C09

/-
C09 (deepening round) — three more pieces of the interpreter that can only fail by panicking,
modelled so that their totality is a theorem instead of a search result:

* the allocation component of `crates/texlang-stdlib/src/alloc.rs` (`\newIntArray`: one flat
  vector `arrays` shared by all arrays, `array_refs` from command name to (start, len),
  `resolve` with its bound check, element access `arrays[index]`);
* the input stack depth (`crates/texlang-stdlib/src/input.rs` `input_fn`: the level check
  before `push_source`; `vm::Internal::{push_source, pop_source}`);
* (protocol) nothing new is modelled: the cross-mode relation is a theorem about `run`.
-/
namespace C09

/-! ## `\newIntArray` -/

/-- `alloc::Component` as far as arrays are concerned. `refs` is `array_refs` (a `HashMap`;
`insert` overrides, modelled as an association list where the first entry for a name wins).
The map is *not* scoped by groups in the code (only the command map is), so groups do not
appear here: an entry, once made, stays. -/
structure Alloc where
  arrays : List Int
  refs : List (Nat × Nat × Nat)
  deriving DecidableEq, Repr

def Alloc.empty : Alloc := ⟨[], []⟩

def lookupRef : List (Nat × Nat × Nat) → Nat → Option (Nat × Nat)
  | [], _ => none
  | (n, s, l) :: rest, name => if n = name then some (s, l) else lookupRef rest name

/-- `newintarray_primitive_fn`: `start = arrays.len(); arrays.resize(start + len, 0);
array_refs.insert(name, (start, len))`. -/
def newIntArray (a : Alloc) (name len : Nat) : Alloc :=
  ⟨a.arrays ++ List.replicate len 0, (name, a.arrays.length, len) :: a.refs⟩

/-- `Vec::resize(n, 0)`: truncate or extend to exactly `n` elements. -/
def resizeTo (l : List Int) (n : Nat) : List Int :=
  if n ≤ l.length then l.take n else l ++ List.replicate (n - l.length) 0

/-- Mutant 29 of the sweep: `arrays.resize(len, 0)` (the start offset forgotten). -/
def newIntArrayBad (a : Alloc) (name len : Nat) : Alloc :=
  ⟨resizeTo a.arrays len, (name, a.arrays.length, len) :: a.refs⟩

inductive Resolved where
  /-- the flat index into `arrays`; `recovered` = the written index was out of the range of
  `Uint<i32::MAX>` (recoverable error, 0 used) -/
  | index (flat : Nat) (recovered : Bool)
  /-- fatal error: the command does not name an array (C09-j) or "Array out of bounds"
  (`recovered`: after a recoverable error for the written index) -/
  | fatal (recovered : Bool)
  deriving DecidableEq, Repr

/-- `alloc::resolve` (with fixes/C09-j): look the command name up, scan the inner index with
`Uint<{i32::MAX}>`, compare it with the length. `strict = true` is the code; `false` is
mutant 08 (`>` instead of `>=`). -/
def resolveWith (strict : Bool) (a : Alloc) (name : Nat) (i : Int) : Resolved :=
  match lookupRef a.refs name with
  | none => .fatal false
  | some (start, len) =>
    let (inner, recovered) :=
      match uintBound 2147483647 i with
      | .ok v => (v, false)
      | .err v => (v, true)
      | .panic => (0, true)
    if (if strict then len ≤ inner else len < inner) then .fatal recovered
    else .index (start + inner) recovered

def resolve := resolveWith true

inductive AOp where
  | new (name len : Nat)
  | write (name : Nat) (i v : Int)
  | read (name : Nat) (i : Int)
  deriving DecidableEq, Repr

inductive AOut where
  /-- `\the\J i` printed this value -/
  | val (v : Int)
  /-- a recoverable error was reported (index scanned out of `Uint` range) -/
  | recovered
  /-- fatal error: the run ends here -/
  | fatal
  /-- `arrays[index]`: index out of bounds -/
  | panic
  deriving DecidableEq, Repr

/-- Run a sequence of allocations and accesses; a fatal error or a panic ends the run.
`alloc` is the allocation function (the code's, or a mutant's), `strict` as in `resolveWith`. -/
def runOpsWith (alloc : Alloc → Nat → Nat → Alloc) (strict : Bool) : Alloc → List AOp → List AOut
  | _, [] => []
  | a, .new name len :: ops => runOpsWith alloc strict (alloc a name len) ops
  | a, .write name i v :: ops =>
    match resolveWith strict a name i with
    | .fatal r => (if r then [.recovered] else []) ++ [.fatal]
    | .index f r =>
      if f < a.arrays.length then
        (if r then [.recovered] else []) ++ runOpsWith alloc strict { a with arrays := a.arrays.set f v } ops
      else (if r then [.recovered] else []) ++ [.panic]
  | a, .read name i :: ops =>
    match resolveWith strict a name i with
    | .fatal r => (if r then [.recovered] else []) ++ [.fatal]
    | .index f r =>
      match a.arrays[f]? with
      | some v => (if r then [.recovered] else []) ++ .val v :: runOpsWith alloc strict a ops
      | none => (if r then [.recovered] else []) ++ [.panic]

/-- The code. -/
def runOps := runOpsWith newIntArray true

/-- Every recorded array lies inside the storage. -/
def Alloc.WF (a : Alloc) : Prop := ∀ e ∈ a.refs, e.2.1 + e.2.2 ≤ a.arrays.length

/-! ## Input stack depth -/

inductive IOp where
  /-- `\input` of a readable file: level check, then `push_source` -/
  | input
  /-- the current source is exhausted: `pop_source` -/
  | endSource
  deriving DecidableEq, Repr

/-- One operation on `n = sources.len()` (`num_current_sources() = n + 1`); `none` is the fatal
error "too many input levels (100)". -/
def stepI (n : Nat) : IOp → Option Nat
  | .input => if 100 < n + 1 then none else some (n + 1)
  | .endSource => some (n - 1)

/-- The stack depths visited by a run that starts with `n` sources (the run ends at the fatal
error). -/
def depths : Nat → List IOp → List Nat
  | n, [] => [n]
  | n, op :: ops =>
    match stepI n op with
    | none => [n]
    | some n' => n :: depths n' ops

/-- Does the run end with the fatal error? -/
def endsFatal : Nat → List IOp → Bool
  | _, [] => false
  | n, op :: ops =>
    match stepI n op with
    | none => true
    | some n' => endsFatal n' ops

def maxDepth (n : Nat) (ops : List IOp) : Nat := (depths n ops).foldl max 0

/-! ## The gutter of a rendered error block (`error/display.rs`: `Printer`, `PrintLineBuilder::print`) -/

/-- `n.to_string().len()`. -/
def digits (n : Nat) : Nat := if n < 10 then 1 else 1 + digits (n / 10)
termination_by n
decreasing_by omega

/-- `PrimaryLine::fmt`: the printer of a block is sized from the block's *own* line number. -/
def printerWidth (lineNumber : Nat) : Nat := digits lineNumber + 1

/-- The padding computed by `PrintLineBuilder::print` with plain subtraction
(`indent - indent_adjustment - (margin_content.len() + 1)`): `none` is the underflow. The code
uses `saturating_sub`; `gutter_never_saturates` shows that with the block's own width the two
agree, i.e. the saturation is never needed. -/
def gutterPad (width adj marginLen : Nat) : Option Nat :=
  if adj ≤ width then
    if marginLen + 1 ≤ width - adj then some (width - adj - (marginLen + 1)) else none
  else none

/-- … as coded: `indent.saturating_sub(adj).saturating_sub(margin_len + 1)`. -/
def gutterPadSat (width adj marginLen : Nat) : Nat := width - adj - (marginLen + 1)

/-- The three kinds of line of a block: the `>>> file:line:col` header (no margin content,
adjustment 1), the empty `|` lines (no margin content), the source line (margin = the number). -/
def headerPad (n : Nat) : Option Nat := gutterPad (printerWidth n) 1 0
def blankPad (n : Nat) : Option Nat := gutterPad (printerWidth n) 0 0
def sourcePad (n : Nat) : Option Nat := gutterPad (printerWidth n) 0 (digits n)

/-- Seeded change C09-r4-3: one printer, sized from the error token's line `e`, also prints the
context block whose source line is `c`. -/
def sharedSourcePad (e c : Nat) : Option Nat := gutterPad (printerWidth e) 0 (digits c)

/-! ## An equivalent mutant (sweep m11): `cases_left_to_skip >= 0` instead of `> 0` -/

def ifcaseLoopGe : Int → Nat → Nat → Option Nat
  | _, _, 0 => none
  | c, j, k + 1 =>
    if 0 ≤ c then
      if c - 1 = 0 then some (j + 1) else ifcaseLoopGe (c - 1) (j + 1) k
    else ifcaseLoopGe c (j + 1) k

end C09
