/-
C11 — the header layer of one TFM→PL→TFM trip at byte level.

`headerTrip safe hb`: `hb` are the header bytes of t0 (4·lh of them), `safe` the seven-bit
safety of the font (`safe7`, `Model/C11Words.lean`). tftopl prints CHECKSUM, DESIGNSIZE, the two
strings (when the header is long enough to hold them, upper-cased: validate.rs `validate_string`;
the PL reader drops the blanks in front of them),
FACE (when present) and HEADER words 18..; pltotf writes an 18-word header plus those words,
with `UNSPECIFIED` / face 0 for what was absent (`Header::pl_default`), the flag byte it computes
(pl/mod.rs:544–553) and zero padding (serialize.rs `serialize_header`, `serialize_string`).
The three recorded normalisations C11-c/d/e are exactly the places where the result differs
from the input. Parameters are copied word for word (their text is exact: C17). Core Lean only.
-/
namespace C11

def upperByte (c : Nat) : Nat := if 97 ≤ c ∧ c ≤ 122 then c - 32 else c

/-- The blanks in front of a string are not part of it in a property list: the PL reader skips
the blanks behind the keyword (known finding C11-g); blanks inside and at the end are kept. -/
def dropLead (l : List Nat) : List Nat := l.dropWhile (· == 32)

/-- `UNSPECIFIED` -/
def unspecified : List Nat := [85, 78, 83, 80, 69, 67, 73, 70, 73, 69, 68]

/-- The BCPL string at offset `off` (length byte, then the characters). -/
def strAt (hb : List Nat) (off : Nat) : List Nat := (hb.drop (off + 1)).take ((hb[off]?).getD 0)

/-- `serialize_string`: length byte, the characters, zero padding up to `size` characters. -/
def encStr (size : Nat) (cs : List Nat) : List Nat := cs.length :: cs ++ List.replicate (size - cs.length) 0

def headerTrip (safe : Bool) (hb : List Nat) : List Nat :=
  let scheme := if 48 ≤ hb.length then (dropLead (strAt hb 8)).map upperByte else unspecified
  let family := if 68 ≤ hb.length then (dropLead (strAt hb 48)).map upperByte else unspecified
  let face := if 72 ≤ hb.length then (hb[71]?).getD 0 else 0
  hb.take 8 ++ encStr 39 scheme ++ encStr 19 family ++ [if safe then 128 else 0, 0, 0, face] ++ hb.drop 72

/-- A header tftopl accepts silently: at least checksum and design size, and strings (where
present) that fit their fields. -/
def headerOk (hb : List Nat) : Bool :=
  decide (8 ≤ hb.length) && decide ((hb[8]?).getD 0 ≤ 39) && decide ((hb[48]?).getD 0 ≤ 19)

end C11
