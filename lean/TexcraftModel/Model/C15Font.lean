import TexcraftModel.Model.C15

/-!
C15 — where the glyph metrics come from: model of `boxworks_text::TfmFontRepo`
(`crates/boxworks-text/src/lib.rs`) on top of `tfm::File::{width,height,depth}_utf8`
(`crates/tfm/src/lib.rs`), i.e. the font repository that every caller in /repo hands to
`HBox::pack`. A font is the raw content of a TFM file as `pack` can see it: the
`char_dimens` map (character code → indices into the tables) and the width, height and depth
tables. The tables are taken *after* `FixWord::to_scaled(design_size)` (that conversion is
C17's subject). Core Lean only.
-/
namespace C15

/-- `tfm::CharDimensions` (indices only). `widthIndex = 0` is `WidthIndex::Invalid`. -/
structure CharDimens where
  widthIndex : Nat
  heightIndex : Nat
  depthIndex : Nat
  deriving DecidableEq, Repr, Inhabited

/-- The parts of a `tfm::File` that the metric lookups read. -/
structure TfmFont where
  chars : List (Nat × CharDimens)
  widths : List Int
  heights : List Int
  depths : List Int
  deriving Repr, Inhabited

/-- `BTreeMap::get` / `HashMap::get` on an association list with distinct keys. -/
def assoc {α : Type} : List (Nat × α) → Nat → Option α
  | [], _ => none
  | (k, v) :: l, key => if k = key then some v else assoc l key

/-- `let char: Char = char.try_into().ok()?; self.char_dimens.get(&char)?` — characters
above 255 are not TFM characters. -/
def TfmFont.dimens (f : TfmFont) (c : Nat) : Option CharDimens :=
  if 256 ≤ c then none else assoc f.chars c

/-- `File::width_utf8`: `dimens.width_index.valid()?` then `self.widths.get(i)?`. -/
def TfmFont.width (f : TfmFont) (c : Nat) : Option Int :=
  match f.dimens c with
  | none => none
  | some d => if d.widthIndex = 0 then none else f.widths[d.widthIndex]?

/-- `File::height_utf8`: `self.heights.get(dimens.height_index)?` (no validity test). -/
def TfmFont.height (f : TfmFont) (c : Nat) : Option Int :=
  match f.dimens c with
  | none => none
  | some d => f.heights[d.heightIndex]?

/-- `File::depth_utf8`. -/
def TfmFont.depth (f : TfmFont) (c : Nat) : Option Int :=
  match f.dimens c with
  | none => none
  | some d => f.depths[d.depthIndex]?

/-- `TfmFontRepo { fonts: HashMap<u32, tfm::File> }`. -/
abbrev Repo := List (Nat × TfmFont)

/-- A node of the list as the caller builds it: glyph nodes name a character and a font. -/
inductive Node
  /-- `Char { char, font }` or `Ligature { char, font, .. }`. -/
  | glyph (c font : Nat)
  | other (i : Item)
  deriving Repr, Inhabited

/-- What `pack` gets for one node: the three answers of `TfmFontRepo::{width,height,depth}`.
`none` = the font is not registered: `self.fonts[&font]` panics. -/
def Node.resolve (r : Repo) : Node → Option Item
  | .glyph c font =>
    match assoc r font with
    | none => none
    | some f => some (.char (f.width c) (f.height c) (f.depth c))
  | .other i => some i

def resolve (r : Repo) : List Node → Option (List Item)
  | [] => some []
  | n :: ns =>
    match n.resolve r, resolve r ns with
    | some i, some l => some (i :: l)
    | _, _ => none

/-- **M** with the real font repository: `HBox::pack(&tfm_font_repo, list, pack_width)`;
`none` = panic (a glyph of an unregistered font). -/
def hpackTfm (r : Repo) (ns : List Node) (pw : PackWidth) : Option HBox :=
  match resolve r ns with
  | none => none
  | some l => some (hpack l pw)

/-! ### S: what each node contributes, read off the raw tables -/

/-- TeX §654 `char_width(f)(char_info(f)(c))`: the width table entry of the character in
*its* font; a character that is not in the font (no entry, invalid index, index outside the
table, code above 255) contributes nothing. -/
def Node.width (r : Repo) : Node → Int
  | .glyph c font =>
    match assoc r font with
    | none => 0
    | some f => (f.width c).getD 0
  | .other i => i.natWidth

/-- §654: `char_height`; only for a character that exists (has a width); 0 if the height
index is outside the table. -/
def Node.height (r : Repo) : Node → Int
  | .glyph c font =>
    match assoc r font with
    | none => 0
    | some f => if (f.width c).isSome then (f.height c).getD 0 else 0
  | .other i => i.boxHeight

def Node.depth (r : Repo) : Node → Int
  | .glyph c font =>
    match assoc r font with
    | none => 0
    | some f => if (f.width c).isSome then (f.depth c).getD 0 else 0
  | .other i => i.boxDepth

/-- Every glyph's font is registered (otherwise `pack` panics inside `TfmFontRepo`). -/
def Node.registered (r : Repo) : Node → Bool
  | .glyph _ font => (assoc r font).isSome
  | .other _ => true

end C15
