/-!
C10 — the number readers of the PL front end: model of `impl Parse for u32`
(`crates/tfm/src/pl/ast.rs:918-985`, PLtoTF.2014.59-60), `impl Parse for FixWord`
(ast.rs:1099-1203, PLtoTF.2014.62-66), `parse_u8` / `impl Parse for u8`
(ast.rs:987-1004, 1320-1410, PLtoTF.2014.51-55), of the `Input` cursor they read from
(ast.rs:821-907) and of `find_junk` as `SingleValue::from_cst_node` calls it (ast.rs:168-178).

The input is the *data* of a CST node (what follows the key and its blanks, up to the next
parenthesis), as a `List Char`; positions are relative to its start.  Machine widths are
explicit: every `checked_mul(..).unwrap()` / `checked_add(..).unwrap()` of the `FixWord`
reader is `ck32`, which returns `none` where the Rust code would panic, and the outcome is then
`Out.panic`; the `u32` and `u8` readers use `checked_*` with an error branch, which is the
`tooBig` warning here.  `Props/C10.lean` proves that `panic` is unreachable (`number_total`)
— i.e. the comment "The arithmetic here is guaranteed to succeed because we impose
acc <= 2048" is a theorem.

`NonVisibleAsciiCharacter` warnings (issued by `Input::next` for every consumed character that
is not a visible ASCII character) are not modelled; the harness filters them out.
Core Lean only.
-/
namespace C10.Num

/-- `Input`: the unread characters and the position of the next one (`raw_data_span.start`). -/
structure In where
  rest : List Char
  pos : Nat

/-- Warning kinds of these readers (`ParseWarningKind`). -/
inductive Kind
  | invalidPrefixForInteger
  | invalidOctalDigit
  | integerIsTooBig (radix : Nat)
  | invalidPrefixForDecimalNumber
  | decimalNumberIsTooBig
  | smallIntegerIsTooBig (radix : Nat)
  | emptyCharacterValue
  | invalidFaceCode
  | invalidPrefixForSmallInteger
  | junkAfterPropertyValue
  deriving DecidableEq, Repr

/-- A warning: kind, span, `knuth_pltotf_offset`. -/
structure Warn where
  kind : Kind
  start : Nat
  stop : Nat
  offset : Nat
  deriving DecidableEq, Repr

/-- Result of a reader: the value, the span it reports, the warnings (in order), and where
the cursor stands. -/
structure Res where
  value : Int
  start : Nat
  stop : Nat
  warns : List Warn
  after : In

inductive Out
  | ok (r : Res)
  | panic

/-- `consume_spaces`. -/
def dropSpaces : List Char → Nat → In
  | [], p => ⟨[], p⟩
  | c :: t, p => if c = ' ' ∨ c = '\n' then dropSpaces t (p + 1) else ⟨c :: t, p⟩

def consumeSpaces (i : In) : In := dropSpaces i.rest i.pos

/-- `skip_to_end`. -/
def skipToEnd (i : In) : In := ⟨[], i.pos + i.rest.length⟩

/-- `char::to_digit(radix)` for radix 8, 10 or 16. -/
def toDigit (radix : Nat) (c : Char) : Option Nat :=
  let v : Option Nat :=
    if '0' ≤ c ∧ c ≤ '9' then some (c.toNat - 48)
    else if 'a' ≤ c ∧ c ≤ 'f' then some (c.toNat - 87)
    else if 'A' ≤ c ∧ c ≤ 'F' then some (c.toNat - 55)
    else none
  match v with
  | some d => if d < radix then some d else none
  | none => none

/-- Skip the rest of an integer constant (`while let Some(c) = peek { to_digit(radix) … next }`). -/
def skipDigits (radix : Nat) : List Char → Nat → In
  | [], p => ⟨[], p⟩
  | c :: t, p => if (toDigit radix c).isSome then skipDigits radix t (p + 1) else ⟨c :: t, p⟩

/-- `find_junk(false)`. -/
def findJunk (i : In) : List Warn :=
  let j := consumeSpaces i
  if j.rest.isEmpty then []
  else [⟨.junkAfterPropertyValue, j.pos, j.pos + j.rest.length, j.pos + 1⟩]

/-! ## `u32` -/

def u32Max : Nat := 4294967295

/-- The digit loop of `u32::parse`: returns the accumulator, an optional warning and the cursor. -/
def u32Digits (radix numStart : Nat) : List Char → Nat → Nat → Nat × Option Warn × In
  | [], p, acc => (acc, none, ⟨[], p⟩)
  | c :: t, p, acc =>
    match toDigit 16 c with
    | none => (acc, none, ⟨c :: t, p⟩)
    | some n =>
      -- `input.next()`
      if n ≥ radix then
        (acc, some ⟨.invalidOctalDigit, p, p + 1, p + 1⟩, skipToEnd ⟨t, p + 1⟩)
      else if acc * radix + n > u32Max then
        -- overflow: advance to the end of the constant, then skip everything
        let e := skipDigits radix t (p + 1)
        (acc, some ⟨.integerIsTooBig radix, numStart, e.pos, p + 1⟩, skipToEnd e)
      else u32Digits radix numStart t (p + 1) (acc * radix + n)

def parseU32 (i0 : In) : Res :=
  let i := consumeSpaces i0
  let start := i.pos
  match i.rest with
  | [] =>
    -- `last_span(None)`
    ⟨0, i.pos, i.pos, [⟨.invalidPrefixForInteger, i.pos, i.pos, i.pos⟩], skipToEnd i⟩
  | c :: t =>
    let radix : Option Nat := if c = 'O' ∨ c = 'o' then some 8 else if c = 'H' ∨ c = 'h' then some 16 else none
    match radix with
    | none =>
      ⟨0, i.pos, i.pos + 1, [⟨.invalidPrefixForInteger, i.pos, i.pos + 1, i.pos + 1⟩], skipToEnd ⟨t, i.pos + 1⟩⟩
    | some r =>
      let j := consumeSpaces ⟨t, i.pos + 1⟩
      let d := u32Digits r j.pos j.rest j.pos 0
      ⟨d.1, start, d.2.2.pos, d.2.1.toList, d.2.2⟩

/-! ## `FixWord` -/

/-- A value that must fit in `i32`, or `none` (the `unwrap` panics). -/
def ck32 (x : Int) : Option Int := if -2147483648 ≤ x ∧ x ≤ 2147483647 then some x else none

/-- PLtoTF.2014.63: signs and blanks; returns `negative` and the cursor. -/
def signs : List Char → Nat → Bool → Bool × In
  | [], p, neg => (neg, ⟨[], p⟩)
  | c :: t, p, neg =>
    if c = '+' ∨ c = ' ' then signs t (p + 1) neg
    else if c = '-' then signs t (p + 1) (!neg)
    else (neg, ⟨c :: t, p⟩)

/-- PLtoTF.2014.64: the integer part, clamped at 2048; `none` = an `unwrap` panics. -/
def intPart : List Char → Nat → Int → Option (Int × In)
  | [], p, acc => some (acc, ⟨[], p⟩)
  | c :: t, p, acc =>
    match toDigit 10 c with
    | none => some (acc, ⟨c :: t, p⟩)
    | some d =>
      match ck32 (acc * 10) with
      | none => none
      | some a =>
        match ck32 (a + d) with
        | none => none
        | some a' => intPart t (p + 1) (if a' ≥ 2048 then 2048 else a')

/-- PLtoTF.2014.66: up to seven fraction digits, each stored as `2^21 * d`. -/
def fracDigits : Nat → List Char → Nat → Option (List Int × In)
  | 0, l, p => some ([], ⟨l, p⟩)
  | _ + 1, [], p => some ([], ⟨[], p⟩)
  | k + 1, c :: t, p =>
    match toDigit 10 c with
    | none => some ([], ⟨c :: t, p⟩)
    | some d =>
      match ck32 (2097152 * d) with
      | none => none
      | some s =>
        match fracDigits k t (p + 1) with
        | none => none
        | some (ds, i) => some (s :: ds, i)

/-- `for j in (0..7).rev() { acc = fractional_digits[j].checked_add(acc / 10).unwrap() }`
(the missing digits are zeros, which leave `acc / 10 = 0`); `ds` in reading order. -/
def fracFold : List Int → Option Int
  | [] => some 0
  | d :: ds =>
    match fracFold ds with
    | none => none
    | some acc => ck32 (d + acc / 10)

def fixOne : Int := 1048576

/-- The fractional part (`if input.peek() == Some('.') { … }`), rounded to 20 bits:
`(acc + 10) / 20`; `none` = an `unwrap` (or the plain `acc + 10`) panics. -/
def fracPart (k : In) : Option (Int × In) :=
  match k.rest with
  | '.' :: t' =>
    match fracDigits 7 t' (k.pos + 1) with
    | none => none
    | some (ds, m) =>
      match fracFold ds with
      | none => none
      | some acc =>
        -- `acc = (acc + 10) / 20` (a plain `+`: overflow checks are on)
        match ck32 (acc + 10) with
        | none => none
        | some a => some (a / 20, m)
  | _ => some (0, k)

def parseFix (i0 : In) : Out :=
  let i := consumeSpaces i0
  let start := i.pos
  match i.rest with
  | [] => .ok ⟨0, i.pos, i.pos, [⟨.invalidPrefixForDecimalNumber, i.pos, i.pos, i.pos⟩], skipToEnd i⟩
  | c :: t =>
    if ¬ (c = 'D' ∨ c = 'd' ∨ c = 'R' ∨ c = 'r') then
      .ok ⟨0, i.pos, i.pos + 1, [⟨.invalidPrefixForDecimalNumber, i.pos, i.pos + 1, i.pos + 1⟩],
        skipToEnd ⟨t, i.pos + 1⟩⟩
    else
      let j := consumeSpaces ⟨t, i.pos + 1⟩
      let numStart := j.pos
      let s := signs j.rest j.pos false
      match intPart s.2.rest s.2.pos 0 with
      | none => .panic
      | some (ip, k) =>
        -- the fraction
        let fr := fracPart k
        match fr with
        | none => .panic
        | some (fp, m) =>
          if ip ≥ 2048 ∨ (fp ≥ fixOne ∧ ip = 2047) then
            .ok ⟨if ip = 2047 then fixOne else 0, start, m.pos,
              [⟨.decimalNumberIsTooBig, numStart, m.pos, numStart⟩], skipToEnd m⟩
          else
            match ck32 (ip * fixOne) with
            | none => .panic
            | some a =>
              match ck32 (a + fp) with
              | none => .panic
              | some modulus =>
                if s.1 then
                  match ck32 (modulus * -1) with
                  | none => .panic
                  | some r => .ok ⟨r, start, m.pos, [], m⟩
                else .ok ⟨modulus, start, m.pos, [], m⟩

/-! ## `u8` (character codes: `C`, `D`, `O`, `H`, `F` data) -/

/-- `parse_number` of `parse_u8`: `Except` the `SmallIntegerIsTooBig` error. -/
def u8Digits (radix start : Nat) : List Char → Nat → Nat → Except (Warn × In) (Nat × In)
  | [], p, acc => .ok (acc, ⟨[], p⟩)
  | c :: t, p, acc =>
    match toDigit radix c with
    | none => .ok (acc, ⟨c :: t, p⟩)
    | some n =>
      if acc * radix + n > 255 then
        let e := skipDigits radix t (p + 1)
        .error (⟨.smallIntegerIsTooBig radix, start, e.pos, p + 1⟩, e)
      else u8Digits radix start t (p + 1) (acc * radix + n)

def u8Number (radix : Nat) (i : In) : Except (Warn × In) (Nat × In) :=
  let j := consumeSpaces i
  u8Digits radix j.pos j.rest j.pos 0

/-- One letter of a face code: value and cursor (`input.next()` consumes it if there is one). -/
def faceLetter (tbl : List (Char × Char × Nat)) (i : In) : Nat × In :=
  match i.rest with
  | [] => (18, i)
  | c :: t =>
    ((match tbl.find? (fun e => c = e.1 ∨ c = e.2.1) with | some e => e.2.2 | none => 18), ⟨t, i.pos + 1⟩)

/-- `parse_u8`. -/
def parseU8Core (i : In) : Except (Warn × In) (Nat × In) :=
  match i.rest with
  | [] => .error (⟨.invalidPrefixForSmallInteger, i.pos, i.pos, i.pos + 1⟩, i)
  | c :: t =>
    let i1 : In := ⟨t, i.pos + 1⟩
    if c = 'C' ∨ c = 'c' then
      let j := consumeSpaces i1
      match j.rest with
      | [] => .error (⟨.emptyCharacterValue, j.pos, j.pos, j.pos⟩, j)
      | x :: t' => .ok ((if ' ' ≤ x ∧ x ≤ '~' then x.toNat else 127), ⟨t', j.pos + 1⟩)
    else if c = 'D' ∨ c = 'd' then u8Number 10 i1
    else if c = 'O' ∨ c = 'o' then u8Number 8 i1
    else if c = 'H' ∨ c = 'h' then u8Number 16 i1
    else if c = 'F' ∨ c = 'f' then
      let j := consumeSpaces i1
      let a := faceLetter [('M', 'm', 0), ('B', 'b', 2), ('L', 'l', 4)] j
      let b := faceLetter [('R', 'r', 0), ('I', 'i', 1)] a.2
      let d := faceLetter [('R', 'r', 0), ('C', 'c', 6), ('E', 'e', 12)] b.2
      let acc := a.1 + b.1 + d.1
      if acc ≥ 18 then .error (⟨.invalidFaceCode, j.pos, d.2.pos, d.2.pos⟩, d.2)
      else .ok (acc, d.2)
    else .error (⟨.invalidPrefixForSmallInteger, i.pos, i.pos + 1, i.pos + 2⟩, i1)

/-- `impl Parse for u8`: an error becomes a warning, the value 0, and the rest is skipped. -/
def parseU8 (i0 : In) : Res :=
  let i := consumeSpaces i0
  match parseU8Core i with
  | .ok (v, j) => ⟨v, i.pos, j.pos, [], j⟩
  | .error (w, j) => let e := skipToEnd j; ⟨0, i.pos, e.pos, [w], e⟩

/-- `SingleValue::<D>::from_cst_node`: the reader, then `find_junk(false)`. -/
def withJunk (r : Res) : Res := { r with warns := r.warns ++ findJunk r.after }

end C10.Num
