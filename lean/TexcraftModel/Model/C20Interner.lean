import TexcraftModel.Model.C20

/-!
# C20 — string interner, model and specification

Source: `crates/texcraft-stdext/src/collections/interner.rs`.

* strings are lists of bytes (`List Nat`); `buffer.len()` is a byte length;
* the hash function is a **parameter** `h : List Nat → Nat` (nothing is assumed of it);
* keys are `Nat` (`NonZeroU32`: key = index + 1). The `u32` range of keys is *not* modelled:
  `K::try_from_usize(..).unwrap()` panics after 2^32 − 1 distinct strings, outside the quantifier;
* `dedup : HashMap<u64, LinkedList<K>>` is an association list hash ↦ list of keys (head =
  most recently interned, as `populate_dedup_map` prepends);
* `&self.buffer[start..end]` panics when `start > end` or `end > len`: `Res.panic`;
  `resolve(..).unwrap()` in `get_internal` panics on `None`: `Res.panic`.
-/
namespace C20.Intern

abbrev Str := List Nat

structure Interner where
  buffer : List Nat
  ends : List Nat
  dedup : AList Nat (List Nat)
  deriving Repr

def empty : Interner := { buffer := [], ends := [], dedup := [] }

/-- `&buffer[start..end]` -/
def slice (buffer : List Nat) (start stop : Nat) : Res Str :=
  if start ≤ stop ∧ stop ≤ buffer.length then .ok ((buffer.drop start).take (stop - start)) else .panic

/-- `Interner::resolve` (interner.rs:179-194). Key `0` is not representable (`NonZeroU32`). -/
def resolve (st : Interner) (k : Nat) : Res (Option Str) :=
  match k with
  | 0 => .ok none
  | i + 1 =>
    let start? : Option Nat := match i with
      | 0 => some 0
      | p + 1 => st.ends[p]?
    match start? with
    | none => .ok none
    | some start =>
      match st.ends[i]? with
      | none => .ok none
      | some stop =>
        match slice st.buffer start stop with
        | .ok s => .ok (some s)
        | .panic => .panic
        | .fuel => .fuel

/-- The `while let Some(node)` walk of `get_internal` over one linked list. -/
def walk (st : Interner) (s : Str) : List Nat → Res (Option Nat)
  | [] => .ok none
  | key :: rest =>
    match resolve st key with
    | .ok (some t) => if t = s then .ok (some key) else walk st s rest
    | .ok none => .panic                      -- `.unwrap()`
    | .panic => .panic
    | .fuel => .fuel

/-- `get_internal(s, hash)` -/
def getInternal (st : Interner) (s : Str) (hash : Nat) : Res (Option Nat) :=
  match alookup st.dedup hash with
  | none => .ok none
  | some keys => walk st s keys

/-- `Interner::get` -/
def get (h : Str → Nat) (st : Interner) (s : Str) : Res (Option Nat) := getInternal st s (h s)

/-- `populate_dedup_map` -/
def populate (d : AList Nat (List Nat)) (hash key : Nat) : AList Nat (List Nat) :=
  match alookup d hash with
  | some l => ainsert hash (key :: l) d      -- Occupied: new node in front, old list behind
  | none => ainsert hash [key] d             -- Vacant

/-- `Interner::get_or_intern` (interner.rs:141-156) -/
def getOrIntern (h : Str → Nat) (st : Interner) (s : Str) : Res (Interner × Nat) :=
  match getInternal st s (h s) with
  | .ok (some key) => .ok (st, key)
  | .ok none =>
    let key := st.ends.length + 1            -- `K::try_from_usize(self.ends.len()).unwrap()`
    let buffer := st.buffer ++ s
    .ok ({ buffer := buffer, ends := st.ends ++ [buffer.length], dedup := populate st.dedup (h s) key }, key)
  | .panic => .panic
  | .fuel => .fuel

/-- Intern a whole list; the keys returned, in order. -/
def internAll (h : Str → Nat) : Interner → List Str → Res (Interner × List Nat)
  | st, [] => .ok (st, [])
  | st, s :: ss =>
    match getOrIntern h st s with
    | .ok (st', k) =>
      match internAll h st' ss with
      | .ok (st'', ks) => .ok (st'', k :: ks)
      | .panic => .panic
      | .fuel => .fuel
    | .panic => .panic
    | .fuel => .fuel

/-- The loop of `Deserialize::deserialize` (interner.rs:273-279): `i`, `start`, remaining ends. -/
def rebuildLoop (h : Str → Nat) (buffer : List Nat) :
    List Nat → Nat → Nat → AList Nat (List Nat) → Res (AList Nat (List Nat))
  | [], _, _, d => .ok d
  | e :: es, i, start, d =>
    match slice buffer start e with
    | .ok s => rebuildLoop h buffer es (i + 1) e (populate d (h s) (i + 1))
    | .panic => .panic
    | .fuel => .fuel

/-- Deserialisation: `buffer` and `ends` are read, `dedup` is rebuilt with the (new) hasher. -/
def rebuild (h : Str → Nat) (buffer ends : List Nat) : Res Interner :=
  match rebuildLoop h buffer ends 0 0 [] with
  | .ok d => .ok { buffer := buffer, ends := ends, dedup := d }
  | .panic => .panic
  | .fuel => .fuel

/-! ## Specification: the list of distinct strings in first-occurrence order -/

/-- Position of `s` in `l`. -/
def indexOf? (s : Str) : List Str → Option Nat
  | [] => none
  | t :: ts => if t = s then some 0 else (indexOf? s ts).map (· + 1)

/-- Spec state = distinct strings interned so far. Interning returns index + 1. -/
def specIntern (strs : List Str) (s : Str) : List Str × Nat :=
  match indexOf? s strs with
  | some i => (strs, i + 1)
  | none => (strs ++ [s], strs.length + 1)

def specInternAll : List Str → List Str → List Str × List Nat
  | strs, [] => (strs, [])
  | strs, s :: ss =>
    let r := specIntern strs s
    let rs := specInternAll r.1 ss
    (rs.1, r.2 :: rs.2)

def specResolve (strs : List Str) (k : Nat) : Option Str :=
  match k with
  | 0 => none
  | i + 1 => strs[i]?

end C20.Intern
