import TexcraftModel.Model.C01

/-!
# C08 — checkpointing a VM: model of `serialize` / `deserialize`

Sources (all under `/repo/crates`):

* `texlang/src/vm/serde.rs`        — `SerializableVM::new` (45-60), `finish_deserialization` (86-120);
* `texlang/src/command/map.rs`     — `SerializableCommand` (244-253), `SerializableMap` (255-262),
  `SerializableMap::new` (275-331), `SerializableMap::finish_deserialization` (333-397),
  `primitive_key_to_built_in` / `getters_key_to_built_in` (190-226);
* `texlang/src/variable.rs`        — `SaveStackMap::serializable` (720-733),
  `SaveStackMap::from_deserialized` (736-760);
* `texcraft-stdext/.../groupingmap.rs` — `iter_all` and `FromIterator`, through `C20.GMap.iterAll` /
  `C20.GMap.fromIter` (property C20: verified transcription);
* the VM state is C01's `VMState` (`Model/C01.lean`), the continuation after the checkpoint is
  C01's `run` with all of C01's repairs in place (`Variant.fixed`).

The model describes the code **after** the repair `fixes/C08-a.patch` (`fixActive = true`):
`SerializableMap` carries the active characters through the same `iter_all` → `FromIterator` path as
the control sequences. The behaviour before the repair (`fixActive = false`: `finish_deserialization`
builds an `active_char` container that has the right number of open groups — C01-b's part — but
no definition) is kept so that the witness can be evaluated.

What is a *runtime fact* here and covered by the correspondence check only (stated in
`meta/C08.json`): the three encoders (everything `#[derive(Serialize, Deserialize)]` produces is
the identity in the model: `vars`, `font`, `fontSave`, `scopeBit`, and the grouping containers of
serialisable commands), function-pointer identity behind `PrimitiveKey` / `GettersKey` (the model's
primitives and variables *are* their identity), the regeneration of `Tag`s, and the interner
(names are the interned keys; `buffer`/`ends` are serialised verbatim and the de-duplication map
is rebuilt: `C20.Thm.Intern.rebuild_dedup`).

`HashMap`s are association lists read through `alookup`; the `Vec`s produced from them keep the
list order (any order gives the same `alookup`s). A Rust `unwrap`/`todo!()`/`panic!` is `Res.panic`.
Core Lean only.
-/
namespace C08
open C20 C01

/-- `enum SerializableCommand` (map.rs:244-253). Names are interned keys. -/
inductive SCmd where
  | builtIn (name : Nat)                    -- `BuiltIn(cs_name)`
  | arrayStatic (name : Nat) (idx : Nat)    -- `VariableArrayStatic(cs_name, index)`
  | macro (u : Nat)                         -- `Macro(index into SerializableMap.macros)`
  | tok (c : Nat)                           -- `CharacterTokenAlias`
  | chr (c : Nat)                           -- `Character`
  | mchr (n : Nat)                          -- `MathCharacter`
  | font (f : Nat)                          -- `Font`
  deriving DecidableEq, Repr

/-- The tables that tie commands to built-in names. In Rust they are derived from the built-in
map given to `VM::new` / `finish_deserialization` by comparing function pointers. -/
structure Table where
  /-- `primitive_key_to_built_in().get(PrimitiveKey::new(cmd))`: the name under which the
  primitive is registered (`none`: the `todo!("return an error")` arm). -/
  nameOfPrim : Nat → Option Nat
  /-- `built_in_commands.get(name)` at deserialisation time, as a primitive. -/
  builtIn : Nat → Option Nat
  /-- `getters_key_to_built_in().get(getters of the variable)` together with the variable's index
  (`none`: the `unwrap()` in map.rs:305 / variable.rs:728 fails). -/
  nameOfVar : Var → Option (Nat × Nat)
  /-- `built_in_commands.get(name)` is a variable command and `new_array_element(Index(i))` /
  `new_typed_variable(.., Index(i))` of it (`none`: `unwrap` / `panic!("wrong type of built in")`). -/
  varOfName : Nat → Nat → Option Var

/-- `mapM` for `Option`, as a structural recursion. -/
def mapOpt {α β : Type} (f : α → Option β) : List α → Option (List β)
  | [] => some []
  | a :: t =>
    match f a, mapOpt f t with
    | some b, some bs => some (b :: bs)
    | _, _ => none

/-! ## `SerializableMap::new` -/

/-- The `macros` vector after the traversal: bodies in order of first occurrence
(`macros_de_dup.entry(rc_addr).or_insert_with(push)`; the model identifies an `Rc` with its body
number, so two `\def`s with equal bodies share an entry — not observable). -/
def macrosOf : List (Item Nat Cmd) → List Nat → List Nat
  | [], tbl => tbl
  | .value _ (.mac n) :: t, tbl => macrosOf t (if n ∈ tbl then tbl else tbl ++ [n])
  | _ :: t, tbl => macrosOf t tbl

/-- The `match command` of `SerializableMap::new` (map.rs:284-323); `tbl` is the final `macros`
vector (an entry's index never changes once pushed). -/
def encCmd (T : Table) (tbl : List Nat) : Cmd → Option SCmd
  | .prim p =>
    match T.nameOfPrim p with
    | some n => some (.builtIn n)
    | none => none                                   -- `todo!("return an error")`
  | .alias v =>
    match T.nameOfVar v with
    | some (n, i) => some (.arrayStatic n i)
    | none => none                                   -- `getters_key_to_built_in.get(..).unwrap()`
  | .mac n => if n ∈ tbl then some (.macro (tbl.idxOf n)) else none
  | .tok c => some (.tok c)
  | .chr c => some (.chr c)
  | .mchr n => some (.mchr n)
  | .font f => some (.font f)

def encItem (T : Table) (tbl : List Nat) : Item Nat Cmd → Option (Item Nat SCmd)
  | .beginGroup => some .beginGroup
  | .value k c =>
    match encCmd T tbl c with
    | some s => some (.value k s)
    | none => none

/-! ## `SerializableMap::finish_deserialization` -/

/-- The `match serialized_command` of `finish_deserialization` (map.rs:349-383). -/
def decCmd (T : Table) (tbl : List Nat) : SCmd → Option Cmd
  | .builtIn n =>
    match T.builtIn n with
    | some p => some (.prim p)
    | none => none                                   -- `panic!("unknown control sequence ..")`
  | .arrayStatic n i =>
    match T.varOfName n i with
    | some v => some (.alias v)
    | none => none                                   -- `unwrap()` / `todo!()`
  | .macro u =>
    match tbl[u]? with
    | some n => some (.mac n)
    | none => none                                   -- `macros.get(*u).unwrap()`
  | .tok c => some (.tok c)
  | .chr c => some (.chr c)
  | .mchr n => some (.mchr n)
  | .font f => some (.font f)

def decItem (T : Table) (tbl : List Nat) : Item Nat SCmd → Option (Item Nat Cmd)
  | .beginGroup => some .beginGroup
  | .value k s =>
    match decCmd T tbl s with
    | some c => some (.value k c)
    | none => none

/-! ## The save stack (variable.rs:720-760) -/

/-- One entry of `SaveStackMap::serializable`: `(built-in name, index, saved value)`. -/
def encSave (T : Table) (e : Var × Action Val) : Option (Nat × Nat × Action Val) :=
  match T.nameOfVar e.1 with
  | some (n, i) => some (n, i, e.2)
  | none => none                                     -- `built_ins.get(&key).unwrap()`

/-- One entry of `SaveStackMap::from_deserialized`. -/
def decSave (T : Table) (e : Nat × Nat × Action Val) : Option (Var × Action Val) :=
  match T.varOfName e.1 e.2.1 with
  | some v => some (v, e.2.2)
  | none => none                                     -- `unwrap()` / `panic!("wrong type of built in")`

/-! ## The serialised VM -/

/-- `SerializableVM` / `DeserializedVM` (serde.rs:37-43, 76-82) as far as the model's state goes. -/
structure Ser where
  /-- `SerializableMap.commands` -/
  cmds : GMap Nat SCmd
  /-- `SerializableMap.active_char` (added by C08-a) -/
  active : GMap Nat SCmd
  /-- `SerializableMap.macros` -/
  macros : List Nat
  /-- `save_stack: Vec<SerializableSaveStackElement>`, innermost first like `VMState.save` -/
  save : List (List (Nat × Nat × Action Val))
  /-- the state `S` (derive: identity) -/
  vars : AList Var Val
  /-- `Internal.current_font`, `Internal.fonts_save_stack` (derive: identity) -/
  font : Nat
  fontSave : List (Option Nat)
  /-- `prefix::Component.scope` (derive: identity) -/
  scopeBit : Scope
  deriving Repr

/-- A map with `n` open groups and nothing else. -/
def groupsOnly (n : Nat) : GMap Nat SCmd := { bc := [], groups := List.replicate n [] }

/-- `impl Serialize for VM` = `SerializableVM::new(self).serialize(..)`. -/
def serialize (fixActive : Bool) (T : Table) (vm : VMState) : Res Ser :=
  match vm.cmds.iterAll with
  | .ok ci =>
    if fixActive then
      match vm.active.iterAll with
      | .ok ai =>
        let tbl := macrosOf ai (macrosOf ci [])
        match mapOpt (encItem T tbl) ci, mapOpt (encItem T tbl) ai,
              mapOpt (mapOpt (encSave T)) vm.save with
        | some sc, some sa, some sv =>
          .ok { cmds := GMap.fromIter sc, active := GMap.fromIter sa, macros := tbl, save := sv,
                vars := vm.vars, font := vm.font, fontSave := vm.fontSave, scopeBit := vm.scopeBit }
        | _, _, _ => .panic
      | .panic => .panic
      | .fuel => .fuel
    else
      -- before C08-a the active characters are never looked at
      let tbl := macrosOf ci []
      match mapOpt (encItem T tbl) ci, mapOpt (mapOpt (encSave T)) vm.save with
      | some sc, some sv =>
        .ok { cmds := GMap.fromIter sc, active := groupsOnly vm.cmds.groups.length, macros := tbl,
              save := sv, vars := vm.vars, font := vm.font, fontSave := vm.fontSave,
              scopeBit := vm.scopeBit }
      | _, _ => .panic
  | .panic => .panic
  | .fuel => .fuel

/-- `finish_deserialization` (serde.rs:86-120). -/
def deserialize (T : Table) (s : Ser) : Res VMState :=
  match s.cmds.iterAll, s.active.iterAll with
  | .ok ci, .ok ai =>
    match mapOpt (decItem T s.macros) ci, mapOpt (decItem T s.macros) ai,
          mapOpt (mapOpt (decSave T)) s.save with
    | some c, some a, some sv =>
      .ok { vars := s.vars, save := sv, cmds := GMap.fromIter c, active := GMap.fromIter a,
            font := s.font, fontSave := s.fontSave, scopeBit := s.scopeBit }
    | _, _, _ => .panic
  | .panic, _ => .panic
  | .fuel, _ => .fuel
  | _, .panic => .panic
  | _, .fuel => .fuel

/-- Serialise, then deserialise with the same built-ins. -/
def checkpoint (fixActive : Bool) (T : Table) (vm : VMState) : Res VMState :=
  match serialize fixActive T vm with
  | .ok s => deserialize T s
  | .panic => .panic
  | .fuel => .fuel

/-! ## The name tables: soundness (hypothesis of the theorem, checked on the real built-ins) -/

/-- For every primitive and every variable that has a name, looking the name up in the built-ins
gives the same primitive / variable back (several names may share a primitive). -/
def NameTableSound (T : Table) : Prop :=
  (∀ p n, T.nameOfPrim p = some n → T.builtIn n = some p) ∧
  (∀ v n i, T.nameOfVar v = some (n, i) → T.varOfName n i = some v)

/-! ## A concrete table: the part of `texlang_stdlib::built_in_commands` the driver uses

Primitives: 0 `\relax`, 1 `\count`, 2 `\the`, 3 `\iftrue`, 4 `\catcode`, and 20 + i for the
singleton variable command of parameter i (C01: 0 `\globaldefs`, 1 `\endlinechar`, 2 `\year`,
3 `\month`, 4 `\day`, 5 `\time`), and 40..59 for further execution / expansion primitives
(`\def`, `\let`, `\else`, `\fi`, `\global`, … : the harness's list). Names (any injective numbering of the interned keys does):
10 + primitive; 2 `dimen`, 3 `skip`, 4 `toks`, 6 `mathcode` for the other register arrays. A
register array's getters are registered under the array command's name (index = register number),
a parameter's under the parameter's own name (index 0). -/
def stdNameOfVar (v : Var) : Option (Nat × Nat) :=
  match v.kind with
  | .count => some (11, v.idx)
  | .dimen => some (2, v.idx)
  | .skip => some (3, v.idx)
  | .toks => some (4, v.idx)
  | .catcode => some (14, v.idx)
  | .mathcode => some (6, v.idx)
  | .param => if v.idx < 6 then some (30 + v.idx, 0) else none

def stdVarOfName (n i : Nat) : Option Var :=
  if n = 11 then some ⟨.count, i⟩
  else if n = 2 then some ⟨.dimen, i⟩
  else if n = 3 then some ⟨.skip, i⟩
  else if n = 4 then some ⟨.toks, i⟩
  else if n = 14 then some ⟨.catcode, i⟩
  else if n = 6 then some ⟨.mathcode, i⟩
  else if 30 ≤ n ∧ n < 36 ∧ i = 0 then some ⟨.param, n - 30⟩
  else none

def stdTable : Table :=
  { nameOfPrim := fun p =>
      if p < 5 ∨ (20 ≤ p ∧ p < 26) ∨ (40 ≤ p ∧ p < 60) then some (10 + p) else none,
    builtIn := fun n =>
      if (10 ≤ n ∧ n < 15) ∨ (30 ≤ n ∧ n < 36) ∨ (50 ≤ n ∧ n < 70) then some (n - 10) else none,
    nameOfVar := stdNameOfVar,
    varOfName := stdVarOfName }

/-- The run after a checkpoint: what the driver evaluates. `none` = the checkpoint panicked.
`cfg` says which of C01's repairs the tree under test has (the harness probes it). -/
def runCheckpointed (cfg : Variant) (fixActive : Bool) (T : Table) (pre post : List Op) :
    Option (List Out) :=
  let r := run cfg VMState.init pre
  if r.2.any Out.fatal then some r.2 else     -- the VM shut down before the checkpoint
  match checkpoint fixActive T r.1 with
  | .ok vm' => some (r.2 ++ (run cfg vm' post).2)
  | _ => none

end C08
