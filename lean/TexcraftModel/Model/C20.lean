/-!
# C20 — the scoped map behind TeX grouping (`GroupingContainer`), model and specification

Source: `crates/texcraft-stdext/src/collections/groupingmap.rs`.

Reusable (C01 and C08 import this file): generic over key and value types, keys need
`DecidableEq` only. Core Lean only.

* hash maps (`HashMap<K, V>` backing container, `HashMap<K, EndOfGroupAction<V>>` group logs)
  are association lists whose `insert` replaces (`ainsert` erases every older entry first), so
  keys stay distinct; everything proved is stated through `alookup`, i.e. up to the order
  of the list, which is how `HashMap` iteration order is covered.
* `groups : Vec<_>` is modelled **innermost first** (head of the list = `groups.last()`).
* `unwrap` on `None` is the outcome `Res.panic`; `Err(NoGroupToEndError)` is `Out.errNoGroup`.
-/
namespace C20

/-- Outcome of code that may panic (a panic is a value). `fuel` = a modelled loop ran out of fuel
(theorems show it cannot happen). -/
inductive Res (α : Type) where
  | ok (a : α)
  | panic
  | fuel
  deriving Repr, DecidableEq

abbrev AList (K V : Type) := List (K × V)

section AList
variable {K V : Type} [DecidableEq K]

def alookup : AList K V → K → Option V
  | [], _ => none
  | (k', v) :: t, k => if k' = k then some v else alookup t k

/-- Remove every entry for `k`. -/
def aerase (k : K) : AList K V → AList K V
  | [] => []
  | (k', v) :: t => if k' = k then aerase k t else (k', v) :: aerase k t

/-- `HashMap::insert`: replace or add. -/
def ainsert (k : K) (v : V) (l : AList K V) : AList K V := (k, v) :: aerase k l

def akeys (l : AList K V) : List K := l.map (·.1)

end AList

/-- `enum Scope { Local, Global }` -/
inductive Scope where
  | loc
  | glob
  deriving Repr, DecidableEq

/-- `enum EndOfGroupAction<V> { Revert(V), Delete }` -/
inductive Action (V : Type) where
  | revert (v : V)
  | delete
  deriving Repr, DecidableEq

/-- `GroupingContainer { backing_container, groups }`; `groups` innermost first. -/
structure GMap (K V : Type) where
  bc : AList K V
  groups : List (AList K (Action V))
  deriving Repr

/-- `enum Item<T> { BeginGroup, Value(T) }` with `T = (K, V)`. -/
inductive Item (K V : Type) where
  | beginGroup
  | value (k : K) (v : V)
  deriving Repr, DecidableEq

/-- Operations of a history. `get` is an operation so that observations are part of histories. -/
inductive Op (K V : Type) where
  | insert (k : K) (v : V) (s : Scope)
  | beginGroup
  | endGroup
  | get (k : K)
  deriving Repr, DecidableEq

/-- What an operation returns. -/
inductive Out (V : Type) where
  | existed (b : Bool)      -- `insert` returns whether the key was visible before
  | unit                    -- `begin_group`, `end_group` = `Ok(())`
  | errNoGroup              -- `end_group` = `Err(NoGroupToEndError)`
  | val (o : Option V)      -- `get`
  deriving Repr, DecidableEq

namespace GMap
variable {K V : Type} [DecidableEq K]

/-- `Default::default()` -/
def empty : GMap K V := { bc := [], groups := [] }

/-- `GroupingContainer::get` (groupingmap.rs:298) -/
def get (m : GMap K V) (k : K) : Option V := alookup m.bc k

/-- `GroupingContainer::insert` (groupingmap.rs:258-295): the purge loop for `Global`, then the
four cases of `match (self.backing_container.get_mut(&key), group)`. -/
def insert (m : GMap K V) (k : K) (v : V) : Scope → GMap K V × Bool
  | .glob =>
    -- `for group in &mut self.groups { group.remove(&key); }` and `group = None`
    let gs := m.groups.map (aerase k)
    match alookup m.bc k with
    | none => ({ bc := ainsert k v m.bc, groups := gs }, false)        -- (None, None)
    | some _ => ({ bc := ainsert k v m.bc, groups := gs }, true)       -- (Some(val_ref), None)
  | .loc =>
    match alookup m.bc k, m.groups with
    | none, [] => ({ m with bc := ainsert k v m.bc }, false)           -- (None, None)
    | none, g :: gs =>                                                 -- (None, Some(group))
      ({ bc := ainsert k v m.bc, groups := ainsert k .delete g :: gs }, false)
    | some _, [] => ({ m with bc := ainsert k v m.bc }, true)          -- (Some(val_ref), None)
    | some old, g :: gs =>                                             -- (Some(val_ref), Some(group))
      -- `if let Entry::Vacant(vac) = group.entry(key) { vac.insert(Revert(old)) }`
      let g' := match alookup g k with
        | none => ainsert k (.revert old) g
        | some _ => g
      ({ bc := ainsert k v m.bc, groups := g' :: gs }, true)

/-- `begin_group` (groupingmap.rs:303) -/
def beginGroup (m : GMap K V) : GMap K V := { m with groups := [] :: m.groups }

/-- The loop of `end_group` over the popped log, in list order. -/
def applyLog : AList K (Action V) → AList K V → AList K V
  | [], bc => bc
  | (k, .delete) :: t, bc => applyLog t (aerase k bc)
  | (k, .revert v) :: t, bc => applyLog t (ainsert k v bc)

/-- `end_group` (groupingmap.rs:311-336); `none` = `Err(NoGroupToEndError)`. -/
def endGroup (m : GMap K V) : Option (GMap K V) :=
  match m.groups with
  | [] => none
  | g :: gs => some { bc := applyLog g m.bc, groups := gs }

def step (m : GMap K V) : Op K V → GMap K V × Out V
  | .insert k v s => let r := m.insert k v s; (r.1, .existed r.2)
  | .beginGroup => (m.beginGroup, .unit)
  | .endGroup => match m.endGroup with
    | none => (m, .errNoGroup)
    | some m' => (m', .unit)
  | .get k => (m, .val (m.get k))

def run (m : GMap K V) : List (Op K V) → GMap K V × List (Out V)
  | [] => (m, [])
  | op :: ops =>
    let r := m.step op
    let rs := run r.1 ops
    (rs.1, r.2 :: rs.2)

/-! ### The other observers of the visible state, and `extend` -/

/-- `iter` (groupingmap.rs:361) = `backing_container.iter()`: the visible pairs, in the backing map's order. -/
def iter (m : GMap K V) : AList K V := m.bc

/-- `len` (groupingmap.rs:376) = `backing_container.len()`. -/
def len (m : GMap K V) : Nat := m.bc.length

/-- `is_empty` (groupingmap.rs:381) = `BackingContainer::is_empty` = `len() == 0`. -/
def isEmpty (m : GMap K V) : Bool := m.len == 0

/-- `extend` (groupingmap.rs:345-349): `for (key, val) in iter { self.insert(key, val, Scope::Local); }` -/
def extend (m : GMap K V) : List (K × V) → GMap K V
  | [] => m
  | (k, v) :: t => extend (m.insert k v .loc).1 t

/-! ### `iter_all` (groupingmap.rs:506-568) -/

/-- Inner loop of `IterAll::new` over one group log: `ktv` is `key_to_val`; returns the
values pushed onto `non_global_items` for this group, in push order. The two `unwrap`s are
the two `none` cases. -/
def iterGroup (bc : AList K V) :
    AList K (Action V) → AList K (Option V) → Res (AList K (Option V) × List (Item K V))
  | [], ktv => .ok (ktv, [])
  | (k, a) :: t, ktv =>
    let v? : Option V := match alookup ktv k with
      | none => alookup bc k      -- `map.backing_container.get(k).unwrap()`
      | some o => o               -- `v.unwrap()`
    match v? with
    | none => .panic
    | some v =>
      let saved : Option V := match a with
        | .delete => none
        | .revert old => some old
      match iterGroup bc t (ainsert k saved ktv) with
      | .ok (ktv', items) => .ok (ktv', .value k v :: items)
      | .panic => .panic
      | .fuel => .fuel

/-- Outer loop `for group in map.groups.iter().rev()`: all pushes, in push order
(`BeginGroup` is pushed after each group's values). -/
def iterGroups (bc : AList K V) :
    List (AList K (Action V)) → AList K (Option V) → Res (AList K (Option V) × List (Item K V))
  | [], ktv => .ok (ktv, [])
  | g :: gs, ktv =>
    match iterGroup bc g ktv with
    | .ok (ktv1, vals) =>
      match iterGroups bc gs ktv1 with
      | .ok (ktv2, rest) => .ok (ktv2, vals ++ .beginGroup :: rest)
      | .panic => .panic
      | .fuel => .fuel
    | .panic => .panic
    | .fuel => .fuel

/-- First phase of `IterAll::next`: the visible items filtered/overridden through `key_to_val`. -/
def visibleItems (ktv : AList K (Option V)) : AList K V → List (Item K V)
  | [] => []
  | (k, v) :: t =>
    match alookup ktv k with
    | none => .value k v :: visibleItems ktv t
    | some none => visibleItems ktv t
    | some (some g) => .value k g :: visibleItems ktv t

/-- Everything `iter_all()` yields: visible (global-scope) items, then `non_global_items`
popped from the back. -/
def iterAll (m : GMap K V) : Res (List (Item K V)) :=
  match iterGroups m.bc m.groups [] with
  | .ok (ktv, pushed) => .ok (visibleItems ktv m.bc ++ pushed.reverse)
  | .panic => .panic
  | .fuel => .fuel

/-- One step of `FromIterator<Item<(K, V)>>` (groupingmap.rs:569-585). -/
def feed (m : GMap K V) : Item K V → GMap K V
  | .beginGroup => m.beginGroup
  | .value k v => (m.insert k v .loc).1

def fromIter (items : List (Item K V)) : GMap K V := items.foldl feed empty

end GMap

/-! ## Specification: a stack of snapshots -/

/-- `cur` is what is visible now; `saved` are the snapshots taken at each open `begin_group`,
innermost first. -/
structure Snap (K V : Type) where
  cur : K → Option V
  saved : List (K → Option V)

namespace Snap
variable {K V : Type} [DecidableEq K]

def fupd (f : K → Option V) (k : K) (o : Option V) : K → Option V :=
  fun k' => if k = k' then o else f k'

def init : Snap K V := { cur := fun _ => none, saved := [] }

def step (s : Snap K V) : Op K V → Snap K V × Out V
  | .insert k v .loc => ({ s with cur := fupd s.cur k (some v) }, .existed (s.cur k).isSome)
  | .insert k v .glob =>
    ({ cur := fupd s.cur k (some v), saved := s.saved.map (fun f => fupd f k (some v)) },
     .existed (s.cur k).isSome)
  | .beginGroup => ({ cur := s.cur, saved := s.cur :: s.saved }, .unit)
  | .endGroup => match s.saved with
    | [] => (s, .errNoGroup)
    | f :: rest => ({ cur := f, saved := rest }, .unit)
  | .get k => (s, .val (s.cur k))

def run (s : Snap K V) : List (Op K V) → Snap K V × List (Out V)
  | [] => (s, [])
  | op :: ops =>
    let r := s.step op
    let rs := run r.1 ops
    (rs.1, r.2 :: rs.2)

end Snap

/-! ## Abstraction function -/

section Abs
variable {K V : Type} [DecidableEq K]

/-- Undo one group log on a snapshot function. -/
def undo (g : AList K (Action V)) (f : K → Option V) : K → Option V :=
  fun k => match alookup g k with
    | none => f k
    | some (.revert v) => some v
    | some .delete => none

def absGroups : (K → Option V) → List (AList K (Action V)) → List (K → Option V)
  | _, [] => []
  | f, g :: gs => undo g f :: absGroups (undo g f) gs

def GMap.abs (m : GMap K V) : Snap K V :=
  { cur := fun k => alookup m.bc k, saved := absGroups (fun k => alookup m.bc k) m.groups }

end Abs

/-! ## The `Vec<Option<V>>` backing container (`GroupingVec`), groupingmap.rs:144-204 -/

namespace VecBacking
variable {V : Type}

/-- `<[Option<V>]>::get(self, k)` then `as_ref` -/
def get (l : List (Option V)) (k : Nat) : Option V :=
  match l[k]? with
  | none => none
  | some o => o

/-- `insert`: in range → overwrite; out of range → `resize_with(k, None)` then `push(Some(v))`. -/
def insert (l : List (Option V)) (k : Nat) (v : V) : List (Option V) :=
  match l[k]? with
  | none => (l ++ List.replicate (k - l.length) none) ++ [some v]
  | some _ => l.set k (some v)

/-- `remove`: in range → `None`; out of range → nothing. -/
def remove (l : List (Option V)) (k : Nat) : List (Option V) :=
  match l[k]? with
  | none => l
  | some _ => l.set k none

/-- `len`: number of `Some` slots. -/
def len (l : List (Option V)) : Nat := (l.filter Option.isSome).length

/-- `iter`: `(index, value)` of the `Some` slots, in index order. -/
def iterFrom : Nat → List (Option V) → List (Nat × V)
  | _, [] => []
  | i, none :: t => iterFrom (i + 1) t
  | i, some v :: t => (i, v) :: iterFrom (i + 1) t

def iter (l : List (Option V)) : List (Nat × V) := iterFrom 0 l

end VecBacking

end C20
