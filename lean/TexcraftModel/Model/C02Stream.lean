import TexcraftModel.Model.C02

/-!
# C02 — the token stream the macro call reads from and writes to (`vm/streams.rs`, `vm/mod.rs`)

`Model/C02.lean` describes `\def` and `Macro::call` over the *list* of upcoming tokens. This
file models what is really there — a current source and a stack of enclosing sources, each
with a stack of pending (already expanded / pushed back) tokens whose **last** element is the
next token, and a lexer — and re-transcribes the call over it, operation by operation:

* `Stream.next`  = `stream::next_unexpanded` (`streams.rs`): pop the pending stack, else ask the
  lexer, else `pop_source` and try again; `None` when every source is exhausted;
* `Stream.back`  = `UnexpandedStream::back` (`expansions_mut().push(token)`);
* `Stream.pushStack` = `result.extend(..)` on `input.expansions_mut()` in `perform_replacement`
  (the expansion is written, reversed, onto the pending stack of the source that is current
  *after* the arguments have been read);
* `removePrefixS`, `delimLoopS`, `skipSpacesS`, `finishBalancedS`, `parseUndelimitedS`,
  `parseDelimitedS`, `parseArgsS`, `callS` = the functions of `texmacro.rs` / `parse/mod.rs`
  again, now reading with `next` and un-reading with `back`.

`Stream.flat` is the list view: what `next` will deliver, in order. `Props/C02.lean` proves that
`callS` on a stream is `call` on its list view (`stream_call_refines`), so the list model is a
theorem about this model and not an assumption. The loops take fuel (one unit per token read;
`callS` supplies `flat.length + 1`); running out of fuel is `panic` and proved unreachable.
The lexer itself is a list of the tokens it will still produce (C03 is about the lexer).
-/
namespace C02

/-- `vm::Source`: pending tokens (a stack, the *last* element is the next token) and the lexer
(here: the tokens it will still produce, in order). -/
structure Source where
  expansions : List Tok
  lexer : List Tok
  deriving DecidableEq, Repr

/-- `vm::Internal`: `current_source` and `sources` (innermost enclosing source first here; in
Rust it is the last element of the `Vec`). -/
structure Stream where
  cur : Source
  outer : List Source
  deriving DecidableEq, Repr

/-- What a source will still deliver. -/
def Source.toks (s : Source) : List Tok := s.expansions.reverse ++ s.lexer

/-- The list view of a stream: everything `next` will deliver, in order. -/
def Stream.flat (st : Stream) : List Tok := st.cur.toks ++ (st.outer.map Source.toks).flatten

/-- `stream::next_unexpanded` on `current_source = cur`, `sources = outer`: the token (if any)
and the new state. When everything is exhausted the outermost source stays current. -/
def nextFrom : Source → List Source → Option Tok × Stream
  | cur, outer =>
    match cur.expansions.getLast? with
    | some t => (some t, ⟨{ cur with expansions := cur.expansions.dropLast }, outer⟩)   -- `expansions.pop()`
    | none =>
      match cur.lexer with
      | t :: ts => (some t, ⟨{ cur with lexer := ts }, outer⟩)                           -- `root.next(..)`
      | [] =>
        match outer with
        | [] => (none, ⟨cur, []⟩)                                                       -- `!pop_source()`
        | s :: ss => nextFrom s ss                                                      -- `pop_source(); next_unexpanded(vm)`

def Stream.next (st : Stream) : Option Tok × Stream := nextFrom st.cur st.outer

/-- `back`: `expansions_mut().push(token)`. -/
def Stream.back (st : Stream) (t : Tok) : Stream :=
  ⟨{ st.cur with expansions := st.cur.expansions ++ [t] }, st.outer⟩

/-- `expansions_mut().extend(stack)`. -/
def Stream.pushStack (st : Stream) (stack : List Tok) : Stream :=
  ⟨{ st.cur with expansions := st.cur.expansions ++ stack }, st.outer⟩

/-- `remove_tokens_from_stream`. -/
def removePrefixS : List Tok → Stream → Res Stream
  | [], st => .ok st
  | p :: ps, st =>
    match st.next with
    | (none, _) => .err .eoiPrefix
    | (some t, st') => if t = p then removePrefixS ps st' else .err .prefixMismatch

/-- The loop of `parse_delimited_argument` (first argument: fuel). -/
def delimLoopS (m : Matcher) (closing : Int) (n : Nat) : Nat → Nat → Int → Stream → Res (List Tok × Stream)
  | 0, _, _, _ => .panic
  | fuel + 1, q, depth, st =>
    match st.next with
    | (none, _) => .err (.eoiDelimited n)
    | (some t, st') =>
      let depth' := depthStep depth t
      match m.next q t with
      | none => .panic
      | some (q', matched) =>
        if depth' = closing ∧ matched = true then .ok ([t], st')
        else
          match delimLoopS m closing n fuel q' depth' st' with
          | .ok (a, st'') => .ok (t :: a, st'')
          | .err e => .err e
          | .panic => .panic

/-- `parse_delimited_argument` + the index arithmetic of `Macro::call`. -/
def parseDelimitedS (trim : List Tok → Bool) (m : Matcher) (n : Nat) (fuel : Nat) (st : Stream) :
    Res (List Tok × Stream) :=
  match delimLoopS m (closingDepth m) n fuel 0 0 st with
  | .ok (consumed, st') =>
    let raw := consumed.take (consumed.length - m.sub.length)
    if trim raw then .ok ((raw.drop 1).dropLast, st') else .ok (raw, st')
  | .err e => .err e
  | .panic => .panic

/-- `SpacesUnexpanded`: read until a non-space token, put that one back. `none` = out of fuel. -/
def skipSpacesS : Nat → Stream → Option Stream
  | 0, _ => none
  | fuel + 1, st =>
    match st.next with
    | (none, st') => some st'
    | (some .sp, st') => skipSpacesS fuel st'
    | (some t, st') => some (st'.back t)

/-- `finish_parsing_balanced_tokens`. -/
def finishBalancedS : Nat → Int → Stream → Res (List Tok × Stream)
  | 0, _, _ => .panic
  | fuel + 1, d, st =>
    match st.next with
    | (none, _) => .err .eoiBalanced
    | (some t, st') =>
      if t = .eg ∧ d = 0 then .ok ([], st')
      else
        match finishBalancedS fuel (depthStep d t) st' with
        | .ok (a, st'') => .ok (t :: a, st'')
        | .err e => .err e
        | .panic => .panic

/-- `parse_undelimited_argument`. -/
def parseUndelimitedS (n : Nat) (fuel : Nat) (st : Stream) : Res (List Tok × Stream) :=
  match skipSpacesS fuel st with
  | none => .panic
  | some st1 =>
    match st1.next with
    | (none, _) => .err (.eoiUndelimited n)
    | (some .bg, st2) => finishBalancedS fuel 0 st2
    | (some t, st2) => .ok ([t], st2)

/-- The `for (i, parameter)` loop of `Macro::call`. -/
def parseArgsS (trim : List Tok → Bool) (fuel : Nat) : Nat → List Param → Stream → Res (List (List Tok) × Stream)
  | _, [], st => .ok ([], st)
  | i, p :: ps, st =>
    let r := match p with
      | .undelim => parseUndelimitedS (i + 1) fuel st
      | .delim m => parseDelimitedS trim m (i + 1) fuel st
    match r with
    | .ok (a, st') =>
      match parseArgsS trim fuel (i + 1) ps st' with
      | .ok (as, st'') => .ok (a :: as, st'')
      | .err e => .err e
      | .panic => .panic
    | .err e => .err e
    | .panic => .panic

/-- `Macro::call` on the stream: the state after the call. -/
def callWithS (trim : List Tok → Bool) (m : Macro) (st : Stream) : Res Stream :=
  let fuel := st.flat.length + 1
  match removePrefixS m.pre st with
  | .ok st1 =>
    match parseArgsS trim fuel 0 m.params st1 with
    | .ok (args, st2) =>
      match performReplacement args m.repl with
      | none => .panic
      | some stack => .ok (st2.pushStack stack)
    | .err e => .err e
    | .panic => .panic
  | .err e => .err e
  | .panic => .panic

def callS (m : Macro) (st : Stream) : Res Stream := callWithS shouldTrim m st
def callOldS (m : Macro) (st : Stream) : Res Stream := callWithS shouldTrimOld m st

/-- Read everything that is left, one `next` at a time (what the main loop will be given). -/
def readAll : Nat → Stream → List Tok
  | 0, _ => []
  | fuel + 1, st =>
    match st.next with
    | (none, _) => []
    | (some t, st') => t :: readAll fuel st'

end C02
