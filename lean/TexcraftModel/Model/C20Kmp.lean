import TexcraftModel.Model.C20

/-!
# C20 — streaming substring matcher (Knuth–Morris–Pratt), model and specification

Source: `crates/texcraft-stdext/src/algorithms/substringsearch.rs` (`Matcher::new`,
`Search::next`); the pattern is a `Nevec<T>` (non-empty vector, `nevec.rs`): `first :: tail`.

Every index expression `substring[i]` / `prefix_fn[i]` of the Rust code is an explicit
`[i]?` whose `none` case is `Res.panic`. The two `while` loops are one fuelled function
`fallback` (fuel exhaustion = `Res.fuel`; theorem: unreachable).
-/
namespace C20.Kmp

variable {α : Type} [DecidableEq α]

/-- `while k > 0 && substring[k] != x { k = prefix_fn[k - 1]; }` — returns the final `k`. -/
def fallback (pat : List α) (pf : List Nat) (x : α) : Nat → Nat → Res Nat
  | _, 0 => .ok 0
  | 0, _ + 1 => .fuel
  | fuel + 1, k + 1 =>
    match pat[k + 1]? with
    | none => .panic                         -- `substring[k]` out of bounds
    | some c =>
      if c = x then .ok (k + 1)
      else match pf[k]? with                 -- `prefix_fn[k - 1]`
        | none => .panic
        | some k' => fallback pat pf x fuel k'

/-- The loop body shared by `Matcher::new` and `Search::next`:
`while …; if substring[k] == x { k += 1 }`. -/
def advance (pat : List α) (pf : List Nat) (x : α) (k : Nat) : Res Nat :=
  match fallback pat pf x (k + 1) k with
  | .ok k' =>
    match pat[k']? with
    | none => .panic                         -- `substring[k]` out of bounds
    | some c => .ok (if c = x then k' + 1 else k')
  | .panic => .panic
  | .fuel => .fuel

/-- `for i in 1..substring.len() { …; prefix_fn.push(k); }`; `rest` = `substring[i..]`. -/
def buildPf (pat : List α) : List α → List Nat → Nat → Res (List Nat)
  | [], pf, _ => .ok pf
  | x :: rest, pf, k =>
    match advance pat pf x k with
    | .ok k' => buildPf pat rest (pf ++ [k']) k'
    | .panic => .panic
    | .fuel => .fuel

/-- `Matcher::new(Nevec { first, tail })`: the prefix function (`prefix_fn` starts as `[0]`). -/
def prefixFn (first : α) (tail : List α) : Res (List Nat) :=
  buildPf (first :: tail) tail [0] 0

/-- `Search::next(&mut self, tail: &T) -> bool`; state `q`. -/
def next (pat : List α) (pf : List Nat) (q : Nat) (x : α) : Res (Nat × Bool) :=
  match advance pat pf x q with
  | .ok q' =>
    if q' = pat.length then
      match pf[q' - 1]? with                 -- `prefix_fn[self.q - 1]`
      | none => .panic
      | some r => .ok (r, true)
    else .ok (q', false)
  | .panic => .panic
  | .fuel => .fuel

/-- Feed a whole text from state `q`; the list of answers. -/
def searchFrom (pat : List α) (pf : List Nat) : Nat → List α → Res (List Bool)
  | _, [] => .ok []
  | q, x :: xs =>
    match next pat pf q x with
    | .ok (q', b) =>
      match searchFrom pat pf q' xs with
      | .ok bs => .ok (b :: bs)
      | .panic => .panic
      | .fuel => .fuel
    | .panic => .panic
    | .fuel => .fuel

/-- `Matcher::new(pat).start()` then `next` on every element of `text`. -/
def search (first : α) (tail : List α) (text : List α) : Res (List Bool) :=
  match prefixFn first tail with
  | .ok pf => searchFrom (first :: tail) pf 0 text
  | .panic => .panic
  | .fuel => .fuel

/-! ## Specification -/

/-- After consuming `text[0..=i]` the matcher says `true` iff the pattern ends there. -/
def specFrom (pat : List α) : List α → List α → List Bool
  | _, [] => []
  | consumed, x :: xs =>
    let c := consumed ++ [x]
    pat.isSuffixOf c :: specFrom pat c xs

def spec (pat text : List α) : List Bool := specFrom pat [] text

/-- `b` is a border of `s` of length `n`: a prefix that is also a suffix. -/
def IsBorder (s : List α) (n : Nat) : Prop := n ≤ s.length ∧ s.take n = s.drop (s.length - n)

/-- Executable longest proper border (specification of one entry of the prefix function). -/
def longestProperBorder (s : List α) : Nat :=
  ((List.range s.length).filter (fun n => s.take n == s.drop (s.length - n))).foldl max 0

/-- Specification of the whole prefix function. -/
def specPf (pat : List α) : List Nat :=
  (List.range pat.length).map (fun i => longestProperBorder (pat.take (i + 1)))

end C20.Kmp
