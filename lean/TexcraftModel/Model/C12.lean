/-
C12 — typesetting a paragraph conserves its content and honours the geometry.

M (transcriptions, clause by clause):
* `finishPar`      — `LineBreaker::break_line`, TeX.2021.816 (crates/boxworks-knuthplass/src/lib.rs:248-268)
* `postLineBreak`  — `LineBreaker::post_line_break` (same file :272-439), the code AFTER the repairs
                     553bdb4 / c84c5ea (discardable items at the start of a line are pruned, §879)
* `interline`, `pushLine`, `lastDepth` — the interline glue as the code computes it (the block
                     "TeX.2021.888 and TeX.2021.679" of `post_line_break`); S: `texAppend`/`texInterlines` (§679)
* `sfAdjust`, `sfWord` — `SpaceFactor::adjust`, the loop at the end of `add_word`
                     (crates/boxworks-text/src/lib.rs:122-134, :199-201)
* `interWordGlue`  — `add_space` (:204-232) as in /repo since 2ef677c (fixes/C12-b.patch) (`\spaceskip` is scaled by the
                     space factor like the font glue, §1043/§1044); `interWordGlueOld` is the
                     code before that commit, kept as the refutation witness.
* `addText`, `addWords`, `addWord`, `addItem`, `splitWs`, `leadWs` — `TextPreprocessor::add_text`
                     (crates/boxworks/src/lib.rs:19-30) and `add_word` (boxworks-text), the lig/kern program being
                     a parameter `run`; S: `textVerdict` (`spell` = words of the text, one glue per blank run)
* `widthFields`    — the `split(',')`/`trim` of `box linebreak --widths` (crates/boxworks-bin/src/box.rs)

S (the property's own words):
* `reassemble`     — read the line boxes in order: take away the skips, join the two halves of
                     every discretionary break, put back the item at which the line was broken and
                     the items TeX drops after it (`droppedOf`, defined from the list and the break
                     positions alone) — the result must be the list that was broken.
* `sfSpec`, `glueSpec` — TeX.2021.1034 and §1041–§1044 written in TeX's order.
* `penaltySpec`    — §890.

Dimensions and penalties are `Int`; the places where the Rust code would panic are explicit
`Err` outcomes (`Except Err _`). Core Lean only.
-/
namespace C12

structure Glue where
  w : Int := 0
  st : Int := 0
  so : Nat := 0     -- stretch order 0..3
  sh : Int := 0
  sho : Nat := 0    -- shrink order 0..3
  deriving DecidableEq, Repr, Inhabited

/-- `common::Glue::is_zero`: the orders are not looked at (as TeX's `trap_zero_glue`). -/
def Glue.isZero (g : Glue) : Bool := g.w == 0 && g.st == 0 && g.sh == 0

/-- `ds::DiscretionaryElem`. A box-like node (char, ligature, hbox, vbox, rule) is represented
by the identity `id` the harness gives to its full content. -/
inductive Elem
  | box (id : Nat)
  | kern (kind : Nat) (w : Int)
  deriving DecidableEq, Repr, Inhabited

/-- `ds::Horizontal` (without whatsits: the line breaker hits `todo!()` on them). -/
inductive Item
  | box (id : Nat)                       -- char, ligature, hbox, vbox, rule
  | inert (id : Nat)                     -- mark, insertion, adjust
  | glue (kind : Nat) (g : Glue)         -- kind 0 = GlueKind::Normal
  | kern (kind : Nat) (w : Int)          -- 0 normal, 1 explicit, 2 accent, 3 math
  | penalty (p : Int)
  | disc (pre post : List Elem) (replace : Nat)
  | math (after : Bool)
  deriving DecidableEq, Repr, Inhabited

/-- `From<DiscretionaryElem> for Horizontal`. -/
def Elem.toItem : Elem → Item
  | .box id => .box id
  | .kern k w => .kern k w

/-- `Horizontal::non_discardable` (= `precedes_break`, ds.rs:785-805). -/
def Item.nonDiscardable : Item → Bool
  | .box _ | .inert _ | .disc _ _ _ => true
  | .kern k _ => k != 1
  | .glue _ _ | .penalty _ | .math _ => false

def Item.discardable (it : Item) : Bool := !it.nonDiscardable

inductive Err
  | slice       -- `h_list[start..break]` with start > break or break > len
  | index       -- `h_list[start_of_line]` out of bounds while pruning
  | notBreak    -- `unreachable!("node cannot appear as a breakpoint")`
  | noWidths    -- `.expect("non-empty line widths")`
  | packTodo    -- `HBox::pack`: `todo!()` on mark/insertion/adjust/math inside a line
  | overflow    -- `i32` overflow adding the inter-line penalties (overflow checks on)
  deriving DecidableEq, Repr, Inhabited

structure Params where
  leftSkip : Glue := {}
  rightSkip : Glue := {}
  interLine : Int := 0
  club : Int := 150
  widow : Int := 150
  broken : Int := 100
  widths : List Int := [0]
  indents : List Int := []
  deriving Repr, Inhabited

/-- One line box, in the order the code builds `inner_list`. -/
structure Line where
  left : List Item      -- `[\leftskip]` or `[]`
  post : List Item      -- post-break material of the discretionary that ended the previous line
  body : List Item      -- the slice of the list
  brk : List Item       -- what the break item leaves at the end of the line
  right : Item          -- `\rightskip`
  width : Int
  indent : Int
  pen : Option Int      -- the penalty node pushed after the box
  deriving DecidableEq, Repr, Inhabited

def Line.flat (ln : Line) : List Item := ln.left ++ (ln.post ++ (ln.body ++ (ln.brk ++ [ln.right])))

/-! ## `break_line` (TeX.2021.816) -/

def finishPar (parFill : Glue) (l : List Item) : List Item :=
  (match l.getLast? with
   | some (.glue _ _) => l.dropLast
   | _ => l) ++ [.penalty 10000, .glue 0 parFill]

/-! ## `post_line_break` -/

/-- TeX.2021.881/882: what the item at the break leaves at the end of the line, the pending
post-break material, and how many following items are skipped. `none` = the final break. -/
def breakPart : Option Item → Except Err (List Item × Option (List Elem) × Nat)
  | none => .ok ([], none, 0)
  | some (.disc pre post r) => .ok (.disc [] [] 0 :: pre.map Elem.toItem, some post, r)
  | some (.math a) => .ok ([.math a], none, 0)
  | some (.glue _ _) => .ok ([], none, 0)
  | some (.kern k _) => .ok ([.kern k 0], none, 0)
  | some (.penalty p) => .ok ([.penalty p], none, 0)
  | some (.box _) => .error .notBreak
  | some (.inert _) => .error .notBreak

/-- The `while` loop of TeX.2021.879 on the rest of the list: how many of the first `n` items
are pruned. An index past the end is the Rust index panic. -/
def pruneCount : List Item → Nat → Except Err Nat
  | _, 0 => .ok 0
  | [], _ + 1 => .error .index
  | it :: t, n + 1 =>
    if it.nonDiscardable then .ok 0
    else match pruneCount t n with
      | .ok k => .ok (k + 1)
      | .error e => .error e

/-- TeX.2021.889: the last width repeats. -/
def lineWidth (ws : List Int) (i : Nat) : Except Err Int :=
  match ws[i]? with
  | some w => .ok w
  | none => match ws.getLast? with
    | some w => .ok w
    | none => .error .noWidths

/-- The last indent repeats; no indents = 0. -/
def lineIndent (xs : List Int) (i : Nat) : Int :=
  match xs[i]? with
  | some x => x
  | none => match xs.getLast? with
    | some x => x
    | none => 0

def inI32 (x : Int) : Bool := decide (-2147483648 ≤ x ∧ x ≤ 2147483647)

def addI32 (a b : Int) : Except Err Int := if inI32 (a + b) then .ok (a + b) else .error .overflow

/-- TeX.2021.890 as coded: `n` breaks in all, this is line `idx`. -/
def linePenalty (p : Params) (n idx : Nat) (afterDisc : Bool) : Except Err (Option Int) :=
  if idx + 1 = n then .ok none
  else
    match (if idx = 0 then addI32 p.interLine p.club else .ok p.interLine) with
    | .error e => .error e
    | .ok p1 =>
      match (if idx + 2 = n then addI32 p1 p.widow else .ok p1) with
      | .error e => .error e
      | .ok p2 =>
        match (if afterDisc then addI32 p2 p.broken else .ok p2) with
        | .error e => .error e
        | .ok p3 => .ok (if p3 ≠ 0 then some p3 else none)

/-- `HBox::pack` reaches `todo!()` on these. -/
def Item.packTodo : Item → Bool
  | .inert _ | .math _ => true
  | _ => false

def pendingItems : Option (List Elem) → List Item
  | none => []
  | some es => es.map Elem.toItem

def shouldPrune : Option (List Elem) → Bool
  | none => true
  | some es => es.isEmpty

/-- TeX.2021.887: `\\leftskip` is only inserted if it is not zero. -/
def leftPart (p : Params) : List Item := if p.leftSkip.isZero then [] else [.glue 0 p.leftSkip]

/-- TeX.2021.879: how many items after `start1` are pruned (`rest` = the break points still
to come). -/
def pruneAfter (l : List Item) (pend' : Option (List Elem)) (start1 : Nat) (rest : List Nat) :
    Except Err Nat :=
  if shouldPrune pend' then
    match rest with
    | [] => .ok 0
    | nb :: _ => pruneCount (l.drop start1) (nb - start1)
  else .ok 0

/-- One iteration of the loop over the break points: the line, the next `start_of_line` and
the next `disc_post_break_nodes`. `n` = number of break points, `idx` = line index,
`start` = `start_of_line`, `pending` = `disc_post_break_nodes`, `rest` = later break points. -/
def step (p : Params) (l : List Item) (n idx start : Nat) (pending : Option (List Elem))
    (bp : Nat) (rest : List Nat) : Except Err (Line × Nat × Option (List Elem)) :=
  if ¬ (start ≤ bp ∧ bp ≤ l.length) then .error .slice
  else
    match breakPart l[bp]? with
    | .error e => .error e
    | .ok (brk, pend', skip) =>
      match pruneAfter l pend' (bp + 1 + skip) rest with
      | .error e => .error e
      | .ok k =>
        match lineWidth p.widths idx with
        | .error e => .error e
        | .ok w =>
          let ln : Line :=
            { left := leftPart p
              post := pendingItems pending
              body := (l.drop start).take (bp - start)
              brk := brk
              right := .glue 0 p.rightSkip
              width := w
              indent := lineIndent p.indents idx
              pen := none }
          if ln.flat.any Item.packTodo then .error .packTodo
          else
            match linePenalty p n idx pend'.isSome with
            | .error e => .error e
            | .ok pen => .ok ({ ln with pen := pen }, bp + 1 + skip + k, pend')

def go (p : Params) (l : List Item) (n : Nat) :
    Nat → Nat → Option (List Elem) → List Nat → Except Err (List Line)
  | _, _, _, [] => .ok []
  | idx, start, pending, bp :: rest =>
    match step p l n idx start pending bp rest with
    | .error e => .error e
    | .ok (ln, start', pend') =>
      match go p l n (idx + 1) start' pend' rest with
      | .error e => .error e
      | .ok ls => .ok (ln :: ls)

def postLineBreak (p : Params) (l : List Item) (bs : List Nat) : Except Err (List Line) :=
  go p l bs.length 0 0 none bs

/-! ## Interline glue (TeX.2021.679 as coded, knuthplass lib.rs "TeX.2021.888 and TeX.2021.679") -/

/-- What the backwards scan over `v_list` distinguishes: a box (hbox or vbox) with its depth, or
anything else (glue, penalty, rule, …). -/
inductive VNode
  | box (depth : Int)
  | other
  deriving DecidableEq, Repr, Inhabited

/-- The `loop` that walks `v_list` from its end: the first box met. -/
def firstBox : List VNode → Option Int
  | [] => none
  | .box d :: _ => some d
  | .other :: t => firstBox t

/-- `last_depth`: depth of the last box of the vertical list, `Scaled::ZERO` if there is none. -/
def lastDepth (v : List VNode) : Int :=
  match firstBox v.reverse with
  | some d => d
  | none => 0

/-- `\baselineskip` is fixed to 12pt in the code. -/
def codeBaselineSkip : Int := 12 * 65536

/-- One line box is appended: the glue pushed before it (`none` when `v_list` is empty) and the
vertical list afterwards (`pen` = a penalty node follows the box). -/
def pushLine (v : List VNode) (h d : Int) (pen : Bool) : Option Int × List VNode :=
  let g : Option Int := if v.isEmpty then none else some (codeBaselineSkip - h - lastDepth v)
  (g, v ++ ((match g with | some _ => [VNode.other] | none => []) ++
        (VNode.box d :: (if pen then [VNode.other] else []))))

/-- The glue pushed before each line box; `lines` = (height, depth, penalty follows). -/
def interline : List VNode → List (Int × Int × Bool) → List (Option Int)
  | _, [] => []
  | v, (h, d, pen) :: t => (pushLine v h d pen).1 :: interline (pushLine v h d pen).2 t

/-! ### TeX.2021.679 `append_to_vlist` (the specification) -/

inductive TexGlue
  | noGlue               -- `prev_depth ≤ ignore_depth`: no interline glue
  | baseline (w : Int)   -- `\baselineskip` glue with its width replaced by `w`
  | lineskip             -- `\lineskip`
  deriving DecidableEq, Repr, Inhabited

/-- TeX.2021.212: `ignore_depth = -1000pt`. -/
def ignoreDepth : Int := -65536000

/-- TeX.2021.679: `if prev_depth > ignore_depth then d := width(baseline_skip) - prev_depth -
height(b); if d < line_skip_limit then \lineskip else \baselineskip with width d`. -/
def texAppend (baselineskip lineskiplimit prevDepth h : Int) : TexGlue :=
  if prevDepth > ignoreDepth then
    let d := baselineskip - prevDepth - h
    if d < lineskiplimit then .lineskip else .baseline d
  else .noGlue

/-- §679 over a sequence of boxes: `prev_depth := depth(b)` after each. -/
def texInterlines (baselineskip lineskiplimit : Int) : Int → List (Int × Int × Bool) → List TexGlue
  | _, [] => []
  | pd, (h, d, _) :: t => texAppend baselineskip lineskiplimit pd h :: texInterlines baselineskip lineskiplimit d t

/-- `prev_depth` of a vertical list built from boxes (by `append_to_vlist`) and material that
leaves `prev_depth` alone (glue, penalties, kerns): the depth of its last box, `ignore_depth` if
it has none (TeX.2021.215: a vertical list starts with `prev_depth = ignore_depth`). -/
def texPrevDepth (v : List VNode) : Int :=
  match firstBox v.reverse with
  | some d => d
  | none => ignoreDepth

def TexGlue.toOpt : TexGlue → Option Int
  | .baseline w => some w
  | _ => Option.none

/-! ## The specification of conservation -/

/-- What one break took away from the lines: the item at the break as it stood in the list
and the items after it that appear on no line. -/
structure Dropped where
  item : Item
  gone : List Item
  deriving DecidableEq, Repr, Inhabited

/-- The post-break half of a discretionary. -/
def postOf : Option Item → List Item
  | some (.disc _ post _) => post.map Elem.toItem
  | _ => []

def Item.replace : Item → Nat
  | .disc _ _ r => r
  | _ => 0

/-- TeX.2021.879/§882 in the property's words: after a break at index `b` (next break `b'`) a
discretionary takes its `replace` items with it; then, unless post-break material starts the
next line, the discardable items up to the next break are dropped. -/
def goneAfter (l : List Item) (b b' : Nat) : List Item :=
  match l[b]? with
  | some it =>
      (l.drop (b + 1)).take it.replace ++
        (if (postOf (some it)).isEmpty then
           ((l.drop (b + 1 + it.replace)).take (b' - (b + 1 + it.replace))).takeWhile Item.discardable
         else [])
  | none => []

def droppedOf (l : List Item) : List Nat → List Dropped
  | b :: b' :: rest =>
    match l[b]? with
    | some it => ⟨it, goneAfter l b b'⟩ :: droppedOf l (b' :: rest)
    | none => []
  | _ => []

/-- What stays visible of the item at which a line is broken (§881/§882): a discretionary
becomes an empty discretionary followed by its pre-break material, a kern loses its width,
penalties and math nodes stay, glue goes. -/
def visible : Item → List Item
  | .disc pre _ _ => .disc [] [] 0 :: pre.map Elem.toItem
  | .kern k _ => [.kern k 0]
  | .penalty p => [.penalty p]
  | .math a => [.math a]
  | _ => []

def stripPrefix : List Item → List Item → Option (List Item)
  | [], l => some l
  | _ :: _, [] => none
  | a :: p, b :: l => if a = b then stripPrefix p l else none

def stripSuffix (s l : List Item) : Option (List Item) :=
  (stripPrefix s.reverse l.reverse).map List.reverse

/-- Read one line box: take away `\leftskip`, the post-break half of the discretionary that
ended the previous line, `\rightskip` and the visible remains of the break item. What is
left came from the list. `none` if the box does not have that shape. -/
def lineBody (p : Params) (prev brk : Option Item) (flat : List Item) : Option (List Item) :=
  (stripPrefix (leftPart p) flat).bind fun r =>
  (stripPrefix (postOf prev) r).bind fun r =>
  (stripSuffix [.glue 0 p.rightSkip] r).bind fun r =>
  stripSuffix (match brk with | some it => visible it | none => []) r

def reassembleFrom (p : Params) : Option Item → List (List Item) → List Dropped → Option (List Item)
  | prev, [last], [] => lineBody p prev none last
  | prev, flat :: lines, d :: ds =>
    (lineBody p prev (some d.item) flat).bind fun body =>
    (reassembleFrom p (some d.item) lines ds).map fun rest => body ++ (d.item :: d.gone ++ rest)
  | _, _, _ => none

def reassemble (p : Params) (lines : List (List Item)) (ds : List Dropped) : Option (List Item) :=
  reassembleFrom p none lines ds

/-- Items at which a line may be broken by `post_line_break`. -/
def Item.isBreak : Item → Bool
  | .glue _ _ | .kern _ _ | .penalty _ | .disc _ _ _ | .math _ => true
  | _ => false

/-- A sequence of break positions as TeX's `line_break` hands them to `post_line_break`: strictly
increasing, each at a breakable item, the next one after the items a discretionary replaces,
the last one at the end of the list (`cur_p = null`). `lo` = least admissible next position. -/
def validFrom (l : List Item) : Nat → List Nat → Bool
  | _, [] => false
  | lo, [b] => decide (lo ≤ b) && decide (b = l.length)
  | lo, b :: b' :: rest =>
    decide (lo ≤ b) && decide (b < l.length) &&
    (match l[b]? with
     | some it => it.isBreak && validFrom l (b + 1 + it.replace) (b' :: rest)
     | none => false)

def ValidBreaks (l : List Item) (bs : List Nat) : Prop := validFrom l 0 bs = true

instance (l : List Item) (bs : List Nat) : Decidable (ValidBreaks l bs) := by
  unfold ValidBreaks; infer_instance

/-- The first item of the list part of a line is not discardable (or the line has none, or
it starts with post-break material). Executable on the body that `lineBody` extracts. -/
def startsClean (post body : List Item) : Bool :=
  !post.isEmpty || (match body with | [] => true | it :: _ => it.nonDiscardable)

/-- §890. -/
def penaltySpec (p : Params) (n idx : Nat) (brokeAtDisc : Bool) : Int :=
  p.interLine + (if idx = 0 then p.club else 0) + (if idx + 2 = n then p.widow else 0) +
    (if brokeAtDisc then p.broken else 0)

/-- A real line as the harness reports it: `(flat list, width, indent, penalty after it)`. -/
abbrev RLine := List Item × Int × Int × Option Int

/-- Width and indent of line `i` are the requested ones. -/
def geoAt (p : Params) (lines : List RLine) (i : Nat) : Bool :=
  match lines[i]? with
  | some (_, w, ind, _) =>
    (match lineWidth p.widths i with | .ok w' => w' == w | .error _ => false) &&
      ind == lineIndent p.indents i
  | none => false

def isDiscDropped : Option Dropped → Bool
  | some ⟨.disc _ _ _, _⟩ => true
  | _ => false

/-- §890 for line `i` of `n`. -/
def penAt (p : Params) (ds : List Dropped) (n : Nat) (lines : List RLine) (i : Nat) : Bool :=
  match lines[i]? with
  | some (_, _, _, pen) =>
    if i + 1 = n then pen == none
    else
      let want := penaltySpec p n i (isDiscDropped ds[i]?)
      pen == (if want = 0 then none else some want)
  | none => false

/-- Line `i > 0` does not start with discardable material. -/
def cleanAt (p : Params) (ds : List Dropped) (lines : List RLine) (i : Nat) : Bool :=
  if i = 0 then true
  else
    match lines[i]?, ds[i - 1]? with
    | some (flat, _, _, _), some d =>
      (match lineBody p (some d.item) ((ds[i]?).map (·.item)) flat with
       | some body => startsClean (postOf (some d.item)) body
       | none => true)   -- shape violations are reported by `conservation`
    | _, _ => true

/-- The whole executable verdict on real output lines: used by the driver for the I-vs-S
comparison. Returns the list of violated clauses (empty = ok). -/
def specVerdict (p : Params) (l : List Item) (bs : List Nat) (lines : List RLine) : List String :=
  let ds := droppedOf l bs
  let n := bs.length
  let idxs := List.range lines.length
  (if reassemble p (lines.map (·.1)) ds = some l then [] else ["conservation"]) ++
  (if lines.length = n then [] else ["line-count"]) ++
  (if idxs.all (geoAt p lines) then [] else ["geometry"]) ++
  (if idxs.all (penAt p ds n lines) then [] else ["penalty"]) ++
  (if idxs.all (cleanAt p ds lines) then [] else ["leading-discardable"])

/-! ## Text → horizontal list: the space factor and the inter-word glue -/

/-- `SpaceFactor::adjust` (boxworks-text lib.rs:122-134); `c` = `char as usize`. -/
def sfAdjust (codes : List Int) (sf : Int) (c : Nat) : Int :=
  let new := match codes[c]? with | some v => v | none => 1000
  if 0 < new ∧ new ≤ 1000 then new
  else if 1000 < new then (if sf < 1000 then 1000 else new)
  else sf

/-- The loop `for c in word.chars()` at the end of `add_word`. -/
def sfWord (codes : List Int) (sf : Int) (w : List Nat) : Int := w.foldl (sfAdjust codes) sf

/-- TeX.2021.1034, in TeX's order. -/
def sfSpec (code : Int) (sf : Int) : Int :=
  if code = 1000 then 1000
  else if code < 1000 then (if 0 < code then code else sf)
  else if sf < 1000 then 1000
  else code

inductive Res (α : Type)
  | ok (a : α)
  | panic
  deriving DecidableEq, Repr

def maxDimen : Int := 1073741823

/-- `Scaled::xn_over_d(..).unwrap().0` (common lib.rs:110-122): the two `debug_assert!`s, the
division by zero and the `unwrap` of an overflow are panics. -/
def xnOverD (x n d : Int) : Res Int :=
  if n > 65536 ∨ d > 65536 then .panic
  else if d = 0 then .panic
  else
    let q := Int.tdiv (x * n) d
    if q < -maxDimen ∨ q > maxDimen then .panic else .ok q

structure Font where
  space : Int
  stretch : Int
  shrink : Int
  extra : Int
  deriving DecidableEq, Repr, Inhabited

def Font.glue (f : Font) : Glue := { w := f.space, st := f.stretch, so := 0, sh := f.shrink, sho := 0 }

structure TextParams where
  spaceSkip : Glue := {}
  xspaceSkip : Glue := {}
  deriving DecidableEq, Repr, Inhabited

/-- TeX.2021.1044 applied to a glue specification. -/
def scaleBySf (g : Glue) (extra sf : Int) : Res Glue :=
  let w := if sf ≥ 2000 then g.w + extra else g.w
  match xnOverD g.st sf 1000 with
  | .panic => .panic
  | .ok st =>
    match xnOverD g.sh 1000 sf with
    | .panic => .panic
    | .ok sh => .ok { g with w := w, st := st, sh := sh }

/-- `add_space` (as in /repo since 2ef677c = fixes/C12-b.patch). -/
def interWordGlue (tp : TextParams) (f : Font) (sf : Int) : Res Glue :=
  if sf = 1000 then
    .ok (if !tp.spaceSkip.isZero then tp.spaceSkip else f.glue)
  else if sf ≥ 2000 ∧ !tp.xspaceSkip.isZero then .ok tp.xspaceSkip
  else scaleBySf (if !tp.spaceSkip.isZero then tp.spaceSkip else f.glue) f.extra sf

/-- `add_space` before the patch: a non-zero `\spaceskip` is used unscaled. -/
def interWordGlueOld (tp : TextParams) (f : Font) (sf : Int) : Res Glue :=
  if sf = 1000 then
    .ok (if !tp.spaceSkip.isZero then tp.spaceSkip else f.glue)
  else if sf ≥ 2000 ∧ !tp.xspaceSkip.isZero then .ok tp.xspaceSkip
  else if !tp.spaceSkip.isZero then .ok tp.spaceSkip
  else scaleBySf f.glue f.extra sf

/-- TeX.2021.1041–§1044 in TeX's words (dimension overflow = `none`: TeX reports
"Arithmetic overflow"; outside the quantifier). -/
def glueSpec (tp : TextParams) (f : Font) (sf : Int) : Option Glue :=
  if sf = 1000 then
    -- §1041: Append a normal inter-word space
    some (if tp.spaceSkip.isZero then f.glue else tp.spaceSkip)
  else
    -- §1043 app_space
    if sf ≥ 2000 ∧ !tp.xspaceSkip.isZero then some tp.xspaceSkip
    else
      let mainP := if !tp.spaceSkip.isZero then tp.spaceSkip else f.glue
      -- §1044
      let w := if sf ≥ 2000 then mainP.w + f.extra else mainP.w
      let st := Int.tdiv (mainP.st * sf) 1000
      let sh := Int.tdiv (mainP.sh * 1000) sf
      if sf ≤ 0 ∨ sf > 32767 ∨ st < -maxDimen ∨ st > maxDimen ∨ sh < -maxDimen ∨ sh > maxDimen then none
      else some { mainP with w := w, st := st, sh := sh }

/-- One piece of a text as `add_text` sees it. -/
inductive Piece
  | word (chars : List Nat)
  | space
  deriving DecidableEq, Repr

/-- `add_text` (boxworks lib.rs:19-30) on the words of the text (`split_ascii_whitespace`),
`lead` = the text starts with ASCII whitespace (or is empty). The space factor starts at 1000
(`new_paragraph`). Returns the inter-word glue chosen before each word (`none` = no space). -/
def addTextGlues (codes : List Int) (tp : TextParams) (f : Font) :
    Int → Bool → List (List Nat) → List (Option (Res Glue))
  | _, _, [] => []
  | sf, pending, w :: ws =>
    (if pending then some (interWordGlue tp f sf) else none) ::
      addTextGlues codes tp f (sfWord codes sf w) true ws

/-- Spelling (S): the characters the box-like items of the main list stand for, split at the
glue items (`none`), are the words of the text. -/
def splitAtGlue : List (Option (List Nat)) → List (List Nat)
  | [] => [[]]
  | none :: t => [] :: splitAtGlue t
  | some cs :: t =>
    match splitAtGlue t with
    | w :: ws => (cs ++ w) :: ws
    | [] => [cs]

def spell (items : List (Option (List Nat))) : List (List Nat) :=
  (splitAtGlue items).filter (fun w => !w.isEmpty)

/-! ## The text front end: `add_text`, `add_word` (boxworks lib.rs:19-30, boxworks-text lib.rs `add_word`)

The lig/kern program (`tfm::ligkern::CompiledProgram::run`, property C05) is a parameter `run`. -/

/-- `tfm::ligkern::RunItem`. -/
inductive RunItem
  | char (c : Nat)
  | kern (w : Int)
  | lig (c : Nat) (orig : List Nat) (lb rb : Bool)
  deriving DecidableEq, Repr, Inhabited

/-- The items `add_text` pushes (font = the current font everywhere). -/
inductive TItem
  | char (c : Nat)
  | lig (c : Nat) (orig : List Nat) (lb rb : Bool)
  | kern (w : Int)              -- `KernKind::Normal`
  | disc                        -- `Discretionary::default()` (TeX.2021.1039)
  | glue (g : Res Glue)         -- `.panic` = `add_space` panics (`xn_over_d(..).unwrap()`)
  deriving DecidableEq, Repr

/-- The `match elem` of `add_word`: an empty discretionary follows a hyphen character and a
ligature whose original characters end with one. -/
def addItem : RunItem → List TItem
  | .char c => .char c :: (if c = 45 then [.disc] else [])
  | .kern w => [.kern w]
  | .lig c orig lb rb => .lig c orig lb rb :: (if orig.getLast? = some 45 then [.disc] else [])

def addWord (run : List Nat → List RunItem) (w : List Nat) : List TItem :=
  (run w).flatMap addItem

/-- `char::is_ascii_whitespace`: space, tab, line feed, form feed, carriage return. -/
def isWs (c : Nat) : Bool := c == 32 || c == 9 || c == 10 || c == 12 || c == 13

/-- `str::split_ascii_whitespace`: the maximal runs of non-blank characters. -/
def splitWs : List Nat → List (List Nat)
  | [] => []
  | c :: t =>
    if isWs c then splitWs t
    else
      match t with
      | [] => [[c]]
      | d :: _ =>
        if isWs d then [c] :: splitWs t
        else
          match splitWs t with
          | w :: ws => (c :: w) :: ws
          | [] => [[c]]

/-- `text.chars().next().unwrap_or(' ').is_ascii_whitespace()`. -/
def leadWs : List Nat → Bool
  | [] => true
  | c :: _ => isWs c

/-- The loop of `add_text` over the words: `sf` = space factor, `pending` = `pending_space`. -/
def addWords (run : List Nat → List RunItem) (codes : List Int) (tp : TextParams) (f : Font) :
    Int → Bool → List (List Nat) → List TItem
  | _, _, [] => []
  | sf, pending, w :: ws =>
    (if pending then [TItem.glue (interWordGlue tp f sf)] else []) ++
      (addWord run w ++ addWords run codes tp f (sfWord codes sf w) true ws)

/-- `add_text`: `new_paragraph` resets the space factor to 1000. -/
def addText (run : List Nat → List RunItem) (codes : List Int) (tp : TextParams) (f : Font)
    (text : List Nat) : List TItem :=
  addWords run codes tp f 1000 (leadWs text) (splitWs text)

/-- What an item stands for when the list is read back: `none` = a blank. -/
def TItem.chars : TItem → Option (List Nat)
  | .char c => some [c]
  | .lig _ orig _ _ => some orig
  | .kern _ => some []
  | .disc => some []
  | .glue _ => none

def TItem.isGlue : TItem → Bool
  | .glue _ => true
  | _ => false

/-- The characters a run of the lig/kern program stands for (C05's `spell`). -/
def runSpell : List RunItem → List Nat
  | [] => []
  | .char c :: t => c :: runSpell t
  | .kern _ :: t => runSpell t
  | .lig _ orig _ _ :: t => orig ++ runSpell t

/-- S (text): the list spells the words of the text, and there is exactly one glue item per
blank run that is followed by a word. -/
def textVerdict (items : List TItem) (text : List Nat) : Bool × Bool :=
  let words := splitWs text
  (decide (spell (items.map TItem.chars) = words),
   decide ((items.filter TItem.isGlue).length =
     (if leadWs text then words.length else words.length - 1)))

/-! ## `box linebreak --widths=a,b,c` (boxworks-bin box.rs, `Linebreak::run`):
`s.split(',').map(|s| Scaled::parse_from_string(s.trim()))` — the splitting part
(`parse_from_string` itself is property C06's `parseFromString`). -/

/-- `str::split(sep)`: always at least one field. -/
def splitOnChar (sep : Nat) : List Nat → List (List Nat)
  | [] => [[]]
  | c :: t =>
    if c = sep then [] :: splitOnChar sep t
    else
      match splitOnChar sep t with
      | w :: ws => (c :: w) :: ws
      | [] => [[c]]

/-- `str::trim` on ASCII text: blanks (`isWs`, plus vertical tab) removed at both ends. -/
def isTrimWs (c : Nat) : Bool := isWs c || c == 11

def trimWs (l : List Nat) : List Nat := ((l.dropWhile isTrimWs).reverse.dropWhile isTrimWs).reverse

/-- The strings handed to `parse_from_string`, in the order they become line widths. -/
def widthFields (s : List Nat) : List (List Nat) := (splitOnChar 44 s).map trimWs

/-- `a, b, c`. -/
def joinComma : List (List Nat) → List Nat
  | [] => []
  | [f] => f
  | f :: g :: r => f ++ (44 :: 32 :: joinComma (g :: r))

/-! ## Every line is SET to its line width (TeX.2021.657–§664; the packing itself is property C15)

The box reports the requested width; geometry also wants its contents, with the glue set as the
box says, to fill that width. On the totals of a line (natural width `nat`, stretch and shrink
per order) the identity `Σ set widths = width` is `nat·den + num·(total of the box's order) =
width·den` with the box's ratio `num/den`, and the order must be the highest one with a
non-zero total. A line is excused only where TeX itself gives up: nothing to stretch
(underfull) or only finite shrink that is exhausted (overfull). -/

def highestNonzero (t : List Int) : Nat :=
  if t[3]?.getD 0 ≠ 0 then 3 else if t[2]?.getD 0 ≠ 0 then 2 else if t[1]?.getD 0 ≠ 0 then 1 else 0

/-- `st`, `sh` = total stretch / shrink of orders normal, fil, fill, filll. Returns the violated
clause, `none` = the line is set to its width (or excused). -/
def lineSetVerdict (nat width : Int) (st sh : List Int) (order : Nat) (num den : Int) : Option String :=
  let x := width - nat
  if 0 < x then
    let o := highestNonzero st
    let total := st[o]?.getD 0
    if total = 0 then none                                   -- underfull, nothing to set
    else if order ≠ o then some "stretch-order"
    else if den = 0 ∨ nat * den + num * total ≠ width * den then some "stretch-set-width"
    else none
  else if x < 0 then
    let o := highestNonzero sh
    let total := sh[o]?.getD 0
    if total = 0 then none                                   -- nothing can shrink
    else if o = 0 ∧ total < -x then none                     -- genuinely overfull (finite shrink exhausted)
    else if order ≠ o then some "shrink-order"
    else if den = 0 ∨ nat * den + num * total ≠ width * den then some "shrink-set-width"
    else none
  else none

/-! ## plain TeX's defaults (what `plain_tex_defaults()` promises) -/

/-- `\sfcode` after INITEX + plain.tex (`\nonfrenchspacing`): uppercase letters 999; `)`, `'`, `]`
0; `.`, `?`, `!` 3000; `:` 2000; `;` 1500; `,` 1250; everything else 1000. -/
def plainSfCode (c : Nat) : Int :=
  if 65 ≤ c ∧ c ≤ 90 then 999
  else if c = 41 ∨ c = 39 ∨ c = 93 then 0
  else if c = 46 ∨ c = 63 ∨ c = 33 then 3000
  else if c = 58 then 2000
  else if c = 59 then 1500
  else if c = 44 then 1250
  else 1000

def plainSfCodes : List Int := (List.range 256).map plainSfCode

/-- plain.tex: `\clubpenalty=150 \widowpenalty=150 \brokenpenalty=100 \interlinepenalty=0`,
`\leftskip=\rightskip=0pt`. -/
def plainParams : Params := { interLine := 0, club := 150, widow := 150, broken := 100 }

/-- plain.tex: `\parfillskip=0pt plus 1fil`. -/
def plainParFill : Glue := { st := 65536, so := 1 }

/-- plain.tex: `\spaceskip=\xspaceskip=0pt`. -/
def plainTextParams : TextParams := {}

end C12
