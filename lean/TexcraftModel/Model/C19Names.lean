/-!
# C19 — which file a written name denotes

`\input name` and `\openin n=name` read the file whose name is the written name, with the
default extension `.tex` appended **iff the written name has no extension** (TeX §511–§516
`scan_file_name`/`more_name`, §537 `start_input`, §1275 `open_or_close_in`:
`if cur_ext="" then cur_ext:=".tex"; pack_cur_name`). A name has an extension iff a `.`
occurs in its last component (after the last `/`: web2c's `more_name`, and what
`FileLocation::parse` does). Nothing else is ever tried: not the bare name, not a second
extension. Areas (`:` `>`) are outside this model (the code answers them with the error of a
file that cannot be read).

**Characters, not bytes.** A name is the list of the *Unicode scalar values* of its characters
(`Name = List Nat`), and every position in this file (`raw.length`, the `j` of `take j` /
`drop (j + 1)`) is a character position. The Rust code holds names as UTF-8 `String`s and its
positions (`raw_string.len()`, the slice bounds) are *byte* offsets; the abstraction is sound
as long as every offset the code computes lies on a character boundary and denotes the same
character as the model's position — which is what the correspondence checks with names that
mix 1-, 2-, 3- and 4-byte characters and combining marks before and after every dot and `/`
(a split that uses character counts as byte offsets cuts `ä.tex` inside `ä`). The harness sends
code points and compares resolved names as strings of characters.

`resolveTeX` is that rule (S). `resolveCode` transcribes the code (M):
`crates/texlang/src/parse/filelocation.rs` `FileLocation::parse` (scan left to right, the
last `.` after the last `/` splits path and extension) and `determine_full_path` as repaired
by `fixes/C19-c.patch` (path ++ "." ++ (extension or default)), called by
`texlang_common::read_file_to_string` with the default `"tex"` — one candidate, no fallback.

Core Lean only.
-/

namespace C19

abbrev Name := List Nat

def dot : Nat := 46
def slash : Nat := 47
def texExt : Name := [46, 116, 101, 120]   -- ".tex"

/-- S: does the last component contain a `.`? -/
def hasExt : Name → Bool
  | [] => false
  | c :: r => if hasExt r then true else if c = dot then !(r.contains slash) else false

/-- S: the TeX rule. -/
def resolveTeX (w : Name) : Name := if hasExt w then w else w ++ texExt

/-- M: `FileLocation::parse`: `raw_string` and `ext_delimiter` after scanning `w`. -/
def scanName : Name → Name → Option Nat → Name × Option Nat
  | [], raw, e => (raw, e)
  | c :: r, raw, e =>
    if c = dot then scanName r (raw ++ [c]) (some raw.length)
    else if c = slash then scanName r (raw ++ [c]) none
    else scanName r (raw ++ [c]) e

/-- M: `path` ++ "." ++ (`extension` or "tex"), `path = raw[..j]`, `extension = raw[j+1..]`. -/
def resolveCode (w : Name) : Name :=
  match scanName w [] none with
  | (raw, none) => raw ++ [dot] ++ [116, 101, 120]
  | (raw, some j) => raw.take j ++ [dot] ++ raw.drop (j + 1)

/-- The file system as a run sees it: written-name id ↦ content of the file that the written
name denotes under resolution `res` on the disk `disk` (literal file name ↦ content). The
machine of `Model/C19.lean` (`FS`, `lookup`) works on this bound view. -/
def lookupName {α : Type} (disk : List (Name × α)) (n : Name) : Option α :=
  match disk with
  | [] => none
  | (m, x) :: r => if m = n then some x else lookupName r n

def bindNames {α : Type} (res : Name → Name) (disk : List (Name × α)) : List (Nat × Name) → List (Nat × α)
  | [] => []
  | (i, w) :: r =>
    match lookupName disk (res w) with
    | some x => (i, x) :: bindNames res disk r
    | none => bindNames res disk r

/-! ## Which tokens belong to a file name

TeX §526 (`scan_file_name`): after skipping blanks, tokens are taken (expanded) until one with
`cur_cmd > other_char` or `cur_chr > 255` — it is put back — or until `more_name` answers false,
which it does for a space (the space is consumed). The command codes up to `other_char` = 12
are the character categories 1–4, 6–8 (braces, `$`, `&`, `#`, `^`, `_`), 10 (space), 11 and 12:
**every character token except a space belongs to the name**, whatever its category; control
sequences and active characters (commands) end it and stay. `FileLocation::parse` takes
`t.char()`, which is `Some` for exactly the character tokens (not for `CommandRef`s), after the
test for a space: the same rule. A token is `(character, category)`; category 13 and a
control sequence (category 16 here) are commands. -/

/-- S: TeX §526. `some true`: part of the name; `some false`: ends the name and is consumed
(space); `none`: ends the name and is put back. -/
def nameTokTeX (cat : Nat) : Option Bool :=
  if cat = 10 then some false
  else if cat ∈ [1, 2, 3, 4, 6, 7, 8, 11, 12] then some true
  else none

/-- M: `FileLocation::parse`: a `Space` value breaks; `t.char()` is `None` exactly for command
references (control sequences, active characters). -/
def nameTokCode (cat : Nat) : Option Bool :=
  if cat = 10 then some false
  else if cat = 13 ∨ cat ≥ 16 then none
  else if cat = 0 ∨ cat = 5 ∨ cat = 9 ∨ cat = 14 ∨ cat = 15 then none   -- never token categories
  else some true

/-- The name at the front of a token list and the number of tokens consumed. -/
def takeName (rule : Nat → Option Bool) : List (Nat × Nat) → Name × Nat
  | [] => ([], 0)
  | (c, cat) :: r =>
    match rule cat with
    | some true => (c :: (takeName rule r).1, (takeName rule r).2 + 1)
    | some false => ([], 1)
    | none => ([], 0)

end C19
