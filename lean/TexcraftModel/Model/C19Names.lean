/-!
# C19 — which file a written name denotes

`\input name` and `\openin n=name` read the file whose name is the written name, with the
default extension `.tex` appended **iff the written name has no extension** (TeX §511–§516
`scan_file_name`/`more_name`, §537 `start_input`, §1275 `open_or_close_in`:
`if cur_ext="" then cur_ext:=".tex"; pack_cur_name`). A name has an extension iff a `.`
occurs in its last component (after the last `/`: web2c's `more_name`, and what
`FileLocation::parse` does). Nothing else is ever tried: not the bare name, not a second
extension. Areas (`:` `>`) are outside this model (the code answers them with the error of a
file that cannot be read).

**Characters, not bytes.** A name is the list of the *Unicode scalar values* of its characters
(`Name = List Nat`), and every position in this file (`raw.length`, the `j` of `take j` /
`drop (j + 1)`) is a character position. The Rust code holds names as UTF-8 `String`s and its
positions (`raw_string.len()`, the slice bounds) are *byte* offsets; the abstraction is sound
as long as every offset the code computes lies on a character boundary and denotes the same
character as the model's position — which is what the correspondence checks with names that
mix 1-, 2-, 3- and 4-byte characters and combining marks before and after every dot and `/`
(a split that uses character counts as byte offsets cuts `ä.tex` inside `ä`). The harness sends
code points and compares resolved names as strings of characters.

`resolveTeX` is that rule (S). `resolveCode` transcribes the code (M):
`crates/texlang/src/parse/filelocation.rs` `FileLocation::parse` (scan left to right, the
last `.` after the last `/` splits path and extension) and `determine_full_path` as repaired
by `fixes/C19-c.patch` (path ++ "." ++ (extension or default)), called by
`texlang_common::read_file_to_string` with the default `"tex"` — one candidate, no fallback.

Core Lean only.
-/

namespace C19

abbrev Name := List Nat

def dot : Nat := 46
def slash : Nat := 47
def texExt : Name := [46, 116, 101, 120]   -- ".tex"

/-- S: does the last component contain a `.`? -/
def hasExt : Name → Bool
  | [] => false
  | c :: r => if hasExt r then true else if c = dot then !(r.contains slash) else false

/-- S: the TeX rule. -/
def resolveTeX (w : Name) : Name := if hasExt w then w else w ++ texExt

/-- M: `FileLocation::parse`: `raw_string` and `ext_delimiter` after scanning `w`. -/
def scanName : Name → Name → Option Nat → Name × Option Nat
  | [], raw, e => (raw, e)
  | c :: r, raw, e =>
    if c = dot then scanName r (raw ++ [c]) (some raw.length)
    else if c = slash then scanName r (raw ++ [c]) none
    else scanName r (raw ++ [c]) e

/-- M: `path` ++ "." ++ (`extension` or "tex"), `path = raw[..j]`, `extension = raw[j+1..]`. -/
def resolveCode (w : Name) : Name :=
  match scanName w [] none with
  | (raw, none) => raw ++ [dot] ++ [116, 101, 120]
  | (raw, some j) => raw.take j ++ [dot] ++ raw.drop (j + 1)

/-- The file system as a run sees it: written-name id ↦ content of the file that the written
name denotes under resolution `res` on the disk `disk` (literal file name ↦ content). The
machine of `Model/C19.lean` (`FS`, `lookup`) works on this bound view. -/
def lookupName {α : Type} (disk : List (Name × α)) (n : Name) : Option α :=
  match disk with
  | [] => none
  | (m, x) :: r => if m = n then some x else lookupName r n

def bindNames {α : Type} (res : Name → Name) (disk : List (Name × α)) : List (Nat × Name) → List (Nat × α)
  | [] => []
  | (i, w) :: r =>
    match lookupName disk (res w) with
    | some x => (i, x) :: bindNames res disk r
    | none => bindNames res disk r

end C19
