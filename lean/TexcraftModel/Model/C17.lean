/-
C17 — font-metric arithmetic. Model of

* `impl Display for FixWord`            crates/tfm/src/lib.rs   (TFtoPL §40–43)   → `printFix`
* `impl Parse for FixWord`              crates/tfm/src/pl/ast.rs (PLtoTF §62–66)  → `parseFix`
* `FixWord::to_scaled`                  crates/tfm/src/lib.rs   (TeX §568, §571–572) → `toScaled`
* `compress`                            crates/tfm/src/lib.rs   (PLtoTF §75–80)   → `compress`
* `NextLargerProgram::new` / `get`      crates/tfm/src/lib.rs   (TFtoPL §84)      → `nlEdges`, `cutNxt`, `nlGet`

and the independent specifications `storeScaled` (TeX's Pascal), `CompressSpec`
(cover by intervals) and, for next-larger, the functional graph with the largest node of every
cycle cut (`cutNxt`, `nlGet`; here the model *is* the specification, see notes/C17.md).

A fix_word is an `Int` (the `i32` it holds, value·2^20); the 32-bit width is explicit: every
Rust operation that can overflow in the checked build is a `chk` in the model and yields
`panic`. Rust `/` and `%` on `i32` truncate: `Int.tdiv`/`Int.tmod`. Text is `List Char`.
Core Lean only.
-/
namespace C17

def ONE : Int := 1048576          -- 2^20 = 0o4_000_000
def I32_MIN : Int := -2147483648
def I32_MAX : Int := 2147483647

def inI32 (x : Int) : Bool := decide (I32_MIN ≤ x) && decide (x ≤ I32_MAX)

/-! ## Display (TFtoPL §40–43) -/

/-- The digit loop of `Display`: `fp`, `delta` are the loop variables on entry to an iteration.
`fuel` bounds the number of iterations (`frac_fuel_suffices`: 7 are always enough). The
digits are the successive values of `fp / 0o4_000_000`. -/
def fracDigits : Nat → Int → Int → List Int
  | 0, _, _ => []
  | n + 1, fp, delta =>
    let fp1 := if delta > 1048576 then fp + 524288 - Int.tdiv delta 2 else fp
    let d := Int.tdiv fp1 1048576
    let fp2 := 10 * Int.tmod fp1 1048576
    let delta2 := delta * 10
    if fp2 ≤ delta2 then [d] else d :: fracDigits n fp2 delta2

/-- `write!(f, "{}", i)` for an `i32`. -/
def showInt (i : Int) : List Char :=
  if i < 0 then '-' :: Nat.toDigits 10 i.natAbs else Nat.toDigits 10 i.toNat

def FRAC_FUEL : Nat := 12

/-- `format!("{}", FixWord(v))`. -/
def printFix (v : Int) : List Char :=
  (if v < 0 then ['-'] else []) ++
  showInt ((Int.tdiv v 1048576).natAbs : Int) ++ ['.'] ++
  ((fracDigits FRAC_FUEL (10 * ((Int.tmod v 1048576).natAbs : Int) + 5) 10).map showInt).flatten

/-! ## The PL decimal reader (PLtoTF §62–66) -/

/-- Warning pushed by the reader (everything else about a warning — spans, offsets — is not
modelled). -/
inductive Warn | none | invalidPrefix | tooBig
  deriving DecidableEq, Repr

structure Parsed where
  value : Int
  warn : Warn
  deriving DecidableEq, Repr

def isDig (c : Char) : Bool := decide ('0'.toNat ≤ c.toNat) && decide (c.toNat ≤ '9'.toNat)
def digVal (c : Char) : Int := ((c.toNat - 48 : Nat) : Int)

/-- `Input::consume_spaces`. -/
def skipSpaces : List Char → List Char
  | c :: t => if c = ' ' ∨ c = '\n' then skipSpaces t else c :: t
  | [] => []

/-- PLtoTF §63: signs. -/
def readSigns : List Char → Bool → Bool × List Char
  | c :: t, neg =>
    if c = '+' ∨ c = ' ' then readSigns t neg
    else if c = '-' then readSigns t (!neg)
    else (neg, c :: t)
  | [], neg => (neg, [])

/-- PLtoTF §64: the integer part, saturating at 2048. -/
def readInt : List Char → Int → Int × List Char
  | c :: t, acc =>
    if isDig c then
      let acc1 := acc * 10 + digVal c
      readInt t (if acc1 ≥ 2048 then 2048 else acc1)
    else (acc, c :: t)
  | [], acc => (acc, [])

/-- PLtoTF §66: up to `n` fraction digits. -/
def readFracDigits : Nat → List Char → List Int × List Char
  | 0, s => ([], s)
  | n + 1, c :: t =>
    if isDig c then
      let (ds, r) := readFracDigits n t
      (digVal c :: ds, r)
    else ([], c :: t)
  | _ + 1, [] => ([], [])

/-- `for j in (0..7).rev() { acc = fractional_digits[j] + acc / 10 }` with
`fractional_digits[j] = 2^21 · digit`. -/
def fracAcc : List Int → Int
  | [] => 0
  | d :: t => 2097152 * d + Int.tdiv (fracAcc t) 10

def fracValue (ds : List Int) : Int :=
  Int.tdiv (fracAcc (ds ++ List.replicate (7 - ds.length) 0) + 10) 20

/-- `<FixWord as Parse>::parse` on the property value text (beginning with the `R`/`D`). -/
def parseFix (s : List Char) : Parsed :=
  match skipSpaces s with
  | [] => ⟨0, .invalidPrefix⟩
  | c :: t =>
    if c = 'D' ∨ c = 'd' ∨ c = 'R' ∨ c = 'r' then
      let (neg, s2) := readSigns (skipSpaces t) false
      let (ip, s3) := readInt s2 0
      let fp : Int :=
        match s3 with
        | '.' :: s4 => fracValue (readFracDigits 7 s4).1
        | _ => 0
      if ip ≥ 2048 ∨ (fp ≥ 1048576 ∧ ip = 2047) then
        ⟨if ip = 2047 then 1048576 else 0, .tooBig⟩
      else
        let m := ip * 1048576 + fp
        ⟨if neg then -m else m, .none⟩
    else ⟨0, .invalidPrefix⟩

/-- What `to_string` writes for a fix_word property value: `R <decimal>`. -/
def plText (v : Int) : List Char := 'R' :: ' ' :: printFix v

/-! ## `to_scaled` (TeX §568, §571–572) -/

inductive Out (α : Type) | ok (a : α) | panic
  deriving DecidableEq, Repr

def chk (x : Int) : Option Int := if inI32 x then some x else none

/-- `while z >= 0o40000000 { z /= 2; alpha *= 2 }`. -/
def halve : Nat → Int → Int → Int × Int
  | 0, z, a => (z, a)
  | n + 1, z, a => if z ≥ 8388608 then halve n (Int.tdiv z 2) (a * 2) else (z, a)

/-- The four big-endian bytes of an `i32`. -/
def beBytes (v : Int) : Int × Int × Int × Int :=
  let u := v % 4294967296
  (u / 16777216, u / 65536 % 256, u / 256 % 256, u % 256)

/-- The body of `to_scaled` after the `while` loop (`z`, `alpha0` = the loop's results). -/
def scaledWith (z alpha0 v : Int) : Option Int := do
  let beta := Int.tdiv 256 alpha0
  let alpha ← chk (z * alpha0)
  let (a, b, c, d) := beBytes v
  if ¬ (a = 0 ∨ a = 255) then none else
  let t1 ← chk (z * d)
  let t2 ← chk (z * c)
  let t3 ← chk (Int.tdiv t1 256 + t2)
  let t4 ← chk (z * b)
  let t5 ← chk (Int.tdiv t3 256 + t4)
  let sw := Int.tdiv t5 beta
  if a = 255 then chk (sw - alpha) else some sw

/-- `FixWord(v).to_scaled(FixWord(ds))`; `none` = the Rust code panics (overflow check or the
`assert!(a == 0 || a == 255)`). -/
def toScaled (v ds : Int) : Option Int :=
  let r := halve 32 (Int.tdiv ds 16) 16
  scaledWith r.1 r.2 v

/-- TeX §572 "replace z by z′ and compute α, β" on Pascal integers. -/
def texHalve : Nat → Int → Int → Int × Int
  | 0, z, a => (z, a)
  | n + 1, z, a => if z ≥ 8388608 then texHalve n (z / 2) (a + a) else (z, a)

/-- TeX §571 `store_scaled` given `z` and `α₀` from §572; `none` = `abort`. -/
def texWith (z alpha0 v : Int) : Option Int :=
  let beta := 256 / alpha0
  let alpha := alpha0 * z
  let (a, b, c, d) := beBytes v
  let sw := (((d * z) / 256 + c * z) / 256 + b * z) / beta
  if a = 0 then some sw else if a = 255 then some (sw - alpha) else none

/-- TeX §571–572 for a font loaded at its design size `ds` (a fix_word, §568: `z = ds div 16`
sp). All operands are non-negative, so Pascal's `div` is `/`. -/
def storeScaled (v ds : Int) : Option Int :=
  let r := texHalve 32 (ds / 16) 16
  texWith r.1 r.2 v

/-! ## `compress` (PLtoTF §75–80) -/

/-- Insert into a strictly increasing list, dropping duplicates (`HashSet` + `sort`). -/
def insertD (x : Int) : List Int → List Int
  | [] => [x]
  | y :: t => if x < y then x :: y :: t else if x = y then y :: t else y :: insertD x t

def dedupSort (l : List Int) : List Int := l.foldr insertD []

/-- Result of one candidate pass: a solution (the intervals, `delta_lower`) or not a solution
(`delta_upper`). The Rust code keeps the interval *end indices* in `buffer`/`solution` and
slices `dedup_values[previous..i]` at the end; the model keeps the intervals themselves
(`done` = closed intervals, `cur` = the open one), so `buffer.len() = done.length`. -/
inductive PassRes
  | sol (classes : List (List Int)) (dlo : Int)
  | fail (dhi : Int)
  deriving Repr

/-- `for (i, &v) in dedup_values.iter().enumerate() { … }` followed by
`buffer.push(dedup_values.len())` and the test `buffer.len() <= max_size`. -/
def passLoop (delta : Int) (maxSize : Nat) :
    List Int → Int → Int → Int → List Int → List (List Int) → PassRes
  | [], _, dlo, dhi, cur, done =>
    if done.length + 1 ≤ maxSize then .sol (done ++ [cur]) dlo else .fail dhi
  | v :: t, start, dlo, dhi, cur, done =>
    let gap := v - start
    if gap > delta then
      let dhi' := if gap < dhi then gap else dhi
      let done' := done ++ [cur]
      if done'.length ≥ maxSize then .fail dhi'    -- `break`; the final push makes it too long
      else passLoop delta maxSize t v dlo dhi' [v] done'
    else passLoop delta maxSize t start (if gap > dlo then gap else dlo) dhi (cur ++ [v]) done

/-- The binary search `while lower < upper { … }`; `fuel` bounds the iterations
(`search_fuel`: 64 suffice for 32-bit values). -/
def searchLoop (vals : List Int) (first maxDelta : Int) (maxSize : Nat) :
    Nat → Int → Int → List (List Int) → List (List Int)
  | 0, _, _, sol => sol
  | n + 1, lower, upper, sol =>
    if lower < upper then
      let delta := lower + Int.tdiv (upper - lower) 2
      match passLoop delta maxSize vals first 0 maxDelta [] [] with
      | .sol cls dlo => searchLoop vals first maxDelta maxSize n lower dlo cls
      | .fail dhi => searchLoop vals first maxDelta maxSize n dhi upper sol
    else sol

/-- The final loop: representative `(last + first) / 2` of every interval, computed in `i64`
(no overflow) and converted back with `try_into().expect(…)`; every member mapped to the
1-based class index. `none` = the midpoint is not an `i32` (impossible for `i32` inputs), or an
empty interval (`interval.last().unwrap()`). -/
def emit : List (List Int) → Nat → Option (List Int × List (Int × Nat))
  | [], _ => some ([], [])
  | cls :: rest, idx =>
    match cls.head?, cls.getLast? with
    | some f, some l =>
      match chk (Int.tdiv (l + f) 2), emit rest (idx + 1) with
      | some r, some (reps, m) => some (r :: reps, cls.map (fun v => (v, idx)) ++ m)
      | _, _ => none
    | _, _ => none

/-- The early exit: value `i` (0-based) gets index `i + 1`. -/
def idxFrom : Nat → List Int → List (Int × Nat)
  | _, [] => []
  | k, v :: t => (v, k) :: idxFrom (k + 1) t

/-- `compress(values, max_size)`: the table (first entry `0`) and the value → index map as an
association list sorted by value. -/
def compress (values : List Int) (maxSize : Nat) : Out (List Int × List (Int × Nat)) :=
  let vals := dedupSort values
  if vals.length ≤ maxSize then
    .ok (0 :: vals, idxFrom 1 vals)
  else
    match vals.head?, vals.getLast? with
    | some first, some last =>
      -- since /repo 3d2d8d9 the search runs on `i64` copies: `last - first` cannot overflow
      let maxDelta := last - first
      let sol := searchLoop vals first maxDelta maxSize 64 0 maxDelta [vals]
      match emit sol 1 with
      | some (reps, m) => .ok (0 :: reps, m)
      | none => .panic
    | _, _ => .panic

/-! ### Specification of `compress`: covers by intervals -/

/-- `C` (interval starts) covers `vals` with intervals of length `δ`. -/
def Covers (δ : Int) (C : List Int) (vals : List Int) : Prop :=
  ∀ v ∈ vals, ∃ c ∈ C, c ≤ v ∧ v ≤ c + δ

/-- The starts of the greedy cover of the elements beyond the current reach `r`. -/
def greedyStarts (δ : Int) : Int → List Int → List Int
  | _, [] => []
  | r, v :: t => if v > r then v :: greedyStarts δ (v + δ) t else greedyStarts δ r t

/-- Number of classes the greedy pass needs for tolerance `δ` (sorted input). -/
def greedyCount (δ : Int) (vals : List Int) : Nat :=
  match vals with
  | [] => 0
  | v :: t => 1 + (greedyStarts δ (v + δ) t).length

def lookupIdx (m : List (Int × Nat)) (v : Int) : Option Nat :=
  match m with
  | [] => none
  | (w, i) :: t => if w = v then some i else lookupIdx t v

def absI (x : Int) : Int := if x < 0 then -x else x

/-- The members of class `i`. -/
def members (vals : List Int) (m : List (Int × Nat)) (i : Nat) : List Int :=
  vals.filter (fun v => lookupIdx m v == some i)

def listMax : List Int → Int
  | [] => 0
  | [x] => x
  | x :: t => let y := listMax t; if x < y then y else x
def listMin : List Int → Int
  | [] => 0
  | [x] => x
  | x :: t => let y := listMin t; if y < x then y else x

/-- The tolerance a result actually uses: the largest class diameter. -/
def usedTol (vals : List Int) (m : List (Int × Nat)) (classes : Nat) : Int :=
  listMax (0 :: (List.range (classes + 1)).map (fun i =>
    let ms := members vals m i; listMax ms - listMin ms))

/-- Executable checker of the three clauses on a claimed result (`table`, `m`) for the input
`values` and class limit `maxSize` (used on the *real* output of the Rust code):
`le` at most `maxSize` classes (+ the leading zero); `near` every input value is mapped to a
class `1..classes` whose representative is within half the used tolerance `δ` (rounded up to
the fix_word grid: `2·|v − rep| ≤ δ + δ mod 2`, i.e. exactly half when `δ` is even); `minimal` no smaller tolerance admits `maxSize`
classes (greedy count at `δ − 1`, which is optimal: `greedy_optimal`). -/
def checkCompress (values : List Int) (maxSize : Nat) (table : List Int) (m : List (Int × Nat)) :
    Bool × Bool × Bool :=
  let vals := dedupSort values
  let classes := table.length - 1
  let δ := usedTol vals m classes
  let le := table.head? == some 0 && decide (classes ≤ maxSize)
  let near := vals.all (fun v =>
    match lookupIdx m v with
    | some i => decide (1 ≤ i) && decide (i ≤ classes) &&
        (match table[i]? with
         | some rep => decide (2 * absI (v - rep) ≤ δ + δ % 2)
         | none => false)
    | none => false)
  let minimal := decide (δ = 0) || decide (greedyCount (δ - 1) vals > maxSize)
  (le, near, minimal)

/-- **Specification of `compress`** in the property's words: there is a tolerance `δ ≥ 0` with
(1) the table starts with `0` and has at most `maxSize` further entries (classes);
(2) every input value is mapped to a class `i ≥ 1` whose representative `table[i]` is within
half the tolerance: `2·|v − rep| ≤ δ` when `δ` is even, and `2·|v − rep| ≤ δ + 1` when `δ` is odd
(`δ + δ mod 2`: no integer representative of two values an odd `δ` apart can be within `δ/2` of
both, `no_integer_representative_better`);
(3) `δ` is the smallest possible: no tolerance `0 ≤ δ' < δ` lets *any* `maxSize` intervals of
length `δ'` cover the values. -/
def CompressSpecAt (values : List Int) (maxSize : Nat) (table : List Int) (m : List (Int × Nat))
    (δ : Int) : Prop :=
    (table.head? = some 0 ∧ table.length - 1 ≤ maxSize) ∧
    (∀ v ∈ values, ∃ i rep, lookupIdx m v = some i ∧ 1 ≤ i ∧ table[i]? = some rep ∧
      2 * absI (v - rep) ≤ δ + δ % 2) ∧
    (∀ δ' C, 0 ≤ δ' → δ' < δ → C.length ≤ maxSize → ¬ Covers δ' C values)

def CompressSpec (values : List Int) (maxSize : Nat) (table : List Int) (m : List (Int × Nat)) : Prop :=
  ∃ δ : Int, 0 ≤ δ ∧ CompressSpecAt values maxSize table m δ

/-- The tolerance is attained: two input values exactly `δ` apart share a class (so, when `δ` is
odd, `2|v − rep| ≤ δ` is impossible for that class: `no_integer_representative_better`). -/
def Attained (values : List Int) (m : List (Int × Nat)) (δ : Int) : Prop :=
  δ = 0 ∨ ∃ v ∈ values, ∃ w ∈ values, w - v = δ ∧ lookupIdx m v = lookupIdx m w

/-! ### The allowed numbers of classes

A `char_info_word` of a TFM file (TFtoPL §11, TeX §543–544) has 8 bits for the width index,
4 bits each for the height and depth indices and 6 bits for the italic-correction index, and
entry 0 of every table is reserved for the value zero (`width[0] = height[0] = depth[0] =
italic[0] = 0`). PLtoTF therefore shortens the lists to at most 255 / 15 / 15 / 63 non-zero
classes (PLtoTF "Doing it": `shorten(width, 255)`, `shorten(height, 15)`, `shorten(depth, 15)`,
`shorten(italic, 63)`). These are constants of the specification, not read from the code. -/

/-- `kind`: 0 width, 1 height, 2 depth, 3 italic correction. -/
def tfmLimit : Nat → Nat
  | 0 => 255     -- 2^8 − 1
  | 1 => 15      -- 2^4 − 1
  | 2 => 15      -- 2^4 − 1
  | _ => 63      -- 2^6 − 1

/-- Checker for one dimension table of a TFM file produced from a property list: `charVals` are
the values the characters have in the property list, `table` the table read back from the
serialised file, `idx` the `(value, index read back)` pairs of the characters. Heights, depths
and italic corrections equal to zero are not compressed (index 0); widths always are.
Result: the three clauses of `checkCompress` for the **true** limit `tfmLimit kind`, and
`zeros`: every zero height/depth/italic has index 0. An index that wrapped on serialisation
shows as `near = false` (index 0 or a far representative). -/
def checkTfmTable (kind : Nat) (charVals : List Int) (table : List Int) (idx : List (Int × Nat)) :
    Bool × Bool × Bool × Bool :=
  let vals := if kind = 0 then charVals else charVals.filter (· != 0)
  let r := checkCompress vals (tfmLimit kind) table idx
  let zeros := kind == 0 || charVals.all (fun v => v != 0 || lookupIdx idx v == some 0)
  (r.1, r.2.1, r.2.2, zeros)

/-! ### The index remapping of `impl From<pl::File> for tfm::File` (one dimension) -/

/-- Per-character lookups: widths `*width_to_index.get(&width).expect(…)` (`none` = panic),
heights/depths/italics `….get(&v).copied().map(NonZeroU8::get).unwrap_or(0)`. -/
def lookAll (kind : Nat) (m : List (Int × Nat)) : List Int → Option (List Nat)
  | [] => some []
  | v :: t =>
    match (if kind = 0 then lookupIdx m v else some ((lookupIdx m v).getD 0)), lookAll kind m t with
    | some i, some r => some (i :: r)
    | _, _ => none

/-- One dimension of `tfm::File::from(pl_file)`: `charVals` are the values of the characters (in
character order; `unwrap_or_default()` already applied for widths), the result is the table
written to the TFM file and the index every character gets. Widths are all compressed; zero
heights/depths/italics are left out (`None | Some(FixWord::ZERO) => {}`) and get index 0. The
class limit is the literal at the call site, which must be `tfmLimit kind`. -/
def remapDim (kind : Nat) (charVals : List Int) : Out (List Int × List Nat) :=
  let vals := if kind = 0 then charVals else charVals.filter (· != 0)
  match compress vals (tfmLimit kind) with
  | .panic => .panic
  | .ok (table, m) =>
    match lookAll kind m charVals with
    | some idx => .ok (table, idx)
    | none => .panic

/-! ## Next-larger chains (TFtoPL §84, PLtoTF §110–113) -/

/-- A functional graph: association list `smaller ↦ larger`, first match wins (`nlEdges`
puts later edges first, like `HashMap::insert`). -/
def nxt (g : List (Nat × Nat)) (c : Nat) : Option Nat :=
  match g with
  | [] => none
  | (a, b) :: t => if a = c then some b else nxt t c

/-- The first loop of `new`: `(graph, NonExistentCharacter warnings)`. -/
def nlEdges (exist : Nat → Bool) (dropNE : Bool) :
    List (Nat × Nat) → List (Nat × Nat) → List (Nat × Nat) → List (Nat × Nat) × List (Nat × Nat)
  | [], g, w => (g, w.reverse)
  | (s, l) :: t, g, w =>
    if !exist l then
      if dropNE then nlEdges exist dropNE t g ((s, l) :: w)
      else nlEdges exist dropNE t ((s, l) :: g) ((s, l) :: w)
    else nlEdges exist dropNE t ((s, l) :: g) w

/-- The successors of `c`: up to `fuel` steps along `g`. -/
def orbit (g : List (Nat × Nat)) : Nat → Nat → List Nat
  | 0, _ => []
  | n + 1, c => match nxt g c with
    | none => []
    | some d => d :: orbit g n d

/-- `c` lies on a cycle of `g` and is the largest character of that cycle. -/
def isCut (g : List (Nat × Nat)) (c : Nat) : Bool :=
  let o := orbit g g.length c
  o.contains c && (o.takeWhile (· != c)).all (· ≤ c)

/-- The graph after every cycle has been broken at its largest character. -/
def cutNxt (g : List (Nat × Nat)) (c : Nat) : Option Nat :=
  if isCut g c then none else nxt g c

/-- `get(c)`: follow the cut graph. -/
def chain (g : List (Nat × Nat)) : Nat → Nat → List Nat
  | 0, _ => []
  | n + 1, c => match cutNxt g c with
    | none => []
    | some d => d :: chain g n d

def nlGet (g : List (Nat × Nat)) (c : Nat) : List Nat := chain g (g.length + 1) c

/-- `k` steps along a partial step function (specification vocabulary). -/
def it (s : Nat → Option Nat) : Nat → Nat → Option Nat
  | 0, c => some c
  | k + 1, c => (it s k c).bind s

/-- Every consecutive pair of the list is a link of the step function `s`. -/
def Linked (s : Nat → Option Nat) : List Nat → Prop
  | a :: b :: t => s a = some b ∧ Linked s (b :: t)
  | _ => True


/-- The cut graph as a list, computed once (`nxt_cutList`: `nxt (cutList g) = cutNxt g`). -/
def cutList (g : List (Nat × Nat)) : List (Nat × Nat) := g.filter (fun e => !isCut g e.1)

/-- Follow a list-represented graph. -/
def chainL (cl : List (Nat × Nat)) : Nat → Nat → List Nat
  | 0, _ => []
  | n + 1, c => match nxt cl c with
    | none => []
    | some d => d :: chainL cl n d

/-- `nlGet` with the cut graph precomputed (`nlGetFast_eq`); what the driver evaluates. -/
def nlGetFast (g cl : List (Nat × Nat)) (c : Nat) : List Nat := chainL cl (g.length + 1) c

/-- `InfiniteLoop` warnings: `(original, next_larger)` for every cut, ascending. -/
def nlLoops (g : List (Nat × Nat)) (maxChar : Nat) : List (Nat × Nat) :=
  (List.range (maxChar + 1)).filterMap (fun c =>
    if isCut g c then (nxt g c).map (fun d => (c, d)) else none)

end C17
