import TexcraftModel.Model.C07

/-!
# C07 — operand scanning on the tokens the user writes

`Model/C07.lean` lets an `iff`/`ifcase` token carry its already-scanned operands. Here the
operands are tokens: the machine below is the machine of `Model/C07.lean` extended with the
number scanner that the conditions call, so that theorems about conditionals speak about the
token lists a user writes.

Anchors: `crates/texlang/src/parse/integer.rs` (`parse_integer`, `parse_optional_signs`,
`parse_constant::<10>`, the optional space TeX.2021.444), `parse/relation.rs`
(`Ordering::parse_impl`), `conditional.rs` (`IfOdd/IfNum::evaluate`, `if_case_primitive_fn`
call `i32::parse` on the **expanded** stream, i.e. through `next_expanded`).

The point of scanning on the expanded stream: a conditional command that arrives while a
number is being scanned is *executed* (nested `\if…` start their own scan, `\else/\or/\fi`
act on the branch stack) — and the conditional whose operand is being scanned has not pushed
its branch yet. That is finding C07-i: TeX (TeX.2021.510) ends the number there by inserting
`\relax`; the code lets `\fi`/`\else`/`\or` act on whatever branch is on top (or report
`unexpected …`). The flag `tex` of `ustep` selects TeX's rule; `false` is the code.

Decimal constants and internal integers (registers) only; octal/hex/character constants are
not modelled (exercised by the `cond` stream's operand styles).
-/
namespace C07

/-- Surface tokens. -/
inductive UTok
  | itrue | ifalse | iodd | inum | icase       -- the five if-tagged primitives (or aliases)
  | els | orr | fi
  | dig (d : Nat)                               -- a digit character `0`..`9` (catcode other)
  | minus | plus                                -- `-` `+`
  | sp                                          -- a space token
  | rel (r : Rel)                               -- `<` `=` `>`
  | reg (v : Int)                               -- an internal integer (e.g. a `\countdef` token) holding `v`
  | other (n : Nat)                             -- any other unexpandable token that is not a brace
  | bg | eg
  deriving DecidableEq, Repr

/-- Which condition a number is being scanned for. -/
inductive Pending
  | odd                         -- `\ifodd`
  | case                        -- `\ifcase`
  | num1                        -- first number of `\ifnum`
  | num2 (a : Int) (r : Rel)    -- second number of `\ifnum`
  deriving DecidableEq, Repr

/-- A condition under evaluation: where its scanner stands. `base` = height of the branch
stack when the conditional started (used only by TeX's rule, to know that no conditional has
been opened since). -/
inductive Frame
  | signs (k : Pending) (neg : Bool) (base : Nat)               -- `parse_optional_signs`
  | digits (k : Pending) (neg : Bool) (acc : Int) (base : Nat)  -- `parse_constant::<10>`
  | relsp (a : Int) (base : Nat)                                -- `Ordering::parse_impl`
  deriving DecidableEq, Repr

def Frame.base : Frame → Nat
  | .signs _ _ b => b
  | .digits _ _ _ b => b
  | .relsp _ b => b

inductive UErr
  | cond (e : Err)            -- the errors of the conditional machine
  | expectedNumber            -- "expected the beginning of a number"
  | numberTooBig              -- "expected a number in the range …"
  | eofNumber                 -- "Unexpected end of input while parsing a number"
  | expectedRelation          -- "expected a relation"
  | unmodelled                -- a register token reached the main loop (an assignment starts)
  | fuel                      -- out of fuel (never happens: `ustep_fuel_suffices`)
  deriving DecidableEq, Repr

structure USt where
  stack : List BranchKind := []
  mode : Mode := .deliver
  groups : Nat := 0
  out : List UTok := []
  frames : List Frame := []      -- conditions under evaluation, innermost first
  deriving DecidableEq, Repr

/-- `i32::wrapping_mul(-1)`. -/
def negate32 (v : Int) : Int := if v = -2147483648 then v else -v

/-- A number is complete: hand it to the condition that asked for it (top frame is popped by
the caller). -/
def complete (s : USt) (k : Pending) (v : Int) (base : Nat) (rest : List Frame) : USt :=
  match k with
  | .odd =>
    if ifodd v then { s with frames := rest, stack := .tru :: s.stack }
    else { s with frames := rest, mode := .skipFalse 0 }
  | .case =>
    if v == 0 then { s with frames := rest, stack := .switch :: s.stack }
    else { s with frames := rest, mode := .skipCase v 0 }
  | .num1 => { s with frames := .relsp v base :: rest }
  | .num2 a r =>
    if ifnum a r v then { s with frames := rest, stack := .tru :: s.stack }
    else { s with frames := rest, mode := .skipFalse 0 }

def isIf : UTok → Bool
  | .itrue | .ifalse | .iodd | .inum | .icase => true
  | _ => false

/-- The abstract class of a surface token, for the skipping loops (they only look at tags). -/
def UTok.skipClass : UTok → Tok
  | .itrue | .ifalse | .iodd | .inum | .icase => .iff .tt
  | .els => .els
  | .orr => .orr
  | .fi => .fi
  | _ => .other 0

/-- What a skipping loop does to (branch stack, mode) on one token: the clauses of `step` in the
skipping modes (they touch nothing else and cannot fail). -/
def skipNext (st : List BranchKind) (m : Mode) (t : Tok) : List BranchKind × Mode :=
  match step ⟨st, m, 0, []⟩ t with
  | .ok s' => (s'.stack, s'.mode)
  | .error _ => (st, m)

/-- A skipping loop reads one surface token. -/
def uskip (s : USt) (t : UTok) : USt :=
  { s with stack := (skipNext s.stack s.mode t.skipClass).1, mode := (skipNext s.stack s.mode t.skipClass).2 }

/-- A conditional command is executed (main loop or during a scan — `next_expanded` does not
care). `tex = true`: TeX's rule TeX.2021.510 for `\else/\or/\fi` while the innermost open
conditional is still scanning is handled by the caller; here is the code. -/
def ucond (s : USt) (t : UTok) : Except UErr USt :=
  match t with
  | .itrue => .ok { s with stack := .tru :: s.stack }
  | .ifalse => .ok { s with mode := .skipFalse 0 }
  | .iodd => .ok { s with frames := .signs .odd false s.stack.length :: s.frames }
  | .icase => .ok { s with frames := .signs .case false s.stack.length :: s.frames }
  | .inum => .ok { s with frames := .signs .num1 false s.stack.length :: s.frames }
  | .els =>
    match s.stack with
    | .tru :: st => .ok { s with stack := st, mode := .skipElse 0 }
    | .switch :: st => .ok { s with stack := st, mode := .skipElse 0 }
    | _ => .error (.cond .unexpectedElse)
  | .orr =>
    match s.stack with
    | .switch :: st => .ok { s with stack := st, mode := .skipOr 0 }
    | _ => .error (.cond .unexpectedOr)
  | .fi =>
    match s.stack with
    | _ :: st => .ok { s with stack := st }
    | [] => .error (.cond .unexpectedFi)
  | _ => .ok s

/-- The main loop receives an unexpandable token. -/
def umain (s : USt) (t : UTok) : Except UErr USt :=
  match t with
  | .bg => .ok { s with groups := s.groups + 1, out := s.out ++ [t] }
  | .eg =>
    match s.groups with
    | 0 => .error (.cond .noGroupToEnd)
    | g + 1 => .ok { s with groups := g, out := s.out ++ [t] }
  | .reg _ => .error .unmodelled
  | _ => .ok { s with out := s.out ++ [t] }

def isClosing : UTok → Bool
  | .els | .orr | .fi => true
  | _ => false

/-- One token. `fuel` bounds the re-processing of a token that ends a number (each time a
frame is popped or advanced; `frames.length + 2` suffices). -/
def ustepF (tex : Bool) : Nat → USt → UTok → Except UErr USt
  | 0, _, _ => .error .fuel
  | fuel + 1, s, t =>
    match s.mode with
    | .deliver =>
      match s.frames with
      | [] => if isIf t || isClosing t then ucond s t else umain s t
      | f :: rest =>
        -- TeX.2021.510: \else/\or/\fi while the innermost open conditional is still scanning
        let texRelax := tex && isClosing t && s.stack.length == f.base
        if (isIf t || isClosing t) && !texRelax then ucond s t
        else
          match f with
          | .signs k neg base =>
            match t with
            | .plus => .ok s
            | .sp => .ok s
            | .minus => .ok { s with frames := .signs k (!neg) base :: rest }
            | .dig d => .ok { s with frames := .digits k neg d base :: rest }
            | .reg v => .ok (complete s k (if neg then negate32 v else v) base rest)
            | _ => .error .expectedNumber
          | .digits k neg acc base =>
            match t with
            | .dig d =>
              let acc' := acc * 10 + d
              if acc' > 2147483647 then .error .numberTooBig
              else .ok { s with frames := .digits k neg acc' base :: rest }
            | .sp => .ok (complete s k (if neg then negate32 acc else acc) base rest)
            | _ =>
              -- the token is put back; the number is complete; the token is read again
              ustepF tex fuel (complete s k (if neg then negate32 acc else acc) base rest) t
          | .relsp a base =>
            match t with
            | .sp => .ok s
            | .rel r => .ok { s with frames := .signs (.num2 a r) false base :: rest }
            | _ => .error .expectedRelation
    | _ => .ok (uskip s t)

def ustep (tex : Bool) (s : USt) (t : UTok) : Except UErr USt :=
  ustepF tex (s.frames.length + 2) s t

/-- End of input. A number in its digits phase is complete (`parse_constant` breaks at end of
input), then the condition is evaluated and the main loop ends. -/
def ufinishF : Nat → USt → Except UErr USt
  | 0, _ => .error .fuel
  | fuel + 1, s =>
    match s.mode with
    | .deliver =>
      match s.frames with
      | [] => .ok s
      | .signs _ _ _ :: _ => .error .eofNumber
      | .relsp _ _ :: _ => .error .expectedRelation
      | .digits k neg acc base :: rest =>
        ufinishF fuel (complete s k (if neg then negate32 acc else acc) base rest)
    | .skipFalse _ => .error (.cond .eofFalse)
    | .skipCase _ _ => .error (.cond .eofCase)
    | .skipOr _ => .error (.cond .eofOr)
    | .skipElse _ => .error (.cond .eofElse)

def ufinish (s : USt) : Except UErr USt := ufinishF (s.frames.length + 2) s

def urun (tex : Bool) : USt → List UTok → Except UErr USt
  | s, [] => ufinish s
  | s, t :: ts =>
    match ustep tex s t with
    | .ok s' => urun tex s' ts
    | .error e => .error e

/-- The situation of finding C07-i: `\else`/`\or`/`\fi` arrives while the innermost open
conditional is still scanning its operand (no conditional has been opened since). -/
def closesWhileScanning (s : USt) (t : UTok) : Bool :=
  isClosing t && (match s.mode, s.frames with
    | .deliver, f :: _ => s.stack.length == f.base
    | _, _ => false)

/-- … never arises along the code's run of `l` from `s`. -/
def neverClosesWhileScanning : USt → List UTok → Bool
  | _, [] => true
  | s, t :: ts =>
    !closesWhileScanning s t &&
      (match ustep false s t with
       | .ok s' => neverClosesWhileScanning s' ts
       | .error _ => true)

/-! ### Writing an abstract program with terminated operands -/

/-- Decimal digits of a natural number, most significant first. -/
def decDigits (n : Nat) : List Nat :=
  if h : n < 10 then [n] else decDigits (n / 10) ++ [n % 10]
termination_by n
decreasing_by omega

/-- A number as the user writes it: optional `-`, decimal digits. -/
def numToks (n : Int) : List UTok :=
  (if n < 0 then [.minus] else []) ++ (decDigits n.natAbs).map .dig

def Plain.utok : Plain → UTok
  | .other n => .other n
  | .bg => .bg
  | .eg => .eg

/-- The surface form of an abstract token, every operand terminated by a space. -/
def surface : Tok → List UTok
  | .iff .tt => [.itrue]
  | .iff .ff => [.ifalse]
  | .iff (.odd n) => .iodd :: (numToks n ++ [.sp])
  | .iff (.num a r b) => .inum :: (numToks a ++ .rel r :: (numToks b ++ [.sp]))
  | .ifcase n => .icase :: (numToks n ++ [.sp])
  | .els => [.els]
  | .orr => [.orr]
  | .fi => [.fi]
  | .other n => [.other n]
  | .bg => [.bg]
  | .eg => [.eg]

def surfaceAll : List Tok → List UTok
  | [] => []
  | t :: ts => surface t ++ surfaceAll ts

/-- The surface form with the operand's terminating space optional (`term = false`: whatever
follows ends the number). -/
def surfaceT (term : Bool) : Tok → List UTok
  | .iff (.odd n) => .iodd :: (numToks n ++ (if term then [.sp] else []))
  | .iff (.num a r b) => .inum :: (numToks a ++ .rel r :: (numToks b ++ (if term then [.sp] else [])))
  | .ifcase n => .icase :: (numToks n ++ (if term then [.sp] else []))
  | t => surface t

def surfaceL : List (Tok × Bool) → List UTok
  | [] => []
  | (t, term) :: ts => surfaceT term t ++ surfaceL ts

def Tok.hasOperand : Tok → Bool
  | .iff (.odd _) | .iff (.num _ _ _) | .ifcase _ => true
  | _ => false

/-- Tokens that end an unterminated number and leave the scanner alone: any unexpandable token
that is not a digit or space — and, under TeX's rule only, `\else`/`\or`/`\fi`. -/
def stopper (tex : Bool) : Tok → Bool
  | .other _ | .bg | .eg => true
  | .els | .orr | .fi => tex
  | _ => false

/-- Every unterminated operand is directly followed by a stopper. -/
def looseOk (tex : Bool) : List (Tok × Bool) → Bool
  | [] => true
  | [(t, term)] => term || !t.hasOperand
  | (t, term) :: (t', b') :: rest =>
    (term || !t.hasOperand || stopper tex t') && looseOk tex ((t', b') :: rest)

/-- Write a program as loosely as the code allows: drop the terminating space of an operand
whenever the next token is a stopper (for the given rule). -/
def loosen (tex : Bool) : List Tok → List (Tok × Bool)
  | [] => []
  | [t] => [(t, true)]
  | t :: t' :: rest => (t, !(t.hasOperand && stopper tex t')) :: loosen tex (t' :: rest)

def Tok.operandsOkB : Tok → Bool
  | .iff (.odd n) => n.natAbs ≤ 2147483647
  | .iff (.num a _ b) => a.natAbs ≤ 2147483647 && b.natAbs ≤ 2147483647
  | .ifcase n => n.natAbs ≤ 2147483647
  | _ => true

/-- Operands a decimal constant can express: `|n| ≤ 2^31 - 1` (`-2147483648` cannot be written
as a constant: the scanner rejects `2147483648` before the sign is applied). -/
def Tok.operandsOk : Tok → Prop
  | .iff (.odd n) => n.natAbs ≤ 2147483647
  | .iff (.num a _ b) => a.natAbs ≤ 2147483647 ∧ b.natAbs ≤ 2147483647
  | .ifcase n => n.natAbs ≤ 2147483647
  | _ => True

/-- Delivered (plain) abstract tokens as surface tokens. -/
def Tok.toU : Tok → UTok
  | .other n => .other n
  | .bg => .bg
  | .eg => .eg
  | _ => .other 0

/-- The abstract state seen through the surface machine (no condition under evaluation). -/
def St.lift (s : St) : USt := ⟨s.stack, s.mode, s.groups, s.out.map Tok.toU, []⟩

/-- The abstract outcome seen through the surface machine. -/
def liftRes : Except Err St → Except UErr USt
  | .ok s => .ok s.lift
  | .error e => .error (.cond e)

/-- The steps without the end-of-input clause. -/
def usteps (tex : Bool) : USt → List UTok → Except UErr USt
  | s, [] => .ok s
  | s, t :: ts =>
    match ustep tex s t with
    | .ok s' => usteps tex s' ts
    | .error e => .error e

end C07
