import TexcraftModel.Model.C05

/-
C05 — the raw lig/kern data of a TFM file: model of how the crate turns the `nl` four-byte
words into a `lang::Program` (`deserialize.rs`: `Instruction::deserialize`,
`deserialize_lig_kern_program`; `lang.rs`: `lig_kern_operation_from_bytes`,
`unpack_entrypoint`; `mod.rs`: `compile_from_tfm_file`), and the specification: the meaning
TeX gives to the same words when it indexes them from `lig_kern_base` (TeX82 §573, §1034,
§1039, §1040, §545). Core Lean only.
-/
namespace C05

/-- One lig/kern word: `skip_byte`, `next_char`, `op_byte`, `remainder`. -/
structure Word where
  skip : Nat
  next : Nat
  op : Nat
  rem : Nat
  deriving DecidableEq, Repr, Inhabited

/-- What the lig/kern part of a TFM file consists of: the `nl` words, the kerns (already
scaled, as everywhere in C05) and, for every character whose `char_info` tag is 1, its
`remainder` (the index of its first word). -/
structure RawFont where
  words : List Word
  kerns : List Int
  tags : List (Nat × Nat)
  deriving Repr, Inhabited

/-! ## M: the crate's reader -/

/-- `lig_kern_operation_from_bytes` (lang.rs). -/
def decodeOp (op rem : Nat) : RawOp :=
  if 128 ≤ op then .kernAt ((op - 128) * 256 + rem)
  else
    let delNext := op % 2 == 0
    let ob := op / 2
    let delCur := ob % 2 == 0
    let skip := ob / 2
    .lig rem (match delCur, delNext, skip with
      | false, false, 0 => .bothNowhere
      | false, false, 1 => .bothInserted
      | false, false, 2 => .bothRight
      | false, true, 0 => .leftNowhere
      | false, true, 1 => .leftInserted
      | true, false, 0 => .rightInserted
      | true, false, 1 => .rightRight
      | _, _, _ => .neither)

/-- `impl Deserializable for Instruction` (deserialize.rs): a word whose skip byte exceeds 128
is an entry-point redirect (and a STOP); skip byte 128 is STOP; below 128 it is `SKIP n`. -/
def decodeWord (w : Word) : Instr :=
  if 128 < w.skip then ⟨none, w.next, .redirect (w.op * 256 + w.rem)⟩
  else ⟨if w.skip < 128 then some w.skip else none, w.next, decodeOp w.op w.rem⟩

/-- `deserialize_lig_kern_program`: the boundary char is the `next_char` of the first word if
its skip byte is 255. -/
def rbOfWords : List Word → Option Nat
  | [] => none
  | w :: _ => if w.skip = 255 then some w.next else none

/-- … and the left-boundary program starts at `256·op + rem` of the last word if its skip
byte is 255. -/
def lbOfWords (ws : List Word) : Option Nat :=
  match ws.getLast? with
  | none => none
  | some w => if w.skip = 255 then some (w.op * 256 + w.rem) else none

/-- `Program::unpack_entrypoint` as used by `compile_from_tfm_file` (`.ok()`): an entry that
points at a redirect word is replaced by the redirect's target; entries and targets outside
the program are dropped. -/
def unpackEntry (ws : List Word) (e : Nat) : Option Nat :=
  match ws[e]? with
  | none => none
  | some w =>
    if 128 < w.skip then
      (if w.op * 256 + w.rem < ws.length then some (w.op * 256 + w.rem) else none)
    else some e

/-- M: the program `compile_from_tfm_file` compiles. -/
def decodeFont (f : RawFont) : Program :=
  { instrs := f.words.map decodeWord
    lbEntry := lbOfWords f.words
    rb := rbOfWords f.words
    entries := f.tags.filterMap (fun t => (unpackEntry f.words t.2).map (fun u => (t.1, u)))
    kerns := f.kerns }

/-! ## S: TeX's reading of the same words -/

/-- TeX82 §1040 with §545: `op_byte ≥ kern_flag` is a kern `char_kern(256·(op−128)+rem)`;
otherwise `op_byte = 4a+2b+c` inserts `rem`, keeps the current character iff `b = 1`, the next
iff `c = 1`, and passes over `a` characters. Only the eight combinations of §545 are
ligature commands of their own; every other code is TeX's `othercases` = `=:`. -/
def texOp (kerns : List Int) (op rem : Nat) : Op :=
  if 128 ≤ op then .kern ((kerns[256 * (op - 128) + rem]?).getD 0)
  else
    let a := op / 4
    let b := op / 2 % 2
    let c := op % 2
    .lig rem (
      if b = 1 ∧ c = 1 ∧ a = 0 then .bothNowhere        -- 3  |=:|
      else if b = 1 ∧ c = 1 ∧ a = 1 then .bothInserted   -- 7  |=:|>
      else if b = 1 ∧ c = 1 ∧ a = 2 then .bothRight      -- 11 |=:|>>
      else if b = 0 ∧ c = 1 ∧ a = 0 then .rightInserted  -- 1  =:|
      else if b = 0 ∧ c = 1 ∧ a = 1 then .rightRight     -- 5  =:|>
      else if b = 1 ∧ c = 0 ∧ a = 0 then .leftNowhere    -- 2  |=:
      else if b = 1 ∧ c = 0 ∧ a = 1 then .leftInserted   -- 6  |=:>
      else .neither)                                      -- 0  =:   (and othercases)

/-- TeX82 §1039, `main_lig_loop+1 … `: at word `k` (an index from `lig_kern_base`): if
`next_char = cur_r` then, if `skip_byte ≤ stop_flag`, the command of this word is done;
otherwise, and also when the characters differ: `skip_byte ≥ stop_flag` ends the program,
else continue at `k + skip_byte + 1`. A word outside the array ends it too (TeX aborts the
font at load time instead, §573). -/
def texWalk (ws : List Word) (r : Nat) : Nat → Nat → Option Word
  | 0, _ => none
  | fuel + 1, k =>
    match ws[k]? with
    | none => none
    | some w =>
      if w.next = r then (if w.skip ≤ 128 then some w else none)
      else if w.skip < 128 then texWalk ws r fuel (k + w.skip + 1)
      else none

/-- TeX82 §1039 (first lines) and §1034: the first word for a left character is
`lig_kern_start` = its `remainder`, or, if that word's `skip_byte > stop_flag`,
`lig_kern_restart` = `256·op_byte + rem_byte`; for the left boundary it is `bchar_label`
(§573: taken from the last word if its `skip_byte = 255`), without indirection. -/
def texStart (f : RawFont) : Option Nat → Option Nat
  | none => lbOfWords f.words
  | some c =>
    match f.tags.find? (·.1 = c) with
    | none => none
    | some t =>
      match f.words[t.2]? with
      | none => none
      | some w =>
        if 128 < w.skip then
          (if w.op * 256 + w.rem < f.words.length then some (w.op * 256 + w.rem) else none)
        else some t.2

/-- S: the command TeX executes for the pair `(l, r)` on the raw words. -/
def texRule (f : RawFont) (l : Option Nat) (r : Nat) : Option Op :=
  match texStart f l with
  | none => none
  | some k => (texWalk f.words r (f.words.length + 1) k).map (fun w => texOp f.kerns w.op w.rem)

/-- TeX82 §573: `bchar` = `next_char` of the first word if its `skip_byte = 255`. -/
def texBchar (f : RawFont) : Option Nat := rbOfWords f.words

/-- The cursor machine of `Model/C05.lean` (`interp`), with the source of the commands and
the boundary character as parameters. -/
def interpG (rule : Option Nat → Nat → Option Op) (rb : Option Nat) : Nat → List El → Option (List Glyph)
  | 0, _ => none
  | _ + 1, [] => some []
  | _ + 1, [x] => some x.emit
  | fuel + 1, x :: y :: tail =>
    match x with
    | .rb => some []
    | _ =>
      let right : Option Nat := match y with
        | .ch c => some c
        | .rb => rb
        | .lb => none
      match right.bind (rule x.left) with
      | none => (interpG rule rb fuel (y :: tail)).map (x.emit ++ ·)
      | some (.kern k) => (interpG rule rb fuel (y :: tail)).map (x.emit ++ Glyph.kern k :: ·)
      | some (.lig z post) =>
        let abc := post.abc
        let seq := (if abc.2.1 then [x] else []) ++ [El.ch z] ++ (if abc.2.2 then [y] else []) ++ tail
        (interpG rule rb fuel (seq.drop abc.1)).map ((seq.take abc.1).flatMap El.emit ++ ·)

/-- S, end to end: TeX's main loop reading the raw words of the font. -/
def interpRaw (f : RawFont) : Nat → List El → Option (List Glyph) :=
  interpG (texRule f) (texBchar f)

/-- `[LB] w [RB?]` for a raw font: the right boundary exists iff the font has a `bchar`. -/
def seqRaw (f : RawFont) (w : List Nat) : List El :=
  [El.lb] ++ w.map El.ch ++ (if (texBchar f).isSome then [El.rb] else [])

end C05
