import TexcraftModel.Lemmas.C08
import TexcraftModel.Lemmas.C08Run
import TexcraftModel.Lemmas.C08Macros

/-!
# C08 — checkpointing a VM is transparent (property theorems)

Model: `Model/C08.lean` (`serialize`, `deserialize` over C01's `VMState`, the command maps
flattened through C20's `iterAll` and rebuilt through `fromIter`, twice: once into the
serialisable map, once out of it). Helper lemmas: `Lemmas/C08Map.lean` (value maps commute with
`fromIter`/`iterAll`; values of a rebuilt map come from the original), `Lemmas/C08Bisim.lean` (two
VM states with abstractly equal command maps are bisimilar under C01's `run`), `Lemmas/C08.lean`
(the round trip), `Lemmas/C08Run.lean`.

The statements are about the code **after** `fixes/C08-a.patch` (`fixActive = true`). Before the
patch the first theorem is false: see the `example` at the end (the witness of DESIGN 5.9).

**Partial (stated in `meta/C08.json`)**: everything `#[derive(Serialize, Deserialize)]` produces and
the three encoders are the identity in the model; function-pointer identity behind
`PrimitiveKey`/`GettersKey` is the hypothesis `NameTableSound` (checked on the real built-in map by
the harness case `names`); `Tag` regeneration, the interner's rebuild (C20: `rebuild_dedup`) and
every component of `StdLibState` other than registers, codes and parameters (conditional stack,
allocator, interaction mode, script writer: finding C08-b) are covered by the correspondence only.
-/
namespace C08.Thm
open C20 C01 C08

/-- **Checkpoint transparency.** For every sound name table, every VM state whose two command maps
satisfy C20's invariant (every reachable state does: `reachable_inv`), with any save stack, any
pending `\global` flag, any font stack: if serialisation does not panic, deserialisation with the
same tables succeeds and the new VM gives the same outputs (reads, errors, panics) as the old one
under **every** further program, for every variant of C01's repairs. -/
theorem checkpoint_transparent (T : Table) (hT : NameTableSound T) (vm : VMState)
    (hc : Inv vm.cmds) (ha : Inv vm.active) (s : Ser) (hs : serialize true T vm = .ok s) :
    ∃ vm', deserialize T s = .ok vm' ∧
      ∀ (cfg : Variant) (hist : List C01.Op), (C01.run cfg vm' hist).2 = (C01.run cfg vm hist).2 := by
  obtain ⟨vm', hd, he⟩ := deserialize_serialize T hT vm hc ha s hs
  exact ⟨vm', hd, fun cfg hist => run_congr cfg vm' vm he hist⟩

/-- Serialisation does not panic when everything stored in the command maps and on the save
stack has a name in the tables (`todo!("return an error")`, the two `unwrap`s). -/
theorem serialize_total (T : Table) (vm : VMState) (hc : Inv vm.cmds) (ha : Inv vm.active)
    (hn : Nameable T vm) : ∃ s, serialize true T vm = .ok s :=
  C08.serialize_total T vm hc ha hn

/-- Both together, as one statement about `checkpoint`. -/
theorem checkpoint_total_transparent (T : Table) (hT : NameTableSound T) (vm : VMState)
    (hc : Inv vm.cmds) (ha : Inv vm.active) (hn : Nameable T vm) :
    ∃ vm', checkpoint true T vm = .ok vm' ∧
      ∀ (cfg : Variant) (hist : List C01.Op), (C01.run cfg vm' hist).2 = (C01.run cfg vm hist).2 := by
  obtain ⟨s, hs⟩ := C08.serialize_total T vm hc ha hn
  obtain ⟨vm', hd, h⟩ := checkpoint_transparent T hT vm hc ha s hs
  exact ⟨vm', by simp [checkpoint, hs, hd], h⟩

/-- Every state reached by a program from the initial VM satisfies the invariant hypotheses. -/
theorem reachable_inv (cfg : Variant) (ops : List C01.Op) :
    Inv (C01.run cfg VMState.init ops).1.cmds ∧ Inv (C01.run cfg VMState.init ops).1.active :=
  C08.reachable_inv cfg ops

/-- **The property as the harness observes it** (program split `P = P1 P2`): run `pre`, take a
checkpoint, run `post` — if the checkpoint does not panic, the outputs are those of running
`pre ++ post` on one VM. No invariant hypothesis: `pre` starts from the initial VM. -/
theorem checkpoint_transparent_run (cfg : Variant) (T : Table) (hT : NameTableSound T)
    (pre post : List C01.Op) (outs : List Out)
    (h : runCheckpointed cfg true T pre post = some outs) :
    outs = (C01.run cfg VMState.init (pre ++ post)).2 := by
  have hinv := C08.reachable_inv cfg pre
  rw [run_append]
  simp only [runCheckpointed] at h
  by_cases hf : (C01.run cfg VMState.init pre).2.any Out.fatal = true
  · simp only [hf, if_true] at h ⊢
    exact (Option.some.inj h).symm
  · simp only [hf, Bool.false_eq_true, if_false] at h ⊢
    simp only [checkpoint] at h
    cases hs : serialize true T (C01.run cfg VMState.init pre).1 with
    | panic => simp [hs] at h
    | fuel => simp [hs] at h
    | ok s =>
      obtain ⟨vm', hd, hrun⟩ := checkpoint_transparent T hT _ hinv.1 hinv.2 s hs
      simp only [hs, hd] at h
      rw [← Option.some.inj h, hrun cfg post]

/-- The driver's table satisfies the hypothesis (non-vacuity of `NameTableSound`). -/
theorem stdTable_sound : NameTableSound stdTable := C08.stdTable_sound

/-! ## Non-vacuity: concrete instances -/

/-- A state with open groups, saved values, a `\countdef` alias, a macro on an active character,
a `\let` to a primitive and a pending global definition: the checkpoint succeeds and the reads
after closing the groups are the same. -/
example :
    let pre : List C01.Op :=
      [.assign 0 ⟨.count, 1⟩ 3, .define 0 (.act 0) (.mac 5), .beginGroup, .assign 0 ⟨.count, 1⟩ 4,
       .define 0 (.cs 2) (.cdef 1), .define 0 (.act 0) (.mac 6), .beginGroup,
       .define 1 (.cs 3) (.lbuiltin (.prim 2)), .assign 1 ⟨.toks, 0⟩ 7, .assign 0 ⟨.param, 0⟩ 1]
    let post : List C01.Op :=
      [.read (.cmd (.act 0)), .endGroup, .read (.cmd (.cs 2)), .endGroup, .read (.cmd (.act 0)),
       .read (.cmd (.cs 2)), .read (.cmd (.cs 3)), .read (.var ⟨.count, 1⟩), .endGroup]
    runCheckpointed Variant.fixed true stdTable pre post
      = some (C01.run Variant.fixed VMState.init (pre ++ post)).2 ∧
    (C01.run Variant.fixed VMState.init (pre ++ post)).2.drop 10
      = [.cmd (some (.mac 6)) none, .unit, .cmd (some (.alias ⟨.count, 1⟩)) (some 4), .unit,
         .cmd (some (.mac 5)) none, .cmd none none, .cmd (some (.prim 2)) none, .val (some 3),
         .errNoGroup] := by decide

/-- Serialisation of a reachable state with names for everything is `ok` (the conclusion of
`serialize_total`), and a state holding a primitive without a name makes it panic (the
`todo!("return an error")` arm): the hypothesis `Nameable` is not vacuous and not superfluous. -/
example :
    (match serialize true stdTable (C01.run Variant.fixed VMState.init
        [.define 0 (.act 0) (.mac 5), .beginGroup, .define 0 (.cs 2) (.cdef 1),
         .assign 0 ⟨.count, 1⟩ 4]).1 with
      | .ok _ => true
      | _ => false) = true ∧
    (match serialize true stdTable (C01.run Variant.fixed VMState.init
        [.define 0 (.cs 1) (.lbuiltin (.prim 99))]).1 with
      | .panic => true
      | _ => false) = true := by decide

/-- A concrete non-trivial state meets the hypothesis `Nameable stdTable` of `serialize_total`
(an alias and a primitive in a group, a macro and a saved primitive on an active character, a
saved register). -/
example : Nameable stdTable
    { vars := [(⟨.count, 1⟩, 4)], save := [[(⟨.count, 1⟩, .delete)]],
      cmds := { bc := [(2, .alias ⟨.count, 1⟩), (3, .prim 2)], groups := [[(2, .delete)]] },
      active := { bc := [(0, .mac 5)], groups := [[(0, .revert (.prim 0))]] },
      font := 0, fontSave := [none], scopeBit := .loc } := by
  refine ⟨⟨?_, ?_⟩, ⟨?_, ?_⟩, ?_⟩
  · intro p hp; simp at hp; rcases hp with rfl | rfl <;> simp [nameableCmd, stdTable, stdNameOfVar]
  · intro g hg p hp v hv; simp at hg; subst hg; simp at hp; subst hp; simp at hv
  · intro p hp; simp at hp; subst hp; simp [nameableCmd]
  · intro g hg p hp v hv; simp at hg; subst hg; simp at hp; subst hp; simp at hv; subst hv
    simp [nameableCmd, stdTable]
  · intro g hg e he; simp at hg; subst hg; simp at he; subst he; simp [stdTable, stdNameOfVar]

/-! ## The defect C08-a: before the repair the property is false -/

/-- Witness of DESIGN 5.9 (`\catcode`\~=13 \def~{A}` | `~`): with the code before C08-a the
active character is undefined after the checkpoint. -/
example :
    runCheckpointed Variant.fixed false stdTable [.define 0 (.act 0) (.mac 5)] [.read (.cmd (.act 0))]
      = some [.unit, .cmd none none] ∧
    (C01.run Variant.fixed VMState.init [.define 0 (.act 0) (.mac 5), .read (.cmd (.act 0))]).2
      = [.unit, .cmd (some (.mac 5)) none] := by decide

/-- Full statement for the code before C08-a, refuted by the witness above: kept for the record. -/
def C08_prefix_full_statement : Prop :=
  ∀ pre post outs, runCheckpointed Variant.fixed false stdTable pre post = some outs →
    outs = (C01.run Variant.fixed VMState.init (pre ++ post)).2

theorem prefix_statement_false : ¬ C08_prefix_full_statement := by
  intro h
  have := h [.define 0 (.act 0) (.mac 5)] [.read (.cmd (.act 0))] [.unit, .cmd none none] (by decide)
  exact absurd this (by decide)

/-! ## Deepening round: the macro table as coded, macro sharing, the pending `\global` flag

`Model/C08Macros.lean` transcribes the closure `to_serializable` of `SerializableMap::new` with its
two pieces of mutable state (`macros`, `macros_de_dup` keyed by `Rc::as_ptr`) and the walk over the
control sequences and then the active characters. The driver evaluates *this* serialiser
(`runCheckpointedInc id`). -/

/-- The serialiser as coded is the serialiser described by its final table, for every injective
de-duplication key (distinct live `Rc`s have distinct addresses), every table and every VM state. -/
theorem serializer_as_coded (key : Nat → Nat) (hk : KeyInj key) (T : Table) (vm : VMState) :
    serializeInc key T vm = serialize true T vm :=
  serializeInc_eq key hk T vm

/-- Checkpoint transparency for the serialiser as coded. -/
theorem checkpoint_transparent_as_coded (key : Nat → Nat) (hk : KeyInj key) (T : Table)
    (hT : NameTableSound T) (vm : VMState) (hc : Inv vm.cmds) (ha : Inv vm.active) (s : Ser)
    (hs : serializeInc key T vm = .ok s) :
    ∃ vm', deserialize T s = .ok vm' ∧
      ∀ (cfg : Variant) (hist : List C01.Op), (C01.run cfg vm' hist).2 = (C01.run cfg vm hist).2 :=
  checkpoint_transparent T hT vm hc ha s (serializeInc_eq key hk T vm ▸ hs)

/-- … and in the split form the driver evaluates. -/
theorem checkpoint_transparent_run_as_coded (key : Nat → Nat) (hk : KeyInj key) (cfg : Variant)
    (T : Table) (hT : NameTableSound T) (pre post : List C01.Op) (outs : List Out)
    (h : runCheckpointedInc key cfg T pre post = some outs) :
    outs = (C01.run cfg VMState.init (pre ++ post)).2 := by
  apply checkpoint_transparent_run cfg T hT pre post outs
  rw [← h]
  simp only [runCheckpointedInc, runCheckpointed, checkpoint, serializeInc_eq key hk]
  by_cases hf : (C01.run cfg VMState.init pre).2.any Out.fatal = true
  · simp only [hf, if_true]
  · simp only [hf]
    cases hs : serialize true T (C01.run cfg VMState.init pre).1 with
    | ok s => cases hd : deserialize T s <;> rfl
    | panic => rfl
    | fuel => rfl

/-- **Macro sharing is written out exactly.** Two names (control sequences or active characters)
that are macros are given the same index of the serialised macro table iff they were the same
macro (`\let` aliases share, separate `\def`s do not), for every map. -/
theorem macro_sharing_preserved (key : Nat → Nat) (hk : KeyInj key) (T : Table) (vm : VMState)
    (hc : Inv vm.cmds) (ha : Inv vm.active) (s : Ser) (hs : serializeInc key T vm = .ok s)
    (t1 t2 : CTarget) (n1 n2 : Nat)
    (h1 : getCmd vm t1 = some (.mac n1)) (h2 : getCmd vm t2 = some (.mac n2)) :
    ∃ u1 u2, s.get t1 = some (.macro u1) ∧ s.get t2 = some (.macro u2) ∧ (u1 = u2 ↔ n1 = n2) := by
  rw [serializeInc_eq key hk] at hs
  obtain ⟨ci, ai, sc, sa, sv, hci, hai, hsc, hsa, _, rfl⟩ := serialize_ok T vm s hs
  have one : ∀ (t : CTarget) (n : Nat), getCmd vm t = some (.mac n) →
      n ∈ macrosOf ai (macrosOf ci []) ∧
      Ser.get { cmds := GMap.fromIter sc, active := GMap.fromIter sa,
                macros := macrosOf ai (macrosOf ci []), save := sv, vars := vm.vars,
                font := vm.font, fontSave := vm.fontSave, scopeBit := vm.scopeBit } t
        = some (.macro ((macrosOf ai (macrosOf ci [])).idxOf n)) := by
    intro t n h
    cases t with
    | cs k => exact ser_get_mac_one T _ vm.cmds hc ci hci sc hsc k n h
    | act k => exact ser_get_mac_one T _ vm.active ha ai hai sa hsa k n h
  obtain ⟨m1, g1⟩ := one t1 n1 h1
  obtain ⟨m2, g2⟩ := one t2 n2 h2
  exact ⟨_, _, g1, g2, idxOf_inj _ n1 n2 m1 m2⟩

/-- … and read back exactly: after the restore two names are the same command iff they were. -/
theorem macro_sharing_after_restore (key : Nat → Nat) (hk : KeyInj key) (T : Table)
    (hT : NameTableSound T) (vm : VMState) (hc : Inv vm.cmds) (ha : Inv vm.active) (s : Ser)
    (hs : serializeInc key T vm = .ok s) :
    ∃ vm', deserialize T s = .ok vm' ∧
      ∀ t1 t2 : CTarget, (getCmd vm' t1 = getCmd vm' t2 ↔ getCmd vm t1 = getCmd vm t2) := by
  rw [serializeInc_eq key hk] at hs
  obtain ⟨vm', hd, he⟩ := deserialize_serialize T hT vm hc ha s hs
  refine ⟨vm', hd, fun t1 t2 => ?_⟩
  rw [getCmd_congr he t1, getCmd_congr he t2]

/-- A de-duplication key that is **not** injective breaks the property (mutant 02 of the sweep,
`addr & !0xff`; here `n / 2`): two different macros collapse into one. -/
example :
    runCheckpointedInc (· / 2) Variant.fixed stdTable
        [.define 0 (.cs 0) (.mac 0), .define 0 (.cs 1) (.mac 1)] [.read (.cmd (.cs 0))]
      = some [.unit, .unit, .cmd (some (.mac 1)) none] ∧
    runCheckpointedInc id Variant.fixed stdTable
        [.define 0 (.cs 0) (.mac 0), .define 0 (.cs 1) (.mac 1)] [.read (.cmd (.cs 0))]
      = some [.unit, .unit, .cmd (some (.mac 0)) none] ∧
    KeyInj id := by
  refine ⟨by decide, by decide, fun a b h => h⟩

/-- **The pending `\global` flag is `Local` at every checkpoint the API allows**: every VM reached
by a program (a run that returned) has `scopeBit = .loc` — a `\global` with nothing after it does
not return `Ok`. Hence a deserialiser that forgets the flag (mutant 21) restores the same VM. -/
theorem reachable_scope_local (cfg : Variant) (ops : List C01.Op) :
    (C01.run cfg VMState.init ops).1.scopeBit = .loc :=
  C08.reachable_scope_local cfg ops VMState.init rfl

theorem forgetting_scope_is_identity (cfg : Variant) (ops : List C01.Op) :
    { (C01.run cfg VMState.init ops).1 with scopeBit := Scope.loc } = (C01.run cfg VMState.init ops).1 := by
  have h := reachable_scope_local cfg ops
  cases hv : (C01.run cfg VMState.init ops).1 with
  | mk vars save cmds active font fontSave scopeBit =>
    rw [hv] at h
    simp only [] at h
    subst h
    rfl

/-! ### The input stack at a checkpoint (`Model/C08Input.lean`) -/

/-- **A run that returns leaves nothing pending.** When `next_unexpanded` answers `Ok(None)` — the
only way `VM::run` returns `Ok` — there is no pending expansion, no undelivered token and no
source left on the stack, whatever the stack was: every checkpoint of the property is taken in
this state, so `Source.expansions` and the sources' read positions carry no information there
(mutant 24 of the sweep is equivalent). -/
theorem run_returns_at_rest (s : C08.Input.Stack) (h : s.next.1 = .endOfInput) :
    s.next.2 = { cur := { expansions := [], lexer := [] }, sources := [] } ∧ s.remaining = [] :=
  C08.Input.next_endOfInput s.sources s.cur h

/-- `next_unexpanded` delivers exactly the first token of the remaining input, for every stack
(pending expansions first, then the lexer, then the sources below). -/
theorem next_delivers_first_remaining (s : C08.Input.Stack) (t : Nat) (h : s.next.1 = .token t) :
    s.remaining = some t :: s.next.2.remaining :=
  C08.Input.next_token s.sources s.cur t h

example :
    (C08.Input.Stack.next { cur := ⟨[], []⟩, sources := [⟨[], []⟩, ⟨[7], [some 8]⟩] }).1 = .token 7 ∧
    (C08.Input.Stack.next { cur := ⟨[], []⟩, sources := [⟨[], []⟩] }).1 = .endOfInput := by decide

end C08.Thm
