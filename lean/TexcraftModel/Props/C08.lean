import TexcraftModel.Lemmas.C08
import TexcraftModel.Lemmas.C08Run

/-!
# C08 — checkpointing a VM is transparent (property theorems)

Model: `Model/C08.lean` (`serialize`, `deserialize` over C01's `VMState`, the command maps
flattened through C20's `iterAll` and rebuilt through `fromIter`, twice: once into the
serialisable map, once out of it). Helper lemmas: `Lemmas/C08Map.lean` (value maps commute with
`fromIter`/`iterAll`; values of a rebuilt map come from the original), `Lemmas/C08Bisim.lean` (two
VM states with abstractly equal command maps are bisimilar under C01's `run`), `Lemmas/C08.lean`
(the round trip), `Lemmas/C08Run.lean`.

The statements are about the code **after** `fixes/C08-a.patch` (`fixActive = true`). Before the
patch the first theorem is false: see the `example` at the end (the witness of DESIGN 5.9).

**Partial (stated in `meta/C08.json`)**: everything `#[derive(Serialize, Deserialize)]` produces and
the three encoders are the identity in the model; function-pointer identity behind
`PrimitiveKey`/`GettersKey` is the hypothesis `NameTableSound` (checked on the real built-in map by
the harness case `names`); `Tag` regeneration, the interner's rebuild (C20: `rebuild_dedup`) and
every component of `StdLibState` other than registers, codes and parameters (conditional stack,
allocator, interaction mode, script writer: finding C08-b) are covered by the correspondence only.
-/
namespace C08.Thm
open C20 C01 C08

/-- **Checkpoint transparency.** For every sound name table, every VM state whose two command maps
satisfy C20's invariant (every reachable state does: `reachable_inv`), with any save stack, any
pending `\global` flag, any font stack: if serialisation does not panic, deserialisation with the
same tables succeeds and the new VM gives the same outputs (reads, errors, panics) as the old one
under **every** further program, for every variant of C01's repairs. -/
theorem checkpoint_transparent (T : Table) (hT : NameTableSound T) (vm : VMState)
    (hc : Inv vm.cmds) (ha : Inv vm.active) (s : Ser) (hs : serialize true T vm = .ok s) :
    ∃ vm', deserialize T s = .ok vm' ∧
      ∀ (cfg : Variant) (hist : List C01.Op), (C01.run cfg vm' hist).2 = (C01.run cfg vm hist).2 := by
  obtain ⟨vm', hd, he⟩ := deserialize_serialize T hT vm hc ha s hs
  exact ⟨vm', hd, fun cfg hist => run_congr cfg vm' vm he hist⟩

/-- Serialisation does not panic when everything stored in the command maps and on the save
stack has a name in the tables (`todo!("return an error")`, the two `unwrap`s). -/
theorem serialize_total (T : Table) (vm : VMState) (hc : Inv vm.cmds) (ha : Inv vm.active)
    (hn : Nameable T vm) : ∃ s, serialize true T vm = .ok s :=
  C08.serialize_total T vm hc ha hn

/-- Both together, as one statement about `checkpoint`. -/
theorem checkpoint_total_transparent (T : Table) (hT : NameTableSound T) (vm : VMState)
    (hc : Inv vm.cmds) (ha : Inv vm.active) (hn : Nameable T vm) :
    ∃ vm', checkpoint true T vm = .ok vm' ∧
      ∀ (cfg : Variant) (hist : List C01.Op), (C01.run cfg vm' hist).2 = (C01.run cfg vm hist).2 := by
  obtain ⟨s, hs⟩ := C08.serialize_total T vm hc ha hn
  obtain ⟨vm', hd, h⟩ := checkpoint_transparent T hT vm hc ha s hs
  exact ⟨vm', by simp [checkpoint, hs, hd], h⟩

/-- Every state reached by a program from the initial VM satisfies the invariant hypotheses. -/
theorem reachable_inv (cfg : Variant) (ops : List C01.Op) :
    Inv (C01.run cfg VMState.init ops).1.cmds ∧ Inv (C01.run cfg VMState.init ops).1.active :=
  C08.reachable_inv cfg ops

/-- **The property as the harness observes it** (program split `P = P1 P2`): run `pre`, take a
checkpoint, run `post` — if the checkpoint does not panic, the outputs are those of running
`pre ++ post` on one VM. No invariant hypothesis: `pre` starts from the initial VM. -/
theorem checkpoint_transparent_run (cfg : Variant) (T : Table) (hT : NameTableSound T)
    (pre post : List C01.Op) (outs : List Out)
    (h : runCheckpointed cfg true T pre post = some outs) :
    outs = (C01.run cfg VMState.init (pre ++ post)).2 := by
  have hinv := C08.reachable_inv cfg pre
  rw [run_append]
  simp only [runCheckpointed] at h
  by_cases hf : (C01.run cfg VMState.init pre).2.any Out.fatal = true
  · simp only [hf, if_true] at h ⊢
    exact (Option.some.inj h).symm
  · simp only [hf, Bool.false_eq_true, if_false] at h ⊢
    simp only [checkpoint] at h
    cases hs : serialize true T (C01.run cfg VMState.init pre).1 with
    | panic => simp [hs] at h
    | fuel => simp [hs] at h
    | ok s =>
      obtain ⟨vm', hd, hrun⟩ := checkpoint_transparent T hT _ hinv.1 hinv.2 s hs
      simp only [hs, hd] at h
      rw [← Option.some.inj h, hrun cfg post]

/-- The driver's table satisfies the hypothesis (non-vacuity of `NameTableSound`). -/
theorem stdTable_sound : NameTableSound stdTable := C08.stdTable_sound

/-! ## Non-vacuity: concrete instances -/

/-- A state with open groups, saved values, a `\countdef` alias, a macro on an active character,
a `\let` to a primitive and a pending global definition: the checkpoint succeeds and the reads
after closing the groups are the same. -/
example :
    let pre : List C01.Op :=
      [.assign 0 ⟨.count, 1⟩ 3, .define 0 (.act 0) (.mac 5), .beginGroup, .assign 0 ⟨.count, 1⟩ 4,
       .define 0 (.cs 2) (.cdef 1), .define 0 (.act 0) (.mac 6), .beginGroup,
       .define 1 (.cs 3) (.lbuiltin (.prim 2)), .assign 1 ⟨.toks, 0⟩ 7, .assign 0 ⟨.param, 0⟩ 1]
    let post : List C01.Op :=
      [.read (.cmd (.act 0)), .endGroup, .read (.cmd (.cs 2)), .endGroup, .read (.cmd (.act 0)),
       .read (.cmd (.cs 2)), .read (.cmd (.cs 3)), .read (.var ⟨.count, 1⟩), .endGroup]
    runCheckpointed Variant.fixed true stdTable pre post
      = some (C01.run Variant.fixed VMState.init (pre ++ post)).2 ∧
    (C01.run Variant.fixed VMState.init (pre ++ post)).2.drop 10
      = [.cmd (some (.mac 6)) none, .unit, .cmd (some (.alias ⟨.count, 1⟩)) (some 4), .unit,
         .cmd (some (.mac 5)) none, .cmd none none, .cmd (some (.prim 2)) none, .val (some 3),
         .errNoGroup] := by decide

/-- Serialisation of a reachable state with names for everything is `ok` (the conclusion of
`serialize_total`), and a state holding a primitive without a name makes it panic (the
`todo!("return an error")` arm): the hypothesis `Nameable` is not vacuous and not superfluous. -/
example :
    (match serialize true stdTable (C01.run Variant.fixed VMState.init
        [.define 0 (.act 0) (.mac 5), .beginGroup, .define 0 (.cs 2) (.cdef 1),
         .assign 0 ⟨.count, 1⟩ 4]).1 with
      | .ok _ => true
      | _ => false) = true ∧
    (match serialize true stdTable (C01.run Variant.fixed VMState.init
        [.define 0 (.cs 1) (.lbuiltin (.prim 99))]).1 with
      | .panic => true
      | _ => false) = true := by decide

/-- A concrete non-trivial state meets the hypothesis `Nameable stdTable` of `serialize_total`
(an alias and a primitive in a group, a macro and a saved primitive on an active character, a
saved register). -/
example : Nameable stdTable
    { vars := [(⟨.count, 1⟩, 4)], save := [[(⟨.count, 1⟩, .delete)]],
      cmds := { bc := [(2, .alias ⟨.count, 1⟩), (3, .prim 2)], groups := [[(2, .delete)]] },
      active := { bc := [(0, .mac 5)], groups := [[(0, .revert (.prim 0))]] },
      font := 0, fontSave := [none], scopeBit := .loc } := by
  refine ⟨⟨?_, ?_⟩, ⟨?_, ?_⟩, ?_⟩
  · intro p hp; simp at hp; rcases hp with rfl | rfl <;> simp [nameableCmd, stdTable, stdNameOfVar]
  · intro g hg p hp v hv; simp at hg; subst hg; simp at hp; subst hp; simp at hv
  · intro p hp; simp at hp; subst hp; simp [nameableCmd]
  · intro g hg p hp v hv; simp at hg; subst hg; simp at hp; subst hp; simp at hv; subst hv
    simp [nameableCmd, stdTable]
  · intro g hg e he; simp at hg; subst hg; simp at he; subst he; simp [stdTable, stdNameOfVar]

/-! ## The defect C08-a: before the repair the property is false -/

/-- Witness of DESIGN 5.9 (`\catcode`\~=13 \def~{A}` | `~`): with the code before C08-a the
active character is undefined after the checkpoint. -/
example :
    runCheckpointed Variant.fixed false stdTable [.define 0 (.act 0) (.mac 5)] [.read (.cmd (.act 0))]
      = some [.unit, .cmd none none] ∧
    (C01.run Variant.fixed VMState.init [.define 0 (.act 0) (.mac 5), .read (.cmd (.act 0))]).2
      = [.unit, .cmd (some (.mac 5)) none] := by decide

/-- Full statement for the code before C08-a, refuted by the witness above: kept for the record. -/
def C08_prefix_full_statement : Prop :=
  ∀ pre post outs, runCheckpointed Variant.fixed false stdTable pre post = some outs →
    outs = (C01.run Variant.fixed VMState.init (pre ++ post)).2

theorem prefix_statement_false : ¬ C08_prefix_full_statement := by
  intro h
  have := h [.define 0 (.act 0) (.mac 5)] [.read (.cmd (.act 0))] [.unit, .cmd none none] (by decide)
  exact absurd this (by decide)

end C08.Thm
